//! C01: graph optimization preserves model semantics.
//!
//! Behavioural differential (the independent oracle): every template / random graph is encoded as
//! ONNX bytes, loaded through `ModelOptions` with optimize {off,on} x shape inference {Off,On,Strict},
//! run on conforming random inputs and compared with the unoptimized run (shape, dtype, ints exact,
//! floats within 1e-4 relative, identical NaN positions; "a failing run may become a success, a
//! successful result never changes").
//! Structural: the optimized graph (through `Model::verif_graph`) is printed as one term per graph
//! output; the Lean model of the optimizer (Driver/C01.lean) predicts the same text from the
//! description of the unoptimized graph (+ the value metadata the optimizer sees).
//!
//! Request line:  `T=<template> M=<off|on> I:.. C:.. N:.. O:.. V:.. K:..` (see `describe`).
//! Answer line:   `<out>=<term>;...`  or `loaderr`.
#[path = "../onnx_enc.rs"]
mod onnx_enc;
#[path = "../c01_templates.rs"]
mod templates;

use hcommon::{Out, Rng};
use onnx_enc::{dt, Attr, Dim, Graph, TensorData};
use rten::verif as rv;
use rten::{DataType, Dimension, Model, ModelOptions, NodeId, ShapeInferenceMode, Value, ValueType};
use rten_tensor::prelude::*;
use rten_tensor::Tensor as RTensor;
use std::collections::{BTreeMap, BTreeSet, HashMap};
pub use templates::*;

// ---------------------------------------------------------------- description (request text)

pub fn dt_code(d: i32) -> &'static str {
    match d {
        dt::FLOAT => "f",
        dt::INT32 | dt::INT64 | dt::BOOL => "i",
        dt::UINT8 => "u8",
        dt::INT8 => "i8",
        _ => "?",
    }
}

fn rdt_code(d: Option<ValueType>) -> &'static str {
    match d {
        Some(ValueType::Tensor(DataType::Float)) => "f",
        Some(ValueType::Tensor(DataType::Int32)) => "i",
        Some(ValueType::Tensor(DataType::UInt8)) => "u8",
        Some(ValueType::Tensor(DataType::Int8)) => "i8",
        _ => "?",
    }
}

fn rshape_code(s: Option<&[Dimension]>) -> String {
    match s {
        None => "*".into(),
        Some(d) if d.is_empty() => "_".into(),
        Some(d) => d
            .iter()
            .map(|x| match x {
                Dimension::Fixed(n) => n.to_string(),
                Dimension::Symbolic(s) => format!("${}", s.replace([' ', ':', ',', ';'], "")),
            })
            .collect::<Vec<_>>()
            .join(","),
    }
}

fn dims_code(d: &[i64]) -> String {
    if d.is_empty() {
        "_".into()
    } else {
        hcommon::join(d.iter(), ",")
    }
}

fn tensor_vals(t: &onnx_enc::Tensor) -> String {
    let n: i64 = t.dims.iter().product();
    if n > 16 {
        return "~".into();
    }
    let raw = match &t.data {
        TensorData::Raw(r) => r.clone(),
        _ => return "~".into(),
    };
    let v: Vec<String> = match t.dtype {
        dt::FLOAT => raw.chunks(4).map(|c| u32::from_le_bytes([c[0], c[1], c[2], c[3]]).to_string()).collect(),
        dt::INT32 => raw.chunks(4).map(|c| i32::from_le_bytes([c[0], c[1], c[2], c[3]]).to_string()).collect(),
        dt::INT64 => raw
            .chunks(8)
            .map(|c| {
                let x = i64::from_le_bytes([c[0], c[1], c[2], c[3], c[4], c[5], c[6], c[7]]);
                x.clamp(i32::MIN as i64, i32::MAX as i64).to_string()
            })
            .collect(),
        dt::BOOL | dt::UINT8 => raw.iter().map(|b| b.to_string()).collect(),
        dt::INT8 => raw.iter().map(|b| (*b as i8).to_string()).collect(),
        _ => return "~".into(),
    };
    if v.is_empty() {
        "-".into()
    } else {
        v.join(",")
    }
}

/// Names referenced by `g` (recursively) that are not defined inside it.
fn free_names(g: &Graph) -> BTreeSet<String> {
    let mut defined: BTreeSet<String> = BTreeSet::new();
    for i in &g.inputs {
        defined.insert(i.name.clone());
    }
    for t in &g.initializers {
        defined.insert(t.name.clone());
    }
    for n in &g.nodes {
        for o in &n.outputs {
            defined.insert(o.clone());
        }
    }
    let mut free = BTreeSet::new();
    for n in &g.nodes {
        for i in &n.inputs {
            if !i.is_empty() && !defined.contains(i) {
                free.insert(i.clone());
            }
        }
        for (_, a) in &n.attrs {
            if let Attr::Graph(sg) = a {
                for f in free_names(sg) {
                    if !defined.contains(&f) {
                        free.insert(f);
                    }
                }
            }
        }
    }
    for o in &g.outputs {
        if !defined.contains(&o.name) {
            free.insert(o.name.clone());
        }
    }
    free
}

fn attr_code(attrs: &[(String, Attr)]) -> String {
    let mut v = vec![];
    for (k, a) in attrs {
        match a {
            Attr::Int(i) => v.push(format!("{k}={i}")),
            Attr::Ints(is) => v.push(format!("{k}={}", if is.is_empty() { "-".to_string() } else { hcommon::join(is.iter(), ",") })),
            _ => {}
        }
    }
    if v.is_empty() {
        "-".into()
    } else {
        v.join("/")
    }
}

/// The structural part of the request: inputs, constants, operators, outputs of the ONNX graph.
pub fn describe(g: &Graph) -> String {
    let mut toks: Vec<String> = vec![];
    for i in &g.inputs {
        let shape = match &i.shape {
            None => "*".to_string(),
            Some(d) if d.is_empty() => "_".to_string(),
            Some(d) => d
                .iter()
                .map(|x| match x {
                    Dim::Fixed(n) => n.to_string(),
                    Dim::Sym(s) => format!("${s}"),
                })
                .collect::<Vec<_>>()
                .join(","),
        };
        toks.push(format!("I:{}:{}:{}", i.name, dt_code(i.dtype), shape));
    }
    for t in &g.initializers {
        toks.push(format!("C:{}:{}:{}:{}", t.name, dt_code(t.dtype), dims_code(&t.dims), tensor_vals(t)));
    }
    for n in &g.nodes {
        let ins: Vec<String> = n.inputs.iter().map(|s| if s.is_empty() { "~".to_string() } else { s.clone() }).collect();
        let mut caps = BTreeSet::new();
        for (_, a) in &n.attrs {
            if let Attr::Graph(sg) = a {
                caps.extend(free_names(sg));
            }
        }
        toks.push(format!(
            "N:{}:{}:{}:{}:{}",
            n.op_type,
            attr_code(&n.attrs),
            if ins.is_empty() { "-".to_string() } else { ins.join(",") },
            n.outputs.join(","),
            if caps.is_empty() { "-".to_string() } else { caps.into_iter().collect::<Vec<_>>().join(",") }
        ));
    }
    toks.push(format!("O:{}", g.outputs.iter().map(|o| o.name.clone()).collect::<Vec<_>>().join(",")));
    toks.join(" ")
}

/// Value metadata as the optimizer sees it: the loader's own (`off`), overlaid with shape inference
/// results (`on`). Only non-input value nodes (inputs are in the `I:` tokens).
fn metadata(base: &Model, infer: bool) -> String {
    let g = base.verif_graph();
    let res = if infer {
        rv::infer_shapes(g, rv::InferShapeOptions { strict: false, ..Default::default() }).ok()
    } else {
        None
    };
    let mut toks = vec![];
    let mut ids: Vec<(NodeId, &rv::Node)> = g.iter().collect();
    ids.sort_by_key(|(id, _)| id.as_u32());
    for (id, node) in ids {
        let rv::Node::Value(_) = node else { continue };
        if g.input_ids().contains(&id) {
            continue;
        }
        let name = node.name().unwrap_or("").to_string();
        if name.is_empty() {
            continue;
        }
        let mut dtype = node.dtype();
        let mut shape: Option<Vec<Dimension>> = node.shape().map(|s| s.to_vec());
        let mut kon: Option<String> = None;
        if let Some(r) = &res {
            if let Some(t) = r.types.get(&id) {
                dtype = Some(*t);
            }
            match r.shapes.get(&id) {
                Some(rv::Shape::Shape(s)) => shape = Some(s.clone()),
                Some(rv::Shape::Constant { index }) => {
                    kon = Some(match &r.constants[*index] {
                        rten_shape_inference::Constant::Scalar(x) => format!("K:{name}:s:{x}"),
                        rten_shape_inference::Constant::Vector(v) => {
                            format!("K:{name}:v:{}", if v.is_empty() { "-".to_string() } else { hcommon::join(v.iter(), ",") })
                        }
                    });
                }
                None => {}
            }
        }
        if dtype.is_some() || shape.is_some() {
            toks.push(format!("V:{}:{}:{}", name, rdt_code(dtype), rshape_code(shape.as_deref())));
        }
        if let Some(k) = kon {
            toks.push(k);
        }
    }
    toks.join(" ")
}

// ---------------------------------------------------------------- optimized graph dump

fn const_code(c: &rv::Constant) -> String {
    use rten::ValueView;
    let shape = hcommon::join(c.shape().iter(), ",");
    match c.as_view() {
        ValueView::FloatTensor(_) => format!("#f[{shape}]"),
        ValueView::Int32Tensor(t) => {
            if t.len() <= 8 {
                format!("#i[{shape}]{{{}}}", hcommon::join(t.iter(), ","))
            } else {
                format!("#i[{shape}]")
            }
        }
        ValueView::Int8Tensor(_) => format!("#i8[{shape}]"),
        ValueView::UInt8Tensor(_) => format!("#u8[{shape}]"),
        _ => "#?".into(),
    }
}

/// Text of `field: <value>` in a `Debug` rendering (value up to the next top-level `,` or ` }`).
fn dbg_field(s: &str, field: &str) -> Option<String> {
    let key = format!("{field}: ");
    let start = s.find(&key)? + key.len();
    let mut depth = 0i32;
    let mut out = String::new();
    for ch in s[start..].chars() {
        match ch {
            '(' | '[' | '{' => depth += 1,
            ')' | ']' | '}' if depth > 0 => depth -= 1,
            ',' | '}' if depth == 0 => break,
            _ => {}
        }
        out.push(ch);
    }
    Some(out.trim().to_string())
}

fn unsome(s: &str) -> Option<String> {
    s.strip_prefix("Some(").and_then(|r| r.strip_suffix(')')).map(|r| r.to_string())
}

fn f32_bits_of(text: &str) -> String {
    text.parse::<f32>().map(|x| x.to_bits().to_string()).unwrap_or_else(|_| "?".into())
}

fn opt_f32_bits(v: Option<String>) -> String {
    match v.as_deref().and_then(unsome) {
        Some(x) => f32_bits_of(&x),
        None => "none".into(),
    }
}

fn b01(v: Option<String>) -> &'static str {
    if v.as_deref() == Some("true") { "1" } else { "0" }
}

/// Attributes of the operators fusions create or depend on (compared with the Lean model's prediction).
fn attr_suffix(op: &dyn rv::Operator) -> String {
    let d = format!("{op:?}");
    match op.name() {
        "Gelu" => format!("{{approx={}}}", b01(dbg_field(&d, "approximate"))),
        "Swish" => format!("{{alpha={}}}", dbg_field(&d, "alpha").map(|x| f32_bits_of(&x)).unwrap_or_default()),
        "LayerNormalization" | "RMSNormalization" => format!(
            "{{axis={},eps={}}}",
            dbg_field(&d, "axis").unwrap_or_default(),
            opt_f32_bits(dbg_field(&d, "epsilon"))
        ),
        "FusedMatMul" => format!("{{alpha={}}}", opt_f32_bits(dbg_field(&d, "alpha"))),
        "ReduceMean" => {
            let axes = match dbg_field(&d, "axes").as_deref().and_then(unsome) {
                Some(a) => a.trim_matches(|c| c == '[' || c == ']').replace(", ", ";"),
                None => "none".into(),
            };
            format!("{{axes={axes},keep={},noop={}}}", b01(dbg_field(&d, "keep_dims")), b01(dbg_field(&d, "noop_with_empty_axes")))
        }
        "Softmax" => format!("{{axis={},flush={}}}", dbg_field(&d, "axis").unwrap_or_default(), b01(dbg_field(&d, "flush_nans_to_zero"))),
        "AddSoftmax" => format!("{{flush={}}}", b01(dbg_field(&d, "flush_nans_to_zero"))),
        "GroupedQueryAttentionMatMul" => format!(
            "{{repeats={},alpha={},trhs={}}}",
            dbg_field(&d, "repeats").unwrap_or_default(),
            opt_f32_bits(dbg_field(&d, "alpha")),
            b01(dbg_field(&d, "transpose_rhs"))
        ),
        "RepeatInterleave" => format!("{{axis={},repeats={}}}", dbg_field(&d, "axis").unwrap_or_default(), dbg_field(&d, "repeats").unwrap_or_default()),
        n if n.starts_with("TransformInputs(") => {
            // transforms: [TransformIndex { input_index: 0, transform: Permute(PermuteInput { perm: Some([1, 0]) }) }, ..]
            let mut parts = vec![];
            for chunk in d.split("TransformIndex {").skip(1) {
                let idx = dbg_field(chunk, "input_index").unwrap_or_default();
                let perm = match dbg_field(chunk, "perm").as_deref().and_then(unsome) {
                    Some(p) => p.trim_matches(|c| c == '[' || c == ']').replace(", ", "."),
                    None => "rev".into(),
                };
                parts.push(format!("{idx}:{perm}"));
            }
            format!("{{{}}}", parts.join(";"))
        }
        _ => String::new(),
    }
}

fn term(g: &rv::Graph, id: NodeId, depth: usize) -> String {
    if depth > 60 {
        return "...".into();
    }
    match g.get_node(id) {
        None => "?missing".into(),
        Some(rv::Node::Constant(c)) => const_code(c),
        Some(rv::Node::Operator(_)) => "?op".into(),
        Some(rv::Node::Value(_)) => match g.get_source_node(id) {
            None => g.node_name(id),
            Some((_, op)) => {
                let idx = op.output_ids().iter().position(|o| *o == Some(id)).unwrap_or(0);
                let args: Vec<String> = op
                    .input_ids()
                    .iter()
                    .map(|i| match i {
                        None => "~".to_string(),
                        Some(i) => term(g, *i, depth + 1),
                    })
                    .collect();
                let nm = format!("{}{}", op.operator().name(), attr_suffix(op.operator()));
                if op.output_ids().len() > 1 {
                    format!("{nm}.{idx}({})", args.join(","))
                } else {
                    format!("{nm}({})", args.join(","))
                }
            }
        },
    }
}

pub fn dump_terms(m: &Model, out_names: &[String]) -> String {
    let g = m.verif_graph();
    let outs = g.output_ids();
    let mut parts = vec![];
    for (i, id) in outs.iter().enumerate() {
        let nm = out_names.get(i).cloned().unwrap_or_else(|| format!("o{i}"));
        parts.push(format!("{nm}={}", term(g, *id, 0)));
    }
    parts.join(";")
}

/// Operator type names reachable from the outputs (sorted, with multiplicity).
fn op_names(m: &Model) -> Vec<String> {
    let g = m.verif_graph();
    let mut v: Vec<String> = match g.execution_plan(g.input_ids(), g.output_ids(), rv::PlanOptions::default()) {
        Ok(p) => p
            .iter()
            .filter_map(|id| g.get_node(*id).and_then(|n| n.as_operator()).map(|o| o.operator().name().to_string()))
            .collect(),
        Err(_) => vec![],
    };
    v.sort();
    v
}

// ---------------------------------------------------------------- running + comparison

#[derive(Clone, Debug)]
pub enum TV {
    F(Vec<usize>, Vec<f32>),
    I(Vec<usize>, Vec<i32>),
    U8(Vec<usize>, Vec<u8>),
    I8(Vec<usize>, Vec<i8>),
    Other(String),
}

fn to_tv(v: Value) -> TV {
    match v {
        Value::FloatTensor(t) => TV::F(t.shape().to_vec(), t.to_vec()),
        Value::Int32Tensor(t) => TV::I(t.shape().to_vec(), t.to_vec()),
        Value::UInt8Tensor(t) => TV::U8(t.shape().to_vec(), t.to_vec()),
        Value::Int8Tensor(t) => TV::I8(t.shape().to_vec(), t.to_vec()),
        _ => TV::Other("seq".into()),
    }
}

/// Does the graph contain operators whose NaN / -inf behaviour is part of a fusion's contract?
fn nan_relevant(t: &Tm) -> bool {
    t.g.nodes.iter().any(|n| ["Softmax", "IsNaN", "Where"].contains(&n.op_type.as_str()))
}

/// Special-value draw for NaN-relevant templates: whole lanes of -inf, NaN entries, +-inf.
fn gen_nan_input(rng: &mut Rng, s: &InSpec, k: usize) -> TV {
    let n: usize = s.dims.iter().product();
    let last = s.dims.last().copied().unwrap_or(1).max(1);
    let mut v: Vec<f32> = (0..n).map(|_| -2.0 + 4.0 * rng.f32_unit()).collect();
    for r in 0..(n / last).max(1) {
        match (k + r + rng.usize_below(2)) % 4 {
            0 => {
                for c in 0..last.min(n) {
                    v[r * last + c] = f32::NEG_INFINITY; // fully masked lane
                }
            }
            1 => {
                if n > 0 {
                    v[(r * last + rng.usize_below(last)).min(n - 1)] = f32::NAN;
                }
            }
            2 => {
                if n > 0 {
                    v[(r * last + rng.usize_below(last)).min(n - 1)] = if rng.chance(1, 2) { f32::INFINITY } else { f32::NEG_INFINITY };
                }
            }
            _ => {}
        }
    }
    TV::F(s.dims.clone(), v)
}

fn gen_input(rng: &mut Rng, s: &InSpec, special: bool) -> TV {
    let n: usize = s.dims.iter().product();
    match s.dtype {
        dt::FLOAT => {
            let v: Vec<f32> = match s.class {
                VC::Mask => {
                    // rows of 0 / -inf; occasionally a fully masked row
                    let last = s.dims.last().copied().unwrap_or(1).max(1);
                    let mut v = vec![0f32; n];
                    for r in 0..(n / last) {
                        let full = rng.chance(1, 4);
                        for c in 0..last {
                            if full || rng.chance(1, 3) {
                                v[r * last + c] = f32::NEG_INFINITY;
                            }
                        }
                    }
                    v
                }
                VC::Pos => (0..n).map(|_| 0.25 + 3.0 * rng.f32_unit()).collect(),
                VC::SignedZeros => (0..n).map(|i| [0.0f32, -0.0, 1.0, -1.0][(i + rng.usize_below(2)) % 4]).collect(),
                _ => (0..n)
                    .map(|_| {
                        if special && rng.chance(1, 4) {
                            *rng.pick(&[0.0f32, -0.0, 1.0, -1.0, 1e4, -1e4, 1e-6, 0.5])
                        } else {
                            -3.0 + 6.0 * rng.f32_unit()
                        }
                    })
                    .collect(),
            };
            TV::F(s.dims.clone(), v)
        }
        dt::INT32 | dt::INT64 => TV::I(
            s.dims.clone(),
            (0..n)
                .map(|_| match s.class {
                    VC::Pos => rng.range_i64(1, 6) as i32,
                    _ => rng.range_i64(-5, 5) as i32,
                })
                .collect(),
        ),
        dt::BOOL => TV::I(s.dims.clone(), (0..n).map(|_| rng.below(2) as i32).collect()),
        dt::UINT8 => TV::U8(s.dims.clone(), (0..n).map(|_| rng.below(256) as u8).collect()),
        dt::INT8 => TV::I8(s.dims.clone(), (0..n).map(|_| rng.range_i64(-128, 127) as i8).collect()),
        _ => TV::Other("unsupported".into()),
    }
}

fn run_model(m: &Model, ins: &[(String, TV)], outs: &[String]) -> Result<Vec<TV>, String> {
    let mut fs: Vec<RTensor<f32>> = vec![];
    let mut is: Vec<RTensor<i32>> = vec![];
    let mut us: Vec<RTensor<u8>> = vec![];
    let mut i8s: Vec<RTensor<i8>> = vec![];
    let mut idx: Vec<(NodeId, u8, usize)> = vec![];
    for (name, tv) in ins {
        let id = m.node_id(name).map_err(|e| format!("input {name}: {e}"))?;
        match tv {
            TV::F(s, d) => {
                fs.push(RTensor::from_data(s, d.clone()));
                idx.push((id, 0, fs.len() - 1));
            }
            TV::I(s, d) => {
                is.push(RTensor::from_data(s, d.clone()));
                idx.push((id, 1, is.len() - 1));
            }
            TV::U8(s, d) => {
                us.push(RTensor::from_data(s, d.clone()));
                idx.push((id, 2, us.len() - 1));
            }
            TV::I8(s, d) => {
                i8s.push(RTensor::from_data(s, d.clone()));
                idx.push((id, 3, i8s.len() - 1));
            }
            TV::Other(_) => return Err("bad input".into()),
        }
    }
    let inputs: Vec<(NodeId, rten::ValueOrView)> = idx
        .iter()
        .map(|(id, k, i)| {
            (
                *id,
                match k {
                    0 => fs[*i].view().into(),
                    1 => is[*i].view().into(),
                    2 => us[*i].view().into(),
                    _ => i8s[*i].view().into(),
                },
            )
        })
        .collect();
    let mut out_ids = vec![];
    for o in outs {
        out_ids.push(m.node_id(o).map_err(|e| format!("output {o}: {e}"))?);
    }
    let r = m.run(inputs, &out_ids, None).map_err(|e| format!("run: {e}"))?;
    Ok(r.into_iter().map(to_tv).collect())
}

fn fmt_tv(t: &TV) -> String {
    fn head<T: std::fmt::Debug>(v: &[T]) -> String {
        let k = v.len().min(8);
        format!("{:?}{}", &v[..k], if v.len() > k { ".." } else { "" })
    }
    match t {
        TV::F(s, d) => format!("f32{s:?}{}", head(d)),
        TV::I(s, d) => format!("i32{s:?}{}", head(d)),
        TV::U8(s, d) => format!("u8{s:?}{}", head(d)),
        TV::I8(s, d) => format!("i8{s:?}{}", head(d)),
        TV::Other(s) => s.clone(),
    }
}

/// `None` = equal under the property's comparison.
fn cmp_tv(a: &TV, b: &TV) -> Option<String> {
    match (a, b) {
        (TV::F(sa, da), TV::F(sb, db)) => {
            if sa != sb {
                return Some(format!("shape {sa:?} vs {sb:?}"));
            }
            let maxabs = da.iter().filter(|x| x.is_finite()).fold(0f32, |m, x| m.max(x.abs()));
            for (i, (x, y)) in da.iter().zip(db).enumerate() {
                if x.is_nan() != y.is_nan() {
                    return Some(format!("NaN position {i}: {x} vs {y}"));
                }
                if x.is_nan() {
                    continue;
                }
                if x.is_infinite() || y.is_infinite() {
                    if x != y {
                        return Some(format!("value[{i}] {x} vs {y}"));
                    }
                    continue;
                }
                let tol = 1e-4 * x.abs().max(y.abs()) + 1e-5 * (1.0 + maxabs);
                if (x - y).abs() > tol {
                    return Some(format!("value[{i}] {x} vs {y}"));
                }
            }
            None
        }
        (TV::I(sa, da), TV::I(sb, db)) => (sa != sb || da != db).then(|| format!("int {} vs {}", fmt_tv(a), fmt_tv(b))),
        (TV::U8(sa, da), TV::U8(sb, db)) => (sa != sb || da != db).then(|| format!("u8 {} vs {}", fmt_tv(a), fmt_tv(b))),
        (TV::I8(sa, da), TV::I8(sb, db)) => (sa != sb || da != db).then(|| format!("i8 {} vs {}", fmt_tv(a), fmt_tv(b))),
        _ => Some(format!("dtype {} vs {}", fmt_tv(a), fmt_tv(b))),
    }
}

fn load(bytes: &[u8], optimize: bool, mode: ShapeInferenceMode) -> Result<Model, String> {
    let mut o = ModelOptions::with_all_ops();
    o.enable_optimization(optimize);
    o.shape_inference(mode);
    match hcommon::catch(|| o.load(bytes.to_vec())) {
        Ok(Ok(m)) => Ok(m),
        Ok(Err(e)) => Err(format!("load: {e}")),
        Err(p) => Err(format!("panic in load: {p}")),
    }
}

fn fused_summary(base_ops: &[String], opt_ops: &[String]) -> String {
    // op types present after optimization that were not in the unoptimized plan (with multiplicity)
    let mut cnt: BTreeMap<&str, i64> = BTreeMap::new();
    for o in opt_ops {
        *cnt.entry(o).or_insert(0) += 1;
    }
    for o in base_ops {
        *cnt.entry(o).or_insert(0) -= 1;
    }
    let new: Vec<String> = cnt.iter().filter(|(_, c)| **c > 0).map(|(k, _)| k.to_string()).collect();
    if new.is_empty() {
        if opt_ops.len() < base_ops.len() {
            "removed".into()
        } else {
            "none".into()
        }
    } else {
        new.join("+")
    }
}

pub fn run_template(out: &mut Out, rng: &mut Rng, t: &Tm, fired: &mut BTreeMap<String, BTreeMap<String, u64>>) {
    let bytes = t.g.into_model_bytes(t.opset);
    let out_names: Vec<String> = t.g.outputs.iter().map(|o| o.name.clone()).collect();
    let desc = describe(&t.g);
    let base = load(&bytes, false, ShapeInferenceMode::Off);
    let base = match base {
        Ok(m) => m,
        Err(e) => {
            // the unoptimized model does not load: nothing is promised; record and move on
            out.bucket("baseline-load-error");
            out.case(&format!("# T={} baseline {}", t.name, e.replace(['\n', '\t'], " ")), "-", None, false);
            return;
        }
    };
    let base_ops = op_names(&base);
    // inputs: three draws (one with special values)
    let mut draws: Vec<Vec<(String, TV)>> = (0..3)
        .map(|k| t.ins.iter().map(|s| (s.name.clone(), gen_input(rng, s, k == 2))).collect())
        .collect();
    if nan_relevant(t) {
        // two more draws with -inf lanes / NaN / +-inf in the f32 inputs (alternating which input gets them)
        for k in 0..2usize {
            draws.push(
                t.ins
                    .iter()
                    .enumerate()
                    .map(|(j, s)| {
                        let tv = if s.dtype == dt::FLOAT && (t.ins.len() == 1 || (j + k) % 2 == 1 || s.class == VC::Mask) {
                            gen_nan_input(rng, s, k)
                        } else {
                            gen_input(rng, s, false)
                        };
                        (s.name.clone(), tv)
                    })
                    .collect(),
            );
        }
        out.bucket("nan-special-inputs");
    }
    let base_runs: Vec<Result<Vec<TV>, String>> = draws
        .iter()
        .map(|d| match hcommon::catch(|| run_model(&base, d, &out_names)) {
            Ok(r) => r,
            Err(p) => Err(format!("panic: {p}")),
        })
        .collect();
    let base_ok = base_runs.iter().filter(|r| r.is_ok()).count();
    out.bucket(if base_ok > 0 { "baseline-run-ok" } else { "baseline-run-error" });

    // optimize=false with other shape-inference modes must be the same model (shape inference is part of optimization)
    let mut fail_common: Option<String> = None;
    for mode in [ShapeInferenceMode::On, ShapeInferenceMode::Strict] {
        match load(&bytes, false, mode.clone()) {
            Ok(m) => {
                for (d, b) in draws.iter().zip(&base_runs) {
                    let r = hcommon::catch(|| run_model(&m, d, &out_names)).unwrap_or_else(|p| Err(format!("panic: {p}")));
                    if let (Ok(bv), r) = (b, &r) {
                        match r {
                            Err(e) => fail_common = Some(format!("optimize=off/{mode:?}: baseline ok but run fails: {e}")),
                            Ok(rv_) => {
                                for (x, y) in bv.iter().zip(rv_) {
                                    if let Some(m) = cmp_tv(x, y) {
                                        fail_common = Some(format!("optimize=off/{mode:?}: {m}"));
                                    }
                                }
                            }
                        }
                    }
                }
            }
            Err(e) => fail_common = Some(format!("optimize=off/{mode:?} {e}")),
        }
    }

    for (mname, modes) in [("off", vec![ShapeInferenceMode::Off]), ("on", vec![ShapeInferenceMode::On, ShapeInferenceMode::Strict])] {
        let meta = metadata(&base, mname == "on");
        let req = format!("T={} M={} {} {}", t.name, mname, desc, meta);
        let mut ans = String::new();
        let mut fail: Option<String> = if mname == "off" { fail_common.clone() } else { None };
        for mode in modes {
            let strict = mode == ShapeInferenceMode::Strict;
            match load(&bytes, true, mode.clone()) {
                Err(e) => {
                    if strict && !e.contains("panic") {
                        out.bucket("strict-load-error");
                    } else {
                        if !strict {
                            ans = "loaderr".into();
                        }
                        if base_ok > 0 {
                            fail = Some(format!("optimize=on/{mode:?}: unoptimized model loads and runs, optimized {e}"));
                        }
                    }
                }
                Ok(m) => {
                    if !strict {
                        ans = dump_terms(&m, &out_names);
                        let f = fused_summary(&base_ops, &op_names(&m));
                        *fired.entry(t.family.to_string()).or_default().entry(format!("{mname}:{f}")).or_insert(0) += 1;
                        out.bucket(&format!("fired/{}/{}/{}", t.family, mname, f));
                    }
                    for (d, b) in draws.iter().zip(&base_runs) {
                        let Ok(bv) = b else { continue };
                        let r = hcommon::catch(|| run_model(&m, d, &out_names)).unwrap_or_else(|p| Err(format!("panic: {p}")));
                        match r {
                            Err(e) => {
                                fail = Some(format!(
                                    "optimize=on/{mode:?}: unoptimized run succeeds ({}), optimized fails: {e}",
                                    bv.iter().map(fmt_tv).collect::<Vec<_>>().join(" ")
                                ))
                            }
                            Ok(rv_) => {
                                for (k, (x, y)) in bv.iter().zip(&rv_).enumerate() {
                                    if let Some(msg) = cmp_tv(x, y) {
                                        fail = Some(format!(
                                            "optimize=on/{mode:?}: output {} differs: {msg}; unoptimized {} optimized {}; inputs {}",
                                            out_names[k],
                                            fmt_tv(x),
                                            fmt_tv(y),
                                            d.iter().map(|(n, v)| format!("{n}={}", fmt_tv(v))).collect::<Vec<_>>().join(" ")
                                        ));
                                    }
                                }
                            }
                        }
                    }
                }
            }
        }
        out.bucket(&format!("family/{}", t.family));
        out.case(&req, &ans, fail.as_deref(), base_ok > 0);
    }
}

fn main() {
    let args = hcommon::parse_args();
    hcommon::quiet_panics();
    let mut out = Out::new(&args.out);
    let mut rng = Rng::new(args.seed);
    let mut fired: BTreeMap<String, BTreeMap<String, u64>> = BTreeMap::new();

    let tms = all_templates(&mut rng, args.thorough);
    out.note(&format!("{} fusion templates", tms.len()));
    for t in &tms {
        run_template(&mut out, &mut rng, t, &mut fired);
    }
    let n_rand = if args.thorough { 6000 } else { 600 };
    for k in 0..n_rand {
        let t = random_graph(&mut rng, k);
        run_template(&mut out, &mut rng, &t, &mut fired);
    }
    for (fam, m) in &fired {
        let s: Vec<String> = m.iter().map(|(k, v)| format!("{k}x{v}")).collect();
        out.note(&format!("fired[{fam}]: {}", s.join(" ")));
    }
    let _ = HashMap::<u8, u8>::new();
    out.finish("pattern-shaped ONNX templates for every fusion in fusions.rs (operand orders, re-bracketings, reused / graph-output / If-captured intermediates, single-element constants of rank 0..3, last vs other axes, f32 vs i32, symbolic vs fixed dims) plus random small graphs; each loaded with optimize x shape-inference mode and run on 3 random conforming inputs; non-trivial = unoptimized model loads and runs");
}
