//! C02: `Graph::run_plan` bookkeeping (in-place decisions, by-value captures, buffer release, output
//! collection) observed through the `rten::verif::exec_trace` event log on the real crate.
//!
//! Protocol (see lean/RtenVerif/Driver/C02.lean): one request line per `run_plan` invocation
//! (depth 0 and nested If/Loop bodies):
//! `run pool= nip= hascap= nodes= gcap= owned= borrowed= cap= outs= plan= lens= fail=`
//! answered by `<status>|<op>:<rip>:<taken>:<byval>:<stored>:<released>;...|<id>t,<id>c,...`.
//!
//! Two graph families:
//!  (A) ONNX models with real operators loaded through `ModelOptions::with_all_ops()` (optimizer and
//!      weight prepacking toggled at random), incl. `If`/`Loop` bodies capturing outer values by name;
//!  (B) graphs built through the `Graph` API from mock operators (arbitrary in-place index sets,
//!      commutativity, optional inputs/outputs, failures) plus real `Identity`/`Shape`/`If`.
//!  (C) ONNX models aimed at pool recycling with spare capacity: big buffers of several sizes are
//!      released early in the run, a smaller temporary is then allocated from the pool and grown by a
//!      chain of `Concat`s along random axes (in place when it is the first operand with one use).
//! Every request is run under several configurations (normal, never-in-place reference, other thread
//! counts, RTEN_USE_POOL=0, all-borrowed / all-owned / other ownership masks, other prepack setting).
//!
//! Independent oracle (PROPFAIL on the depth-0 line of the normal run): outputs (dtype, shape, bit
//! patterns) or the error class/message must be identical in every configuration, and for family (B)
//! equal to a naive demand-driven evaluation on fresh copies computed by this harness.
#[path = "../onnx_enc.rs"]
mod onnx_enc;

use hcommon::{Out, Rng};
use rten::verif::exec_trace::{self, Event};
use rten::verif::{
    op_identity, op_if, op_shape, Graph, InPlaceInputs, Node, OpError, OpRunContext, Operator,
    OutputList, OutputTypeList, OutputTypesContext, PlanOptions, SubgraphOperator,
};
use rten::{ModelOptions, NodeId, RunError, RunOptions, ThreadPool, Value, ValueOrView, ValueView};
use rten_base::bit_set::BitSet;
use rten_shape_inference::InferShapes;
use rten_tensor::prelude::*;
use rten_tensor::Tensor;
use std::cell::RefCell;
use std::collections::{BTreeMap, BTreeSet, HashMap};
use std::sync::atomic::{AtomicU64, Ordering};
use std::sync::Arc;

const RULE: &str = "impl run_plan bookkeeping trace == Lean runPlan; oracle: outputs/error identical under never-in-place, thread count, RTEN_USE_POOL, owned/borrowed masks, prepack; families B and C also == naive evaluation";

// ---------------------------------------------------------------------------------------------
// Graph description (request line fields that depend only on the graph)
// ---------------------------------------------------------------------------------------------

#[derive(Clone)]
struct OpD {
    ins: Vec<Option<u32>>,
    outs: Vec<Option<u32>>,
    /// resolved capture ids that are not also inputs (the model's `capDeps`)
    caps: Vec<u32>,
    sub: bool,
}

struct GInfo {
    /// node kinds by id: b'v', b'c', b'o' (ids missing from the graph are b'v')
    kinds: Vec<u8>,
    ops: HashMap<u32, OpD>,
    nodes: String,
    gcap: String,
    /// operator id -> its `output_ids()`
    outpos: HashMap<u32, Vec<Option<u32>>>,
    n_ops: usize,
}

fn ids_str<I: IntoIterator<Item = u32>>(xs: I) -> String {
    hcommon::join(xs, ",")
}

fn opt_ids_str(xs: &[Option<NodeId>]) -> String {
    hcommon::join(
        xs.iter().map(|x| match x {
            Some(v) => v.as_u32().to_string(),
            None => "_".to_string(),
        }),
        ",",
    )
}

fn describe(g: &Graph) -> GInfo {
    let mut tab: BTreeMap<u32, String> = BTreeMap::new();
    let mut outpos = HashMap::new();
    let mut n_ops = 0;
    let mut opsd: HashMap<u32, OpD> = HashMap::new();
    let mut kindm: HashMap<u32, u8> = HashMap::new();
    for (id, node) in g.iter() {
        kindm.insert(
            id.as_u32(),
            match node {
                Node::Value(_) => b'v',
                Node::Constant(_) => b'c',
                Node::Operator(_) => b'o',
            },
        );
        let s = match node {
            Node::Value(_) => "v".to_string(),
            Node::Constant(_) => "c".to_string(),
            Node::Operator(op) => {
                n_ops += 1;
                let caps: Vec<u32> = op
                    .capture_names()
                    .filter_map(|n| g.get_node_id(n))
                    .map(|i| i.as_u32())
                    .collect();
                let ip: Vec<u32> = op.operator().in_place_inputs().iter().collect();
                let ins_d: Vec<Option<u32>> = op.input_ids().iter().map(|o| o.map(|i| i.as_u32())).collect();
                opsd.insert(
                    id.as_u32(),
                    OpD {
                        caps: caps.iter().copied().filter(|c| !ins_d.contains(&Some(*c))).collect(),
                        ins: ins_d,
                        outs: op.output_ids().iter().map(|o| o.map(|i| i.as_u32())).collect(),
                        sub: op.operator().as_subgraph_op().is_some(),
                    },
                );
                outpos.insert(
                    id.as_u32(),
                    op.output_ids().iter().map(|o| o.map(|i| i.as_u32())).collect::<Vec<_>>(),
                );
                format!(
                    "o/{}/{}/{}/{}/{}/{}",
                    opt_ids_str(op.input_ids()),
                    opt_ids_str(op.output_ids()),
                    ids_str(caps),
                    ids_str(ip),
                    op.operator().is_commutative() as u8,
                    op.operator().as_subgraph_op().is_some() as u8
                )
            }
        };
        tab.insert(id.as_u32(), s);
    }
    let nodes = match tab.keys().last().copied() {
        None => String::new(),
        Some(max) => hcommon::join(
            (0..=max).map(|i| tab.get(&i).cloned().unwrap_or_else(|| "v".to_string())),
            ";",
        ),
    };
    let maxid = kindm.keys().max().copied();
    GInfo {
        kinds: match maxid {
            None => vec![],
            Some(m) => (0..=m).map(|i| kindm.get(&i).copied().unwrap_or(b'v')).collect(),
        },
        ops: opsd,
        nodes,
        gcap: ids_str(g.captures().iter().map(|i| i.as_u32())),
        outpos,
        n_ops,
    }
}

/// Describe `g` and (recursively) every subgraph of its operators, keyed by graph address.
fn collect_infos(g: &Graph, map: &mut HashMap<usize, GInfo>) {
    let addr = g as *const Graph as usize;
    if map.contains_key(&addr) {
        return;
    }
    map.insert(addr, describe(g));
    for (_, node) in g.iter() {
        if let Node::Operator(op) = node {
            if let Some(sg) = op.operator().as_subgraph_op() {
                for s in sg.subgraphs() {
                    collect_infos(s, map);
                }
            }
        }
    }
}

// ---------------------------------------------------------------------------------------------
// Trace -> calls -> request / answer lines
// ---------------------------------------------------------------------------------------------

struct Call {
    depth: usize,
    graph: usize,
    plan: Vec<u32>,
    owned: Vec<(u32, usize)>,
    borrowed: Vec<(u32, usize)>,
    outputs: Vec<u32>,
    has_captures: bool,
    captures: Vec<(u32, Option<usize>, bool)>,
    use_pool: bool,
    evs: Vec<Event>,
    panicking: bool,
}

fn split_calls(trace: &[Event]) -> Vec<Call> {
    let mut calls: Vec<Call> = vec![];
    let mut stack: Vec<usize> = vec![];
    for ev in trace {
        match ev {
            Event::Begin { depth, graph, plan, owned, borrowed, outputs, has_captures, captures, use_pool } => {
                calls.push(Call {
                    depth: *depth,
                    graph: *graph,
                    plan: plan.clone(),
                    owned: owned.clone(),
                    borrowed: borrowed.clone(),
                    outputs: outputs.clone(),
                    has_captures: *has_captures,
                    captures: captures.clone(),
                    use_pool: *use_pool,
                    evs: vec![],
                    panicking: false,
                });
                stack.push(calls.len() - 1);
            }
            Event::End { panicking, .. } => {
                if let Some(i) = stack.pop() {
                    calls[i].panicking = *panicking;
                }
            }
            other => {
                if let Some(&i) = stack.last() {
                    calls[i].evs.push(other.clone());
                }
            }
        }
    }
    calls
}

#[derive(Default)]
struct StepRec {
    op: u32,
    rip: bool,
    taken: Vec<(usize, u32)>,
    byval: Vec<u32>,
    stored: Vec<(u32, usize)>,
    released: Vec<u32>,
}

const SYM_P: u128 = (1u128 << 61) - 1;
fn mix(a: u64, b: u64) -> u64 {
    ((a as u128 * 1_000_003 + b as u128 + 12_345) % SYM_P) as u64
}

/// Symbolic naive evaluation of one top-level `run_plan` request (same algorithm as the Lean driver's
/// `sym` request, written independently): every value is a hash of the term that defines it.
fn sym_naive(info: &GInfo, call: &Call, n_outs: &HashMap<u32, usize>, fail: &str) -> String {
    let inputs: BTreeSet<u32> = call.owned.iter().chain(&call.borrowed).map(|(i, _)| *i).collect();
    let mut env: HashMap<u32, u64> = HashMap::new();
    let look = |env: &HashMap<u32, u64>, id: u32| -> Option<u64> {
        match info.kinds.get(id as usize) {
            Some(b'c') => Some(mix(2, id as u64)),
            Some(b'v') => {
                if inputs.contains(&id) {
                    Some(mix(1, id as u64))
                } else {
                    env.get(&id).copied()
                }
            }
            _ => None,
        }
    };
    let fail_op: Option<u32> = fail.get(1..).and_then(|x| x.parse().ok());
    for &op in &call.plan {
        let Some(d) = info.ops.get(&op) else { return "planerr".into() };
        let mut h = mix(4, op as u64);
        for i in &d.ins {
            match i {
                None => h = mix(h, 3),
                Some(id) => match look(&env, *id) {
                    Some(v) => h = mix(h, v),
                    None => return format!("panic@{op}"),
                },
            }
        }
        if fail_op == Some(op) {
            return if fail.starts_with('p') { format!("panic@{op}") } else { format!("err@{op}") };
        }
        let Some(&n) = n_outs.get(&op) else { return format!("err@{op}") };
        if n < d.outs.len() {
            return format!("err@{op}");
        }
        if d.sub {
            for c in &d.caps {
                h = mix(h, look(&env, *c).unwrap_or(7));
            }
        }
        for (k, o) in d.outs.iter().enumerate() {
            if let Some(id) = o {
                env.insert(*id, mix(mix(h, 5), k as u64));
            }
        }
    }
    let mut hs = vec![];
    for &o in &call.outputs {
        match look(&env, o) {
            Some(v) => hs.push(v.to_string()),
            None => return "panic@out".into(),
        }
    }
    format!("ok|{}", hs.join(","))
}

struct Line {
    depth: usize,
    /// `sym` request/answer (top-level calls only)
    sym: Option<(String, String)>,
    /// violations of the `CapsWF` hypothesis observed for this (nested) call
    capswf: Vec<String>,
    req: String,
    ans: String,
    n_inplace: usize,
    n_byval: usize,
    n_released: usize,
    n_steps: usize,
}

/// `op_panic`: the run ended with a panic that is not one of `run_plan`'s own (i.e. an operator,
/// or code outside `run_plan`, panicked): the model cannot predict it, so it is passed in the
/// request as `fail=p<op>` (an abstract-operator observable, like an operator error).
fn make_line(call: &Call, info: &GInfo, nip: bool, op_panic: bool) -> Line {
    let mut steps: Vec<StepRec> = vec![];
    let mut outs: Vec<(u32, bool)> = vec![];
    for ev in &call.evs {
        match ev {
            Event::Step { op, .. } => steps.push(StepRec { op: *op, ..Default::default() }),
            Event::InPlace { run_in_place, taken, .. } => {
                if let Some(s) = steps.last_mut() {
                    s.rip = *run_in_place;
                    s.taken = taken.clone();
                }
            }
            Event::ByValue { id, .. } => {
                if let Some(s) = steps.last_mut() {
                    s.byval.push(*id);
                }
            }
            Event::Stored { id, len, .. } => {
                if let Some(s) = steps.last_mut() {
                    s.stored.push((*id, *len));
                }
            }
            Event::Released { id, .. } => {
                if let Some(s) = steps.last_mut() {
                    s.released.push(*id);
                }
            }
            Event::Output { id, from_temp, .. } => outs.push((*id, *from_temp)),
            _ => {}
        }
    }
    let n = steps.len();
    // A step completed iff its operator returned Ok with enough outputs. `Stored` events are only
    // emitted for outputs that are really stored (not for ids supplied by the caller), so a completed
    // step may have none: it then shows through a later event of this call.
    let completed = |i: usize| -> bool {
        let s = &steps[i];
        !s.stored.is_empty() || !s.released.is_empty() || i + 1 < n || !outs.is_empty()
    };
    let all_done = n == 0 || completed(n - 1);
    let status = if !all_done {
        if call.panicking {
            format!("panic@{}", steps[n - 1].op)
        } else {
            format!("err@{}", steps[n - 1].op)
        }
    } else if outs.len() == call.outputs.len() && !call.panicking {
        "ok".to_string()
    } else if call.panicking {
        "panic@out".to_string()
    } else {
        "err@out".to_string()
    };
    let fail = if !all_done && !call.panicking {
        format!("e{}", steps[n - 1].op)
    } else if !all_done && call.panicking && op_panic {
        format!("p{}", steps[n - 1].op)
    } else {
        "-".to_string()
    };
    let mut lens: Vec<String> = vec![];
    let mut n_outs: HashMap<u32, usize> = HashMap::new();
    let mut step_strs: Vec<String> = vec![];
    let (mut n_inplace, mut n_byval, mut n_released) = (0, 0, 0);
    for (i, s) in steps.iter().enumerate() {
        if !completed(i) {
            continue;
        }
        // match Stored events to output positions by id, in order
        let mut k = 0;
        let pos: Vec<String> = match info.outpos.get(&s.op) {
            Some(p) => p
                .iter()
                .map(|o| match o {
                    Some(id) if k < s.stored.len() && s.stored[k].0 == *id => {
                        k += 1;
                        s.stored[k - 1].1.to_string()
                    }
                    _ => "0".to_string(),
                })
                .collect(),
            None => s.stored.iter().map(|(_, l)| l.to_string()).collect(),
        };
        n_outs.insert(s.op, pos.len());
        lens.push(format!("{}:{}", s.op, pos.join(".")));
        step_strs.push(format!(
            "{}:{}:{}:{}:{}:{}",
            s.op,
            s.rip as u8,
            hcommon::join(s.taken.iter().map(|(p, id)| format!("{p}.{id}")), ","),
            ids_str(s.byval.iter().copied()),
            ids_str(s.stored.iter().map(|(id, _)| *id)),
            ids_str(s.released.iter().copied())
        ));
        n_inplace += s.rip as usize;
        n_byval += s.byval.len();
        n_released += s.released.len();
    }
    let out_str = if status == "ok" || status == "panic@out" {
        hcommon::join(outs.iter().map(|(id, t)| format!("{id}{}", if *t { "t" } else { "c" })), ",")
    } else {
        String::new()
    };
    let idlen = |v: &[(u32, usize)]| hcommon::join(v.iter().map(|(id, l)| format!("{id}:{l}")), ",");
    let req = format!(
        "run pool={} nip={} hascap={} nodes={} gcap={} owned={} borrowed={} cap={} outs={} plan={} lens={} fail={}",
        call.use_pool as u8,
        nip as u8,
        call.has_captures as u8,
        info.nodes,
        info.gcap,
        idlen(&call.owned),
        idlen(&call.borrowed),
        hcommon::join(
            call.captures.iter().map(|(id, l, t)| format!(
                "{id}:{}:{}",
                l.map(|l| l.to_string()).unwrap_or_else(|| "_".into()),
                *t as u8
            )),
            ","
        ),
        ids_str(call.outputs.iter().copied()),
        ids_str(call.plan.iter().copied()),
        lens.join(";"),
        fail
    );
    let ans = format!("{status}|{}|{out_str}", step_strs.join(";"));
    let sym = (call.depth == 0 && !call.has_captures)
        .then(|| (format!("sym{}", &req[3..]), sym_naive(info, call, &n_outs, &fail)));
    // CapsWF (hypothesis of the capture theorems): capture placeholders are value nodes without a
    // producer in this graph that are not supplied as inputs
    let mut capswf = vec![];
    if call.has_captures {
        for (id, _, _) in &call.captures {
            if info.kinds.get(*id as usize) != Some(&b'v') {
                capswf.push(format!("capture {id} is not a value node"));
            }
            if call.owned.iter().chain(&call.borrowed).any(|(i, _)| i == id) {
                capswf.push(format!("capture {id} is also supplied as an input"));
            }
            if info.ops.values().any(|d| d.outs.contains(&Some(*id))) {
                capswf.push(format!("capture {id} is produced by an operator of the subgraph"));
            }
        }
    }
    Line { depth: call.depth, sym, capswf, req, ans, n_inplace, n_byval, n_released, n_steps: step_strs.len() }
}

// ---------------------------------------------------------------------------------------------
// Outcomes
// ---------------------------------------------------------------------------------------------

#[derive(Clone, PartialEq, Debug)]
struct OutVal {
    dtype: &'static str,
    shape: Vec<usize>,
    bits: Vec<u64>,
}

impl OutVal {
    fn brief(&self) -> String {
        let show = |b: &u64| -> String {
            match self.dtype {
                "f32" => format!("{}", f32::from_bits(*b as u32)),
                "i32" => format!("{}", *b as u32 as i32),
                _ => format!("{b}"),
            }
        };
        let mut s = format!("{}{:?}[", self.dtype, self.shape);
        s += &hcommon::join(self.bits.iter().take(12).map(show), ",");
        if self.bits.len() > 12 {
            s += ",..";
        }
        s + "]"
    }
}

fn canon(v: &Value) -> OutVal {
    match v {
        Value::FloatTensor(t) => OutVal {
            dtype: "f32",
            shape: t.shape().to_vec(),
            // every NaN is the same value: sign / payload bits of a NaN depend on the operand order,
            // which the executor legitimately swaps for commutative operators run in place
            bits: t.iter().map(|x| if x.is_nan() { 0x7fc0_0000 } else { x.to_bits() as u64 }).collect(),
        },
        Value::Int32Tensor(t) => OutVal {
            dtype: "i32",
            shape: t.shape().to_vec(),
            bits: t.iter().map(|x| *x as u32 as u64).collect(),
        },
        Value::Int8Tensor(t) => OutVal {
            dtype: "i8",
            shape: t.shape().to_vec(),
            bits: t.iter().map(|x| *x as u8 as u64).collect(),
        },
        Value::UInt8Tensor(t) => OutVal {
            dtype: "u8",
            shape: t.shape().to_vec(),
            bits: t.iter().map(|x| *x as u64).collect(),
        },
        Value::Sequence(s) => {
            let mut bits = vec![];
            for item in s.iter() {
                let c = canon(&item.to_owned());
                bits.push(c.shape.len() as u64);
                bits.extend(c.shape.iter().map(|d| *d as u64));
                bits.extend(c.bits);
            }
            OutVal { dtype: "seq", shape: vec![s.len()], bits }
        }
        _ => OutVal { dtype: "other", shape: vec![], bits: vec![] },
    }
}

#[derive(Clone, PartialEq, Debug)]
enum Outcome {
    Ok(Vec<OutVal>),
    Err(String),
    Panic(String),
}

impl Outcome {
    fn class(&self) -> &'static str {
        match self {
            Outcome::Ok(_) => "ok",
            Outcome::Err(_) => "err",
            Outcome::Panic(_) => "panic",
        }
    }
    fn brief(&self) -> String {
        match self {
            Outcome::Ok(_) => "ok".into(),
            Outcome::Err(m) => format!("err({m})"),
            Outcome::Panic(m) => format!("panic({m})"),
        }
    }
}

/// First difference between the outcome of the normal run and another one. `cmp_msg`: also compare
/// the error strings when both are errors.
fn diff_outcome(a: &Outcome, b: &Outcome, out_ids: &[u32], cmp_msg: bool) -> Option<String> {
    match (a, b) {
        (Outcome::Ok(x), Outcome::Ok(y)) => {
            if x.len() != y.len() {
                return Some(format!("{} outputs vs {}", x.len(), y.len()));
            }
            for (i, (p, q)) in x.iter().zip(y).enumerate() {
                if p != q {
                    return Some(format!(
                        "output id {} (position {i}): R0={} other={}",
                        out_ids.get(i).copied().unwrap_or(u32::MAX),
                        p.brief(),
                        q.brief()
                    ));
                }
            }
            None
        }
        (Outcome::Err(x), Outcome::Err(y)) => {
            if cmp_msg && x != y {
                Some(format!("error message: R0=\"{x}\" other=\"{y}\""))
            } else {
                None
            }
        }
        (Outcome::Panic(_), Outcome::Panic(_)) => None,
        _ => Some(format!("R0={} other={}", a.brief(), b.brief())),
    }
}

// ---------------------------------------------------------------------------------------------
// Running one request under several configurations
// ---------------------------------------------------------------------------------------------

type RunFn<'a> = dyn for<'v> Fn(bool, Vec<(NodeId, ValueOrView<'v>)>, &[NodeId], RunOptions) -> Result<Vec<Value>, RunError>
    + 'a;

struct Case<'a> {
    fam: &'static str,
    infos: HashMap<usize, GInfo>,
    run: &'a RunFn<'a>,
    in_ids: Vec<NodeId>,
    in_vals: Vec<Value>,
    mask: Vec<bool>,
    outs: Vec<NodeId>,
    /// (input ids, output ids) of the same request in the alternative model (other prepack setting).
    alt: Option<(Vec<NodeId>, Vec<NodeId>)>,
    /// Naive evaluation (family B).
    naive: Option<Outcome>,
    tags: Vec<String>,
    root_ops: usize,
    /// description added to the note written when the run panics
    panic_info: String,
    /// the root graph, for runs with a permuted plan (`Graph::verif_run_with_plan`)
    root: Option<&'a Graph>,
    /// family S: operator outputs carry term hashes, so the answer of the `sym` request is taken from
    /// the REAL run's outputs instead of the harness's symbolic evaluation
    sym_real: bool,
}

#[derive(Clone)]
struct Cfg {
    name: String,
    nip: bool,
    pool_env: Option<&'static str>,
    pool_idx: usize,
    mask: Vec<bool>,
    alt: bool,
    always_emit: bool,
    /// run a random other topological order of `create_plan`'s plan (seed)
    perm: Option<u64>,
}

struct RunRec {
    outcome: Outcome,
    lines: Vec<Line>,
    unknown_graph: bool,
}

struct Pools {
    pools: Vec<Arc<ThreadPool>>,
}

impl Pools {
    fn new() -> Pools {
        // index 0: default pool of the normal run; 1..: the "other thread count" pools
        Pools { pools: [3usize, 1, 2, 5].iter().map(|&n| Arc::new(ThreadPool::with_num_threads(n))).collect() }
    }
}

/// A random topological order of `plan` (operators of `g`): an operator may run once every plan
/// operator producing one of its dependencies (inputs and captures) has run.
fn permute_plan(g: &Graph, plan: &[NodeId], seed: u64) -> Vec<NodeId> {
    let mut rng = Rng::new(seed);
    let mut producer: HashMap<NodeId, NodeId> = HashMap::new();
    let mut deps: HashMap<NodeId, Vec<NodeId>> = HashMap::new();
    for &op in plan {
        if let Some(Node::Operator(n)) = g.get_node(op) {
            for o in n.output_ids().iter().flatten() {
                producer.insert(*o, op);
            }
            let mut d: Vec<NodeId> = n.input_ids().iter().flatten().copied().collect();
            d.extend(n.capture_names().filter_map(|c| g.get_node_id(c)));
            deps.insert(op, d);
        }
    }
    let mut left: Vec<NodeId> = plan.to_vec();
    let mut done: BTreeSet<NodeId> = BTreeSet::new();
    let mut out = vec![];
    while !left.is_empty() {
        let ready: Vec<usize> = (0..left.len())
            .filter(|&i| {
                deps.get(&left[i]).map_or(true, |d| {
                    d.iter().all(|v| match producer.get(v) {
                        Some(p) => *p == left[i] || done.contains(p),
                        None => true,
                    })
                })
            })
            .collect();
        if ready.is_empty() {
            out.extend(left.drain(..)); // cannot happen for a valid plan
            break;
        }
        let k = ready[rng.usize_below(ready.len())];
        let op = left.remove(k);
        done.insert(op);
        out.push(op);
    }
    out
}

fn do_run(case: &Case, cfg: &Cfg, pools: &Pools) -> RunRec {
    let (ids, outs): (&[NodeId], &[NodeId]) = match (&case.alt, cfg.alt) {
        (Some((i, o)), true) => (i, o),
        _ => (&case.in_ids, &case.outs),
    };
    let inputs: Vec<(NodeId, ValueOrView)> = ids
        .iter()
        .zip(&case.in_vals)
        .zip(&cfg.mask)
        .map(|((id, v), owned)| {
            (*id, if *owned { ValueOrView::Value(v.clone()) } else { ValueOrView::View(v.as_view()) })
        })
        .collect();
    let opts = RunOptions::default().with_thread_pool(Some(pools.pools[cfg.pool_idx].clone()));
    match cfg.pool_env {
        Some(v) => std::env::set_var("RTEN_USE_POOL", v),
        None => std::env::remove_var("RTEN_USE_POOL"),
    }
    exec_trace::set_never_in_place(cfg.nip);
    exec_trace::start_trace();
    let res = hcommon::catch(|| match (cfg.perm, case.root) {
        (Some(seed), Some(root)) => {
            let popts = PlanOptions { allow_missing_inputs: false, captures_available: false };
            let plan = root.execution_plan(ids, outs, popts)?;
            let plan = permute_plan(root, &plan, seed);
            root.verif_run_with_plan(inputs, &plan, outs, Some(opts))
        }
        _ => (case.run)(cfg.alt, inputs, outs, opts),
    });
    let trace = exec_trace::take_trace();
    exec_trace::set_never_in_place(false);
    std::env::remove_var("RTEN_USE_POOL");
    let outcome = match res {
        Ok(Ok(vals)) => Outcome::Ok(vals.iter().map(canon).collect()),
        Ok(Err(e)) => Outcome::Err(format!("{e}").replace(['\n', '\t'], " ")),
        Err(m) => Outcome::Panic(m),
    };
    let calls = split_calls(&trace);
    // run_plan's own panics (the model predicts these); anything else is an operator panic
    let op_panic = match &outcome {
        Outcome::Panic(m) => ![
            "Invalid plan did not produce",
            "input is available",
            "missing output value",
            "is not a value or constant",
        ]
        .iter()
        .any(|own| m.contains(own)),
        _ => false,
    };
    let mut lines = vec![];
    let mut unknown_graph = false;
    for c in &calls {
        match case.infos.get(&c.graph) {
            Some(info) => lines.push(make_line(c, info, cfg.nip, op_panic)),
            None => unknown_graph = true,
        }
    }
    RunRec { outcome, lines, unknown_graph }
}

fn cap(n: usize, m: usize) -> String {
    if n >= m {
        format!("{m}+")
    } else {
        n.to_string()
    }
}

fn run_case(case: &Case, rng: &mut Rng, pools: &Pools, out: &mut Out) {
    let n_in = case.in_ids.len();
    let base_env = if rng.chance(1, 2) { None } else { Some("1") };
    let mut cfgs: Vec<Cfg> = vec![];
    let base = Cfg {
        name: "R0".into(),
        nip: false,
        pool_env: base_env,
        pool_idx: 0,
        mask: case.mask.clone(),
        alt: false,
        always_emit: true,
        perm: None,
    };
    cfgs.push(base.clone());
    cfgs.push(Cfg { name: "R1-never-in-place".into(), nip: true, ..base.clone() });
    let t = 1 + rng.usize_below(3);
    cfgs.push(Cfg { name: format!("R2-threads{}", [1, 2, 5][t - 1]), pool_idx: t, always_emit: false, ..base.clone() });
    cfgs.push(Cfg { name: "R3-pool0".into(), pool_env: Some("0"), ..base.clone() });
    if n_in > 0 {
        if n_in <= 2 {
            for m in 0..(1u32 << n_in) {
                let mask: Vec<bool> = (0..n_in).map(|i| m & (1 << i) != 0).collect();
                if mask != case.mask {
                    cfgs.push(Cfg { name: format!("R45-mask{}", mask_str(&mask)), mask, ..base.clone() });
                }
            }
        } else {
            for all in [false, true] {
                let mask = vec![all; n_in];
                if mask != case.mask {
                    cfgs.push(Cfg {
                        name: if all { "R5-all-owned".into() } else { "R4-all-borrowed".into() },
                        mask,
                        ..base.clone()
                    });
                }
            }
            let mask: Vec<bool> = (0..n_in).map(|_| rng.chance(1, 2)).collect();
            if mask != case.mask {
                cfgs.push(Cfg { name: format!("R45-mask{}", mask_str(&mask)), mask, always_emit: false, ..base.clone() });
            }
        }
        // reference mode with every input owned / borrowed too
        let mask = vec![!case.mask.iter().all(|b| *b); n_in];
        cfgs.push(Cfg { name: "R1b-never-in-place-flipped".into(), nip: true, mask, always_emit: false, ..base.clone() });
    }
    if case.alt.is_some() {
        cfgs.push(Cfg { name: "R6-other-prepack".into(), alt: true, always_emit: false, ..base.clone() });
    }
    let perm_idx = if case.root.is_some() {
        cfgs.push(Cfg { name: "R7-permuted-plan".into(), perm: Some(rng.next_u64()), ..base.clone() });
        Some(cfgs.len() - 1)
    } else {
        None
    };

    let recs: Vec<RunRec> = cfgs.iter().map(|c| do_run(case, c, pools)).collect();
    let out_ids: Vec<u32> = case.outs.iter().map(|i| i.as_u32()).collect();

    // ---- oracle
    let r0 = &recs[0];
    let mut fail: Option<String> = None;
    for (ci, (c, r)) in cfgs.iter().zip(&recs).enumerate().skip(1) {
        if Some(ci) == perm_idx {
            // another valid order of the plan: same outputs when R0 succeeds; when an operator fails both
            // fail, possibly at different operators (c02_error_depends_on_order)
            let d = match (&r0.outcome, &r.outcome) {
                (Outcome::Ok(_), _) => diff_outcome(&r0.outcome, &r.outcome, &out_ids, false),
                // R0 failing before run_plan (input validation in Model::run / Graph::run, which the
                // hook bypasses) says nothing about the plan
                (_, Outcome::Ok(_)) if !r0.lines.is_empty() => {
                    Some("R0 failed but the permuted plan succeeded".to_string())
                }
                _ => None,
            };
            out.bucket(if r.lines.first().map(|l| &l.req) != r0.lines.first().map(|l| &l.req) {
                "perm_plan_differs"
            } else {
                "perm_plan_same"
            });
            if let Some(d) = d {
                out.bucket("diff_R7");
                if fail.is_none() {
                    fail = Some(format!("permuted valid plan differs from R0 (mask {}): {d}", mask_str(&case.mask)));
                }
            }
            continue;
        }
        if let Some(d) = diff_outcome(&r0.outcome, &r.outcome, &out_ids, true) {
            out.bucket(&format!("diff_{}", c.name.split('-').next().unwrap_or("R")));
            if fail.is_none() {
                fail = Some(format!("configuration {} differs from R0 (mask {}): {d}", c.name, mask_str(&case.mask)));
            }
        }
    }
    if let Some(nv) = &case.naive {
        if let Some(d) = diff_outcome(&r0.outcome, nv, &out_ids, false) {
            out.bucket("diff_naive");
            if fail.is_none() {
                fail = Some(format!("naive evaluation differs from R0 (mask {}): {d}", mask_str(&case.mask)));
            }
        }
    }
    if let Some(f) = &mut fail {
        if !case.tags.is_empty() {
            *f += &format!(" [tags: {}]", case.tags.join(","));
        }
    }

    // ---- statistics
    out.bucket(&format!("family_{}", case.fam));
    out.bucket(&format!("outcome_{}", r0.outcome.class()));
    out.bucket(&format!("root_ops_{}", cap(case.root_ops, 13)));
    out.bucket(&format!("n_inputs_{}", cap(n_in, 6)));
    out.bucket(&format!("n_outputs_{}", cap(case.outs.len(), 5)));
    if n_in <= 4 {
        out.bucket(&format!("mask_{}", mask_str(&case.mask)));
    } else {
        out.bucket("mask_5+inputs");
    }
    out.bucket(if base_env.is_none() { "RTEN_USE_POOL_unset" } else { "RTEN_USE_POOL_1" });
    for t in &case.tags {
        out.bucket(&format!("tag_{t}"));
    }
    if let Outcome::Panic(m) = &r0.outcome {
        out.bucket("run_panicked");
        out.note(&format!("Model::run / Graph::run panicked (family {}): {m} | {}", case.fam, case.panic_info));
    }
    if r0.lines.is_empty() {
        out.bucket("planerr");
    } else {
        let l0 = &r0.lines[0];
        out.bucket(&format!("plan_steps_{}", cap(l0.n_steps, 13)));
        out.bucket(&format!("status_{}", l0.ans.split(['|', '@']).next().unwrap_or("?")));
        let ip: usize = r0.lines.iter().map(|l| l.n_inplace).sum();
        let bv: usize = r0.lines.iter().map(|l| l.n_byval).sum();
        let rl: usize = r0.lines.iter().map(|l| l.n_released).sum();
        out.bucket(&format!("inplace_steps_{}", cap(ip, 8)));
        out.bucket(&format!("byvalue_captures_{}", cap(bv, 4)));
        out.bucket(&format!("released_{}", cap(rl, 8)));
        out.bucket(&format!("nested_runs_{}", cap(r0.lines.len() - 1, 5)));
        let maxd = r0.lines.iter().map(|l| l.depth).max().unwrap_or(0);
        out.bucket(&format!("max_depth_{maxd}"));
        if r0.lines.iter().skip(1).any(|l| l.n_inplace > 0) {
            out.bucket("inplace_inside_subgraph");
        }
    }
    if recs.iter().any(|r| r.unknown_graph) {
        out.bucket("harness_unknown_graph");
        out.note("a Begin event referred to a graph address that is not reachable from the root graph");
    }

    // CapsWF is a hypothesis of the capture theorems: a violation is an assumption failure of the check
    if fail.is_none() {
        if let Some(v) = recs.iter().flat_map(|r| r.lines.iter()).flat_map(|l| l.capswf.iter()).next() {
            fail = Some(format!("ASSUMPTION CapsWF (kind clause) violated in a nested run: {v}"));
        }
    }
    let real_sym = |r: &RunRec, l: &Line| -> String {
        match &r.outcome {
            Outcome::Ok(vs) => format!(
                "ok|{}",
                hcommon::join(
                    vs.iter().map(|v| {
                        let f: Vec<f32> = v.bits.iter().map(|b| f32::from_bits(*b as u32)).collect();
                        vec_hash(&f)
                    }),
                    ","
                )
            ),
            _ => l.ans.split('|').next().unwrap_or("?").to_string(),
        }
    };

    // ---- emission
    let r0_ans0: Option<String> = r0.lines.first().map(|l| l.ans.clone());
    for (ci, (c, r)) in cfgs.iter().zip(&recs).enumerate() {
        if r.lines.is_empty() {
            if ci == 0 {
                // no run_plan call at all: nothing for the model, but keep the oracle verdict visible
                if let Some(f) = &fail {
                    out.case(
                        &format!("# planerr {} ins={} outs={}", case.fam, ids_str(case.in_ids.iter().map(|i| i.as_u32())), ids_str(out_ids.iter().copied())),
                        "planerr",
                        Some(f),
                        false,
                    );
                }
            }
            continue;
        }
        let same_as_r0 = r.lines.first().map(|l| &l.ans) == r0_ans0.as_ref();
        if !c.always_emit && same_as_r0 {
            out.bucket("lines_suppressed_same_as_R0");
            continue;
        }
        if !c.always_emit {
            out.bucket("lines_emitted_because_answer_differs");
        }
        for (li, l) in r.lines.iter().enumerate() {
            let pf = if ci == 0 && li == 0 { fail.as_deref() } else { None };
            let nontrivial = l.n_inplace > 0 || l.n_released > 0 || l.n_byval > 0;
            out.case(&l.req, &l.ans, pf, nontrivial);
            out.bucket(&format!("line_depth_{}", l.depth.min(3)));
            if ci == 0 || Some(ci) == perm_idx {
                if let Some((sreq, sans)) = &l.sym {
                    if case.sym_real && li == 0 {
                        // the answer comes from the REAL run's output values
                        let real = real_sym(r, l);
                        let pf2 = (real != *sans).then(|| {
                            format!("real outputs carry term hashes {real} but the harness's symbolic naive evaluation gives {sans}")
                        });
                        out.case(sreq, &real, pf2.as_deref(), true);
                        out.bucket(if Some(ci) == perm_idx { "sym_real_lines_perm" } else { "sym_real_lines" });
                    } else {
                        out.case(sreq, sans, None, false);
                        out.bucket(if Some(ci) == perm_idx { "sym_lines_perm" } else { "sym_lines" });
                    }
                }
            }
            for v in &l.capswf {
                out.bucket("capswf_violation");
                out.note(&format!("CapsWF violated in a nested run ({}): {v}", case.fam));
            }
            if l.depth > 0 && l.capswf.is_empty() {
                out.bucket("capswf_checked_ok");
            }
        }
    }
}

fn mask_str(m: &[bool]) -> String {
    if m.is_empty() {
        "-".into()
    } else {
        m.iter().map(|b| if *b { 'o' } else { 'b' }).collect()
    }
}

// ---------------------------------------------------------------------------------------------
// Request generation on a loaded / built graph
// ---------------------------------------------------------------------------------------------

struct ReqSpec {
    inputs: Vec<(NodeId, Value)>,
    mask: Vec<bool>,
    outputs: Vec<NodeId>,
    tags: Vec<String>,
}

/// `mk(rng, id, name, is_const)` makes a runtime value for node `id` (None: cannot make one).
fn build_request(
    rng: &mut Rng,
    g: &Graph,
    mk: &mut dyn FnMut(&mut Rng, NodeId, &str, bool) -> Option<Value>,
) -> ReqSpec {
    let mut vals: Vec<NodeId> = vec![];
    let mut consts: Vec<NodeId> = vec![];
    let mut multi: Vec<Vec<NodeId>> = vec![];
    let mut consumed: BTreeSet<NodeId> = BTreeSet::new();
    let mut nodes: Vec<(NodeId, &Node)> = g.iter().collect();
    nodes.sort_by_key(|(id, _)| id.as_u32());
    for (id, n) in &nodes {
        match n {
            Node::Value(_) => vals.push(*id),
            Node::Constant(_) => consts.push(*id),
            Node::Operator(op) => {
                let os: Vec<NodeId> = op.output_ids().iter().flatten().copied().collect();
                if os.len() >= 2 {
                    multi.push(os);
                }
                consumed.extend(op.input_ids().iter().flatten().copied());
                consumed.extend(op.capture_names().filter_map(|n| g.get_node_id(n)));
            }
        }
    }
    let sources: Vec<NodeId> = vals.iter().copied().filter(|v| g.get_source_node(*v).is_none()).collect();
    let produced: Vec<NodeId> = vals.iter().copied().filter(|v| g.get_source_node(*v).is_some()).collect();
    let mut tags: Vec<String> = vec![];
    let mut in_ids: Vec<NodeId> = sources.clone();
    if !in_ids.is_empty() && rng.chance(1, 40) {
        let k = rng.usize_below(in_ids.len());
        in_ids.remove(k);
        tags.push("missing_input".into());
    }
    let mut must_out: Vec<NodeId> = vec![];
    if !produced.is_empty() && rng.chance(3, 10) {
        for _ in 0..1 + rng.usize_below(2) {
            let v = *rng.pick(&produced);
            if !in_ids.contains(&v) {
                in_ids.push(v);
                if !tags.contains(&"override_intermediate".to_string()) {
                    tags.push("override_intermediate".into());
                }
            }
        }
    }
    if !multi.is_empty() && rng.chance(1, 5) {
        let os = rng.pick(&multi).clone();
        let a = rng.usize_below(os.len());
        let mut b = rng.usize_below(os.len());
        if b == a {
            b = (a + 1) % os.len();
        }
        if !in_ids.contains(&os[a]) {
            in_ids.push(os[a]);
        }
        if !in_ids.contains(&os[b]) {
            must_out.push(os[b]);
            tags.push("override_multi_out".into());
        }
    }
    let used_consts: Vec<NodeId> = consts.iter().copied().filter(|c| consumed.contains(c)).collect();
    if !consts.is_empty() && rng.chance(1, 9) {
        let c = if !used_consts.is_empty() && rng.chance(4, 5) { *rng.pick(&used_consts) } else { *rng.pick(&consts) };
        in_ids.push(c);
        tags.push("input_for_constant".into());
        if rng.chance(1, 2) {
            must_out.push(c);
            tags.push("input_for_constant_requested".into());
        }
    }
    // outputs
    let mut outputs: Vec<NodeId> = vec![];
    for m in must_out {
        if !outputs.contains(&m) {
            outputs.push(m);
        }
    }
    let k = 1 + rng.usize_below(3);
    let mut tries = 0;
    while (outputs.len() < k || outputs.is_empty()) && tries < 20 {
        tries += 1;
        let pool: &[NodeId] = match rng.below(20) {
            0..=12 if !produced.is_empty() => &produced,
            13..=15 if !in_ids.is_empty() => &in_ids,
            16..=17 if !consts.is_empty() => &consts,
            _ if !vals.is_empty() => &vals,
            _ => &consts,
        };
        if pool.is_empty() {
            continue;
        }
        let v = if rng.chance(1, 2) {
            pool[pool.len() - 1 - rng.usize_below(pool.len().min(3))]
        } else {
            *rng.pick(pool)
        };
        if !outputs.contains(&v) {
            outputs.push(v);
        }
    }
    if !produced.is_empty() && !outputs.iter().any(|o| produced.contains(o) && !in_ids.contains(o)) && rng.chance(7, 10) {
        let cand: Vec<NodeId> = produced.iter().copied().filter(|p| !in_ids.contains(p) && !outputs.contains(p)).collect();
        if !cand.is_empty() {
            outputs.push(*rng.pick(&cand));
        }
    }
    rng.shuffle(&mut outputs);
    rng.shuffle(&mut in_ids);
    let mut inputs = vec![];
    for id in in_ids {
        let is_const = consts.contains(&id);
        let name = g.node_name(id);
        if let Some(v) = mk(rng, id, &name, is_const) {
            inputs.push((id, v));
        }
    }
    let mask: Vec<bool> = match rng.below(6) {
        0 => vec![true; inputs.len()],
        1 => vec![false; inputs.len()],
        _ => (0..inputs.len()).map(|_| rng.chance(1, 2)).collect(),
    };
    // descriptive tags about the requested outputs
    let in_set: Vec<NodeId> = inputs.iter().map(|(i, _)| *i).collect();
    if outputs.iter().any(|o| in_set.contains(o)) {
        tags.push("output_is_input".into());
    }
    if outputs.iter().any(|o| consts.contains(o)) {
        tags.push("output_is_constant".into());
    }
    if outputs.iter().any(|o| produced.contains(o) && consumed.contains(o)) {
        tags.push("output_is_consumed_intermediate".into());
    }
    ReqSpec { inputs, mask, outputs, tags }
}

fn rand_f(rng: &mut Rng, n: usize) -> Vec<f32> {
    (0..n).map(|_| rng.range_i64(-3, 4) as f32).collect()
}

fn fvalue(shape: &[usize], data: Vec<f32>) -> Value {
    Value::from(Tensor::from_data(shape, data))
}

fn ivalue(shape: &[usize], data: Vec<i32>) -> Value {
    Value::from(Tensor::from_data(shape, data))
}

// ---------------------------------------------------------------------------------------------
// Family B: mock operators, graph descriptors, naive evaluation
// ---------------------------------------------------------------------------------------------

#[derive(Clone, Debug, PartialEq)]
enum Fail {
    No,
    Always,
    /// returns one output fewer than declared
    Short,
    /// fails iff two present inputs have different lengths
    LenMismatch,
}

#[derive(Clone, Debug)]
struct MockSpec {
    n_out: usize,
    ip: Vec<u32>,
    comm: bool,
    fail: Fail,
    /// `Some(node id)`: symbolic mock (family S) — its outputs carry the hash of the term that defines
    /// them (same hash as the Lean driver's `sym` request), so the REAL run's values can be compared with
    /// the Lean executor model's answer.
    sym: Option<u32>,
}

/// A 61-bit hash as four 16-bit limbs (exact in f32), padded with zeros to `4 + (h >> 7) % 4` elements.
fn hash_vec(h: u64) -> Vec<f32> {
    let mut v: Vec<f32> = (0..4).map(|i| ((h >> (16 * i)) & 0xffff) as f32).collect();
    v.resize(4 + ((h >> 7) % 4) as usize, 0.0);
    v
}

fn vec_hash(v: &[f32]) -> u64 {
    (0..4).map(|i| (v.get(i).copied().unwrap_or(0.0) as u64 & 0xffff) << (16 * i)).sum()
}

/// The mock semantics: a pure function of the (optional) inputs seen as f32 vectors.
/// `out_k[i] = (k + sum_j w_j * in_j[i mod len_j]) mod 61`, `w_j = j + 2` (3 for commutative mocks, so
/// that the function is symmetric), output length = the longest present input (2 without inputs).
fn mock_eval(spec: &MockSpec, ins: &[Option<Vec<f32>>]) -> Result<Vec<Vec<f32>>, &'static str> {
    if spec.fail == Fail::Always {
        return Err("mock: always fails");
    }
    let present: Vec<(usize, &Vec<f32>)> =
        ins.iter().enumerate().filter_map(|(j, v)| v.as_ref().map(|v| (j, v))).collect();
    if spec.fail == Fail::LenMismatch {
        if let Some((_, first)) = present.first() {
            if present.iter().any(|(_, v)| v.len() != first.len()) {
                return Err("mock: length mismatch");
            }
        }
    }
    let len = if present.is_empty() { 2 } else { present.iter().map(|(_, v)| v.len()).max().unwrap_or(0) };
    let n = if spec.fail == Fail::Short { spec.n_out.saturating_sub(1) } else { spec.n_out };
    if let Some(op) = spec.sym {
        // h = fold mix over the inputs (3 for an omitted input), output k = mix(mix(h, 5), k)
        let mut h = mix(4, op as u64);
        for i in ins {
            h = mix(h, i.as_ref().map(|v| vec_hash(v)).unwrap_or(3));
        }
        return Ok((0..n).map(|k| hash_vec(mix(mix(h, 5), k as u64))).collect());
    }
    let mut outs = vec![];
    for k in 0..n {
        let mut o = Vec::with_capacity(len);
        for i in 0..len {
            let mut acc = k as f32;
            for (j, v) in &present {
                if !v.is_empty() {
                    let w = if spec.comm { 3.0 } else { (*j + 2) as f32 };
                    acc += w * v[i % v.len()];
                }
            }
            o.push(acc % 61.0);
        }
        outs.push(o);
    }
    Ok(outs)
}

fn view_to_f32(v: ValueView) -> Vec<f32> {
    match v {
        ValueView::FloatTensor(t) => t.iter().copied().collect(),
        ValueView::Int32Tensor(t) => t.iter().map(|x| *x as f32).collect(),
        ValueView::Int8Tensor(t) => t.iter().map(|x| *x as f32).collect(),
        ValueView::UInt8Tensor(t) => t.iter().map(|x| *x as f32).collect(),
        _ => vec![],
    }
}

#[derive(Debug)]
struct Mock {
    spec: MockSpec,
}

impl Operator for Mock {
    fn name(&self) -> &str {
        "Mock"
    }
    fn max_inputs(&self) -> Option<usize> {
        None
    }
    fn max_outputs(&self) -> Option<usize> {
        None
    }
    fn output_types(&self, _ctx: &OutputTypesContext) -> Option<OutputTypeList> {
        None
    }
    fn as_infer_shapes(&self) -> Option<&dyn InferShapes> {
        None
    }
    fn in_place_inputs(&self) -> BitSet<u16> {
        BitSet::from_indices(self.spec.ip.iter().copied())
    }
    fn is_commutative(&self) -> bool {
        self.spec.comm
    }
    fn run(&self, ctx: &OpRunContext) -> Result<OutputList, OpError> {
        let n = ctx.inputs().len();
        let ins: Vec<Option<Vec<f32>>> = (0..n).map(|j| ctx.inputs().get(j).map(view_to_f32)).collect();
        let outs = mock_eval(&self.spec, &ins).map_err(OpError::InvalidValue)?;
        Ok(outs.into_iter().map(|v| fvalue(&[v.len()], v)).collect())
    }
    fn run_in_place(&self, in_place: InPlaceInputs, ctx: &OpRunContext) -> Result<OutputList, OpError> {
        let n = ctx.inputs().len();
        let mut taken: Vec<(usize, Option<Value>)> = in_place.into_iter().map(|(p, v)| (p, Some(v))).collect();
        // Same function as `run`, with the taken values re-inserted at their positions.
        let ins: Vec<Option<Vec<f32>>> = (0..n)
            .map(|j| match taken.iter().find(|(p, _)| *p == j) {
                Some((_, v)) => v.as_ref().map(|v| view_to_f32(v.as_view())),
                None => ctx.inputs().get(j).map(view_to_f32),
            })
            .collect();
        // In-place execution is destructive: scribble over every taken buffer.
        for (_, v) in taken.iter_mut() {
            if let Some(Value::FloatTensor(t)) = v {
                if let Some(d) = t.data_mut() {
                    d.iter_mut().for_each(|x| *x = -777.0);
                }
            }
        }
        let outs = mock_eval(&self.spec, &ins).map_err(OpError::InvalidValue)?;
        let mut result: Vec<Value> = vec![];
        for (k, data) in outs.into_iter().enumerate() {
            // return the k-th result in the k-th taken buffer when it fits
            if let Some((_, slot)) = taken.get_mut(k) {
                if let Some(Value::FloatTensor(mut t)) = slot.take() {
                    if t.shape() == [data.len()] {
                        if let Some(d) = t.data_mut() {
                            d.copy_from_slice(&data);
                            result.push(Value::FloatTensor(t));
                            continue;
                        }
                    }
                }
            }
            result.push(fvalue(&[data.len()], data));
        }
        Ok(result.into_iter().collect())
    }
}

#[derive(Clone, Debug)]
enum OpK {
    Mock(MockSpec),
    Identity,
    Shape,
    If(Box<GD>, Box<GD>),
}

#[derive(Clone, Debug)]
enum NK {
    Val,
    /// placeholder for a value captured from an enclosing graph (named like the captured node)
    Cap,
    ConstF(Vec<f32>),
    /// i32 constant; `true`: rank-0 scalar
    ConstI(Vec<i32>, bool),
    Op { k: OpK, ins: Vec<Option<u32>>, outs: Vec<Option<u32>> },
}

#[derive(Clone, Debug, Default)]
struct GD {
    names: Vec<String>,
    nodes: Vec<NK>,
    outputs: Vec<u32>,
    /// root only: value ids meant to be i32 scalar (condition) inputs
    cond_inputs: Vec<u32>,
    n_ops_total: usize,
}

#[derive(Clone, Copy, PartialEq, Debug)]
enum VK {
    F,
    /// i32 scalar usable as an `If` condition
    Cond,
    /// i32 vector (Shape output)
    IVec,
}

fn build_graph(gd: &GD) -> Graph {
    let mut g = Graph::new();
    let mut caps = vec![];
    for (i, n) in gd.nodes.iter().enumerate() {
        let name = &gd.names[i];
        let id = match n {
            NK::Val => g.add_value(Some(name), None, None),
            NK::Cap => {
                let id = g.add_value(Some(name), None, None);
                caps.push(id);
                id
            }
            NK::ConstF(v) => g.add_constant(Some(name), Tensor::from_data(&[v.len()], v.clone()).into_arc()),
            NK::ConstI(v, scalar) => {
                if *scalar {
                    g.add_constant(Some(name), Tensor::from(v[0]).into_arc())
                } else {
                    g.add_constant(Some(name), Tensor::from_data(&[v.len()], v.clone()).into_arc())
                }
            }
            NK::Op { k, ins, outs } => {
                let op: Arc<dyn Operator + Send + Sync> = match k {
                    OpK::Mock(spec) => Arc::new(Mock { spec: spec.clone() }),
                    OpK::Identity => op_identity(),
                    OpK::Shape => op_shape(),
                    OpK::If(t, e) => op_if(build_graph(t), build_graph(e)),
                };
                let ins: Vec<Option<NodeId>> = ins.iter().map(|x| x.map(NodeId::from_u32)).collect();
                let outs: Vec<Option<NodeId>> = outs.iter().map(|x| x.map(NodeId::from_u32)).collect();
                g.add_op(Some(name), op, &ins, &outs)
            }
        };
        assert_eq!(id.as_u32() as usize, i);
    }
    g.set_captures(&caps);
    let outs: Vec<NodeId> = gd.outputs.iter().map(|&o| NodeId::from_u32(o)).collect();
    g.set_output_ids(&outs);
    g
}

struct BGen<'r> {
    rng: &'r mut Rng,
    uid: usize,
}

impl<'r> BGen<'r> {
    fn pick_local(&mut self, loc: &[(u32, VK)], pred: impl Fn(VK) -> bool) -> Option<u32> {
        let idx: Vec<usize> = (0..loc.len()).filter(|&i| pred(loc[i].1)).collect();
        if idx.is_empty() {
            return None;
        }
        let k = if self.rng.chance(1, 2) {
            idx[idx.len() - 1 - self.rng.usize_below(idx.len().min(3))]
        } else {
            *self.rng.pick(&idx)
        };
        Some(loc[k].0)
    }

    fn mock_spec(&mut self, n_in: usize) -> MockSpec {
        let rng = &mut *self.rng;
        let n_out = match rng.below(10) {
            0..=5 => 1,
            6..=8 => 2,
            _ => 3,
        };
        let comm = rng.chance(3, 10);
        let mut ip: Vec<u32> = vec![];
        match rng.below(10) {
            0 | 1 => {}
            2..=6 => ip.push(if comm && rng.chance(3, 4) { 0 } else { rng.below(3) as u32 }),
            7 | 8 => {
                let a = rng.below(3) as u32;
                let mut b = rng.below(3) as u32;
                if b == a {
                    b = (a + 1) % 3;
                }
                ip.push(a.min(b));
                ip.push(a.max(b));
            }
            _ => ip.push(n_in as u32 + rng.below(2) as u32), // index outside the input list
        }
        let fail = match rng.below(50) {
            0 => Fail::Always,
            1 => Fail::Short,
            2 | 3 => Fail::LenMismatch,
            _ => Fail::No,
        };
        MockSpec { n_out, ip, comm, fail, sym: None }
    }

    /// Generate a graph. `outer`: names (and kinds) visible from enclosing graphs.
    fn gen_graph(&mut self, outer: &[(String, VK)], depth: usize) -> GD {
        let root = depth == 0;
        self.uid += 1;
        let prefix = if root { "n".to_string() } else { format!("t{}_", self.uid) };
        let mut gd = GD::default();
        let mut loc: Vec<(u32, VK)> = vec![];
        macro_rules! push {
            ($nk:expr, $name:expr) => {{
                gd.nodes.push($nk);
                let i = gd.nodes.len() - 1;
                let nm: Option<String> = $name;
                gd.names.push(nm.unwrap_or_else(|| format!("{prefix}{i}")));
                i as u32
            }};
        }
        if root {
            for _ in 0..1 + self.rng.usize_below(3) {
                let i = push!(NK::Val, None);
                loc.push((i, VK::F));
            }
            if self.rng.chance(3, 10) {
                let i = push!(NK::Val, None);
                loc.push((i, VK::Cond));
                gd.cond_inputs.push(i);
            }
            for _ in 0..self.rng.usize_below(3) {
                let n = *self.rng.pick(&[1usize, 2, 3, 4, 6]);
                let d = rand_f(self.rng, n);
                let i = push!(NK::ConstF(d), None);
                loc.push((i, VK::F));
            }
            if self.rng.chance(1, 2) {
                let c = self.rng.below(2) as i32;
                let i = push!(NK::ConstI(vec![c], true), None);
                loc.push((i, VK::Cond));
            }
        } else {
            let mut cand: Vec<(String, VK)> = outer.to_vec();
            self.rng.shuffle(&mut cand);
            let ncap = (1 + self.rng.usize_below(3)).min(cand.len());
            for (name, k) in cand.into_iter().take(ncap) {
                if gd.names.contains(&name) {
                    continue;
                }
                let i = push!(NK::Cap, Some(name));
                loc.push((i, k));
            }
            if self.rng.chance(3, 10) {
                let n = *self.rng.pick(&[1usize, 2, 4]);
                let d = rand_f(self.rng, n);
                let i = push!(NK::ConstF(d), None);
                loc.push((i, VK::F));
            }
        }
        let n_ops = if root {
            match self.rng.below(10) {
                0 => 1,
                1..=4 => 2 + self.rng.usize_below(3),
                5..=8 => 4 + self.rng.usize_below(5),
                _ => 9 + self.rng.usize_below(4),
            }
        } else {
            self.rng.usize_below(4)
        };
        for _ in 0..n_ops {
            gd.n_ops_total += 1;
            let kind = self.rng.below(100);
            if kind < 68 || loc.is_empty() {
                // mock
                let n_in = match self.rng.below(20) {
                    0 => 0,
                    1..=7 => 1,
                    8..=15 => 2,
                    _ => 3,
                };
                let mut ins: Vec<Option<u32>> = vec![];
                for _ in 0..n_in {
                    if self.rng.chance(1, 16) || loc.is_empty() {
                        ins.push(None);
                    } else if !ins.is_empty() && self.rng.chance(1, 6) {
                        let prev = ins[self.rng.usize_below(ins.len())];
                        ins.push(prev); // the same value consumed twice
                    } else {
                        ins.push(self.pick_local(&loc, |_| true));
                    }
                }
                let spec = self.mock_spec(n_in);
                let mut outs: Vec<Option<u32>> = vec![];
                let mut new_vals = vec![];
                for _ in 0..spec.n_out {
                    if self.rng.chance(1, 8) {
                        outs.push(None);
                    } else {
                        let i = push!(NK::Val, None);
                        outs.push(Some(i));
                        new_vals.push(i);
                    }
                }
                if new_vals.is_empty() {
                    let i = push!(NK::Val, None);
                    outs[0] = Some(i);
                    new_vals.push(i);
                }
                push!(NK::Op { k: OpK::Mock(spec), ins, outs }, None);
                loc.extend(new_vals.into_iter().map(|i| (i, VK::F)));
            } else if kind < 78 {
                let x = self.pick_local(&loc, |_| true).unwrap();
                let k = loc.iter().find(|(i, _)| *i == x).unwrap().1;
                let o = push!(NK::Val, None);
                push!(NK::Op { k: OpK::Identity, ins: vec![Some(x)], outs: vec![Some(o)] }, None);
                loc.push((o, k));
            } else if kind < 84 {
                let x = self.pick_local(&loc, |_| true).unwrap();
                let o = push!(NK::Val, None);
                push!(NK::Op { k: OpK::Shape, ins: vec![Some(x)], outs: vec![Some(o)] }, None);
                loc.push((o, VK::IVec));
            } else if depth < 2 {
                // If
                let cond = if self.rng.chance(1, 25) {
                    self.pick_local(&loc, |_| true)
                } else {
                    self.pick_local(&loc, |k| k == VK::Cond)
                };
                let cond = match cond {
                    Some(c) => c,
                    None => {
                        let c = self.rng.below(2) as i32;
                        let i = push!(NK::ConstI(vec![c], true), None);
                        loc.push((i, VK::Cond));
                        i
                    }
                };
                let mut vis: Vec<(String, VK)> =
                    loc.iter().map(|(i, k)| (gd.names[*i as usize].clone(), *k)).collect();
                for (n, k) in outer {
                    if !vis.iter().any(|(m, _)| m == n) {
                        vis.push((n.clone(), *k));
                    }
                }
                let then_g = self.gen_graph(&vis, depth + 1);
                let mut else_g = if self.rng.chance(1, 12) { GD::default() } else { self.gen_graph(&vis, depth + 1) };
                if else_g.nodes.is_empty() {
                    else_g.names.clear();
                }
                gd.n_ops_total += then_g.n_ops_total + else_g.n_ops_total;
                let n_out = if self.rng.chance(4, 5) {
                    then_g.outputs.len().max(1)
                } else {
                    1 + self.rng.usize_below(2)
                };
                let mut outs = vec![];
                let mut new_vals = vec![];
                for _ in 0..n_out {
                    let i = push!(NK::Val, None);
                    outs.push(Some(i));
                    new_vals.push(i);
                }
                push!(NK::Op { k: OpK::If(Box::new(then_g), Box::new(else_g)), ins: vec![Some(cond)], outs }, None);
                loc.extend(new_vals.into_iter().map(|i| (i, VK::F)));
            }
        }
        if !root {
            // subgraph outputs: mostly produced values, sometimes a capture or constant itself
            let produced: Vec<u32> = (0..gd.nodes.len() as u32)
                .filter(|&i| matches!(gd.nodes[i as usize], NK::Val))
                .collect();
            let n_out = 1 + self.rng.usize_below(2);
            for _ in 0..n_out {
                let v = if !produced.is_empty() && self.rng.chance(7, 8) {
                    if self.rng.chance(1, 2) {
                        produced[produced.len() - 1 - self.rng.usize_below(produced.len().min(2))]
                    } else {
                        *self.rng.pick(&produced)
                    }
                } else if !loc.is_empty() {
                    self.rng.pick(&loc).0
                } else {
                    continue;
                };
                if !gd.outputs.contains(&v) {
                    gd.outputs.push(v);
                }
            }
        }
        gd
    }
}

// ---- naive evaluation -------------------------------------------------------------------------

#[derive(Clone, Debug, PartialEq)]
enum NV {
    F(Vec<usize>, Vec<f32>),
    I(Vec<usize>, Vec<i32>),
}

impl NV {
    fn as_f32(&self) -> Vec<f32> {
        match self {
            NV::F(_, d) => d.clone(),
            NV::I(_, d) => d.iter().map(|x| *x as f32).collect(),
        }
    }
    fn shape(&self) -> &[usize] {
        match self {
            NV::F(s, _) | NV::I(s, _) => s,
        }
    }
    fn to_outval(&self) -> OutVal {
        match self {
            NV::F(s, d) => OutVal {
                dtype: "f32",
                shape: s.clone(),
                bits: d.iter().map(|x| if x.is_nan() { 0x7fc0_0000 } else { x.to_bits() as u64 }).collect(),
            },
            NV::I(s, d) => OutVal { dtype: "i32", shape: s.clone(), bits: d.iter().map(|x| *x as u32 as u64).collect() },
        }
    }
    fn from_value(v: &Value) -> Option<NV> {
        match v {
            Value::FloatTensor(t) => Some(NV::F(t.shape().to_vec(), t.iter().copied().collect())),
            Value::Int32Tensor(t) => Some(NV::I(t.shape().to_vec(), t.iter().copied().collect())),
            _ => None,
        }
    }
}

struct Scope<'a> {
    gd: &'a GD,
    parent: Option<&'a Scope<'a>>,
    inputs: &'a HashMap<u32, NV>,
    memo: RefCell<HashMap<u32, Result<NV, String>>>,
}

impl<'a> Scope<'a> {
    fn eval_name(&self, name: &str) -> Result<NV, String> {
        if let Some(i) = self.gd.names.iter().position(|n| n == name) {
            if !matches!(self.gd.nodes[i], NK::Cap) {
                return self.eval(i as u32);
            }
        }
        match self.parent {
            Some(p) => p.eval_name(name),
            None => Err(format!("unresolved capture {name}")),
        }
    }

    fn eval(&self, id: u32) -> Result<NV, String> {
        if let Some(r) = self.memo.borrow().get(&id) {
            return r.clone();
        }
        let r = self.eval_uncached(id);
        self.memo.borrow_mut().insert(id, r.clone());
        r
    }

    fn eval_uncached(&self, id: u32) -> Result<NV, String> {
        match self.gd.nodes.get(id as usize) {
            None | Some(NK::Op { .. }) => Err(format!("{id} is not a value")),
            // constants win over supplied inputs (what the executor does for borrowed inputs)
            Some(NK::ConstF(d)) => Ok(NV::F(vec![d.len()], d.clone())),
            Some(NK::ConstI(d, scalar)) => Ok(NV::I(if *scalar { vec![] } else { vec![d.len()] }, d.clone())),
            Some(NK::Cap) => match self.parent {
                Some(p) => p.eval_name(&self.gd.names[id as usize]),
                None => Err("capture without parent".into()),
            },
            Some(NK::Val) => {
                // supplied inputs override computed values
                if let Some(v) = self.inputs.get(&id) {
                    return Ok(v.clone());
                }
                let producer = self.gd.nodes.iter().enumerate().rev().find_map(|(i, n)| match n {
                    NK::Op { outs, .. } if outs.contains(&Some(id)) => Some(i),
                    _ => None,
                });
                let Some(p) = producer else { return Err(format!("missing input {id}")) };
                let NK::Op { k, ins, outs } = &self.gd.nodes[p] else { unreachable!() };
                let mut trimmed: &[Option<u32>] = outs;
                while let Some((None, rest)) = trimmed.split_last() {
                    trimmed = rest;
                }
                let vals = self.eval_op(k, ins)?;
                if vals.len() < trimmed.len() {
                    return Err(format!("operator {p} returned too few outputs"));
                }
                let pos = trimmed.iter().position(|o| *o == Some(id)).unwrap();
                // memoize the sibling outputs (unless supplied as inputs)
                for (o, v) in trimmed.iter().zip(&vals) {
                    if let Some(o) = o {
                        if *o != id && !self.inputs.contains_key(o) {
                            self.memo.borrow_mut().entry(*o).or_insert_with(|| Ok(v.clone()));
                        }
                    }
                }
                Ok(vals[pos].clone())
            }
        }
    }

    fn eval_op(&self, k: &OpK, ins: &[Option<u32>]) -> Result<Vec<NV>, String> {
        let mut args: Vec<Option<NV>> = vec![];
        for i in ins {
            args.push(match i {
                Some(i) => Some(self.eval(*i)?),
                None => None,
            });
        }
        match k {
            OpK::Mock(spec) => {
                let fins: Vec<Option<Vec<f32>>> = args.iter().map(|a| a.as_ref().map(|a| a.as_f32())).collect();
                let outs = mock_eval(spec, &fins).map_err(|e| e.to_string())?;
                Ok(outs.into_iter().map(|d| NV::F(vec![d.len()], d)).collect())
            }
            OpK::Identity => match args.first() {
                Some(Some(a)) => Ok(vec![a.clone()]),
                _ => Err("identity: missing input".into()),
            },
            OpK::Shape => match args.first() {
                Some(Some(a)) => {
                    let s: Vec<i32> = a.shape().iter().map(|d| *d as i32).collect();
                    Ok(vec![NV::I(vec![s.len()], s)])
                }
                _ => Err("shape: missing input".into()),
            },
            OpK::If(t, e) => {
                let c = match args.first() {
                    Some(Some(NV::I(_, d))) if d.len() == 1 => d[0],
                    _ => return Err("if: bad condition".into()),
                };
                // The executor computes every value captured by either branch (transitively) before the
                // operator runs, whichever branch is taken.
                for name in all_cap_names(t).into_iter().chain(all_cap_names(e)) {
                    if let Some(i) = self.gd.names.iter().position(|n| *n == name) {
                        self.eval(i as u32)?;
                    }
                }
                let branch: &GD = if c != 0 { t } else { e };
                let empty = HashMap::new();
                let sc = Scope { gd: branch, parent: Some(self), inputs: &empty, memo: RefCell::new(HashMap::new()) };
                let mut outs = vec![];
                for o in &branch.outputs {
                    outs.push(sc.eval(*o)?);
                }
                Ok(outs)
            }
        }
    }
}

/// Names captured by `gd` or (transitively) by the subgraphs of its operators.
fn all_cap_names(gd: &GD) -> Vec<String> {
    let mut v = vec![];
    for (i, n) in gd.nodes.iter().enumerate() {
        match n {
            NK::Cap => v.push(gd.names[i].clone()),
            NK::Op { k: OpK::If(t, e), .. } => {
                v.extend(all_cap_names(t));
                v.extend(all_cap_names(e));
            }
            _ => {}
        }
    }
    v
}

fn naive_eval(gd: &GD, inputs: &HashMap<u32, NV>, outs: &[u32]) -> Outcome {
    let sc = Scope { gd, parent: None, inputs, memo: RefCell::new(HashMap::new()) };
    let mut vals = vec![];
    for o in outs {
        // requested outputs: constants and supplied inputs are returned as they are
        match sc.eval(*o) {
            Ok(v) => vals.push(v.to_outval()),
            Err(e) => return Outcome::Err(e),
        }
    }
    Outcome::Ok(vals)
}

fn family_b_case(rng: &mut Rng, pools: &Pools, out: &mut Out) {
    let gd = {
        let mut bg = BGen { rng: &mut *rng, uid: 0 };
        bg.gen_graph(&[], 0)
    };
    gd_case(gd, "B", None, vec![], rng, pools, out)
}

fn fvalue_vec(v: Vec<f32>) -> Value {
    let n = v.len();
    fvalue(&[n], v)
}

/// Family S: graphs of symbolic mock operators only (see `MockSpec::sym`); sources, constants and every
/// operator output carry the hash of their defining term, so the REAL outputs are compared with the
/// Lean executor model's `sym` answer (normal and permuted plan).
fn family_s_case(rng: &mut Rng, pools: &Pools, out: &mut Out) {
    let mut nodes: Vec<NK> = vec![];
    let mut vals: Vec<u32> = vec![];
    for _ in 0..1 + rng.usize_below(3) {
        vals.push(nodes.len() as u32);
        nodes.push(NK::Val);
    }
    for _ in 0..rng.usize_below(3) {
        let id = nodes.len() as u32;
        vals.push(id);
        nodes.push(NK::ConstF(hash_vec(mix(2, id as u64))));
    }
    let n_ops = 1 + rng.usize_below(9);
    let mut produced: Vec<u32> = vec![];
    for _ in 0..n_ops {
        let n_in = rng.usize_below(4);
        let ins: Vec<Option<u32>> = (0..n_in)
            .map(|_| if rng.chance(1, 12) { None } else { Some(*rng.pick(&vals)) })
            .collect();
        let n_out = 1 + rng.usize_below(2);
        let mut outs: Vec<Option<u32>> = vec![];
        for _ in 0..n_out {
            if rng.chance(1, 10) {
                outs.push(None);
            } else {
                let id = nodes.len() as u32;
                nodes.push(NK::Val);
                outs.push(Some(id));
            }
        }
        let ip: Vec<u32> = match rng.below(5) {
            0 => vec![],
            1 | 2 => vec![0],
            3 => vec![1],
            _ => vec![0, 1],
        };
        // real commutative operators take exactly one operand in place (`into_single`)
        let comm = ip.len() == 1 && rng.chance(1, 3);
        let fail = match rng.below(25) {
            0 => Fail::Always,
            1 => Fail::Short,
            _ => Fail::No,
        };
        let op_id = nodes.len() as u32;
        nodes.push(NK::Op { k: OpK::Mock(MockSpec { n_out, ip, comm, fail, sym: Some(op_id) }), ins, outs: outs.clone() });
        for o in outs.into_iter().flatten() {
            vals.push(o);
            produced.push(o);
        }
    }
    let mut outputs: Vec<u32> = produced.last().copied().into_iter().collect();
    if outputs.is_empty() {
        outputs.push(vals[0]);
    }
    let gd = GD {
        names: (0..nodes.len()).map(|i| format!("s{i}")).collect(),
        n_ops_total: n_ops,
        nodes,
        outputs,
        cond_inputs: vec![],
    };
    gd_case(gd, "S", None, vec![], rng, pools, out)
}

/// Family D: an id with about 255 uses — the `u8` reference counter saturates (sticky 255: never taken
/// in place, never released) or just does not (254 uses).  `0:x  1:y  2:z  3:w`,
/// `4: y = M(x, x, …, x)` (`n` copies), `5: z = U(x)` (can run in place), `6: w = M2(x, z)`.
fn family_d_case(rng: &mut Rng, pools: &Pools, out: &mut Out) {
    let n = *rng.pick(&[250usize, 252, 253, 254, 255, 256, 257, 300]);
    let with_third = rng.chance(1, 2);
    let mock = |ip: Vec<u32>, comm: bool| OpK::Mock(MockSpec { n_out: 1, ip, comm, fail: Fail::No, sym: None });
    let mut nodes = vec![NK::Val, NK::Val, NK::Val, NK::Val];
    nodes.push(NK::Op { k: mock(if rng.chance(1, 2) { vec![0] } else { vec![] }, false), ins: vec![Some(0); n], outs: vec![Some(1)] });
    nodes.push(NK::Op { k: mock(vec![0], false), ins: vec![Some(0)], outs: vec![Some(2)] });
    let mut outs = vec![1u32, 2];
    if with_third {
        nodes.push(NK::Op { k: mock(vec![0], true), ins: vec![Some(0), Some(2)], outs: vec![Some(3)] });
        outs.push(3);
    }
    if rng.chance(1, 4) {
        outs.push(0);
    }
    let n_ops = nodes.len() - 4;
    let gd = GD {
        names: (0..nodes.len()).map(|i| format!("d{i}")).collect(),
        nodes,
        outputs: outs.clone(),
        cond_inputs: vec![],
        n_ops_total: n_ops,
    };
    let total = n + 1 + with_third as usize + outs.contains(&0) as usize;
    let tag = if total >= 255 { "D_sticky" } else { "D_not_sticky" };
    gd_case(gd, "D", Some(outs), vec![tag.to_string(), format!("D_uses_{total}")], rng, pools, out)
}

fn gd_case(gd: GD, fam: &'static str, force_outs: Option<Vec<u32>>, extra_tags: Vec<String>, rng: &mut Rng, pools: &Pools, out: &mut Out) {
    let sym = fam == "S";
    let g = build_graph(&gd);
    let mut infos = HashMap::new();
    collect_infos(&g, &mut infos);
    let n_requests = 1 + rng.usize_below(2);
    for _ in 0..n_requests {
        let gdr = &gd;
        let mut mk = |rng: &mut Rng, id: NodeId, _name: &str, _is_const: bool| -> Option<Value> {
            let i = id.as_u32();
            if sym {
                // every supplied value carries the hash of `input i`
                return Some(fvalue_vec(hash_vec(mix(1, i as u64))));
            }
            match gdr.nodes.get(i as usize) {
                Some(NK::ConstI(_, _)) => Some(Value::from(Tensor::from(rng.below(2) as i32))),
                Some(NK::ConstF(d)) => {
                    let n = if rng.chance(7, 10) { d.len() } else { *rng.pick(&[1usize, 2, 3, 4]) };
                    Some(fvalue(&[n], rand_f(rng, n)))
                }
                _ if gdr.cond_inputs.contains(&i) => Some(Value::from(Tensor::from(rng.below(2) as i32))),
                _ => {
                    let n = *rng.pick(&[1usize, 2, 3, 4, 4, 6]);
                    Some(fvalue(&[n], rand_f(rng, n)))
                }
            }
        };
        let mut rq = build_request(rng, &g, &mut mk);
        if let Some(fo) = &force_outs {
            rq.outputs = fo.iter().map(|o| NodeId::from_u32(*o)).collect();
            // only the source value is supplied
            let keep: Vec<usize> = (0..rq.inputs.len()).filter(|&i| rq.inputs[i].0.as_u32() == 0).collect();
            rq.inputs = keep.iter().map(|&i| rq.inputs[i].clone()).collect();
            rq.mask = keep.iter().map(|&i| rq.mask[i]).collect();
        }
        let nin: HashMap<u32, NV> =
            rq.inputs.iter().filter_map(|(id, v)| NV::from_value(v).map(|n| (id.as_u32(), n))).collect();
        let out_ids: Vec<u32> = rq.outputs.iter().map(|o| o.as_u32()).collect();
        let naive = naive_eval(&gd, &nin, &out_ids);
        let gref = &g;
        let run = move |_alt: bool, inputs: Vec<(NodeId, ValueOrView)>, outs: &[NodeId], opts: RunOptions| {
            gref.run(inputs, outs, None, Some(opts))
        };
        let mut tags = rq.tags.clone();
        tags.extend(extra_tags.iter().cloned());
        if gd.n_ops_total > infos.get(&(gref as *const Graph as usize)).map(|i| i.n_ops).unwrap_or(0) {
            tags.push("has_subgraphs".into());
        }
        let case = Case {
            fam,
            infos: std::mem::take(&mut infos),
            run: &run,
            in_ids: rq.inputs.iter().map(|(i, _)| *i).collect(),
            in_vals: rq.inputs.iter().map(|(_, v)| v.clone()).collect(),
            mask: rq.mask.clone(),
            outs: rq.outputs.clone(),
            alt: None,
            naive: Some(naive),
            panic_info: String::new(),
            tags,
            root_ops: gd.nodes.iter().filter(|n| matches!(n, NK::Op { .. })).count(),
            root: Some(gref),
            sym_real: sym,
        };
        run_case(&case, rng, pools, out);
        infos = case.infos;
    }
}

// ---------------------------------------------------------------------------------------------
// Family A: ONNX models with real operators
// ---------------------------------------------------------------------------------------------

use onnx_enc::{dt, Attr, Node as ONode, Tensor as OTensor, ValueInfo};

#[derive(Clone, Copy, PartialEq, Debug)]
enum DT {
    F,
    I,
}

#[derive(Clone, Debug)]
struct VI {
    name: String,
    shape: Option<Vec<usize>>,
    dt: DT,
}

const FAM: [&[usize]; 7] = [&[1], &[4], &[3, 1], &[1, 4], &[3, 4], &[4], &[3, 4]];

fn bcast(a: &[usize], b: &[usize]) -> Option<Vec<usize>> {
    let n = a.len().max(b.len());
    let mut out = vec![0; n];
    for i in 0..n {
        let x = if i + a.len() >= n { a[i + a.len() - n] } else { 1 };
        let y = if i + b.len() >= n { b[i + b.len() - n] } else { 1 };
        out[i] = if x == y || y == 1 {
            x
        } else if x == 1 {
            y
        } else {
            return None;
        };
    }
    Some(out)
}

#[derive(Default)]
struct Sc {
    nodes: Vec<ONode>,
    inits: Vec<OTensor>,
    produced: Vec<VI>,
}

struct AGen<'r> {
    rng: &'r mut Rng,
    uid: usize,
    all: HashMap<String, VI>,
    feats: BTreeSet<&'static str>,
    /// name and runtime value of the boolean graph input, if the model has one
    cond_input: Option<(String, i32)>,
}

fn i64s(xs: &[usize]) -> Vec<i64> {
    xs.iter().map(|x| *x as i64).collect()
}

impl<'r> AGen<'r> {
    fn name(&mut self, p: &str) -> String {
        self.uid += 1;
        format!("{p}{}", self.uid)
    }

    fn pick(&mut self, vis: &[VI], pred: impl Fn(&VI) -> bool) -> Option<VI> {
        let idx: Vec<usize> = (0..vis.len()).filter(|&i| pred(&vis[i])).collect();
        if idx.is_empty() {
            return None;
        }
        let k = if self.rng.chance(1, 2) {
            idx[idx.len() - 1 - self.rng.usize_below(idx.len().min(3))]
        } else {
            *self.rng.pick(&idx)
        };
        Some(vis[k].clone())
    }

    fn newv(&mut self, vis: &mut Vec<VI>, sc: &mut Sc, shape: Option<Vec<usize>>, d: DT) -> String {
        let name = self.name("v");
        let vi = VI { name: name.clone(), shape, dt: d };
        self.all.insert(name.clone(), vi.clone());
        vis.push(vi.clone());
        sc.produced.push(vi);
        name
    }

    fn new_init_f(&mut self, vis: &mut Vec<VI>, sc: &mut Sc, shape: &[usize], visible: bool) -> String {
        let name = self.name("k");
        let n: usize = shape.iter().product();
        let data = rand_f(self.rng, n);
        sc.inits.push(OTensor::f32s(&name, &i64s(shape), &data));
        let vi = VI { name: name.clone(), shape: Some(shape.to_vec()), dt: DT::F };
        self.all.insert(name.clone(), vi.clone());
        if visible {
            vis.push(vi);
        }
        name
    }

    /// A boolean condition: (name, runtime truth value if known).
    fn cond(&mut self, vis: &mut Vec<VI>, sc: &mut Sc) -> (String, Option<bool>) {
        match self.rng.below(10) {
            0..=3 => {
                if let Some((n, v)) = &self.cond_input {
                    return (n.clone(), Some(*v != 0));
                }
            }
            4 => {
                // computed condition: Greater(x, y) reduced to a single element is not guaranteed -> may fail
                if let Some(x) = self.pick(vis, |v| v.dt == DT::F && v.shape.as_deref() == Some(&[1])) {
                    let z = self.new_init_f(vis, sc, &[1], false);
                    let o = self.name("v");
                    sc.nodes.push(ONode::new("Greater", &self.name("gt"), &[&x.name, &z], &[&o]));
                    self.all.insert(o.clone(), VI { name: o.clone(), shape: Some(vec![1]), dt: DT::I });
                    self.feats.insert("computed_cond");
                    return (o, None);
                }
            }
            _ => {}
        }
        let b = self.rng.chance(1, 2);
        let name = self.name("cb");
        sc.inits.push(OTensor::bools(&name, &[], &[b]));
        self.all.insert(name.clone(), VI { name: name.clone(), shape: Some(vec![]), dt: DT::I });
        (name, Some(b))
    }

    fn unary(&mut self, vis: &mut Vec<VI>, sc: &mut Sc) -> bool {
        let Some(x) = self.pick(vis, |v| v.dt == DT::F) else { return false };
        let op = *self.rng.pick(&["Relu", "Neg", "Abs", "Sigmoid", "Sqrt", "Floor", "Relu", "Neg", "Abs", "Exp"]);
        let o = self.newv(vis, sc, x.shape.clone(), DT::F);
        sc.nodes.push(ONode::new(op, &self.name("u"), &[&x.name], &[&o]));
        true
    }

    fn binary(&mut self, vis: &mut Vec<VI>, sc: &mut Sc, bad: bool) -> bool {
        let Some(a) = self.pick(vis, |_| true) else { return false };
        let b = if self.rng.chance(1, 6) {
            self.feats.insert("same_value_twice");
            a.clone()
        } else if bad {
            match self.pick(vis, |v| v.dt == a.dt) {
                Some(b) => b,
                None => return false,
            }
        } else {
            let ash = a.shape.clone();
            match self.pick(vis, |v| {
                v.dt == a.dt
                    && match (&ash, &v.shape) {
                        (Some(x), Some(y)) => bcast(x, y).is_some(),
                        _ => false,
                    }
            }) {
                Some(b) => b,
                None => a.clone(),
            }
        };
        let op = if a.dt == DT::I {
            *self.rng.pick(&["Add", "Mul", "Sub"])
        } else {
            *self.rng.pick(&["Add", "Mul", "Sub", "Div", "Add", "Mul", "Sub"])
        };
        let shape = match (&a.shape, &b.shape) {
            (Some(x), Some(y)) => bcast(x, y),
            _ => None,
        };
        let (l, r) = if self.rng.chance(1, 2) { (&a, &b) } else { (&b, &a) };
        let o = self.newv(vis, sc, shape, a.dt);
        sc.nodes.push(ONode::new(op, &self.name("b"), &[&l.name, &r.name], &[&o]));
        true
    }

    fn matmul(&mut self, vis: &mut Vec<VI>, sc: &mut Sc, bad: bool) -> bool {
        let n = *self.rng.pick(&[4usize, 4, 2]);
        if self.rng.chance(1, 5) {
            // W x
            let Some(x) = self.pick(vis, |v| {
                v.dt == DT::F && (bad || matches!(v.shape.as_deref(), Some([4]) | Some([4, _])))
            }) else {
                return false;
            };
            let w = self.new_init_f(vis, sc, &[n, 4], false);
            let shape = x.shape.as_ref().and_then(|s| match s.as_slice() {
                [4] => Some(vec![n]),
                [4, k] => Some(vec![n, *k]),
                _ => None,
            });
            let o = self.newv(vis, sc, shape, DT::F);
            sc.nodes.push(ONode::new("MatMul", &self.name("mm"), &[&w, &x.name], &[&o]));
        } else {
            let Some(x) = self.pick(vis, |v| {
                v.dt == DT::F && (bad || matches!(v.shape.as_deref(), Some([.., 4])))
            }) else {
                return false;
            };
            let w = self.new_init_f(vis, sc, &[4, n], false);
            let shape = x.shape.as_ref().and_then(|s| match s.as_slice() {
                [rest @ .., 4] => {
                    let mut v = rest.to_vec();
                    v.push(n);
                    Some(v)
                }
                _ => None,
            });
            let o = self.newv(vis, sc, shape, DT::F);
            sc.nodes.push(ONode::new("MatMul", &self.name("mm"), &[&x.name, &w], &[&o]));
        }
        self.feats.insert("matmul_const_weight");
        true
    }

    fn concat(&mut self, vis: &mut Vec<VI>, sc: &mut Sc, bad: bool) -> bool {
        let Some(a) = self.pick(vis, |v| matches!(&v.shape, Some(s) if !s.is_empty())) else { return false };
        let ash = a.shape.clone().unwrap();
        let Some(b) = self.pick(vis, |v| {
            v.dt == a.dt && (bad || matches!(&v.shape, Some(s) if s.len() == ash.len() && s[1..] == ash[1..]))
        }) else {
            return false;
        };
        let shape = b.shape.as_ref().and_then(|s| {
            if s.len() == ash.len() && !s.is_empty() && s[1..] == ash[1..] {
                let mut v = ash.clone();
                v[0] += s[0];
                Some(v)
            } else {
                None
            }
        });
        let o = self.newv(vis, sc, shape, a.dt);
        sc.nodes.push(ONode::new("Concat", &self.name("cc"), &[&a.name, &b.name], &[&o]).attr("axis", Attr::Int(0)));
        true
    }

    fn split(&mut self, vis: &mut Vec<VI>, sc: &mut Sc) -> bool {
        let Some(x) = self.pick(vis, |v| matches!(&v.shape, Some(s) if s.iter().any(|d| *d >= 2 && d % 2 == 0)))
        else {
            return false;
        };
        let sh = x.shape.clone().unwrap();
        let axes: Vec<usize> = (0..sh.len()).filter(|&i| sh[i] >= 2 && sh[i] % 2 == 0).collect();
        let ax = *self.rng.pick(&axes);
        let mut half = sh.clone();
        half[ax] /= 2;
        let variant = self.rng.below(20);
        let (o1, o2) = match variant {
            0..=13 => (self.newv(vis, sc, Some(half.clone()), x.dt), self.newv(vis, sc, Some(half.clone()), x.dt)),
            14..=16 => (self.newv(vis, sc, Some(half.clone()), x.dt), String::new()),
            _ => (String::new(), self.newv(vis, sc, Some(half.clone()), x.dt)),
        };
        if variant > 13 {
            self.feats.insert("split_unused_output");
        }
        sc.nodes.push(
            ONode::new("Split", &self.name("sp"), &[&x.name], &[&o1, &o2])
                .attr("axis", Attr::Int(ax as i64))
                .attr("num_outputs", Attr::Int(2)),
        );
        self.feats.insert("split");
        true
    }

    fn simple(&mut self, vis: &mut Vec<VI>, sc: &mut Sc, which: u64) -> bool {
        let Some(x) = self.pick(vis, |v| which != 3 || v.dt == DT::F) else { return false };
        match which {
            0 => {
                let o = self.newv(vis, sc, x.shape.clone(), x.dt);
                sc.nodes.push(ONode::new("Identity", &self.name("id"), &[&x.name], &[&o]));
            }
            1 => {
                let shape = x.shape.as_ref().map(|s| vec![s.len()]);
                let o = self.newv(vis, sc, shape, DT::I);
                sc.nodes.push(ONode::new("Shape", &self.name("sh"), &[&x.name], &[&o]));
            }
            2 => {
                let shape = x.shape.as_ref().map(|s| s.iter().rev().copied().collect());
                let o = self.newv(vis, sc, shape, x.dt);
                sc.nodes.push(ONode::new("Transpose", &self.name("tr"), &[&x.name], &[&o]));
            }
            3 => {
                // Clip with an omitted optional `min` input
                let mx = self.name("k");
                sc.inits.push(OTensor::f32s(&mx, &[], &[2.0]));
                self.all.insert(mx.clone(), VI { name: mx.clone(), shape: Some(vec![]), dt: DT::F });
                let o = self.newv(vis, sc, x.shape.clone(), DT::F);
                sc.nodes.push(ONode::new("Clip", &self.name("cl"), &[&x.name, "", &mx], &[&o]));
                self.feats.insert("optional_input_omitted");
            }
            _ => {
                let o = self.newv(vis, sc, x.shape.clone(), DT::F);
                sc.nodes.push(
                    ONode::new("Cast", &self.name("ca"), &[&x.name], &[&o]).attr("to", Attr::Int(dt::FLOAT as i64)),
                );
            }
        }
        true
    }

    /// Body of an `If` branch: a few ops over outer (captured) and local values.
    fn branch(&mut self, outer: &[VI], n_out: usize, depth: usize) -> (onnx_enc::Graph, Vec<VI>) {
        let mut vis: Vec<VI> = outer.to_vec();
        let mut sc = Sc::default();
        if self.rng.chance(1, 4) {
            let sh = self.rng.pick(&FAM).to_vec();
            self.new_init_f(&mut vis, &mut sc, &sh, true);
        }
        let n_ops = n_out.max(1 + self.rng.usize_below(3));
        let mut tries = 0;
        while (sc.produced.len() < n_out || tries < n_ops) && tries < 12 {
            tries += 1;
            self.emit(&mut vis, &mut sc, depth);
        }
        if sc.produced.is_empty() {
            // guarantee one produced value
            let k = self.new_init_f(&mut vis, &mut sc, &[1], false);
            let o = self.newv(&mut vis, &mut sc, Some(vec![1]), DT::F);
            sc.nodes.push(ONode::new("Neg", &self.name("u"), &[&k], &[&o]));
        }
        let np = sc.produced.len();
        let mut outs: Vec<VI> = vec![];
        for i in 0..n_out.min(np) {
            outs.push(sc.produced[np - 1 - i].clone());
        }
        let g = onnx_enc::Graph {
            name: self.name("sub"),
            nodes: sc.nodes,
            initializers: sc.inits,
            inputs: vec![],
            outputs: outs
                .iter()
                .map(|v| ValueInfo::new(&v.name, if v.dt == DT::F { dt::FLOAT } else { dt::INT64 }, None))
                .collect(),
            value_infos: vec![],
        };
        (g, outs)
    }

    fn if_op(&mut self, vis: &mut Vec<VI>, sc: &mut Sc, depth: usize) -> bool {
        let (cname, truth) = self.cond(vis, sc);
        let n_out = 1 + (self.rng.chance(1, 4) as usize);
        let outer = vis.clone();
        let (tg, touts) = self.branch(&outer, n_out, depth + 1);
        let (eg, eouts) = self.branch(&outer, n_out, depth + 1);
        let taken = match truth {
            Some(true) => Some(&touts),
            Some(false) => Some(&eouts),
            None => None,
        };
        let mut onames = vec![];
        for i in 0..n_out {
            let (shape, d) = match taken.and_then(|t| t.get(i)) {
                Some(v) => (v.shape.clone(), v.dt),
                None => (None, DT::F),
            };
            onames.push(self.newv(vis, sc, shape, d));
        }
        let orefs: Vec<&str> = onames.iter().map(|s| s.as_str()).collect();
        sc.nodes.push(
            ONode::new("If", &self.name("if"), &[&cname], &orefs)
                .attr("then_branch", Attr::Graph(tg))
                .attr("else_branch", Attr::Graph(eg)),
        );
        self.feats.insert(if depth == 0 { "if" } else { "nested_if" });
        true
    }

    fn loop_op(&mut self, vis: &mut Vec<VI>, sc: &mut Sc) -> bool {
        let Some(v0) = self.pick(vis, |v| v.dt == DT::F && v.shape.is_some()) else { return false };
        let vsh = v0.shape.clone().unwrap();
        let trip = self.name("trip");
        let trips = 1 + self.rng.below(3) as i64;
        sc.inits.push(OTensor::i64s(&trip, &[], &[trips]));
        self.all.insert(trip.clone(), VI { name: trip.clone(), shape: Some(vec![]), dt: DT::I });
        // body
        let it = self.name("it");
        let cin = self.name("ci");
        let vin = self.name("vi");
        let cout = self.name("co");
        let vout = self.name("vo");
        let mut nodes = vec![ONode::new("Identity", &self.name("id"), &[&cin], &[&cout])];
        let cap = self.pick(vis, |v| {
            v.dt == DT::F && matches!(&v.shape, Some(s) if bcast(&vsh, s).as_deref() == Some(&vsh[..]))
        });
        match cap {
            Some(c) if self.rng.chance(4, 5) => {
                let op = *self.rng.pick(&["Add", "Mul", "Sub"]);
                if self.rng.chance(1, 2) {
                    nodes.push(ONode::new(op, &self.name("b"), &[&vin, &c.name], &[&vout]));
                } else {
                    nodes.push(ONode::new(op, &self.name("b"), &[&c.name, &vin], &[&vout]));
                }
            }
            _ => nodes.push(ONode::new(*self.rng.pick(&["Neg", "Relu", "Abs"]), &self.name("u"), &[&vin], &[&vout])),
        }
        let scan = self.rng.chance(1, 3);
        let sname = self.name("so");
        let mut body_outs = vec![ValueInfo::new(&cout, dt::BOOL, None), ValueInfo::new(&vout, dt::FLOAT, None)];
        if scan {
            nodes.push(ONode::new("Neg", &self.name("u"), &[&vout], &[&sname]));
            body_outs.push(ValueInfo::new(&sname, dt::FLOAT, None));
        }
        for n in [&it, &cin, &vin, &cout, &vout, &sname] {
            self.all.insert(n.clone(), VI { name: n.clone(), shape: Some(vsh.clone()), dt: DT::F });
        }
        let body = onnx_enc::Graph {
            name: self.name("body"),
            nodes,
            initializers: vec![],
            inputs: vec![
                ValueInfo::new(&it, dt::INT64, None),
                ValueInfo::new(&cin, dt::BOOL, None),
                ValueInfo::new(&vin, dt::FLOAT, None),
            ],
            outputs: body_outs,
            value_infos: vec![],
        };
        let cname = if self.rng.chance(1, 2) {
            String::new()
        } else {
            let c = self.name("cb");
            sc.inits.push(OTensor::bools(&c, &[], &[true]));
            self.all.insert(c.clone(), VI { name: c.clone(), shape: Some(vec![]), dt: DT::I });
            c
        };
        let o = self.newv(vis, sc, Some(vsh.clone()), DT::F);
        let mut onames = vec![o];
        if scan {
            let mut ss = vec![trips as usize];
            ss.extend(vsh.iter().copied());
            onames.push(self.newv(vis, sc, Some(ss), DT::F));
        }
        let orefs: Vec<&str> = onames.iter().map(|s| s.as_str()).collect();
        sc.nodes.push(
            ONode::new("Loop", &self.name("loop"), &[&trip, &cname, &v0.name], &orefs).attr("body", Attr::Graph(body)),
        );
        self.feats.insert("loop");
        true
    }

    /// Emit one random operator into scope `sc`.
    fn emit(&mut self, vis: &mut Vec<VI>, sc: &mut Sc, depth: usize) {
        let bad = self.rng.chance(1, 30);
        if bad {
            self.feats.insert("shape_mismatch_injected");
        }
        for _ in 0..4 {
            let k = self.rng.below(100);
            let done = match k {
                0..=21 => self.unary(vis, sc),
                22..=53 => self.binary(vis, sc, bad),
                54..=59 => self.matmul(vis, sc, bad),
                60..=64 => self.concat(vis, sc, bad),
                65..=70 => self.split(vis, sc),
                71..=75 => self.simple(vis, sc, 0),
                76..=78 => self.simple(vis, sc, 1),
                79..=82 => self.simple(vis, sc, 2),
                83..=85 => self.simple(vis, sc, 3),
                86..=87 => self.simple(vis, sc, 4),
                88..=96 if depth < 2 => self.if_op(vis, sc, depth),
                97..=99 if depth < 2 => self.loop_op(vis, sc),
                _ => false,
            };
            if done {
                return;
            }
        }
        self.unary(vis, sc);
    }
}

/// One-line rendering of an ONNX graph (for notes about unexpected panics).
fn describe_onnx(g: &onnx_enc::Graph) -> String {
    let mut s = String::new();
    for t in &g.initializers {
        s += &format!("init {}{:?}; ", t.name, t.dims);
    }
    for i in &g.inputs {
        s += &format!("input {}; ", i.name);
    }
    for n in &g.nodes {
        s += &format!("{}({})->({})", n.op_type, n.inputs.join(","), n.outputs.join(","));
        for (an, a) in &n.attrs {
            if let Attr::Graph(sub) = a {
                s += &format!(" {an}={{ {} }}", describe_onnx(sub));
            }
        }
        s += "; ";
    }
    s += &format!("outputs {}", hcommon::join(g.outputs.iter().map(|o| o.name.clone()), ","));
    s
}

struct AModel {
    desc: String,
    bytes: Vec<u8>,
    all: HashMap<String, VI>,
    feats: BTreeSet<&'static str>,
    cond_input: Option<(String, i32)>,
}

fn gen_model(rng: &mut Rng) -> AModel {
    let mut ag = AGen { rng, uid: 0, all: HashMap::new(), feats: BTreeSet::new(), cond_input: None };
    let mut vis: Vec<VI> = vec![];
    let mut sc = Sc::default();
    let mut inputs: Vec<ValueInfo> = vec![];
    for i in 0..1 + ag.rng.usize_below(3) {
        let name = format!("in{i}");
        let sh = ag.rng.pick(&FAM).to_vec();
        let vi = VI { name: name.clone(), shape: Some(sh.clone()), dt: DT::F };
        ag.all.insert(name.clone(), vi.clone());
        vis.push(vi);
        inputs.push(if ag.rng.chance(3, 5) {
            ValueInfo::fixed(&name, dt::FLOAT, &i64s(&sh))
        } else {
            ValueInfo::new(&name, dt::FLOAT, None)
        });
    }
    if ag.rng.chance(2, 5) {
        let v = ag.rng.below(2) as i32;
        ag.cond_input = Some(("cnd".into(), v));
        ag.all.insert("cnd".into(), VI { name: "cnd".into(), shape: Some(vec![]), dt: DT::I });
        inputs.push(ValueInfo::new("cnd", dt::BOOL, None));
    }
    for _ in 0..ag.rng.usize_below(3) {
        let sh = ag.rng.pick(&FAM).to_vec();
        ag.new_init_f(&mut vis, &mut sc, &sh, true);
    }
    let n_ops = match ag.rng.below(10) {
        0 => 1,
        1..=4 => 2 + ag.rng.usize_below(3),
        5..=8 => 4 + ag.rng.usize_below(5),
        _ => 9 + ag.rng.usize_below(4),
    };
    for _ in 0..n_ops {
        ag.emit(&mut vis, &mut sc, 0);
    }
    // declared graph outputs: the last value plus a few others
    let np = sc.produced.len();
    let mut outs: Vec<VI> = vec![sc.produced[np - 1].clone()];
    for _ in 0..ag.rng.usize_below(3) {
        let v = ag.rng.pick(&sc.produced).clone();
        if !outs.iter().any(|o| o.name == v.name) {
            outs.push(v);
        }
    }
    let g = onnx_enc::Graph {
        name: "main".into(),
        nodes: sc.nodes,
        initializers: sc.inits,
        inputs,
        outputs: outs
            .iter()
            .map(|v| ValueInfo::new(&v.name, if v.dt == DT::F { dt::FLOAT } else { dt::INT64 }, None))
            .collect(),
        value_infos: vec![],
    };
    let desc = describe_onnx(&g);
    AModel { bytes: g.into_model_bytes(21), all: ag.all, feats: ag.feats, cond_input: ag.cond_input, desc }
}

fn family_a_case(rng: &mut Rng, pools: &Pools, out: &mut Out) {
    let am = gen_model(rng);
    let optimize = rng.chance(1, 2);
    let prepack = rng.chance(1, 2);
    let load = |pp: bool| {
        let mut mo = ModelOptions::with_all_ops();
        mo.enable_optimization(optimize);
        mo.prepack_weights(pp);
        hcommon::catch(|| mo.load(am.bytes.clone()))
    };
    let model = match load(prepack) {
        Ok(Ok(m)) => m,
        Ok(Err(e)) => {
            out.bucket("A_load_error");
            out.note(&format!("family A model failed to load: {e}"));
            return;
        }
        Err(m) => {
            out.bucket("A_load_panic");
            out.note(&format!("family A model load panicked: {m}"));
            return;
        }
    };
    let alt_model = match load(!prepack) {
        Ok(Ok(m)) => Some(m),
        _ => None,
    };
    let g = model.verif_graph();
    let mut infos = HashMap::new();
    collect_infos(g, &mut infos);
    if let Some(am2) = &alt_model {
        collect_infos(am2.verif_graph(), &mut infos);
    }
    let root_ops = infos.get(&(g as *const Graph as usize)).map(|i| i.n_ops).unwrap_or(0);
    let n_requests = 1 + rng.usize_below(2);
    for _ in 0..n_requests {
        let all = &am.all;
        let cond_input = &am.cond_input;
        let mut mk = |rng: &mut Rng, _id: NodeId, name: &str, is_const: bool| -> Option<Value> {
            if let Some((cn, cv)) = cond_input {
                if cn == name {
                    return Some(Value::from(Tensor::from(*cv)));
                }
            }
            let vi = all.get(name);
            if vi.is_none() && is_const {
                return None; // constant created by the optimizer
            }
            let mut shape: Vec<usize> = vi.and_then(|v| v.shape.clone()).unwrap_or_else(|| vec![4]);
            if rng.chance(1, 50) {
                shape = rng.pick(&FAM).to_vec(); // possibly not what the model expects
            }
            let n: usize = shape.iter().product();
            match vi.map(|v| v.dt).unwrap_or(DT::F) {
                DT::F => Some(fvalue(&shape, rand_f(rng, n))),
                DT::I => Some(ivalue(&shape, (0..n).map(|_| rng.range_i64(0, 3) as i32).collect())),
            }
        };
        let rq = build_request(rng, g, &mut mk);
        let in_ids: Vec<NodeId> = rq.inputs.iter().map(|(i, _)| *i).collect();
        // the same request in the alternative model: loading is deterministic, so ids coincide; checked
        // through the node tables and the names of the requested nodes
        let alt = alt_model.as_ref().and_then(|m2| {
            let g2 = m2.verif_graph();
            let same = infos.get(&(g as *const Graph as usize)).map(|i| &i.nodes)
                == infos.get(&(g2 as *const Graph as usize)).map(|i| &i.nodes)
                && in_ids.iter().chain(&rq.outputs).all(|i| {
                    // optimizer-created constants can get their ids in a different order in each load
                    let same_const = match (g.get_node(*i), g2.get_node(*i)) {
                        (Some(Node::Constant(a)), Some(Node::Constant(b))) => {
                            canon(&a.as_view().to_owned()) == canon(&b.as_view().to_owned())
                        }
                        (Some(Node::Value(_)), Some(Node::Value(_))) => true,
                        _ => false,
                    };
                    same_const && g.node_name(*i) == g2.node_name(*i)
                });
            same.then(|| (in_ids.clone(), rq.outputs.clone()))
        });
        let mref = &model;
        let aref = alt_model.as_ref();
        let run = move |alt: bool, inputs: Vec<(NodeId, ValueOrView)>, outs: &[NodeId], opts: RunOptions| match (alt, aref) {
            (true, Some(m2)) => m2.run(inputs, outs, Some(opts)),
            _ => mref.run(inputs, outs, Some(opts)),
        };
        let mut tags = rq.tags.clone();
        tags.extend(am.feats.iter().map(|f| f.to_string()));
        tags.push(if optimize { "optimizer_on".into() } else { "optimizer_off".into() });
        tags.push(if prepack { "prepack_on".into() } else { "prepack_off".into() });
        let panic_info = format!(
            "model: {} | run inputs: {} | requested: {}",
            am.desc,
            hcommon::join(rq.inputs.iter().map(|(i, v)| format!("{}{:?}", g.node_name(*i), v.shape())), ","),
            hcommon::join(rq.outputs.iter().map(|o| g.node_name(*o)), ",")
        );
        if alt.is_none() {
            tags.push("no_alt_model".into());
        }
        let case = Case {
            fam: "A",
            infos: std::mem::take(&mut infos),
            run: &run,
            in_ids,
            in_vals: rq.inputs.iter().map(|(_, v)| v.clone()).collect(),
            mask: rq.mask.clone(),
            outs: rq.outputs.clone(),
            alt,
            naive: None,
            tags,
            root_ops,
            panic_info,
            root: Some(g),
            sym_real: false,
        };
        run_case(&case, rng, pools, out);
        infos = case.infos;
    }
}

// ---------------------------------------------------------------------------------------------
// Family C: buffers recycled through the pool with spare capacity + in-place operators that GROW
// their operand (`Concat::run_in_place` via `Tensor::has_capacity`/`append`).
//
// Shape of a case: one to three "big" chains `a_j = Neg|Abs(X_j)`, `m_j = Reduce*(a_j, last axis)`
// release buffers of several sizes to the pool early in the run; `c = z (+|-) m_0` is then allocated
// from the pool (possibly into a much larger recycled buffer); a chain of `Concat`s along random
// axes (incl. inner axes with outer dims > 1) grows `c` — in place when `c` is the first operand with
// one remaining use.  f32 and i32.  Oracle: reference mode / RTEN_USE_POOL=0 / masks (run_case) and
// the naive evaluation computed here.
// ---------------------------------------------------------------------------------------------

#[derive(Clone, Debug)]
struct CT {
    shape: Vec<usize>,
    data: Vec<f64>,
}

fn ct_index(shape: &[usize], mut lin: usize) -> Vec<usize> {
    let mut idx = vec![0; shape.len()];
    for d in (0..shape.len()).rev() {
        idx[d] = lin % shape[d];
        lin /= shape[d];
    }
    idx
}

fn ct_lin(shape: &[usize], idx: &[usize]) -> usize {
    let mut l = 0;
    for d in 0..shape.len() {
        l = l * shape[d] + idx[d];
    }
    l
}

fn ct_unary(op: &str, a: &CT) -> CT {
    CT {
        shape: a.shape.clone(),
        data: a.data.iter().map(|x| if op == "Neg" { -*x } else { x.abs() }).collect(),
    }
}

/// Reduce over the last axis with keepdims=1.
fn ct_reduce(op: &str, a: &CT) -> CT {
    let n = *a.shape.last().unwrap();
    let mut shape = a.shape.clone();
    *shape.last_mut().unwrap() = 1;
    let data = a
        .data
        .chunks(n)
        .map(|c| match op {
            "ReduceMax" => c.iter().cloned().fold(f64::NEG_INFINITY, f64::max),
            "ReduceMin" => c.iter().cloned().fold(f64::INFINITY, f64::min),
            _ => c.iter().sum(),
        })
        .collect();
    CT { shape, data }
}

fn ct_bin(op: &str, a: &CT, b: &CT) -> CT {
    let shape = bcast(&a.shape, &b.shape).expect("family C shapes broadcast");
    let n: usize = shape.iter().product();
    let pick = |t: &CT, idx: &[usize]| -> f64 {
        let off = shape.len() - t.shape.len();
        let ti: Vec<usize> = (0..t.shape.len()).map(|d| if t.shape[d] == 1 { 0 } else { idx[d + off] }).collect();
        t.data[ct_lin(&t.shape, &ti)]
    };
    let data = (0..n)
        .map(|l| {
            let idx = ct_index(&shape, l);
            let (x, y) = (pick(a, &idx), pick(b, &idx));
            if op == "Add" {
                x + y
            } else {
                x - y
            }
        })
        .collect();
    CT { shape, data }
}

fn ct_concat(parts: &[&CT], axis: usize) -> CT {
    let mut shape = parts[0].shape.clone();
    shape[axis] = parts.iter().map(|p| p.shape[axis]).sum();
    let n: usize = shape.iter().product();
    let data = (0..n)
        .map(|l| {
            let mut idx = ct_index(&shape, l);
            let mut k = idx[axis];
            for p in parts {
                if k < p.shape[axis] {
                    idx[axis] = k;
                    return p.data[ct_lin(&p.shape, &idx)];
                }
                k -= p.shape[axis];
            }
            unreachable!()
        })
        .collect();
    CT { shape, data }
}

fn ct_outval(t: &CT, int: bool) -> OutVal {
    if int {
        OutVal { dtype: "i32", shape: t.shape.clone(), bits: t.data.iter().map(|x| *x as i32 as u32 as u64).collect() }
    } else {
        OutVal { dtype: "f32", shape: t.shape.clone(), bits: t.data.iter().map(|x| (*x as f32).to_bits() as u64).collect() }
    }
}

fn ct_value(t: &CT, int: bool) -> Value {
    if int {
        ivalue(&t.shape, t.data.iter().map(|x| *x as i32).collect())
    } else {
        fvalue(&t.shape, t.data.iter().map(|x| *x as f32).collect())
    }
}

fn family_c_case(rng: &mut Rng, pools: &Pools, out: &mut Out) {
    let int = rng.chance(1, 3);
    let odt = if int { dt::INT32 } else { dt::FLOAT };
    let rank = 2 + rng.usize_below(2);
    let mut lead: Vec<usize> = vec![*rng.pick(&[1usize, 2, 3, 4, 5])];
    if rank == 3 {
        lead.push(*rng.pick(&[1usize, 2, 3]));
    }
    let with_last = |l: usize| -> Vec<usize> {
        let mut s = lead.clone();
        s.push(l);
        s
    };
    let mut env: HashMap<String, CT> = HashMap::new();
    let mut nodes: Vec<ONode> = vec![];
    let mut inits: Vec<OTensor> = vec![];
    let mut inputs: Vec<ValueInfo> = vec![];
    let mut in_names: Vec<String> = vec![];
    let mut tags: Vec<String> = vec![format!("C_rank{rank}"), if int { "C_i32".into() } else { "C_f32".into() }];
    // nonzero small integers: exact in f32 and i32, no signed-zero ambiguity in the reductions
    let mut new_input = |rng: &mut Rng, env: &mut HashMap<String, CT>, name: &str, shape: Vec<usize>| {
        let n: usize = shape.iter().product();
        let data = (0..n)
            .map(|_| {
                let v = 1 + rng.below(9) as i64;
                (if rng.chance(1, 2) { v } else { -v }) as f64
            })
            .collect();
        inputs.push(if rng.chance(1, 2) {
            ValueInfo::fixed(name, odt, &i64s(&shape))
        } else {
            ValueInfo::new(name, odt, None)
        });
        in_names.push(name.to_string());
        env.insert(name.to_string(), CT { shape, data });
    };
    inits.push(OTensor::i64s("ax_last", &[1], &[(rank - 1) as i64]));
    // big chains
    let n_big = 1 + rng.usize_below(3);
    let mut ms: Vec<String> = vec![];
    for j in 0..n_big {
        let b = *rng.pick(&[8usize, 32, 64, 100, 256, 600]);
        let xn = format!("X{j}");
        new_input(rng, &mut env, &xn, with_last(b));
        let mut cur = xn.clone();
        for t in 0..1 + rng.usize_below(2) {
            let op = *rng.pick(&["Neg", "Abs"]);
            let o = format!("a{j}_{t}");
            nodes.push(ONode::new(op, &format!("n_{o}"), &[&cur], &[&o]));
            let r = ct_unary(op, &env[&cur]);
            env.insert(o.clone(), r);
            cur = o;
        }
        let rop = *rng.pick(&["ReduceMax", "ReduceMin", "ReduceSum"]);
        let m = format!("m{j}");
        nodes.push(ONode::new(rop, &format!("n_{m}"), &[&cur, "ax_last"], &[&m]).attr("keepdims", Attr::Int(1)));
        let r = ct_reduce(rop, &env[&cur]);
        env.insert(m.clone(), r);
        ms.push(m);
    }
    // the temporary that will be grown
    let w = *rng.pick(&[2usize, 8, 16, 24, 40]);
    new_input(rng, &mut env, "z", with_last(w));
    let mut cur = "z".to_string();
    for (j, m) in ms.iter().enumerate() {
        if j > 0 && rng.chance(1, 2) {
            continue;
        }
        let op = *rng.pick(&["Add", "Sub"]);
        let o = format!("c{j}");
        let (l, r) = if op == "Add" && rng.chance(1, 3) { (m.clone(), cur.clone()) } else { (cur.clone(), m.clone()) };
        nodes.push(ONode::new(op, &format!("n_{o}"), &[&l, &r], &[&o]));
        let v = ct_bin(op, &env[&l], &env[&r]);
        env.insert(o.clone(), v);
        cur = o;
    }
    let mut extra_outs: Vec<String> = vec![];
    if rng.chance(1, 6) {
        // a second consumer of the temporary: the first Concat cannot run in place
        nodes.push(ONode::new("ReduceSum", "n_s", &[&cur, "ax_last"], &["s"]).attr("keepdims", Attr::Int(1)));
        let v = ct_reduce("ReduceSum", &env[&cur]);
        env.insert("s".into(), v);
        extra_outs.push("s".into());
        tags.push("C_second_consumer".into());
    }
    // concat chain
    let n_cc = 1 + rng.usize_below(3);
    for t in 0..n_cc {
        let axis = rng.usize_below(rank);
        let cs = env[&cur].shape.clone();
        let outer: usize = cs[..axis].iter().product();
        tags.push(if outer > 1 { "C_inner_axis".into() } else { "C_outer_axis".into() });
        let n_other = 1 + rng.usize_below(2);
        let mut names: Vec<String> = vec![cur.clone()];
        for u in 0..n_other {
            let mut sh = cs.clone();
            sh[axis] = 1 + rng.usize_below(3);
            let yn = format!("y{t}_{u}");
            new_input(rng, &mut env, &yn, sh);
            if rng.chance(1, 4) {
                let o = format!("yy{t}_{u}");
                nodes.push(ONode::new("Neg", &format!("n_{o}"), &[&yn], &[&o]));
                let v = ct_unary("Neg", &env[&yn]);
                env.insert(o.clone(), v);
                names.push(o);
            } else {
                names.push(yn);
            }
        }
        if rng.chance(1, 6) {
            names.swap(0, 1); // grown temporary is not the first operand: never in place
            tags.push("C_not_first".into());
        }
        let o = format!("cc{t}");
        let refs: Vec<&str> = names.iter().map(|s| s.as_str()).collect();
        nodes.push(ONode::new("Concat", &format!("n_{o}"), &refs, &[&o]).attr("axis", Attr::Int(axis as i64)));
        let parts: Vec<&CT> = names.iter().map(|n| &env[n]).collect();
        let v = ct_concat(&parts, axis);
        env.insert(o.clone(), v);
        cur = o;
    }
    let mut out_names: Vec<String> = vec![cur.clone()];
    out_names.extend(extra_outs);
    if rng.chance(1, 4) {
        out_names.push(ms[0].clone());
    }
    let g = onnx_enc::Graph {
        name: "main".into(),
        nodes,
        initializers: inits,
        inputs,
        outputs: out_names.iter().map(|n| ValueInfo::new(n, odt, None)).collect(),
        value_infos: vec![],
    };
    let desc = describe_onnx(&g);
    let optimize = rng.chance(1, 3);
    let mut mo = ModelOptions::with_all_ops();
    mo.enable_optimization(optimize);
    let bytes = g.into_model_bytes(21);
    let model = match hcommon::catch(|| mo.load(bytes)) {
        Ok(Ok(m)) => m,
        Ok(Err(e)) => {
            out.bucket("C_load_error");
            out.note(&format!("family C model failed to load: {e} | {desc}"));
            return;
        }
        Err(m) => {
            out.bucket("C_load_panic");
            out.note(&format!("family C model load panicked: {m} | {desc}"));
            return;
        }
    };
    let gr = model.verif_graph();
    let mut infos = HashMap::new();
    collect_infos(gr, &mut infos);
    let root_ops = infos.get(&(gr as *const Graph as usize)).map(|i| i.n_ops).unwrap_or(0);
    let ids = |names: &[String]| -> Option<Vec<NodeId>> { names.iter().map(|n| model.node_id(n).ok()).collect() };
    let (Some(in_ids), Some(outs)) = (ids(&in_names), ids(&out_names)) else {
        out.bucket("C_missing_node");
        return;
    };
    let in_vals: Vec<Value> = in_names.iter().map(|n| ct_value(&env[n], int)).collect();
    let mask: Vec<bool> = match rng.below(4) {
        0 => vec![false; in_names.len()],
        1 => vec![true; in_names.len()],
        _ => (0..in_names.len()).map(|_| rng.chance(1, 2)).collect(),
    };
    let naive = Outcome::Ok(out_names.iter().map(|n| ct_outval(&env[n], int)).collect());
    let mref = &model;
    let run = move |_alt: bool, inputs: Vec<(NodeId, ValueOrView)>, outs: &[NodeId], opts: RunOptions| mref.run(inputs, outs, Some(opts));
    tags.push(if optimize { "optimizer_on".into() } else { "optimizer_off".into() });
    let case = Case {
        fam: "C",
        infos,
        run: &run,
        in_ids,
        in_vals,
        mask,
        outs,
        alt: None,
        naive: Some(naive),
        tags,
        root_ops,
        panic_info: format!("model: {desc}"),
        root: Some(gr),
        sym_real: false,
    };
    run_case(&case, rng, pools, out);
}

// ---------------------------------------------------------------------------------------------

static PROGRESS: AtomicU64 = AtomicU64::new(0);

fn watchdog() {
    let mut last = u64::MAX;
    let mut stuck = 0;
    loop {
        std::thread::sleep(std::time::Duration::from_secs(5));
        let p = PROGRESS.load(Ordering::SeqCst);
        if p == last {
            stuck += 1;
            if stuck >= 12 {
                eprintln!("c02: no progress for 60 s at case {p}; aborting");
                std::process::exit(3);
            }
        } else {
            stuck = 0;
            last = p;
        }
    }
}

fn main() {
    let args = hcommon::parse_args();
    hcommon::quiet_panics();
    let mut out = Out::new(&args.out);
    let mut rng = Rng::new(args.seed);
    let pools = Pools::new();
    std::thread::spawn(watchdog);
    std::env::remove_var("RTEN_USE_POOL");

    let (n_a, n_b) = if args.thorough { (9_000, 18_000) } else { (700, 1_400) };
    let n_c = if args.thorough { 6_000 } else { 500 };
    for ci in 0..n_c {
        PROGRESS.store(ci as u64 + 1, Ordering::SeqCst);
        let mut case_rng = Rng::new(rng.next_u64());
        let r = hcommon::catch(|| family_c_case(&mut case_rng, &pools, &mut out));
        exec_trace::set_never_in_place(false);
        let _ = exec_trace::take_trace();
        std::env::remove_var("RTEN_USE_POOL");
        if let Err(m) = r {
            out.bucket("harness_panic");
            out.note(&format!("case {ci} (C) panicked in the harness: {m}"));
        }
    }
    let n_d = if args.thorough { 400 } else { 60 };
    for ci in 0..n_d {
        PROGRESS.store(ci as u64 + 1, Ordering::SeqCst);
        let mut case_rng = Rng::new(rng.next_u64());
        let r = hcommon::catch(|| family_d_case(&mut case_rng, &pools, &mut out));
        exec_trace::set_never_in_place(false);
        let _ = exec_trace::take_trace();
        std::env::remove_var("RTEN_USE_POOL");
        if let Err(m) = r {
            out.bucket("harness_panic");
            out.note(&format!("case {ci} (D) panicked in the harness: {m}"));
        }
    }
    let total = n_a + n_b;
    let mut done_a = 0;
    for ci in 0..total {
        PROGRESS.store(ci as u64 + 1, Ordering::SeqCst);
        // interleave the families deterministically
        let is_a = done_a * total < n_a * (ci + 1) && done_a < n_a;
        let mut case_rng = Rng::new(rng.next_u64());
        let r = hcommon::catch(|| {
            if is_a {
                family_a_case(&mut case_rng, &pools, &mut out)
            } else {
                family_b_case(&mut case_rng, &pools, &mut out)
            }
        });
        if is_a {
            done_a += 1;
        }
        // a panic inside the harness itself may have left the switches on
        exec_trace::set_never_in_place(false);
        let _ = exec_trace::take_trace();
        std::env::remove_var("RTEN_USE_POOL");
        if let Err(m) = r {
            out.bucket("harness_panic");
            out.note(&format!("case {ci} ({}) panicked in the harness: {m}", if is_a { "A" } else { "B" }));
        }
    }
    let n_s = if args.thorough { 8_000 } else { 800 };
    for ci in 0..n_s {
        PROGRESS.store(ci as u64 + 1, Ordering::SeqCst);
        let mut case_rng = Rng::new(rng.next_u64());
        let r = hcommon::catch(|| family_s_case(&mut case_rng, &pools, &mut out));
        exec_trace::set_never_in_place(false);
        let _ = exec_trace::take_trace();
        std::env::remove_var("RTEN_USE_POOL");
        if let Err(m) = r {
            out.bucket("harness_panic");
            out.note(&format!("case {ci} (S) panicked in the harness: {m}"));
        }
    }
    out.note("R2 (thread count), R6 (other prepack), random extra masks and flipped never-in-place runs are emitted only when their depth-0 answer differs from R0; all runs are compared by the oracle");
    out.finish(RULE);
}
