fn main() { println!("h-img harness package: run a property binary (cNN) instead"); }
