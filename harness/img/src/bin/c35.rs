//! C35: `convex_hull`, `min_area_rect`, `simplify_polyline`, `simplify_polygon` of
//! rten-imageproc on integer-valued point sets.
//!
//! Requests (see lean/RtenVerif/Driver/C35.lean):
//!  * `dp <closed> <eps> <pts> <table>` — the model re-runs Douglas–Peucker on the table of
//!    distances that the *code's own* `Line::distance` returns (bit patterns), so float
//!    rounding is not re-derived; answer = kept points.
//!  * `hull <x,y;…> [#scale=2^s]` — the model re-runs min-point / stable sort by exact
//!    orientation / dedup / stack scan on the integer coordinates (the real function gets
//!    them multiplied by 2^s as `f32`).
//!  * `# …` lines (scaled "tiny"/"huge" coordinates for simplification, `min_area_rect`) are
//!    not compared with the model; only the oracle below applies.
//! Oracle (independent of the model, exact `i128` / `f64` on the integer coordinates):
//!  * hull ⊆ input, duplicate-free, strictly convex (cyclically), contains every input point;
//!  * min_area_rect contains every input point (tolerance 1e-3 of the extent);
//!  * simplification keeps the first point, is a subsequence of the input, every removed
//!    point is within `eps` (+ tolerance) of the simplified outline; no panic for
//!    `eps >= 0` (the documented assertion `epsilon >= 0` is the only accepted panic).
use hcommon::{Args, Out, Rng};
use rten_imageproc::{convex_hull, min_area_rect, simplify_polygon, simplify_polyline, Line, PointF};

type IPt = (i64, i64); // (x, y)

fn scale_f(s: i32) -> f64 {
    (2.0f64).powi(s)
}

fn to_pf(p: IPt, s: i32) -> PointF {
    let k = scale_f(s);
    PointF::from_yx((p.1 as f64 * k) as f32, (p.0 as f64 * k) as f32)
}

/// Integer coordinates back from an f32 point produced for scale `s` (None if not integral).
fn from_pf(p: PointF, s: i32) -> Option<IPt> {
    let k = scale_f(s);
    let x = p.x as f64 / k;
    let y = p.y as f64 / k;
    if x.fract() == 0.0 && y.fract() == 0.0 && x.abs() < 1e15 && y.abs() < 1e15 {
        Some((x as i64, y as i64))
    } else {
        None
    }
}

fn fmt_pts(ps: &[IPt]) -> String {
    if ps.is_empty() {
        "-".into()
    } else {
        hcommon::join(ps.iter().map(|p| format!("{},{}", p.0, p.1)), ";")
    }
}

fn fmt_out(ps: &[PointF], s: i32) -> (String, Option<Vec<IPt>>) {
    let conv: Option<Vec<IPt>> = ps.iter().map(|&p| from_pf(p, s)).collect();
    match conv {
        Some(v) => (fmt_pts(&v), Some(v)),
        None => (
            format!("nonint:{}", hcommon::join(ps.iter().map(|p| format!("{:e},{:e}", p.x, p.y)), ";")),
            None,
        ),
    }
}

fn cross(a: IPt, b: IPt, p: IPt) -> i128 {
    // (b - a) x (p - a)
    (b.0 - a.0) as i128 * (p.1 - a.1) as i128 - (b.1 - a.1) as i128 * (p.0 - a.0) as i128
}

// ---------------------------------------------------------------- point-set generators

fn gen_points(rng: &mut Rng, max_n: usize) -> (Vec<IPt>, &'static str) {
    let kind = rng.below(10);
    let n = match rng.below(8) {
        0 => rng.usize_below(4),
        1 => 1 + rng.usize_below(3),
        _ => rng.usize_below(max_n + 1),
    };
    let mut pts = Vec::new();
    let name;
    match kind {
        0 => {
            name = "grid3";
            for _ in 0..n {
                pts.push((rng.range_i64(0, 2), rng.range_i64(0, 2)));
            }
        }
        1 | 2 => {
            name = "grid6";
            for _ in 0..n {
                pts.push((rng.range_i64(-3, 3), rng.range_i64(-3, 3)));
            }
        }
        3 => {
            name = "collinear";
            let (dx, dy) = (rng.range_i64(-4, 4), rng.range_i64(-4, 4));
            let (ox, oy) = (rng.range_i64(-50, 50), rng.range_i64(-50, 50));
            for _ in 0..n {
                let t = rng.range_i64(-20, 20);
                pts.push((ox + t * dx, oy + t * dy));
            }
        }
        4 => {
            name = "near_collinear";
            let (dx, dy) = (rng.range_i64(-4, 4), rng.range_i64(-4, 4));
            for _ in 0..n {
                let t = rng.range_i64(-30, 30);
                let e = if rng.chance(1, 4) { rng.range_i64(-1, 1) } else { 0 };
                pts.push((t * dx + e, t * dy - e));
            }
        }
        5 => {
            name = "dups";
            let base: Vec<IPt> = (0..1 + rng.usize_below(5))
                .map(|_| (rng.range_i64(-10, 10), rng.range_i64(-10, 10)))
                .collect();
            for _ in 0..n {
                pts.push(*rng.pick(&base));
            }
        }
        6 => {
            name = "rect_border";
            // axis-aligned rectangle outline walked point by point (typical contour input)
            let (w, h) = (rng.range_i64(1, 8), rng.range_i64(1, 8));
            let (ox, oy) = (rng.range_i64(-20, 20), rng.range_i64(-20, 20));
            for x in 0..w {
                pts.push((ox + x, oy));
            }
            for y in 0..h {
                pts.push((ox + w, oy + y));
            }
            for x in 0..w {
                pts.push((ox + w - x, oy + h));
            }
            for y in 0..h {
                pts.push((ox, oy + h - y));
            }
            pts.truncate(max_n.max(4));
        }
        7 => {
            name = "medium";
            for _ in 0..n {
                pts.push((rng.range_i64(-1000, 1000), rng.range_i64(-1000, 1000)));
            }
        }
        8 => {
            name = "circle";
            let r = rng.range_i64(2, 900) as f64;
            for i in 0..n {
                let a = i as f64 / n.max(1) as f64 * std::f64::consts::TAU;
                pts.push(((r * a.cos()).round() as i64, (r * a.sin()).round() as i64));
            }
            if rng.chance(1, 2) {
                rng.shuffle(&mut pts);
            }
        }
        _ => {
            name = "small";
            for _ in 0..n {
                pts.push((rng.range_i64(-20, 20), rng.range_i64(-20, 20)));
            }
        }
    }
    (pts, name)
}

fn pick_scale(rng: &mut Rng) -> i32 {
    *rng.pick(&[-130, -100, -70, -40, 30, 60, 100, 110])
}

// ---------------------------------------------------------------- convex hull

/// Exact check of the property for a hull. Returns the first failure.
fn hull_oracle(input: &[IPt], hull: &[IPt]) -> Option<String> {
    for h in hull {
        if !input.contains(h) {
            return Some(format!("hull point {},{} is not an input point", h.0, h.1));
        }
    }
    for i in 0..hull.len() {
        for j in i + 1..hull.len() {
            if hull[i] == hull[j] {
                return Some(format!("hull repeats point {},{}", hull[i].0, hull[i].1));
            }
        }
    }
    match hull.len() {
        0 => {
            if !input.is_empty() {
                return Some("empty hull for non-empty input".into());
            }
        }
        1 => {
            if let Some(p) = input.iter().find(|&&p| p != hull[0]) {
                return Some(format!("input point {},{} outside 1-point hull", p.0, p.1));
            }
        }
        2 => {
            let (a, b) = (hull[0], hull[1]);
            for &p in input {
                let inside = cross(a, b, p) == 0
                    && p.0 >= a.0.min(b.0)
                    && p.0 <= a.0.max(b.0)
                    && p.1 >= a.1.min(b.1)
                    && p.1 <= a.1.max(b.1);
                if !inside {
                    return Some(format!("input point {},{} outside 2-point hull", p.0, p.1));
                }
            }
        }
        n => {
            for i in 0..n {
                let (a, b, c) = (hull[i], hull[(i + 1) % n], hull[(i + 2) % n]);
                if cross(a, b, c) <= 0 {
                    return Some(format!(
                        "not strictly convex at {},{} -> {},{} -> {},{} (cross {})",
                        a.0, a.1, b.0, b.1, c.0, c.1, cross(a, b, c)
                    ));
                }
                for &p in input {
                    if cross(a, b, p) < 0 {
                        return Some(format!(
                            "input point {},{} outside hull edge {},{} -> {},{}",
                            p.0, p.1, a.0, a.1, b.0, b.1
                        ));
                    }
                }
            }
        }
    }
    None
}

fn hull_case(out: &mut Out, pts: &[IPt], s: i32, gen: &str) {
    let fpts: Vec<PointF> = pts.iter().map(|&p| to_pf(p, s)).collect();
    // The fixed code compares exact (f64) cross products, so scaled coordinates are
    // compared with the model as well; the scale is only a comment for replay.
    let req = if s == 0 {
        format!("hull {}", fmt_pts(pts))
    } else {
        format!("hull {} #scale=2^{s}", fmt_pts(pts))
    };
    let res = hcommon::catch(|| convex_hull(&fpts));
    let (ans, fail) = match res {
        Ok(h) => {
            let (txt, conv) = fmt_out(&h, s);
            match conv {
                Some(hi) => {
                    let exact_min = pts.iter().copied().fold(None, |best: Option<IPt>, p| match best {
                        None => Some(p),
                        Some(b) => {
                            if p.1 > b.1 || (p.1 == b.1 && p.0 < b.0) {
                                Some(p)
                            } else {
                                Some(b)
                            }
                        }
                    });
                    let is_min = exact_min == hi.first().copied();
                    out.bucket(&format!("hull_len_{}", hi.len().min(9)));
                    (format!("{txt} min={}", is_min as u8), hull_oracle(pts, &hi))
                }
                None => (txt, Some("hull contains a point that is not an input point".to_string())),
            }
        }
        Err(m) => (format!("panic {m}"), Some(format!("convex_hull panicked: {m}"))),
    };
    out.bucket(&format!("hull_gen_{gen}"));
    out.bucket(if s == 0 { "hull_exact_range" } else { "hull_scaled" });
    out.bucket(&format!("hull_n_{}", bucket_n(pts.len())));
    out.case(&req, &ans, fail.as_deref(), pts.len() >= 4);
}

fn bucket_n(n: usize) -> &'static str {
    match n {
        0 => "0",
        1 => "1",
        2 => "2",
        3 => "3",
        4..=7 => "4-7",
        8..=15 => "8-15",
        _ => "16+",
    }
}

// ---------------------------------------------------------------- min_area_rect

fn rect_case(out: &mut Out, pts: &[IPt], s: i32, gen: &str) {
    let fpts: Vec<PointF> = pts.iter().map(|&p| to_pf(p, s)).collect();
    let req = format!("# rect 2^{s} {}", fmt_pts(pts));
    let res = hcommon::catch(|| min_area_rect(&fpts));
    let (ans, fail) = match res {
        Ok(None) => (
            "none".to_string(),
            if pts.is_empty() { None } else { Some("None for a non-empty point set".to_string()) },
        ),
        Ok(Some(r)) => {
            let k = scale_f(s);
            let c = r.center();
            let up = r.up_axis();
            let (w, h) = (r.width() as f64, r.height() as f64);
            let (ux, uy) = (up.x as f64, up.y as f64);
            let ulen = (ux * ux + uy * uy).sqrt();
            let extent = pts.iter().map(|p| p.0.abs().max(p.1.abs())).max().unwrap_or(0) as f64 * k;
            let span = {
                let (x0, x1) = (pts.iter().map(|p| p.0).min().unwrap_or(0), pts.iter().map(|p| p.0).max().unwrap_or(0));
                let (y0, y1) = (pts.iter().map(|p| p.1).min().unwrap_or(0), pts.iter().map(|p| p.1).max().unwrap_or(0));
                ((x1 - x0).max(y1 - y0)) as f64 * k
            };
            let tol = 1e-3 * span + 1e-5 * extent + 1e-30 * k;
            let mut fail = None;
            if pts.is_empty() {
                fail = Some("Some(rect) for the empty point set".to_string());
            } else if !(ulen.is_finite() && w.is_finite() && h.is_finite()) || (ulen - 1.0).abs() > 1e-3 {
                fail = Some(format!("rect is not finite / up axis not unit: up=({ux},{uy}) w={w} h={h}"));
            } else {
                for &p in pts {
                    let (dx, dy) = (p.0 as f64 * k - c.x as f64, p.1 as f64 * k - c.y as f64);
                    let pu = (dx * ux + dy * uy) / ulen;
                    // perpendicular(): (x: up.y, y: -up.x)
                    let pp = (dx * uy - dy * ux) / ulen;
                    let over = (pu.abs() - h / 2.0).max(pp.abs() - w / 2.0);
                    if !(over <= tol) {
                        fail = Some(format!(
                            "point {},{} lies {:e} outside the rect (tolerance {:e}, span {:e})",
                            p.0, p.1, over, tol, span
                        ));
                        break;
                    }
                }
            }
            // "minimum area": compare with the exact minimum over the hull's edge-aligned
            // bounding rects and the axis-aligned one (what the exhaustive search ranges over)
            if fail.is_none() && s == 0 && !pts.is_empty() {
                let hull: Vec<IPt> = convex_hull(&fpts).iter().filter_map(|&p| from_pf(p, 0)).collect();
                let (x0, x1) = (pts.iter().map(|p| p.0).min().unwrap(), pts.iter().map(|p| p.0).max().unwrap());
                let (y0, y1) = (pts.iter().map(|p| p.1).min().unwrap(), pts.iter().map(|p| p.1).max().unwrap());
                let mut best = ((x1 - x0) * (y1 - y0)) as f64;
                if hull.len() >= 2 {
                    for i in 0..hull.len() {
                        let (a, b) = (hull[i], hull[(i + 1) % hull.len()]);
                        let (ex, ey) = ((b.0 - a.0) as f64, (b.1 - a.1) as f64);
                        let l2 = ex * ex + ey * ey;
                        let (mut lo, mut hi, mut mp) = (f64::MAX, f64::MIN, f64::MIN);
                        for q in &hull {
                            let (dx, dy) = ((q.0 - a.0) as f64, (q.1 - a.1) as f64);
                            let par = ex * dx + ey * dy;
                            let perp = (ex * dy - ey * dx).abs();
                            lo = lo.min(par);
                            hi = hi.max(par);
                            mp = mp.max(perp);
                        }
                        best = best.min((hi - lo) * mp / l2);
                    }
                }
                let area = w * h;
                if (area - best).abs() > 1e-3 * best.max(1e-2 * span * span).max(1.0) {
                    fail = Some(format!("rect area {area} differs from the exact minimum {best} over the edge-aligned rects"));
                }
                out.bucket("rect_min_area_checked");
            }
            if let Some(msg) = &fail {
                let hull = convex_hull(&fpts);
                let n = hull.len();
                let hits = f32_range_hits((0..n).map(|i| (hull[i], hull[(i + 1) % n])));
                if hits > 0 {
                    fail = Some(format!("{msg} [f32-range: {hits} of {n} hull edge lengths overflow/underflow in f32]"));
                }
            }
            ("some".to_string(), fail)
        }
        Err(m) => (format!("panic {m}"), Some(format!("min_area_rect panicked: {m}"))),
    };
    out.bucket(&format!("rect_gen_{gen}"));
    out.bucket(if s == 0 { "rect_exact_range" } else { "rect_scaled" });
    out.case(&req, &ans, fail.as_deref(), pts.len() >= 3);
}

/// Number of segments between consecutive-or-any listed point pairs whose squared length, as
/// `Vec2::length` computes it in f32, overflows (inf/NaN) or underflows (below the smallest
/// normal f32, including 0) although the points differ. This is the mechanism behind the known
/// f32-range findings; the tag is only printed when it really occurs.
fn f32_range_hits(pairs: impl Iterator<Item = (PointF, PointF)>) -> usize {
    pairs
        .filter(|(a, b)| {
            if a == b {
                return false;
            }
            let v = a.vec_to(*b);
            let l2 = v.x * v.x + v.y * v.y;
            !l2.is_finite() || l2 < f32::MIN_POSITIVE
        })
        .count()
}

/// `rect` request: integer point sets whose hull edges all have integer length (axis-aligned and
/// Pythagorean directions), so that the sqrt-free Lean model of `min_area_rect` can rebuild every
/// candidate rect exactly; the corners the real code returns are shipped in units of 1/1000.
fn rect_exact_case(out: &mut Out, rng: &mut Rng) {
    const DIRS: [(i64, i64); 8] = [(1, 0), (0, 1), (3, 4), (4, 3), (5, 12), (12, 5), (8, 15), (15, 8)];
    let pick_dir = |rng: &mut Rng| {
        let d = *rng.pick(&DIRS);
        let (sx, sy) = (if rng.chance(1, 2) { 1 } else { -1 }, if rng.chance(1, 2) { 1 } else { -1 });
        (d.0 * sx, d.1 * sy)
    };
    let o = (rng.range_i64(-20, 20), rng.range_i64(-20, 20));
    let kind = rng.below(5);
    let mut pts: Vec<IPt> = Vec::new();
    let gen;
    match kind {
        0 => {
            gen = "rotated_rect";
            let u = pick_dir(rng);
            let v = (-u.1, u.0);
            let (a, b) = (rng.range_i64(1, 4), rng.range_i64(1, 4));
            for i in 0..=a {
                for j in 0..=b {
                    if (i == 0 || i == a) && (j == 0 || j == b) || rng.chance(1, 3) {
                        pts.push((o.0 + i * u.0 + j * v.0, o.1 + i * u.1 + j * v.1));
                    }
                }
            }
        }
        1 => {
            gen = "parallelogram";
            let (u, mut v) = (pick_dir(rng), pick_dir(rng));
            if u.0 * v.1 - u.1 * v.0 == 0 {
                v = (-u.1, u.0);
            }
            let (a, b) = (rng.range_i64(1, 3), rng.range_i64(1, 3));
            pts = vec![o, (o.0 + a * u.0, o.1 + a * u.1), (o.0 + a * u.0 + b * v.0, o.1 + a * u.1 + b * v.1), (o.0 + b * v.0, o.1 + b * v.1)];
            if rng.chance(1, 2) && (a * u.0 + b * v.0) % 2 == 0 && (a * u.1 + b * v.1) % 2 == 0 {
                // an interior point: the exact centre
                pts.push((o.0 + (a * u.0 + b * v.0) / 2, o.1 + (a * u.1 + b * v.1) / 2));
            }
        }
        2 => {
            gen = "right_triangle";
            let u = pick_dir(rng);
            let v = (-u.1, u.0);
            let k = rng.range_i64(1, 2);
            pts = vec![o, (o.0 + 3 * k * u.0, o.1 + 3 * k * u.1), (o.0 + 4 * k * v.0, o.1 + 4 * k * v.1)];
        }
        3 => {
            gen = "octagon";
            let steps: [(i64, i64); 8] = [(4, 3), (3, 4), (-3, 4), (-4, 3), (-4, -3), (-3, -4), (3, -4), (4, -3)];
            let k = rng.range_i64(1, 3);
            let mut p = o;
            let skip = rng.usize_below(9); // optionally merge two steps into one? no: drop none/one vertex later
            for (i, st) in steps.iter().enumerate() {
                pts.push(p);
                p = (p.0 + k * st.0, p.1 + k * st.1);
                let _ = (i, skip);
            }
        }
        _ => {
            gen = "segment_or_point";
            let u = pick_dir(rng);
            let a = rng.range_i64(0, 4);
            pts = vec![o, (o.0 + a * u.0, o.1 + a * u.1)];
            if rng.chance(1, 2) {
                pts.push((o.0 + (a / 2) * u.0, o.1 + (a / 2) * u.1));
            }
        }
    }
    rng.shuffle(&mut pts);
    let fpts: Vec<PointF> = pts.iter().map(|&p| to_pf(p, 0)).collect();
    let res = hcommon::catch(|| min_area_rect(&fpts).map(|r| r.corners()));
    let (corners_w, ans) = match res {
        Ok(Some(cs)) => (
            hcommon::join(cs.iter().map(|c| format!("{},{}", (c.x as f64 * 1000.0).round() as i64, (c.y as f64 * 1000.0).round() as i64)), ";"),
            "match".to_string(),
        ),
        Ok(None) => ("-".to_string(), "none".to_string()),
        Err(m) => ("-".to_string(), format!("panic {m}")),
    };
    let req = format!("rect {} {}", fmt_pts(&pts), corners_w);
    out.bucket(&format!("rectx_gen_{gen}"));
    out.case(&req, &ans, None, pts.len() >= 3);
}

// ---------------------------------------------------------------- simplification

fn gen_eps(rng: &mut Rng) -> f32 {
    match rng.below(16) {
        0 => 0.0,
        1 => -0.0,
        2 => 0.5,
        3 | 4 => 1.0,
        5 => 2.0,
        6 => 1.5,
        7 => 5.0,
        8 => 100.0,
        9 => f32::INFINITY,
        10 => -1.0,
        11 => f32::NAN,
        12 => f32::MIN_POSITIVE,
        _ => rng.f32_unit() * 4.0,
    }
}

fn dist_f64(a: (f64, f64), b: (f64, f64), p: (f64, f64)) -> f64 {
    let (abx, aby) = (b.0 - a.0, b.1 - a.1);
    let (apx, apy) = (p.0 - a.0, p.1 - a.1);
    let l2 = abx * abx + aby * aby;
    if l2 == 0.0 {
        return (apx * apx + apy * apy).sqrt();
    }
    let t = ((apx * abx + apy * aby) / l2).clamp(0.0, 1.0);
    let (qx, qy) = (a.0 + t * abx - p.0, a.1 + t * aby - p.1);
    (qx * qx + qy * qy).sqrt()
}

fn dp_oracle(input: &[IPt], outp: &[IPt], closed: bool, eps: f32, s: i32) -> Option<String> {
    if input.is_empty() {
        return if outp.is_empty() { None } else { Some("non-empty result for empty input".into()) };
    }
    if outp.first() != input.first() {
        return Some("first point not kept".into());
    }
    // subsequence (greedy)
    let mut j = 0;
    let mut kept = vec![false; input.len()];
    for (i, p) in input.iter().enumerate() {
        if j < outp.len() && *p == outp[j] {
            kept[i] = true;
            j += 1;
        }
    }
    if j != outp.len() {
        return Some("result is not a subsequence of the input".into());
    }
    let k = scale_f(s);
    let f = |p: IPt| (p.0 as f64 * k, p.1 as f64 * k);
    let mut outline: Vec<(f64, f64)> = outp.iter().map(|&p| f(p)).collect();
    if closed {
        outline.push(f(outp[0]));
    }
    let extent = input.iter().map(|p| p.0.abs().max(p.1.abs())).max().unwrap_or(0) as f64 * k;
    let tol = (eps as f64) * 1e-3 + 1e-5 * extent;
    for (i, &p) in input.iter().enumerate() {
        if kept[i] {
            continue;
        }
        let q = f(p);
        let d = if outline.len() == 1 {
            dist_f64(outline[0], outline[0], q)
        } else {
            outline.windows(2).map(|w| dist_f64(w[0], w[1], q)).fold(f64::INFINITY, f64::min)
        };
        if !(d <= eps as f64 + tol) {
            return Some(format!(
                "removed point #{i} ({},{}) is {:e} from the simplified outline, epsilon {:e}",
                p.0, p.1, d, eps
            ));
        }
    }
    None
}

fn dp_case(out: &mut Out, pts: &[IPt], closed: bool, eps: f32, s: i32, gen: &str) {
    let fpts: Vec<PointF> = pts.iter().map(|&p| to_pf(p, s)).collect();
    // distance table over the polyline the code works on
    let mut poly = fpts.clone();
    if closed && !poly.is_empty() {
        poly.push(poly[0]);
    }
    let m = poly.len();
    let mut tab: Vec<String> = Vec::new();
    for i in 0..m {
        for j in i + 2..m {
            let line = Line::from_endpoints(poly[i], poly[j]);
            for k in i + 1..j {
                let d = line.distance(poly[k]);
                tab.push(if d.is_nan() { "n".into() } else { d.to_bits().to_string() });
            }
        }
    }
    let eps_ok = eps >= 0.0;
    let eps_w = if eps_ok { (if eps == 0.0 { 0 } else { eps.to_bits() }).to_string() } else { "n".to_string() };
    let tab_w = if tab.is_empty() { "-".to_string() } else { tab.join(",") };
    let req = if s == 0 {
        format!("dp {} {} {} {}", closed as u8, eps_w, fmt_pts(pts), tab_w)
    } else {
        // the model runs on the shipped distance table, so scaled cases are compared too
        format!("dp {} {} {} {} #scale=2^{s};eps={:e}", closed as u8, eps_w, fmt_pts(pts), tab_w, eps)
    };
    let res = hcommon::catch(|| {
        if closed {
            simplify_polygon(&fpts, eps)
        } else {
            simplify_polyline(&fpts, eps)
        }
    });
    let (ans, fail) = match res {
        Ok(o) => {
            let (txt, conv) = fmt_out(&o, s);
            let fail = match conv {
                Some(oi) => {
                    out.bucket(if oi.len() == pts.len() { "dp_kept_all" } else { "dp_removed_some" });
                    dp_oracle(pts, &oi, closed, eps, s).map(|msg| {
                        let m = poly.len();
                        let hits = f32_range_hits((0..m).flat_map(|i| (i + 1..m).map(move |j| (i, j))).map(|(i, j)| (poly[i], poly[j])));
                        if hits > 0 {
                            format!("{msg} [f32-range: {hits} segment lengths overflow/underflow in f32]")
                        } else {
                            msg
                        }
                    })
                }
                None => Some("result contains a point that is not an input point".to_string()),
            };
            (txt, fail)
        }
        Err(msg) => {
            let fail = if eps_ok {
                Some(format!("panicked for a valid epsilon: {msg}"))
            } else {
                None // documented precondition `assert!(epsilon >= 0.)`
            };
            ("panic".to_string(), fail)
        }
    };
    out.bucket(&format!("dp_gen_{gen}"));
    out.bucket(if closed { "dp_polygon" } else { "dp_polyline" });
    out.bucket(if s == 0 { "dp_exact_range" } else { "dp_scaled" });
    out.bucket(if !eps_ok { "dp_eps_invalid" } else if eps == 0.0 { "dp_eps_zero" } else { "dp_eps_pos" });
    out.bucket(&format!("dp_n_{}", bucket_n(pts.len())));
    out.case(&req, &ans, fail.as_deref(), pts.len() >= 4 && eps_ok);
}

/// Points with NaN / infinite / signed-zero / extreme coordinates: only "no panic" is required
/// (`sort_by` panics on an inconsistent comparator), plus the documented `epsilon >= 0`
/// assertion for the simplifications.
fn special_case(out: &mut Out, rng: &mut Rng) {
    let specials = [f32::NAN, f32::INFINITY, f32::NEG_INFINITY, -0.0, 0.0, 3.0e38, -3.0e38, 1e-40, -1e-40, 1.0];
    let n = 1 + rng.usize_below(24);
    let coord = |rng: &mut Rng| if rng.chance(1, 3) { *rng.pick(&specials) } else { rng.range_i64(-3, 3) as f32 };
    let pts: Vec<PointF> = (0..n).map(|_| { let y = coord(rng); let x = coord(rng); PointF::from_yx(y, x) }).collect();
    let txt = hcommon::join(pts.iter().map(|p| format!("{:e},{:e}", p.x, p.y)), ";");
    let which = rng.below(3);
    let req = format!("# special {} {txt}", ["hull", "rect", "simplify"][which as usize]);
    let res = hcommon::catch(|| match which {
        0 => convex_hull(&pts).len(),
        1 => min_area_rect(&pts).is_some() as usize,
        _ => simplify_polygon(&pts, 1.0).len() + simplify_polyline(&pts, 0.5).len(),
    });
    let (ans, fail) = match res {
        Ok(k) => (format!("ok {k}"), None),
        Err(m) => ("panic".to_string(), Some(format!("panicked on non-finite / extreme coordinates: {m}"))),
    };
    out.bucket(["special_hull", "special_rect", "special_simplify"][which as usize]);
    out.case(&req, &ans, fail.as_deref(), n >= 3);
}

/// Hull of points whose coordinates have very different magnitudes (per-coordinate scale 2^0,
/// 2^25 or 2^50): the f64 differences the code forms are then not exact. Exact i128 oracle.
fn mixed_scale_case(out: &mut Out, rng: &mut Rng) {
    let n = 3 + rng.usize_below(10);
    let sc = |rng: &mut Rng| -> i64 { rng.range_i64(-1000, 1000) << *rng.pick(&[0u32, 0, 25, 50]) };
    let pts: Vec<IPt> = (0..n).map(|_| (sc(rng), sc(rng))).collect();
    // every value k * 2^s with |k| <= 1000 is exactly representable in f32
    let fpts: Vec<PointF> = pts.iter().map(|p| PointF::from_yx(p.1 as f32, p.0 as f32)).collect();
    let req = format!("# hull-mixed {}", fmt_pts(&pts));
    let res = hcommon::catch(|| convex_hull(&fpts));
    let (ans, fail) = match res {
        Ok(h) => {
            let hi: Vec<IPt> = h.iter().map(|p| (p.x as f64 as i64, p.y as f64 as i64)).collect();
            let mut fail = hull_oracle(&pts, &hi);
            // For a containment failure on a proper (>= 3 point, subset, duplicate-free) hull report
            // how far outside the worst point is, relative to the largest coordinate magnitude.
            if let Some(msg) = &fail {
                if ((msg.contains("outside hull edge") || msg.contains("not strictly convex")) && hi.len() >= 3)
                    || (msg.contains("outside 2-point hull") && hi.len() == 2)
                {
                    let scale = pts.iter().map(|p| p.0.abs().max(p.1.abs())).max().unwrap_or(1).max(1) as f64;
                    let mut worst = 0.0f64;
                    for i in 0..hi.len() {
                        let (a, b) = (hi[i], hi[(i + 1) % hi.len()]);
                        let len = (((b.0 - a.0) as f64).powi(2) + ((b.1 - a.1) as f64).powi(2)).sqrt();
                        for &q in &pts {
                            let c = cross(a, b, q);
                            if len > 0.0 && (c < 0 || hi.len() == 2) {
                                worst = worst.max((c as f64).abs() / len / scale);
                            }
                        }
                    }
                    // The model's exactness premise: every pairwise coordinate difference must be
                    // exactly representable in f64. Count the differences that are not.
                    let mut inexact = 0usize;
                    for i in 0..pts.len() {
                        for j in i + 1..pts.len() {
                            for d in [pts[j].0 - pts[i].0, pts[j].1 - pts[i].1] {
                                if (d as f64) as i128 != d as i128 {
                                    inexact += 1;
                                }
                            }
                        }
                    }
                    let tag = if inexact > 0 {
                        format!(" [f64-inexact: {inexact} coordinate differences are not representable in f64]")
                    } else {
                        String::new()
                    };
                    fail = Some(format!("{msg}; worst point is rel {:.2e} of the coordinate scale outside{tag}", worst));
                }
            }
            (fmt_pts(&hi), fail)
        }
        Err(m) => ("panic".to_string(), Some(format!("convex_hull panicked: {m}"))),
    };
    out.bucket("hull_mixed_scale");
    out.case(&req, &ans, fail.as_deref(), true);
}

fn main() {
    let args = hcommon::parse_args();
    hcommon::quiet_panics();
    run(&args)
}

fn run(args: &Args) {
    let mut out = Out::new(&args.out);
    let mut rng = Rng::new(args.seed);
    let mult = if args.thorough { 10 } else { 1 };

    // (a) fixed boundary cases: 0..3 points, every epsilon class, both entry points
    let tiny_sets: Vec<Vec<IPt>> = vec![
        vec![],
        vec![(1, 1)],
        vec![(1, 1), (1, 1)],
        vec![(1, 1), (2, 2)],
        vec![(0, 0), (1, 1), (2, 2)],
        vec![(0, 0), (2, 2), (1, 1)],
        vec![(0, 0), (4, 0), (0, 4)],
        vec![(3, 3), (3, 3), (3, 3)],
        vec![(0, 0), (1, 0), (2, 0), (3, 0)],
        vec![(0, 0), (0, 4), (4, 4), (4, 0)],
    ];
    for pts in &tiny_sets {
        hull_case(&mut out, pts, 0, "fixed");
        rect_case(&mut out, pts, 0, "fixed");
        for &e in &[0.0f32, 1.0, -1.0, f32::NAN, f32::INFINITY] {
            dp_case(&mut out, pts, false, e, 0, "fixed");
            dp_case(&mut out, pts, true, e, 0, "fixed");
        }
    }

    // (b) exhaustive small scope for the hull: all lists of ≤ 4 points on the 3×3 grid
    // (thorough: also all 5-point lists)
    let max_len = if args.thorough { 5 } else { 4 };
    for len in 0..=max_len {
        let total = 9usize.pow(len as u32);
        for code in 0..total {
            let mut c = code;
            let mut pts = Vec::new();
            for _ in 0..len {
                pts.push(((c % 3) as i64, (c / 3 % 3) as i64));
                c /= 9;
            }
            hull_case(&mut out, &pts, 0, "exh3x3");
        }
    }

    // (c) random point sets
    for _ in 0..20_000 * mult {
        let (pts, gen) = gen_points(&mut rng, 24);
        hull_case(&mut out, &pts, 0, gen);
    }
    for _ in 0..6_000 * mult {
        let (pts, gen) = gen_points(&mut rng, 24);
        rect_case(&mut out, &pts, 0, gen);
    }
    for _ in 0..7_000 * mult {
        let max_n = if rng.chance(1, 10) { 18 } else { 10 };
        let (pts, gen) = gen_points(&mut rng, max_n);
        let eps = gen_eps(&mut rng);
        let closed = rng.chance(1, 2);
        dp_case(&mut out, &pts, closed, eps, 0, gen);
    }

    // (d) tiny / huge coordinates (integer multiples of 2^s, exactly representable in f32)
    for _ in 0..1_500 * mult {
        let (pts, gen) = gen_points(&mut rng, 12);
        let s = pick_scale(&mut rng);
        match rng.below(3) {
            0 => hull_case(&mut out, &pts, s, gen),
            1 => rect_case(&mut out, &pts, s, gen),
            _ => {
                let eps = (gen_eps(&mut rng) as f64 * scale_f(s)) as f32;
                let closed = rng.chance(1, 2);
                dp_case(&mut out, &pts, closed, eps, s, gen);
            }
        }
    }
    for _ in 0..3_000 * mult {
        rect_exact_case(&mut out, &mut rng);
    }
    for _ in 0..3_000 * mult {
        special_case(&mut out, &mut rng);
    }
    for _ in 0..2_000 * mult {
        mixed_scale_case(&mut out, &mut rng);
    }
    out.note("coordinates are integers (|c| <= 1000 in the compared range, so f32 cross products are exact); scaled cases multiply them by 2^s, s in {-130..110}");
    out.finish("model answer (Douglas-Peucker on the code's distance table; hull on the code's sort keys) must equal the implementation's output; exact oracle: hull subset/dup-free/strictly convex/contains all; rect contains all; simplification keeps first point, subsequence, removed points within epsilon");
}
