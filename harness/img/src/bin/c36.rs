//! C36: `find_contours` and the drawing primitives of rten-imageproc.
//!
//! Requests (see lean/RtenVerif/Driver/C36.lean): `fc`, `line`, `fill`, `stroke` are compared
//! with the Lean model, and so are `fillit` (exact pixel sequence of `Polygon::fill_iter`), `wline`
//! (wide `draw_line`, the request carries the rotated rect's integer corners) and `poly`
//! (`draw_polygon`, width 1).
//!
//! Oracle (independent of the model):
//!  * contours: every point inside the image, a foreground pixel, with a background pixel or
//!    the image edge in its 8-neighbourhood; List mode: every 8-connected component has a
//!    contour that starts at its first pixel in raster order and stays inside the component.
//!  * drawing: the image is a window into a larger zeroed buffer; after the call the margin
//!    must be untouched (a write outside the image), and written pixels must lie inside the
//!    shape's bounds (rect / bounding box of the clamped endpoints / polygon bounding rect).
//!    A panic is an accepted outcome for shapes outside the image (checked indexing), it is
//!    recorded in the answer and in the histogram.
use hcommon::{Args, Out, Rng};
use rten_imageproc::{
    draw_line, draw_polygon, fill_rect, find_contours, stroke_rect, Line, Point, Polygon, Rect,
    RetrievalMode, RotatedRect, Vec2,
};
use rten_tensor::prelude::*;
use rten_tensor::NdTensor;

const MARGIN: usize = 3;

fn fmt_pts(ps: &[(i64, i64)]) -> String {
    if ps.is_empty() {
        "-".into()
    } else {
        hcommon::join(ps.iter().map(|p| format!("{},{}", p.0, p.1)), ";")
    }
}

// ------------------------------------------------------------------ contours

fn components(rows: usize, cols: usize, mask: &[bool]) -> Vec<Vec<(i64, i64)>> {
    let mut seen = vec![false; rows * cols];
    let mut comps = Vec::new();
    for y in 0..rows {
        for x in 0..cols {
            if !mask[y * cols + x] || seen[y * cols + x] {
                continue;
            }
            let mut comp = vec![];
            let mut stack = vec![(y as i64, x as i64)];
            seen[y * cols + x] = true;
            while let Some((cy, cx)) = stack.pop() {
                comp.push((cy, cx));
                for dy in -1..=1 {
                    for dx in -1..=1 {
                        let (ny, nx) = (cy + dy, cx + dx);
                        if ny < 0 || nx < 0 || ny >= rows as i64 || nx >= cols as i64 {
                            continue;
                        }
                        let i = ny as usize * cols + nx as usize;
                        if mask[i] && !seen[i] {
                            seen[i] = true;
                            stack.push((ny, nx));
                        }
                    }
                }
            }
            comp.sort();
            comps.push(comp);
        }
    }
    comps
}

fn contour_oracle(rows: usize, cols: usize, mask: &[bool], list_mode: bool, cs: &[Vec<(i64, i64)>], out: &mut Out) -> Option<String> {
    let fg = |y: i64, x: i64| y >= 0 && x >= 0 && (y as usize) < rows && (x as usize) < cols && mask[y as usize * cols + x as usize];
    for c in cs {
        if c.is_empty() {
            return Some("empty contour".into());
        }
        for &(y, x) in c {
            if y < 0 || x < 0 || y as usize >= rows || x as usize >= cols {
                return Some(format!("contour point {y},{x} outside the image"));
            }
            if !fg(y, x) {
                return Some(format!("contour point {y},{x} is a background pixel"));
            }
            let mut near8 = false;
            let mut near4 = false;
            for dy in -1..=1i64 {
                for dx in -1..=1i64 {
                    if (dy, dx) != (0, 0) && !fg(y + dy, x + dx) {
                        near8 = true;
                        if dy == 0 || dx == 0 {
                            near4 = true;
                        }
                    }
                }
            }
            if !near8 {
                return Some(format!("contour point {y},{x} is not adjacent to background or image edge"));
            }
            if !near4 {
                out.bucket("fc_point_only_diagonal_background");
            }
        }
    }
    let comps = components(rows, cols, mask);
    for comp in &comps {
        let first = comp[0]; // raster-order first pixel
        let has = cs.iter().any(|c| c[0] == first && c.iter().all(|p| comp.binary_search(p).is_ok()));
        if !has {
            if list_mode {
                return Some(format!("component starting at {},{} has no outer contour", first.0, first.1));
            } else {
                out.bucket("fc_external_component_without_contour");
            }
        }
    }
    None
}

fn fc_case(out: &mut Out, rows: usize, cols: usize, mask: &[bool], list_mode: bool, gen: &str) {
    let bits: String = if mask.is_empty() { "-".into() } else { mask.iter().map(|&b| if b { '1' } else { '0' }).collect() };
    let req = format!("fc {} {} {} {}", if list_mode { "l" } else { "e" }, rows, cols, bits);
    let t = NdTensor::<bool, 2>::from_data([rows, cols], mask.to_vec());
    let res = hcommon::catch(|| {
        let polys = find_contours(t.view(), if list_mode { RetrievalMode::List } else { RetrievalMode::External });
        polys
            .iter()
            .map(|p| p.iter().map(|q| (q.y as i64, q.x as i64)).collect::<Vec<_>>())
            .collect::<Vec<_>>()
    });
    let (ans, fail) = match res {
        Ok(cs) => {
            let txt = if cs.is_empty() { "-".to_string() } else { hcommon::join(cs.iter().map(|c| fmt_pts(c)), "|") };
            out.bucket(&format!("fc_contours_{}", cs.len().min(5)));
            (txt, contour_oracle(rows, cols, mask, list_mode, &cs, out))
        }
        Err(m) => ("panic".to_string(), Some(format!("find_contours panicked: {m}"))),
    };
    out.bucket(&format!("fc_gen_{gen}"));
    out.bucket(if list_mode { "fc_mode_list" } else { "fc_mode_external" });
    let nfg = mask.iter().filter(|&&b| b).count();
    out.case(&req, &ans, fail.as_deref(), nfg >= 2 && nfg < mask.len());
}

// ------------------------------------------------------------------ drawing

/// Run `f` on an `h × w` window of a larger zeroed buffer; returns the sorted set of written
/// window pixels, whether it panicked, and whether the margin was touched.
fn with_canvas(h: usize, w: usize, f: impl FnOnce(rten_tensor::NdTensorViewMut<u8, 2>)) -> (Vec<(i64, i64)>, Option<String>, bool) {
    let mut buf = NdTensor::<u8, 2>::zeros([h + 2 * MARGIN, w + 2 * MARGIN]);
    let panic = {
        let view = buf.slice_mut((MARGIN..MARGIN + h, MARGIN..MARGIN + w));
        hcommon::catch(move || f(view)).err()
    };
    let mut written = vec![];
    let mut margin_touched = false;
    for y in 0..h + 2 * MARGIN {
        for x in 0..w + 2 * MARGIN {
            if buf[[y, x]] != 0 {
                let inside = y >= MARGIN && y < MARGIN + h && x >= MARGIN && x < MARGIN + w;
                if inside {
                    written.push(((y - MARGIN) as i64, (x - MARGIN) as i64));
                } else {
                    margin_touched = true;
                }
            }
        }
    }
    (written, panic, margin_touched)
}

fn finish_draw(out: &mut Out, req: &str, kind: &str, written: &[(i64, i64)], panic: &Option<String>, margin: bool, bounds: (i64, i64, i64, i64), extra_fail: Option<String>, nontrivial: bool) {
    // bounds = (top, left, bottom, right), inclusive-exclusive
    let mut fail = extra_fail;
    if margin {
        fail = Some("a pixel outside the image window was modified".into());
    } else if let Some(p) = written.iter().find(|p| p.0 < bounds.0 || p.0 >= bounds.2 || p.1 < bounds.1 || p.1 >= bounds.3) {
        fail = Some(format!("pixel {},{} outside the shape's bounds [{},{})x[{},{}) was modified", p.0, p.1, bounds.0, bounds.2, bounds.1, bounds.3));
    }
    let ans = format!("{} panic={}", fmt_pts(written), panic.is_some() as u8);
    out.bucket(&format!("{kind}_{}", if panic.is_some() { "panic" } else { "ok" }));
    out.bucket(&format!("{kind}_{}", if written.is_empty() { "nothing_written" } else { "written" }));
    out.case(req, &ans, fail.as_deref(), nontrivial);
}

fn line_case(out: &mut Out, h: usize, w: usize, p0: (i64, i64), p1: (i64, i64)) {
    let req = format!("line {h} {w} {} {} {} {}", p0.0, p0.1, p1.0, p1.1);
    let line = Line::from_endpoints(Point::from_yx(p0.0 as i32, p0.1 as i32), Point::from_yx(p1.0 as i32, p1.1 as i32));
    let (written, panic, margin) = with_canvas(h, w, |v| draw_line(v, line, 1u8, 1));
    let cl = |v: i64, n: usize| v.clamp(0, (n as i64 - 1).max(0));
    let (y0, x0, y1, x1) = (cl(p0.0, h), cl(p0.1, w), cl(p1.0, h), cl(p1.1, w));
    let bounds = (y0.min(y1), x0.min(x1), y0.max(y1) + 1, x0.max(x1) + 1);
    let steps = (y1 - y0).abs().max((x1 - x0).abs());
    let extra = if panic.is_none() && written.len() as i64 != steps && h > 0 && w > 0 {
        Some(format!("{} pixels written, expected max(|dx|,|dy|) = {steps}", written.len()))
    } else {
        None
    };
    let inside = |p: (i64, i64)| p.0 >= 0 && p.1 >= 0 && p.0 < h as i64 && p.1 < w as i64;
    out.bucket(match (inside(p0), inside(p1)) {
        (true, true) => "line_both_inside",
        (false, false) => "line_both_outside",
        _ => "line_one_outside",
    });
    finish_draw(out, &req, "line", &written, &panic, margin, bounds, extra, steps > 1);
}

/// `draw_line` with width 0 draws nothing (request `line0`, model answer `- panic=0`).
fn line0_case(out: &mut Out, h: usize, w: usize, p0: (i64, i64), p1: (i64, i64)) {
    let req = format!("line0 {h} {w} {} {} {} {}", p0.0, p0.1, p1.0, p1.1);
    let line = Line::from_endpoints(Point::from_yx(p0.0 as i32, p0.1 as i32), Point::from_yx(p1.0 as i32, p1.1 as i32));
    let (written, panic, margin) = with_canvas(h, w, |v| draw_line(v, line, 1u8, 0));
    finish_draw(out, &req, "line0", &written, &panic, margin, (0, 0, 0, 0), None, false);
}

fn fill_case(out: &mut Out, h: usize, w: usize, r: (i64, i64, i64, i64)) {
    let req = format!("fill {h} {w} {} {} {} {}", r.0, r.1, r.2, r.3);
    let rect = Rect::from_tlbr(r.0 as i32, r.1 as i32, r.2 as i32, r.3 as i32);
    let (written, panic, margin) = with_canvas(h, w, |v| fill_rect(v, rect, 1u8));
    let area = (r.2 - r.0).max(0) * (r.3 - r.1).max(0);
    let extra = if panic.is_none() && written.len() as i64 != area {
        Some(format!("{} pixels written without panic, rect has {area}", written.len()))
    } else {
        None
    };
    let fits = r.0 >= 0 && r.1 >= 0 && r.2 <= h as i64 && r.3 <= w as i64;
    out.bucket(if fits { "fill_rect_inside_image" } else { "fill_rect_partly_outside" });
    finish_draw(out, &req, "fill", &written, &panic, margin, r, extra, area > 1);
}

fn stroke_case(out: &mut Out, h: usize, w: usize, r: (i64, i64, i64, i64), sw: u32) {
    let req = format!("stroke {h} {w} {} {} {} {} {sw}", r.0, r.1, r.2, r.3);
    let rect = Rect::from_tlbr(r.0 as i32, r.1 as i32, r.2 as i32, r.3 as i32);
    let (written, panic, margin) = with_canvas(h, w, |v| stroke_rect(v, rect, 1u8, sw));
    let fits = r.0 >= 0 && r.1 >= 0 && r.2 <= h as i64 && r.3 <= w as i64;
    out.bucket(if fits { "stroke_rect_inside_image" } else { "stroke_rect_partly_outside" });
    let thick = sw as i64 > (r.2 - r.0).min(r.3 - r.1);
    out.bucket(if thick { "stroke_width_exceeds_rect" } else { "stroke_width_fits" });
    finish_draw(out, &req, "stroke", &written, &panic, margin, r, None, (r.2 - r.0) > 2 && (r.3 - r.1) > 2);
}

/// The four integer corners of the rotated rect that wide `draw_line` fills, computed with the
/// same public operations as the code (`f32`, truncating casts).
fn wide_corners(line: Line, width: u32) -> Vec<(i64, i64)> {
    let line = line.to_f32();
    let line_vec = Vec2::from_xy(line.width(), line.height());
    let rrect = RotatedRect::new(line.center(), line_vec.perpendicular(), line_vec.length(), width as f32);
    rrect.corners().iter().map(|c| ((c.y as i32) as i64, (c.x as i32) as i64)).collect()
}

fn wide_line_case(out: &mut Out, h: usize, w: usize, p0: (i64, i64), p1: (i64, i64), width: u32) {
    let line = Line::from_endpoints(Point::from_yx(p0.0 as i32, p0.1 as i32), Point::from_yx(p1.0 as i32, p1.1 as i32));
    let corners = wide_corners(line, width);
    // the request carries the corners; the original line is a trailing comment for replay
    let req = format!("wline {h} {w} {} #line={},{};{},{};width={width}", fmt_pts(&corners), p0.0, p0.1, p1.0, p1.1);
    let (written, panic, margin) = with_canvas(h, w, |v| draw_line(v, line, 1u8, width));
    // shape's bounds: the bounding rect of the rotated rect's integer corners
    let bounds = (
        corners.iter().map(|c| c.0).min().unwrap(),
        corners.iter().map(|c| c.1).min().unwrap(),
        corners.iter().map(|c| c.0).max().unwrap(),
        corners.iter().map(|c| c.1).max().unwrap(),
    );
    // the corners themselves must be within width/2 + 1 (truncation) of the segment's bounding box
    let pad = (width as i64 + 1) / 2 + 1;
    let extra = if corners.iter().any(|c| {
        c.0 < p0.0.min(p1.0) - pad || c.0 > p0.0.max(p1.0) + pad || c.1 < p0.1.min(p1.1) - pad || c.1 > p0.1.max(p1.1) + pad
    }) && p0 != p1
    {
        Some(format!("rotated-rect corner farther than {pad} from the segment's bounding box"))
    } else {
        None
    };
    out.bucket(if p0 == p1 { "wline_degenerate_point" } else { "wline_proper" });
    finish_draw(out, &req, "wline", &written, &panic, margin, bounds, extra, true);
}

fn poly_case(out: &mut Out, h: usize, w: usize, pts: &[(i64, i64)]) {
    let req = format!("poly {h} {w} {}", fmt_pts(pts));
    let poly: Vec<Point> = pts.iter().map(|p| Point::from_yx(p.0 as i32, p.1 as i32)).collect();
    let (written, panic, margin) = with_canvas(h, w, |v| draw_polygon(v, &poly, 1u8, 1));
    let cl = |v: i64, n: usize| v.clamp(0, (n as i64 - 1).max(0));
    let ys: Vec<i64> = pts.iter().map(|p| cl(p.0, h)).collect();
    let xs: Vec<i64> = pts.iter().map(|p| cl(p.1, w)).collect();
    let bounds = (
        ys.iter().copied().min().unwrap_or(0),
        xs.iter().copied().min().unwrap_or(0),
        ys.iter().copied().max().unwrap_or(-1) + 1,
        xs.iter().copied().max().unwrap_or(-1) + 1,
    );
    finish_draw(out, &req, "poly", &written, &panic, margin, bounds, None, pts.len() >= 3);
}

/// `Polygon::fill_iter()`: the exact sequence of yielded pixels is compared with the model; the
/// oracle requires every pixel inside the half-open bounding rect `[min y, max y) x [min x, max x)`,
/// no pixel twice, and termination within the rect's area.
fn filliter_case(out: &mut Out, pts: &[(i64, i64)], gen: &str) {
    let req = format!("fillit {}", fmt_pts(pts));
    let poly: Vec<Point> = pts.iter().map(|p| Point::from_yx(p.0 as i32, p.1 as i32)).collect();
    let (t, b) = (pts.iter().map(|p| p.0).min().unwrap_or(0), pts.iter().map(|p| p.0).max().unwrap_or(0));
    let (l, r) = (pts.iter().map(|p| p.1).min().unwrap_or(0), pts.iter().map(|p| p.1).max().unwrap_or(0));
    let limit = ((b - t) * (r - l)) as usize;
    let res = hcommon::catch(|| {
        Polygon::new(&poly[..]).fill_iter().take(limit + 1).map(|p| (p.y as i64, p.x as i64)).collect::<Vec<_>>()
    });
    let (ans, fail) = match res {
        Ok(ps) => {
            let mut fail = None;
            if ps.len() > limit {
                fail = Some(format!("yields more than {limit} pixels (area of the bounding rect)"));
            } else if let Some(p) = ps.iter().find(|p| p.0 < t || p.0 >= b || p.1 < l || p.1 >= r) {
                fail = Some(format!("yields {},{} outside the bounding rect [{t},{b})x[{l},{r})", p.0, p.1));
            } else {
                let mut s = ps.clone();
                s.sort();
                s.dedup();
                if s.len() != ps.len() {
                    fail = Some("yields a pixel twice".into());
                }
            }
            out.bucket(if ps.is_empty() { "filliter_empty" } else { "filliter_nonempty" });
            (format!("{} done=1", fmt_pts(&ps[..ps.len().min(limit)])), fail)
        }
        Err(m) => (format!("panic {m}"), Some(format!("fill_iter panicked: {m}"))),
    };
    out.bucket(&format!("filliter_gen_{gen}"));
    out.case(&req, &ans, fail.as_deref(), pts.len() >= 3);
}

fn rnd_coord(rng: &mut Rng, n: usize) -> i64 {
    match rng.below(10) {
        0 => -1,
        1 => n as i64,
        2 => rng.range_i64(-40, -2),
        3 => n as i64 + rng.range_i64(1, 40),
        4 => *rng.pick(&[-100_000, 100_000, i32::MIN as i64 / 2, i32::MAX as i64 / 2]),
        _ => rng.range_i64(0, (n as i64 - 1).max(0)),
    }
}

fn main() {
    let args = hcommon::parse_args();
    hcommon::quiet_panics();
    run(&args)
}

fn run(args: &Args) {
    let mut out = Out::new(&args.out);
    let mut rng = Rng::new(args.seed);
    let mult = if args.thorough { 10 } else { 1 };

    // (a) contours: exhaustive masks up to 4x4 (thorough: also 4x5), both modes
    let mut sizes: Vec<(usize, usize)> = vec![(0, 0), (0, 3), (3, 0)];
    for r in 1..=4 {
        for c in 1..=4 {
            sizes.push((r, c));
        }
    }
    if args.thorough {
        sizes.push((4, 5));
    }
    for &(r, c) in &sizes {
        let n = r * c;
        for code in 0..(1u64 << n) {
            let mask: Vec<bool> = (0..n).map(|i| code >> i & 1 == 1).collect();
            fc_case(&mut out, r, c, &mask, true, "exhaustive");
            fc_case(&mut out, r, c, &mask, false, "exhaustive");
        }
    }
    // random larger masks: noise of several densities, blobs with holes, nested rings
    for _ in 0..3_000 * mult {
        let (r, c) = (1 + rng.usize_below(12), 1 + rng.usize_below(12));
        let kind = rng.below(4);
        let mut mask = vec![false; r * c];
        let gen;
        match kind {
            0 | 1 => {
                gen = "noise";
                let den = rng.range_i64(1, 9) as u64;
                for m in mask.iter_mut() {
                    *m = rng.chance(den, 10);
                }
            }
            2 => {
                gen = "rects";
                for k in 0..1 + rng.usize_below(4) {
                    let (t, l) = (rng.usize_below(r), rng.usize_below(c));
                    let (b, rr) = (t + 1 + rng.usize_below(r - t), l + 1 + rng.usize_below(c - l));
                    for y in t..b.min(r) {
                        for x in l..rr.min(c) {
                            mask[y * c + x] = k % 2 == 0; // alternate fill / carve
                        }
                    }
                }
            }
            _ => {
                gen = "rings";
                let mut inset = 0;
                let mut on = true;
                while 2 * inset < r.min(c) {
                    for y in inset..r - inset {
                        for x in inset..c - inset {
                            mask[y * c + x] = on;
                        }
                    }
                    on = !on;
                    inset += 1 + rng.usize_below(2);
                }
            }
        }
        let list = rng.chance(1, 2);
        fc_case(&mut out, r, c, &mask, list, gen);
    }

    // (b) drawing: exhaustive small lines on a 4x4 image with endpoints in [-2, 5]^2
    for y0 in -2..=5i64 {
        for x0 in -2..=5i64 {
            for y1 in -2..=5i64 {
                for x1 in -2..=5i64 {
                    if (y0 + x0 + y1 + x1).rem_euclid(if args.thorough { 1 } else { 3 }) == 0 {
                        line_case(&mut out, 4, 4, (y0, x0), (y1, x1));
                    }
                }
            }
        }
    }
    for _ in 0..6_000 * mult {
        let (h, w) = (rng.usize_below(13), rng.usize_below(13));
        let p0 = (rnd_coord(&mut rng, h), rnd_coord(&mut rng, w));
        let p1 = (rnd_coord(&mut rng, h), rnd_coord(&mut rng, w));
        line_case(&mut out, h, w, p0, p1);
        if rng.chance(1, 20) {
            line0_case(&mut out, h, w, p0, p1);
        }
    }
    for _ in 0..5_000 * mult {
        let (h, w) = (rng.usize_below(11), rng.usize_below(11));
        let small = |rng: &mut Rng, n: usize| match rng.below(8) {
            0 => rng.range_i64(-3, -1),
            1 => n as i64 + rng.range_i64(0, 3),
            _ => rng.range_i64(0, n as i64),
        };
        let (t, l) = (small(&mut rng, h), small(&mut rng, w));
        let (b, r) = if rng.chance(1, 10) {
            (small(&mut rng, h), small(&mut rng, w)) // possibly inverted / empty
        } else {
            (t + rng.range_i64(0, 6), l + rng.range_i64(0, 6))
        };
        if rng.chance(1, 2) {
            fill_case(&mut out, h, w, (t, l, b, r));
        } else {
            let sw = *rng.pick(&[0u32, 1, 1, 1, 2, 2, 3, 5, 5, 1 << 31, u32::MAX, (1 << 31) + 2]);
            stroke_case(&mut out, h, w, (t, l, b, r), sw);
        }
    }
    for _ in 0..2_000 * mult {
        let (h, w) = (1 + rng.usize_below(12), 1 + rng.usize_below(12));
        let far = |rng: &mut Rng, n: usize| match rng.below(6) {
            0 => rng.range_i64(-8, -1),
            1 => n as i64 + rng.range_i64(0, 8),
            _ => rng.range_i64(0, n as i64 - 1),
        };
        match rng.below(3) {
            0 => {
                let p0 = (far(&mut rng, h), far(&mut rng, w));
                let p1 = (far(&mut rng, h), far(&mut rng, w));
                let width = 2 + rng.below(3) as u32;
                wide_line_case(&mut out, h, w, p0, p1, width);
            }
            1 => {
                let n = rng.usize_below(6);
                let pts: Vec<(i64, i64)> = (0..n).map(|_| (far(&mut rng, h), far(&mut rng, w))).collect();
                poly_case(&mut out, h, w, &pts);
            }
            _ => {
                let kind = if rng.chance(1, 30) { 0 } else { 1 + rng.below(5) };
                let (pts, gen): (Vec<(i64, i64)>, &str) = match kind {
                    0 => {
                        // zero-width / zero-height polygons (all x or all y equal); kept few and
                        // low: on code without the empty-bounds fix each scanline of such a
                        // polygon costs ~2^32 iterations
                        let n = 1 + rng.usize_below(5);
                        let c = rng.range_i64(-3, 6);
                        let vertical = rng.chance(1, 2);
                        ((0..n).map(|_| { let v = rng.range_i64(0, 2); if vertical { (v, c) } else { (c, v) } }).collect(), "degenerate")
                    }
                    1 => {
                        // rectangles and triangles with a few collinear extra vertices
                        let (t, l) = (rng.range_i64(-4, 4), rng.range_i64(-4, 4));
                        let (hh, ww) = (rng.range_i64(0, 7), rng.range_i64(0, 7));
                        let mut v = vec![(t, l), (t, l + ww), (t + hh, l + ww), (t + hh, l)];
                        if rng.chance(1, 2) { v.remove(rng.usize_below(4)); }
                        if rng.chance(1, 3) { v.reverse(); }
                        (v, "rect_tri")
                    }
                    2 => {
                        // far from the origin, negative coordinates
                        let n = 3 + rng.usize_below(3);
                        let (oy, ox) = (*rng.pick(&[-1000i64, -50, 700, 100_000]), *rng.pick(&[-100_000i64, -20, 300]));
                        ((0..n).map(|_| (oy + rng.range_i64(0, 9), ox + rng.range_i64(0, 9))).collect(), "far")
                    }
                    _ => {
                        let n = rng.usize_below(7);
                        ((0..n).map(|_| (rng.range_i64(-6, 12), rng.range_i64(-6, 12))).collect(), "random")
                    }
                };
                filliter_case(&mut out, &pts, gen);
            }
        }
    }
    for pts in [vec![(0i64, 0i64), (1, 0), (2, 0)], vec![(0, 0), (1, 0)], vec![(0, 0), (0, 3)], vec![(2, 2)], vec![]] {
        filliter_case(&mut out, &pts, "fixed_degenerate");
    }
    out.note("drawing calls run on a window of a larger zeroed buffer (margin 3) so that a write outside the image is observable");
    out.finish("model answer (contour lists; written-pixel sets + panic flag for draw_line width 1, fill_rect, stroke_rect) must equal the implementation's; oracle: contour points in-image, foreground, adjacent to background/edge, every component has an outer contour (List mode); drawing never touches the margin and stays inside the shape's bounds");
}
