"""`flatbuffers.encode`"""
from . import number_types as N
from . import packer  # noqa: F401
from .compat import import_numpy

np = import_numpy()


def Get(packer_type, buf, head):
    """Decode one scalar at `head`."""
    return packer_type.unpack_from(memoryview(buf), head)[0]


def GetVectorAsNumpy(numpy_type, buf, count, offset):
    return np.frombuffer(buf, dtype=numpy_type, count=count, offset=offset)


def Write(packer_type, buf, head, n):
    """Encode one scalar at `head`."""
    packer_type.pack_into(buf, head, n)
