"""`flatbuffers.util`"""
from . import encode, number_types, packer


def GetSizePrefix(buf, offset):
    return encode.Get(packer.int32, buf, offset)


def GetBufferIdentifier(buf, offset, size_prefixed=False):
    if size_prefixed:
        offset += number_types.Int32Flags.bytewidth
    offset += number_types.UOffsetTFlags.bytewidth
    return buf[offset:offset + 4]


def BufferHasIdentifier(buf, offset, file_identifier, size_prefixed=False):
    return bytes(GetBufferIdentifier(buf, offset, size_prefixed)) == bytes(file_identifier)


def RemoveSizePrefix(buf, offset):
    return buf, offset + number_types.Int32Flags.bytewidth
