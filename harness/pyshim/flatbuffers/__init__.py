"""Minimal pure-Python stand-in for the `flatbuffers` runtime package (rten verification harness).

Only the part of the public API that `rten-convert` (converter.py + the flatc-generated
schema_generated.py) touches is provided: `Builder`, `number_types`, `encode`, `packer`,
`table.Table`, `util`, `compat`.  Written from the FlatBuffers binary-format specification
(https://flatbuffers.dev/internals/): little-endian scalars, tables = soffset to a vtable +
inline fields, vtables = [vtable bytes, object bytes, field offsets...] (u16), vectors = u32 length
+ elements, strings = u32 length + bytes + NUL, every scalar aligned to its size relative to the
END of the buffer, which is itself padded to the largest alignment on `Finish`.

The buffers it produces are validated by the other side of the C20 check: rten's loader runs the
Rust `flatbuffers` verifier over them and then reads every field.
"""
from . import compat, encode, number_types, packer, table, util  # noqa: F401
from . import builder  # noqa: F401
from .builder import Builder  # noqa: F401
from .table import Table  # noqa: F401

__version__ = "0.0-rten-verif-shim"
