"""`flatbuffers.compat`: only what generated code imports."""
import sys

string_types = (str,)
binary_types = (bytes, bytearray)
range_func = range
memoryview_type = memoryview
struct_bool_decl = "?"


def import_numpy():
    """Return the numpy module or None (generated code does `np = import_numpy()`)."""
    try:
        import numpy as np
    except ImportError:
        np = None
    return np


class NumpyRequiredForThisFeature(RuntimeError):
    pass
