"""`flatbuffers.builder.Builder`: back-to-front FlatBuffers serialiser.

The buffer is written from its END towards its start: `head` is the index of the first used
byte, `Offset()` = number of bytes written so far, and every object is identified by its
`Offset()` at the time it was finished (i.e. its distance from the end of the buffer).  Alignment
is maintained relative to the end; `Finish` pads the total size to the largest alignment seen, so
alignment also holds relative to the start of the finished buffer.
"""
from . import compat, encode
from . import number_types as N
from . import packer
from .compat import NumpyRequiredForThisFeature, import_numpy

np = import_numpy()

# vtable layout: [vtable size (u16), object size (u16), field offsets (u16)...]
VtableMetadataFields = 2


class OffsetArithmeticError(RuntimeError):
    """An offset pointed "forward" (to something not yet written)."""


class IsNotNestedError(RuntimeError):
    """A table/vector operation outside StartObject/StartVector."""


class IsNestedError(RuntimeError):
    """Tried to start an object while another one is under construction."""


class StructIsNotInlineError(RuntimeError):
    pass


class BuilderSizeError(RuntimeError):
    """The buffer would exceed 2 GiB."""


class BuilderNotFinishedError(RuntimeError):
    """Output() before Finish()."""


class EndVectorLengthMismatched(RuntimeError):
    pass


class Builder(object):
    MAX_BUFFER_SIZE = 2 ** 31

    def __init__(self, initialSize=1024):
        if not (0 <= initialSize <= Builder.MAX_BUFFER_SIZE):
            raise BuilderSizeError("flatbuffers: Cannot create Builder larger than 2 gigabytes.")
        self.Bytes = bytearray(initialSize)
        self.current_vtable = None
        self.head = N.UOffsetTFlags.py_type(initialSize)
        self.minalign = 1
        self.objectEnd = None
        self.vtables = {}
        self.nested = False
        self.forceDefaults = False
        self.sharedStrings = {}
        self.finished = False
        self.vectorNumElems = None

    # ---- buffer management -------------------------------------------------------------------
    def Output(self):
        if not self.finished:
            raise BuilderNotFinishedError()
        return self.Bytes[self.Head():]

    def Head(self):
        return self.head

    def Offset(self):
        """Bytes written so far (= distance of the most recent write from the buffer end)."""
        return N.UOffsetTFlags.py_type(len(self.Bytes) - self.Head())

    def growByteBuffer(self):
        if len(self.Bytes) == Builder.MAX_BUFFER_SIZE:
            raise BuilderSizeError("flatbuffers: cannot grow buffer beyond 2 gigabytes")
        newSize = min(len(self.Bytes) * 2, Builder.MAX_BUFFER_SIZE)
        if newSize == 0:
            newSize = 1
        bytes2 = bytearray(newSize)
        bytes2[newSize - len(self.Bytes):] = self.Bytes
        self.Bytes = bytes2

    def Pad(self, n):
        for _ in range(n):
            self.Place(0, N.Uint8Flags)

    def Prep(self, size, additionalBytes):
        """Prepare to write an element of `size` after `additionalBytes` have been written:
        add padding so that (bytes written + additionalBytes) is a multiple of `size`, and make
        room for padding + size + additionalBytes."""
        if size > self.minalign:
            self.minalign = size
        alignSize = (~(len(self.Bytes) - self.Head() + additionalBytes)) + 1
        alignSize &= (size - 1)
        while self.Head() < alignSize + size + additionalBytes:
            oldBufSize = len(self.Bytes)
            self.growByteBuffer()
            self.head = N.UOffsetTFlags.py_type(self.head + len(self.Bytes) - oldBufSize)
        self.Pad(alignSize)

    def Place(self, x, flags):
        """Write a scalar without alignment handling."""
        N.enforce_number(x, flags)
        self.head = self.head - flags.bytewidth
        encode.Write(flags.packer_type, self.Bytes, self.Head(), x)

    def PlaceVOffsetT(self, x):
        N.enforce_number(x, N.VOffsetTFlags)
        self.head = self.head - N.VOffsetTFlags.bytewidth
        encode.Write(packer.voffset, self.Bytes, self.Head(), x)

    def PlaceSOffsetT(self, x):
        N.enforce_number(x, N.SOffsetTFlags)
        self.head = self.head - N.SOffsetTFlags.bytewidth
        encode.Write(packer.soffset, self.Bytes, self.Head(), x)

    def PlaceUOffsetT(self, x):
        N.enforce_number(x, N.UOffsetTFlags)
        self.head = self.head - N.UOffsetTFlags.bytewidth
        encode.Write(packer.uoffset, self.Bytes, self.Head(), x)

    # ---- nesting -----------------------------------------------------------------------------
    def assertNested(self):
        if not self.nested:
            raise IsNotNestedError()

    def assertNotNested(self):
        if self.nested:
            raise IsNestedError()

    def assertStructIsInline(self, obj):
        N.enforce_number(obj, N.UOffsetTFlags)
        if obj != self.Offset():
            raise StructIsNotInlineError("flatbuffers: Tried to write a Struct at an Offset that is different from the current Offset of the Builder.")

    # ---- tables ------------------------------------------------------------------------------
    def StartObject(self, numfields):
        self.assertNotNested()
        self.current_vtable = [0 for _ in range(numfields)]
        self.objectEnd = self.Offset()
        self.nested = True

    def Slot(self, slotnum):
        """Record that field `slotnum` of the table under construction was just written."""
        self.assertNested()
        self.current_vtable[slotnum] = self.Offset()

    def EndObject(self):
        self.assertNested()
        self.nested = False
        return self.WriteVtable()

    def WriteVtable(self):
        """Finish a table: prepend the soffset to its vtable and write (or re-use) the vtable."""
        # Placeholder for the soffset to the vtable; this is the start of the table.
        self.PrependSOffsetTRelative(0)
        objectOffset = self.Offset()
        objectSize = objectOffset - self.objectEnd

        # Field offsets relative to the table start, trailing absent fields trimmed.
        fields = [objectOffset - off if off != 0 else 0 for off in self.current_vtable]
        while fields and fields[-1] == 0:
            fields.pop()
        # Two tables share a vtable iff object size and every field offset agree.
        key = (objectSize, tuple(fields))

        existing = self.vtables.get(key)
        if existing is None:
            for f in reversed(fields):
                self.PrependVOffsetT(f)
            self.PrependVOffsetT(N.VOffsetTFlags.py_type(objectSize))
            vBytes = (len(fields) + VtableMetadataFields) * N.VOffsetTFlags.bytewidth
            self.PrependVOffsetT(N.VOffsetTFlags.py_type(vBytes))
            # soffset = table position - vtable position (vtable was written after the table, so
            # it lies before it in the buffer: positive value).
            objectStart = N.SOffsetTFlags.py_type(len(self.Bytes) - objectOffset)
            encode.Write(packer.soffset, self.Bytes, objectStart,
                         N.SOffsetTFlags.py_type(self.Offset() - objectOffset))
            self.vtables[key] = self.Offset()
        else:
            # Re-use: the vtable lies after the table in the buffer, negative soffset.
            objectStart = N.SOffsetTFlags.py_type(len(self.Bytes) - objectOffset)
            self.head = N.UOffsetTFlags.py_type(objectStart)
            encode.Write(packer.soffset, self.Bytes, self.Head(),
                         N.SOffsetTFlags.py_type(existing - objectOffset))
        self.current_vtable = None
        return objectOffset

    # ---- vectors, strings --------------------------------------------------------------------
    def StartVector(self, elemSize, numElems, alignment):
        self.assertNotNested()
        self.nested = True
        self.vectorNumElems = numElems
        self.Prep(N.Uint32Flags.bytewidth, elemSize * numElems)
        self.Prep(alignment, elemSize * numElems)  # in case alignment > 4
        return self.Offset()

    def EndVector(self, numElems=None):
        self.assertNested()
        self.nested = False
        if numElems is not None and numElems != self.vectorNumElems:
            raise EndVectorLengthMismatched()
        self.PlaceUOffsetT(self.vectorNumElems)
        self.vectorNumElems = None
        return self.Offset()

    def CreateString(self, s, encoding="utf-8", errors="strict"):
        self.assertNotNested()
        self.nested = True
        if isinstance(s, compat.string_types):
            x = s.encode(encoding, errors)
        elif isinstance(s, compat.binary_types):
            x = bytes(s)
        else:
            raise TypeError("non-string passed to CreateString")
        self.Prep(N.UOffsetTFlags.bytewidth, (len(x) + 1) * N.Uint8Flags.bytewidth)
        self.Place(0, N.Uint8Flags)
        n = N.UOffsetTFlags.py_type(len(x))
        self.head = N.UOffsetTFlags.py_type(self.Head() - n)
        self.Bytes[self.Head():self.Head() + n] = x
        self.vectorNumElems = len(x)
        return self.EndVector()

    def CreateSharedString(self, s, encoding="utf-8", errors="strict"):
        if s in self.sharedStrings:
            return self.sharedStrings[s]
        off = self.CreateString(s, encoding, errors)
        self.sharedStrings[s] = off
        return off

    def CreateByteVector(self, x):
        self.assertNotNested()
        self.nested = True
        if not isinstance(x, compat.binary_types):
            raise TypeError("non-byte vector passed to CreateByteVector")
        self.Prep(N.UOffsetTFlags.bytewidth, len(x) * N.Uint8Flags.bytewidth)
        n = N.UOffsetTFlags.py_type(len(x))
        self.head = N.UOffsetTFlags.py_type(self.Head() - n)
        self.Bytes[self.Head():self.Head() + n] = x
        self.vectorNumElems = len(x)
        return self.EndVector()

    def CreateNumpyVector(self, x):
        """Vector holding the elements of a 1-d numpy array (native = little-endian layout)."""
        if np is None:
            raise NumpyRequiredForThisFeature("Numpy was not found.")
        if not isinstance(x, np.ndarray):
            raise TypeError("non-numpy-ndarray passed to CreateNumpyVector")
        if x.dtype.kind not in ["b", "i", "u", "f"]:
            raise TypeError("numpy-ndarray holds elements of unsupported datatype")
        if x.ndim > 1:
            raise TypeError("multidimensional-ndarray passed to CreateNumpyVector")
        self.StartVector(x.itemsize, x.size, x.dtype.alignment)
        self.head = N.UOffsetTFlags.py_type(self.Head() - x.nbytes)
        if x.dtype.byteorder == ">":
            x = x.byteswap().view(x.dtype.newbyteorder("<"))
        self.Bytes[self.Head():self.Head() + x.nbytes] = x.tobytes(order="C")
        self.vectorNumElems = x.size
        return self.EndVector()

    # ---- offsets -----------------------------------------------------------------------------
    def PrependSOffsetTRelative(self, off):
        self.Prep(N.SOffsetTFlags.bytewidth, 0)
        if not (off <= self.Offset()):
            raise OffsetArithmeticError("flatbuffers: Offset arithmetic error.")
        self.PlaceSOffsetT(self.Offset() - off + N.SOffsetTFlags.bytewidth)

    def PrependUOffsetTRelative(self, off):
        """Write a uoffset that points (forward in the buffer) to the object finished at `off`."""
        self.Prep(N.UOffsetTFlags.bytewidth, 0)
        if not (off <= self.Offset()):
            raise OffsetArithmeticError("flatbuffers: Offset arithmetic error.")
        self.PlaceUOffsetT(self.Offset() - off + N.UOffsetTFlags.bytewidth)

    # ---- scalars -----------------------------------------------------------------------------
    def Prepend(self, flags, off):
        self.Prep(flags.bytewidth, 0)
        self.Place(off, flags)

    def PrependSlot(self, flags, o, x, d):
        """Write scalar field `o` unless it equals its schema default `d` (`d is None` marks an
        optional scalar: written whenever a value is given)."""
        if x is not None:
            N.enforce_number(x, flags)
        if d is not None:
            N.enforce_number(d, flags)
        if x != d or (self.forceDefaults and d is not None):
            self.Prepend(flags, x)
            self.Slot(o)

    def PrependBoolSlot(self, *args):
        self.PrependSlot(N.BoolFlags, *args)

    def PrependByteSlot(self, *args):
        self.PrependSlot(N.Uint8Flags, *args)

    def PrependUint8Slot(self, *args):
        self.PrependSlot(N.Uint8Flags, *args)

    def PrependUint16Slot(self, *args):
        self.PrependSlot(N.Uint16Flags, *args)

    def PrependUint32Slot(self, *args):
        self.PrependSlot(N.Uint32Flags, *args)

    def PrependUint64Slot(self, *args):
        self.PrependSlot(N.Uint64Flags, *args)

    def PrependInt8Slot(self, *args):
        self.PrependSlot(N.Int8Flags, *args)

    def PrependInt16Slot(self, *args):
        self.PrependSlot(N.Int16Flags, *args)

    def PrependInt32Slot(self, *args):
        self.PrependSlot(N.Int32Flags, *args)

    def PrependInt64Slot(self, *args):
        self.PrependSlot(N.Int64Flags, *args)

    def PrependFloat32Slot(self, *args):
        self.PrependSlot(N.Float32Flags, *args)

    def PrependFloat64Slot(self, *args):
        self.PrependSlot(N.Float64Flags, *args)

    def PrependUOffsetTRelativeSlot(self, o, x, d):
        if x != d or self.forceDefaults:
            self.PrependUOffsetTRelative(x)
            self.Slot(o)

    def PrependStructSlot(self, v, x, d):
        N.enforce_number(d, N.UOffsetTFlags)
        if x != d:
            self.assertStructIsInline(x)
            self.Slot(v)

    def PrependBool(self, x):
        self.Prepend(N.BoolFlags, x)

    def PrependByte(self, x):
        self.Prepend(N.Uint8Flags, x)

    def PrependUint8(self, x):
        self.Prepend(N.Uint8Flags, x)

    def PrependUint16(self, x):
        self.Prepend(N.Uint16Flags, x)

    def PrependUint32(self, x):
        self.Prepend(N.Uint32Flags, x)

    def PrependUint64(self, x):
        self.Prepend(N.Uint64Flags, x)

    def PrependInt8(self, x):
        self.Prepend(N.Int8Flags, x)

    def PrependInt16(self, x):
        self.Prepend(N.Int16Flags, x)

    def PrependInt32(self, x):
        self.Prepend(N.Int32Flags, x)

    def PrependInt64(self, x):
        self.Prepend(N.Int64Flags, x)

    def PrependFloat32(self, x):
        self.Prepend(N.Float32Flags, x)

    def PrependFloat64(self, x):
        self.Prepend(N.Float64Flags, x)

    def ForceDefaults(self, forceDefaults):
        self.forceDefaults = forceDefaults

    def PrependVOffsetT(self, x):
        self.Prepend(N.VOffsetTFlags, x)

    # ---- finish ------------------------------------------------------------------------------
    def __Finish(self, rootTable, sizePrefix, file_identifier=None):
        N.enforce_number(rootTable, N.UOffsetTFlags)
        prepSize = N.UOffsetTFlags.bytewidth
        if file_identifier is not None:
            prepSize += N.Int32Flags.bytewidth
        if sizePrefix:
            prepSize += N.Int32Flags.bytewidth
        self.Prep(self.minalign, prepSize)
        if file_identifier is not None:
            if len(file_identifier) != 4:
                raise Exception("file_identifier must be exactly 4 bytes")
            for i in range(3, -1, -1):
                self.Place(file_identifier[i], N.Uint8Flags)
        self.PrependUOffsetTRelative(rootTable)
        if sizePrefix:
            size = len(self.Bytes) - self.Head()
            N.enforce_number(size, N.Int32Flags)
            self.PrependInt32(size)
        self.finished = True
        return self.Head()

    def Finish(self, rootTable, file_identifier=None):
        return self.__Finish(rootTable, False, file_identifier=file_identifier)

    def FinishSizePrefixed(self, rootTable, file_identifier=None):
        return self.__Finish(rootTable, True, file_identifier=file_identifier)
