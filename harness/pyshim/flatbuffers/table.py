"""`flatbuffers.table.Table`: read access to a serialised table (used by the generated readers;
rten-convert itself only writes, the harness self-test reads back what the Builder wrote)."""
from . import encode
from . import number_types as N


class Table(object):
    __slots__ = ("Bytes", "Pos")

    def __init__(self, buf, pos):
        N.enforce_number(pos, N.UOffsetTFlags)
        self.Bytes = buf
        self.Pos = pos

    def Offset(self, vtableOffset):
        """Offset of the field stored in vtable slot `vtableOffset` (bytes from vtable start),
        relative to the table, or 0 if absent."""
        vtable = self.Pos - self.Get(N.SOffsetTFlags, self.Pos)
        vtableEnd = self.Get(N.VOffsetTFlags, vtable)
        if vtableOffset < vtableEnd:
            return self.Get(N.VOffsetTFlags, vtable + vtableOffset)
        return 0

    def Indirect(self, off):
        N.enforce_number(off, N.UOffsetTFlags)
        return off + encode.Get(N.UOffsetTFlags.packer_type, self.Bytes, off)

    def String(self, off):
        N.enforce_number(off, N.UOffsetTFlags)
        off += encode.Get(N.UOffsetTFlags.packer_type, self.Bytes, off)
        start = off + N.UOffsetTFlags.bytewidth
        length = encode.Get(N.UOffsetTFlags.packer_type, self.Bytes, off)
        return bytes(self.Bytes[start:start + length])

    def VectorLen(self, off):
        N.enforce_number(off, N.UOffsetTFlags)
        off += self.Pos
        off += encode.Get(N.UOffsetTFlags.packer_type, self.Bytes, off)
        return encode.Get(N.UOffsetTFlags.packer_type, self.Bytes, off)

    def Vector(self, off):
        N.enforce_number(off, N.UOffsetTFlags)
        off += self.Pos
        x = off + self.Get(N.UOffsetTFlags, off)
        x += N.UOffsetTFlags.bytewidth  # skip the length
        return x

    def Union(self, t2, off):
        assert type(t2) is Table
        N.enforce_number(off, N.UOffsetTFlags)
        off += self.Pos
        t2.Pos = off + self.Get(N.UOffsetTFlags, off)
        t2.Bytes = self.Bytes

    def Get(self, flags, off):
        N.enforce_number(off, N.UOffsetTFlags)
        return flags.py_type(encode.Get(flags.packer_type, self.Bytes, off))

    def GetSlot(self, slot, d, validator_flags):
        N.enforce_number(slot, N.VOffsetTFlags)
        if validator_flags is not None:
            N.enforce_number(d, validator_flags)
        off = self.Offset(slot)
        if off == 0:
            return d
        return self.Get(validator_flags, self.Pos + off)

    def GetVectorAsNumpy(self, flags, off):
        offset = self.Vector(off)
        length = self.VectorLen(off)
        numpy_dtype = N.to_numpy_type(flags)
        return encode.GetVectorAsNumpy(numpy_dtype, self.Bytes, length, offset)

    def GetVOffsetTSlot(self, slot, d):
        N.enforce_number(slot, N.VOffsetTFlags)
        N.enforce_number(d, N.VOffsetTFlags)
        off = self.Offset(slot)
        if off == 0:
            return d
        return off
