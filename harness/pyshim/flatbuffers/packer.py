"""`flatbuffers.packer`: struct packers for the little-endian scalar encodings."""
import struct

boolean = struct.Struct("<?")
uint8 = struct.Struct("<B")
uint16 = struct.Struct("<H")
uint32 = struct.Struct("<I")
uint64 = struct.Struct("<Q")
int8 = struct.Struct("<b")
int16 = struct.Struct("<h")
int32 = struct.Struct("<i")
int64 = struct.Struct("<q")
float32 = struct.Struct("<f")
float64 = struct.Struct("<d")
uoffset = uint32
soffset = int32
voffset = uint16
