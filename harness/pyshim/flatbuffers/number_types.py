"""`flatbuffers.number_types`: per-type flags (width, range, python type, packer)."""
from . import packer
from .compat import import_numpy

np = import_numpy()


class BoolFlags(object):
    bytewidth = 1
    min_val = False
    max_val = True
    py_type = bool
    name = "bool"
    packer_type = packer.boolean


class Uint8Flags(object):
    bytewidth = 1
    min_val = 0
    max_val = (2 ** 8) - 1
    py_type = int
    name = "uint8"
    packer_type = packer.uint8


class Uint16Flags(object):
    bytewidth = 2
    min_val = 0
    max_val = (2 ** 16) - 1
    py_type = int
    name = "uint16"
    packer_type = packer.uint16


class Uint32Flags(object):
    bytewidth = 4
    min_val = 0
    max_val = (2 ** 32) - 1
    py_type = int
    name = "uint32"
    packer_type = packer.uint32


class Uint64Flags(object):
    bytewidth = 8
    min_val = 0
    max_val = (2 ** 64) - 1
    py_type = int
    name = "uint64"
    packer_type = packer.uint64


class Int8Flags(object):
    bytewidth = 1
    min_val = -(2 ** 7)
    max_val = (2 ** 7) - 1
    py_type = int
    name = "int8"
    packer_type = packer.int8


class Int16Flags(object):
    bytewidth = 2
    min_val = -(2 ** 15)
    max_val = (2 ** 15) - 1
    py_type = int
    name = "int16"
    packer_type = packer.int16


class Int32Flags(object):
    bytewidth = 4
    min_val = -(2 ** 31)
    max_val = (2 ** 31) - 1
    py_type = int
    name = "int32"
    packer_type = packer.int32


class Int64Flags(object):
    bytewidth = 8
    min_val = -(2 ** 63)
    max_val = (2 ** 63) - 1
    py_type = int
    name = "int64"
    packer_type = packer.int64


class Float32Flags(object):
    bytewidth = 4
    min_val = None
    max_val = None
    py_type = float
    name = "float32"
    packer_type = packer.float32


class Float64Flags(object):
    bytewidth = 8
    min_val = None
    max_val = None
    py_type = float
    name = "float64"
    packer_type = packer.float64


class SOffsetTFlags(Int32Flags):
    pass


class UOffsetTFlags(Uint32Flags):
    pass


class VOffsetTFlags(Uint16Flags):
    pass


def valid_number(n, flags):
    if flags.min_val is None and flags.max_val is None:
        return True
    return flags.min_val <= n <= flags.max_val


def enforce_number(n, flags):
    """Range check performed before every scalar write (TypeError like the reference runtime;
    comparing `None` with an int raises TypeError as well, which is what happens there when an
    unset optional value reaches a non-optional slot)."""
    if flags.min_val is None and flags.max_val is None:
        return
    if not flags.min_val <= n <= flags.max_val:
        raise TypeError("bad number %s for type %s" % (str(n), flags.name))


def float32_to_uint32(n):
    return packer.uint32.unpack(packer.float32.pack(n))[0]


def uint32_to_float32(n):
    return packer.float32.unpack(packer.uint32.pack(n))[0]


def to_numpy_type(number_type):
    if np is not None:
        return np.dtype(number_type.name).newbyteorder("<")
    raise RuntimeError("numpy required")
