#!/usr/bin/env python3
"""Run the REAL rten-convert (imported from <repo>/rten-convert, never copied) offline.

`onnx` and `flatbuffers` are not installable in the sandbox; the two pure-Python shim packages
next to this file provide the part of their API the converter uses.  numpy is the real one.

Modes
  run_convert.py [--repo R] --batch LIST     LIST: one `in.onnx<TAB>out.rten[<TAB>extra args]` per line;
                                             writes LIST.result: one line per model
                                             `ok` | `fail <ExceptionClass>: <message>` | `exit <code>`,
                                             followed by `<TAB>` and the captured stderr (newlines as ` | `).
                                             Every model goes through `rten_convert.converter.main()`
                                             (its CLI entry point) with `--no-infer-shapes`.
  run_convert.py [--repo R] --selftest [--verif V]   shim self-checks (FlatBuffers write/read round trip
                                             through the generated schema, protobuf field tables vs the
                                             table extracted from rten-onnx).
The repo defaults to $VERIF_REPO, then /repo.
"""
import argparse
import contextlib
import io
import os
import re
import sys

sys.dont_write_bytecode = True
HERE = os.path.dirname(os.path.abspath(__file__))


def setup_path(repo):
    conv = os.path.join(repo, "rten-convert")
    if not os.path.isdir(os.path.join(conv, "rten_convert")):
        sys.exit("run_convert: %s has no rten-convert/rten_convert" % repo)
    sys.path.insert(0, conv)
    sys.path.insert(0, HERE)


def one_line(s):
    return " | ".join(x for x in s.replace("\t", " ").splitlines() if x.strip())


def run_batch(list_path):
    import rten_convert.converter as converter
    import rten_convert.util as util

    results = []
    with open(list_path) as f:
        jobs = [ln.rstrip("\n").split("\t") for ln in f if ln.strip()]
    for job in jobs:
        src, dst = job[0], job[1]
        extra = job[2].split() if len(job) > 2 and job[2] else []
        util.EMITTED_WARNINGS.clear()
        err = io.StringIO()
        argv = ["rten-convert", "--no-infer-shapes"] + extra + [src, dst]
        old_argv = sys.argv
        sys.argv = argv
        try:
            with contextlib.redirect_stderr(err), contextlib.redirect_stdout(err):
                converter.main()
            status = "ok"
        except SystemExit as ex:
            status = "exit %s" % (ex.code,)
        except BaseException as ex:  # noqa: BLE001 - every failure is an observable
            status = "fail %s: %s" % (type(ex).__name__, one_line(str(ex)))
        finally:
            sys.argv = old_argv
        if status != "ok" and os.path.exists(dst):
            os.remove(dst)  # a partially written file is not a converted model
        results.append(status + "\t" + one_line(err.getvalue()))
    with open(list_path + ".result", "w") as f:
        for r in results:
            f.write(r + "\n")


def selftest(verif):
    import flatbuffers
    import numpy as np
    import onnx
    import rten_convert.schema_generated as sg

    # (1) FlatBuffers: write with the Builder through the generated object API, read back with
    # the generated readers (table.Table).
    b = flatbuffers.Builder(initialSize=0)
    conv = sg.ConvAttrsT()
    conv.autoPad = sg.AutoPad.NotSet
    conv.pads = [1, 2, 3, 4]
    conv.groups = 3
    conv.strides = [2, 1]
    conv.dilations = np.array([1, 5], dtype=np.uint32)
    op = sg.OperatorNodeT()
    op.type = sg.OperatorType.Conv
    op.attrsType = sg.OperatorAttrs.ConvAttrs
    op.attrs = conv
    op.inputs = [0, -1, 7]
    op.outputs = [9]
    node = sg.NodeT()
    node.name = "né"
    node.dataType = sg.NodeKind.OperatorNode
    node.data = op
    cst = sg.ConstantNodeT()
    cst.shape = [3]
    cst.dtype = sg.ConstantDataType.Int32
    cst.dataType = sg.ConstantData.Int32Data
    d = sg.Int32DataT()
    d.data = np.array([-(2 ** 31), 0, 2 ** 31 - 1], dtype=np.int32)
    cst.data = d
    node2 = sg.NodeT()
    node2.name = "c"
    node2.dataType = sg.NodeKind.ConstantNode
    node2.data = cst
    g = sg.GraphT()
    g.nodes = [node, node2, node]
    g.inputs = [0]
    g.outputs = [1, 2]
    m = sg.ModelT()
    m.schemaVersion = 1
    m.graph = g
    b.Finish(m.Pack(b))
    buf = bytes(b.Output())
    assert len(buf) % b.minalign == 0
    back = sg.ModelT.InitFromObj(sg.Model.GetRootAs(buf, 0))
    assert back.schemaVersion == 1
    assert [n.name for n in back.graph.nodes] == ["né".encode(), b"c", "né".encode()], back.graph.nodes
    o = back.graph.nodes[0].data
    assert o.type == sg.OperatorType.Conv and list(o.inputs) == [0, -1, 7] and list(o.outputs) == [9]
    assert list(o.attrs.pads) == [1, 2, 3, 4] and o.attrs.groups == 3
    assert list(o.attrs.strides) == [2, 1] and list(o.attrs.dilations) == [1, 5]
    c = back.graph.nodes[1].data
    assert list(c.shape) == [3] and list(c.data.data) == [-(2 ** 31), 0, 2 ** 31 - 1]
    assert list(back.graph.inputs) == [0] and list(back.graph.outputs) == [1, 2]
    # out-of-range scalars are refused like the reference runtime does
    for bad in (lambda: flatbuffers.Builder(0).PrependUint32(-1), lambda: flatbuffers.Builder(0).PrependInt32(2 ** 31)):
        try:
            bad()
        except TypeError:
            pass
        else:
            raise AssertionError("range check missing")
    print("selftest: flatbuffers round trip ok (%d bytes, %d vtables)" % (len(buf), len(b.vtables)))

    # (2) protobuf field tables vs the table extracted from rten-onnx/src/onnx.rs
    lean = os.path.join(verif, "lean", "RtenVerif", "Generated", "OnnxSchema.lean")
    names = {"AttributeProto": onnx.AttributeProto, "NodeProto": onnx.NodeProto, "TensorProto": onnx.TensorProto,
             "Dimension": onnx.TensorShapeProto.Dimension, "StringStringEntryProto": onnx.StringStringEntryProto,
             "OperatorSetIdProto": onnx.OperatorSetIdProto, "TensorShapeProto": onnx.TensorShapeProto,
             "TypeProtoTensor": onnx.TypeProto.Tensor, "TypeProtoSequence": onnx.TypeProto.Sequence,
             "TypeProto": onnx.TypeProto, "ValueInfoProto": onnx.ValueInfoProto, "GraphProto": onnx.GraphProto,
             "ModelProto": onnx.ModelProto}
    kind_ok = {"str": ("string", "bytes"), "bytes": ("bytes",), "f32": ("float",), "int64": ("int64",),
               "int32": ("int32", "enum"), "packedF32": ("float",), "packedF64": ("double",),
               "packedI32": ("int32",), "packedI64": ("int64",), "packedU64": ("uint64",)}
    checked = 0
    if os.path.exists(lean):
        src = open(lean).read()
        msg_names = re.search(r"def msgNames : List String := \[(.*?)\]", src).group(1).replace('"', "").split(", ")
        for blk in re.finditer(r"/- (\d+) (\w+) -/ \[(.*?)\](?=,\n  /-|\n\])", src, re.S):
            mname = blk.group(2)
            cls = names.get(mname)
            if cls is None:
                continue
            for fm in re.finditer(r"\((\d+), ⟨\.(\w+)(?: (\d+))?, (true|false)⟩\) /- (\w+) -/", blk.group(3)):
                num, kind, sub, rep, fname = int(fm.group(1)), fm.group(2), fm.group(3), fm.group(4) == "true", fm.group(5)
                f = cls._FIELDS.get(num)
                assert f is not None, "%s.%s (#%d) missing in shim" % (mname, fname, num)
                sname, skind, srep = f
                sname_cmp = {"sequence_type": "sequence"}.get(sname, sname)
                assert sname_cmp.upper() == fname, "%s #%d: name %s vs %s" % (mname, num, sname, fname)
                assert srep == rep, "%s.%s repeated flag" % (mname, sname)
                if kind == "msg":
                    want = names.get(msg_names[int(sub)])
                    got = onnx.Message._msg_class(skind)
                    assert got is want, "%s.%s message type %s vs %s" % (mname, sname, got, want)
                else:
                    assert skind in kind_ok[kind], "%s.%s kind %s vs %s" % (mname, sname, skind, kind)
                checked += 1
        assert checked >= 50, checked
    print("selftest: %d protobuf fields agree with rten-onnx's decoder table" % checked)


def main():
    ap = argparse.ArgumentParser()
    ap.add_argument("--repo", default=os.environ.get("VERIF_REPO") or "/repo")
    ap.add_argument("--verif", default=os.path.dirname(os.path.dirname(HERE)))
    ap.add_argument("--batch")
    ap.add_argument("--selftest", action="store_true")
    a = ap.parse_args()
    setup_path(a.repo)
    if a.selftest:
        selftest(a.verif)
    if a.batch:
        run_batch(a.batch)


if __name__ == "__main__":
    main()
