"""`onnx.shape_inference`: the reference implementation is the C++ shape-inference engine of
onnx, which cannot be reproduced here.  rten-convert only calls it when `--infer-shapes` is on
(the harness driver passes `--no-infer-shapes`), so calling it is an error."""


class InferenceError(ValueError):
    pass


def infer_shapes_path(model_path, output_path="", check_type=False, strict_mode=False, data_prop=False):
    raise NotImplementedError("onnx shim: shape inference is not available; run rten-convert with --no-infer-shapes")


def infer_shapes(model, check_type=False, strict_mode=False, data_prop=False):
    raise NotImplementedError("onnx shim: shape inference is not available; run rten-convert with --no-infer-shapes")
