"""Minimal pure-Python stand-in for the `onnx` package (rten verification harness).

Provides exactly what `rten-convert` touches: `onnx.load`, the protobuf message classes as
plain Python objects filled by a small protobuf wire-format decoder (field numbers/types of
onnx.proto, proto2 semantics: field presence, last-one-wins scalars, merged sub-messages,
packed or unpacked repeated scalars, unknown fields skipped), `onnx.numpy_helper.to_array`,
`onnx.helper.get_attribute_value`, the enum wrappers `TensorProto.DataType` and
`AttributeProto.AttributeType`, and loading of external tensor data.

`python run_convert.py --selftest` cross-checks the field tables below against the ones the
translator extracted from /repo/rten-onnx/src/onnx.rs (lean/RtenVerif/Generated/OnnxSchema.lean).
"""
import os
import struct

__version__ = "0.0-rten-verif-shim"

# ------------------------------------------------------------------------------------------------
# Wire format
# ------------------------------------------------------------------------------------------------


class DecodeError(Exception):
    pass


def _read_varint(buf, pos, end):
    result = 0
    shift = 0
    while True:
        if pos >= end:
            raise DecodeError("truncated varint")
        b = buf[pos]
        pos += 1
        result |= (b & 0x7F) << shift
        if not b & 0x80:
            break
        shift += 7
        if shift >= 70:
            raise DecodeError("varint too long")
    return result & 0xFFFFFFFFFFFFFFFF, pos


def _to_i64(v):
    return v - (1 << 64) if v >= (1 << 63) else v


def _to_i32(v):
    v &= 0xFFFFFFFF
    return v - (1 << 32) if v >= (1 << 31) else v


# Scalar kinds: name -> (wire type, decoder from raw wire value)
_VARINT_KINDS = {
    "int64": _to_i64,
    "int32": _to_i32,
    "uint64": lambda v: v,
    "enum": _to_i32,
    "bool": lambda v: v != 0,
}
_FIXED_KINDS = {"float": ("<f", 4, 5), "double": ("<d", 8, 1)}


class _EnumWrapper(object):
    """Like protobuf's EnumTypeWrapper: attribute access, `Name(number)`, `Value(name)`."""

    def __init__(self, name, values):
        self._name = name
        self._by_name = dict(values)
        self._by_number = {}
        for k, v in values:
            self._by_number.setdefault(v, k)
            setattr(self, k, v)

    def Name(self, number):
        try:
            return self._by_number[number]
        except KeyError:
            raise ValueError("Enum %s has no name defined for value %r" % (self._name, number))

    def Value(self, name):
        try:
            return self._by_name[name]
        except KeyError:
            raise ValueError("Enum %s has no value defined for name %r" % (self._name, name))

    def keys(self):
        return list(self._by_name.keys())

    def values(self):
        return list(self._by_name.values())

    def items(self):
        return list(self._by_name.items())


class Message(object):
    """Base of all message classes. Sub-classes define `_FIELDS`:
    {number: (name, kind, repeated)} where kind is a scalar kind, "string", "bytes", or a
    message class (or its name, resolved lazily)."""

    _FIELDS = {}
    _BY_NAME = None

    def __init__(self):
        object.__setattr__(self, "_present", set())
        for _num, (name, kind, repeated) in self._FIELDS.items():
            if repeated:
                object.__setattr__(self, name, [])
            elif isinstance(kind, str) and kind not in _SCALAR_DEFAULTS:
                pass  # singular message: created on first access
            elif not isinstance(kind, str):
                pass
            else:
                object.__setattr__(self, name, _SCALAR_DEFAULTS[kind])

    # -- field table helpers
    @classmethod
    def _by_name(cls):
        if cls.__dict__.get("_BY_NAME") is None:
            cls._BY_NAME = {name: (num, kind, rep) for num, (name, kind, rep) in cls._FIELDS.items()}
        return cls._BY_NAME

    @staticmethod
    def _msg_class(kind):
        if isinstance(kind, str):
            return globals()[kind]
        return kind

    def __getattr__(self, name):
        # only reached when the attribute does not exist: unset singular message field
        f = type(self)._by_name().get(name)
        if f is None:
            raise AttributeError(name)
        _num, kind, _rep = f
        sub = self._msg_class(kind)()
        object.__setattr__(self, name, sub)
        return sub

    def __setattr__(self, name, value):
        if name in type(self)._by_name():
            self._present.add(name)
        object.__setattr__(self, name, value)

    def HasField(self, name):
        f = type(self)._by_name().get(name)
        if f is None:
            raise ValueError('Protocol message %s has no field "%s".' % (type(self).__name__, name))
        if f[2]:
            raise ValueError('Protocol message %s has no singular "%s" field.' % (type(self).__name__, name))
        return name in self._present

    def ClearField(self, name):
        num, kind, rep = type(self)._by_name()[name]
        self._present.discard(name)
        if rep:
            object.__setattr__(self, name, [])
        elif isinstance(kind, str) and kind in _SCALAR_DEFAULTS:
            object.__setattr__(self, name, _SCALAR_DEFAULTS[kind])
        else:
            self.__dict__.pop(name, None)

    def ParseFromString(self, data):
        data = bytes(data)
        self._merge(data, 0, len(data))
        return len(data)

    def _merge(self, buf, pos, end):
        fields = self._FIELDS
        while pos < end:
            key, pos = _read_varint(buf, pos, end)
            num, wt = key >> 3, key & 7
            if num == 0:
                raise DecodeError("field number 0")
            f = fields.get(num)
            # read the raw value according to the wire type
            if wt == 0:
                raw, pos = _read_varint(buf, pos, end)
            elif wt == 1:
                if pos + 8 > end:
                    raise DecodeError("truncated fixed64")
                raw = buf[pos:pos + 8]
                pos += 8
            elif wt == 5:
                if pos + 4 > end:
                    raise DecodeError("truncated fixed32")
                raw = buf[pos:pos + 4]
                pos += 4
            elif wt == 2:
                n, pos = _read_varint(buf, pos, end)
                if pos + n > end:
                    raise DecodeError("truncated length-delimited field")
                raw = (pos, pos + n)
                pos += n
            elif wt == 3:
                pos = self._skip_group(buf, pos, end, num)
                continue
            else:
                raise DecodeError("unsupported wire type %d" % wt)
            if f is None:
                continue  # unknown field
            name, kind, repeated = f
            if isinstance(kind, str) and kind in _VARINT_KINDS:
                conv = _VARINT_KINDS[kind]
                if wt == 0:
                    vals = [conv(raw)]
                elif wt == 2 and repeated:  # packed
                    vals = []
                    p, e = raw
                    while p < e:
                        v, p = _read_varint(buf, p, e)
                        vals.append(conv(v))
                else:
                    continue  # wire type mismatch: treated as unknown
            elif isinstance(kind, str) and kind in _FIXED_KINDS:
                fmt, size, want = _FIXED_KINDS[kind]
                if wt == want:
                    vals = [struct.unpack(fmt, raw)[0]]
                elif wt == 2 and repeated:
                    p, e = raw
                    if (e - p) % size:
                        raise DecodeError("packed fixed field has a partial element")
                    vals = [x[0] for x in struct.iter_unpack(fmt, buf[p:e])]
                else:
                    continue
            elif kind == "string":
                if wt != 2:
                    continue
                vals = [buf[raw[0]:raw[1]].decode("utf-8")]
            elif kind == "bytes":
                if wt != 2:
                    continue
                vals = [bytes(buf[raw[0]:raw[1]])]
            else:
                if wt != 2:
                    continue
                cls = self._msg_class(kind)
                if repeated:
                    sub = cls()
                    sub._merge(buf, raw[0], raw[1])
                    getattr(self, name).append(sub)
                else:
                    sub = self.__dict__.get(name)
                    if sub is None:
                        sub = cls()
                        object.__setattr__(self, name, sub)
                    sub._merge(buf, raw[0], raw[1])  # repeated occurrences merge
                    self._present.add(name)
                continue
            if repeated:
                getattr(self, name).extend(vals)
            elif vals:
                object.__setattr__(self, name, vals[-1])
                self._present.add(name)

    def _skip_group(self, buf, pos, end, group_num):
        while pos < end:
            key, pos = _read_varint(buf, pos, end)
            num, wt = key >> 3, key & 7
            if wt == 4:
                if num != group_num:
                    raise DecodeError("mismatched end-group")
                return pos
            if wt == 0:
                _, pos = _read_varint(buf, pos, end)
            elif wt == 1:
                pos += 8
            elif wt == 5:
                pos += 4
            elif wt == 2:
                n, pos = _read_varint(buf, pos, end)
                pos += n
            elif wt == 3:
                pos = self._skip_group(buf, pos, end, num)
            else:
                raise DecodeError("unsupported wire type %d" % wt)
        raise DecodeError("unterminated group")

    def __repr__(self):
        parts = []
        for _num, (name, _kind, rep) in sorted(self._FIELDS.items()):
            if rep:
                v = self.__dict__.get(name)
                if v:
                    parts.append("%s=%r" % (name, v))
            elif name in self._present:
                parts.append("%s=%r" % (name, self.__dict__.get(name)))
        return "%s(%s)" % (type(self).__name__, ", ".join(parts))


_SCALAR_DEFAULTS = {
    "int64": 0, "int32": 0, "uint64": 0, "enum": 0, "bool": False,
    "float": 0.0, "double": 0.0, "string": "", "bytes": b"",
}

# ------------------------------------------------------------------------------------------------
# onnx.proto messages (field numbers as in onnx/onnx.proto, IR version 10)
# ------------------------------------------------------------------------------------------------


class StringStringEntryProto(Message):
    _FIELDS = {1: ("key", "string", False), 2: ("value", "string", False)}


class OperatorSetIdProto(Message):
    _FIELDS = {1: ("domain", "string", False), 2: ("version", "int64", False)}


class TensorShapeProto(Message):
    class Dimension(Message):
        _FIELDS = {
            1: ("dim_value", "int64", False),
            2: ("dim_param", "string", False),
            3: ("denotation", "string", False),
        }

    _FIELDS = {1: ("dim", Dimension, True)}


class TypeProto(Message):
    class Tensor(Message):
        _FIELDS = {1: ("elem_type", "int32", False), 2: ("shape", TensorShapeProto, False)}

    class Sequence(Message):
        _FIELDS = {1: ("elem_type", "TypeProto", False)}

    class Map(Message):
        _FIELDS = {1: ("key_type", "int32", False), 2: ("value_type", "TypeProto", False)}

    class Optional(Message):
        _FIELDS = {1: ("elem_type", "TypeProto", False)}

    class SparseTensor(Message):
        _FIELDS = {1: ("elem_type", "int32", False), 2: ("shape", TensorShapeProto, False)}

    _FIELDS = {
        1: ("tensor_type", Tensor, False),
        4: ("sequence_type", Sequence, False),
        5: ("map_type", Map, False),
        9: ("optional_type", Optional, False),
        8: ("sparse_tensor_type", SparseTensor, False),
        6: ("denotation", "string", False),
    }


class ValueInfoProto(Message):
    _FIELDS = {
        1: ("name", "string", False),
        2: ("type", TypeProto, False),
        3: ("doc_string", "string", False),
        4: ("metadata_props", StringStringEntryProto, True),
    }


_DATA_TYPES = [
    ("UNDEFINED", 0), ("FLOAT", 1), ("UINT8", 2), ("INT8", 3), ("UINT16", 4), ("INT16", 5),
    ("INT32", 6), ("INT64", 7), ("STRING", 8), ("BOOL", 9), ("FLOAT16", 10), ("DOUBLE", 11),
    ("UINT32", 12), ("UINT64", 13), ("COMPLEX64", 14), ("COMPLEX128", 15), ("BFLOAT16", 16),
    ("FLOAT8E4M3FN", 17), ("FLOAT8E4M3FNUZ", 18), ("FLOAT8E5M2", 19), ("FLOAT8E5M2FNUZ", 20),
    ("UINT4", 21), ("INT4", 22), ("FLOAT4E2M1", 23),
]


class TensorProto(Message):
    class Segment(Message):
        _FIELDS = {1: ("begin", "int64", False), 2: ("end", "int64", False)}

    DataType = _EnumWrapper("DataType", _DATA_TYPES)
    DataLocation = _EnumWrapper("DataLocation", [("DEFAULT", 0), ("EXTERNAL", 1)])
    DEFAULT = 0
    EXTERNAL = 1

    _FIELDS = {
        1: ("dims", "int64", True),
        2: ("data_type", "int32", False),
        3: ("segment", Segment, False),
        4: ("float_data", "float", True),
        5: ("int32_data", "int32", True),
        6: ("string_data", "bytes", True),
        7: ("int64_data", "int64", True),
        8: ("name", "string", False),
        12: ("doc_string", "string", False),
        9: ("raw_data", "bytes", False),
        13: ("external_data", StringStringEntryProto, True),
        14: ("data_location", "enum", False),
        10: ("double_data", "double", True),
        11: ("uint64_data", "uint64", True),
        16: ("metadata_props", StringStringEntryProto, True),
    }


for _k, _v in _DATA_TYPES:
    setattr(TensorProto, _k, _v)


class SparseTensorProto(Message):
    _FIELDS = {
        1: ("values", TensorProto, False),
        2: ("indices", TensorProto, False),
        3: ("dims", "int64", True),
    }


_ATTR_TYPES = [
    ("UNDEFINED", 0), ("FLOAT", 1), ("INT", 2), ("STRING", 3), ("TENSOR", 4), ("GRAPH", 5),
    ("SPARSE_TENSOR", 11), ("TYPE_PROTO", 13), ("FLOATS", 6), ("INTS", 7), ("STRINGS", 8),
    ("TENSORS", 9), ("GRAPHS", 10), ("SPARSE_TENSORS", 12), ("TYPE_PROTOS", 14),
]


class AttributeProto(Message):
    AttributeType = _EnumWrapper("AttributeType", _ATTR_TYPES)

    _FIELDS = {
        1: ("name", "string", False),
        21: ("ref_attr_name", "string", False),
        13: ("doc_string", "string", False),
        20: ("type", "enum", False),
        2: ("f", "float", False),
        3: ("i", "int64", False),
        4: ("s", "bytes", False),
        5: ("t", TensorProto, False),
        6: ("g", "GraphProto", False),
        22: ("sparse_tensor", SparseTensorProto, False),
        14: ("tp", TypeProto, False),
        7: ("floats", "float", True),
        8: ("ints", "int64", True),
        9: ("strings", "bytes", True),
        10: ("tensors", TensorProto, True),
        11: ("graphs", "GraphProto", True),
        23: ("sparse_tensors", SparseTensorProto, True),
        15: ("type_protos", TypeProto, True),
    }


for _k, _v in _ATTR_TYPES:
    setattr(AttributeProto, _k, _v)


class NodeProto(Message):
    _FIELDS = {
        1: ("input", "string", True),
        2: ("output", "string", True),
        3: ("name", "string", False),
        4: ("op_type", "string", False),
        7: ("domain", "string", False),
        8: ("overload", "string", False),
        5: ("attribute", AttributeProto, True),
        6: ("doc_string", "string", False),
        9: ("metadata_props", StringStringEntryProto, True),
    }


class TensorAnnotation(Message):
    _FIELDS = {
        1: ("tensor_name", "string", False),
        2: ("quant_parameter_tensor_names", StringStringEntryProto, True),
    }


class GraphProto(Message):
    _FIELDS = {
        1: ("node", NodeProto, True),
        2: ("name", "string", False),
        5: ("initializer", TensorProto, True),
        15: ("sparse_initializer", SparseTensorProto, True),
        10: ("doc_string", "string", False),
        11: ("input", ValueInfoProto, True),
        12: ("output", ValueInfoProto, True),
        13: ("value_info", ValueInfoProto, True),
        14: ("quantization_annotation", TensorAnnotation, True),
        16: ("metadata_props", StringStringEntryProto, True),
    }


class FunctionProto(Message):
    _FIELDS = {
        1: ("name", "string", False),
        4: ("input", "string", True),
        5: ("output", "string", True),
        6: ("attribute", "string", True),
        11: ("attribute_proto", AttributeProto, True),
        7: ("node", NodeProto, True),
        8: ("doc_string", "string", False),
        9: ("opset_import", OperatorSetIdProto, True),
        10: ("domain", "string", False),
        13: ("overload", "string", False),
        12: ("value_info", ValueInfoProto, True),
        14: ("metadata_props", StringStringEntryProto, True),
    }


class ModelProto(Message):
    _FIELDS = {
        1: ("ir_version", "int64", False),
        8: ("opset_import", OperatorSetIdProto, True),
        2: ("producer_name", "string", False),
        3: ("producer_version", "string", False),
        4: ("domain", "string", False),
        5: ("model_version", "int64", False),
        6: ("doc_string", "string", False),
        7: ("graph", GraphProto, False),
        14: ("metadata_props", StringStringEntryProto, True),
        25: ("functions", FunctionProto, True),
    }


class OperatorProto(Message):
    """onnx-operators.proto; rten-convert only uses the name in type annotations."""
    _FIELDS = {
        1: ("op_type", "string", False),
        2: ("since_version", "int64", False),
        3: ("status", "enum", False),
        10: ("doc_string", "string", False),
    }


# ------------------------------------------------------------------------------------------------
# External data + load
# ------------------------------------------------------------------------------------------------


def _all_tensors_of_graph(graph):
    for t in graph.initializer:
        yield t
    for node in graph.node:
        for attr in node.attribute:
            if attr.HasField("t"):
                yield attr.t
            for t in attr.tensors:
                yield t
            if attr.HasField("g"):
                for t in _all_tensors_of_graph(attr.g):
                    yield t
            for g in attr.graphs:
                for t in _all_tensors_of_graph(g):
                    yield t


def uses_external_data(tensor):
    return tensor.HasField("data_location") and tensor.data_location == TensorProto.EXTERNAL


def load_external_data_for_tensor(tensor, base_dir):
    """Read the bytes an EXTERNAL tensor refers to into `raw_data` (onnx.external_data_helper)."""
    location = None
    offset = None
    length = None
    for entry in tensor.external_data:
        if entry.key == "location":
            location = entry.value
        elif entry.key == "offset":
            offset = int(entry.value)
        elif entry.key == "length":
            length = int(entry.value)
    if not location:
        raise ValueError("Tensor %r: external data without a location" % tensor.name)
    # onnx rejects locations that escape the model directory
    norm = os.path.normpath(location)
    if os.path.isabs(location) or norm.startswith(".."):
        raise ValueError("Tensor %r: external data location %r escapes the model directory" % (tensor.name, location))
    path = os.path.join(base_dir, location)
    with open(path, "rb") as f:
        if offset:
            f.seek(offset)
        tensor.raw_data = f.read(length) if length else f.read()


def load_external_data_for_model(model, base_dir):
    for tensor in _all_tensors_of_graph(model.graph):
        if uses_external_data(tensor):
            load_external_data_for_tensor(tensor, base_dir)
            tensor.data_location = TensorProto.DEFAULT
            tensor.ClearField("external_data")


def load_model_from_string(s):
    m = ModelProto()
    m.ParseFromString(s)
    return m


def load_model(f, format=None, load_external_data=True):
    """`onnx.load`: parse a serialized ModelProto from a path or file object."""
    if hasattr(f, "read"):
        data = f.read()
        path = getattr(f, "name", None)
    else:
        path = os.fspath(f)
        with open(path, "rb") as fp:
            data = fp.read()
    model = load_model_from_string(data)
    if load_external_data and path:
        load_external_data_for_model(model, os.path.dirname(path))
    return model


load = load_model
load_from_string = load_model_from_string

from . import helper, numpy_helper, shape_inference  # noqa: E402,F401
