"""`onnx.helper`: attribute access and the dtype mapping tables numpy_helper needs."""
import numpy as np

from . import AttributeProto, TensorProto

# tensor dtype -> (numpy dtype, storage tensor dtype, typed storage field)
TENSOR_TYPE_MAP = {
    TensorProto.FLOAT: (np.dtype("float32"), TensorProto.FLOAT, "float_data"),
    TensorProto.UINT8: (np.dtype("uint8"), TensorProto.INT32, "int32_data"),
    TensorProto.INT8: (np.dtype("int8"), TensorProto.INT32, "int32_data"),
    TensorProto.UINT16: (np.dtype("uint16"), TensorProto.INT32, "int32_data"),
    TensorProto.INT16: (np.dtype("int16"), TensorProto.INT32, "int32_data"),
    TensorProto.INT32: (np.dtype("int32"), TensorProto.INT32, "int32_data"),
    TensorProto.INT64: (np.dtype("int64"), TensorProto.INT64, "int64_data"),
    TensorProto.BOOL: (np.dtype("bool"), TensorProto.INT32, "int32_data"),
    TensorProto.FLOAT16: (np.dtype("float16"), TensorProto.UINT16, "int32_data"),
    TensorProto.DOUBLE: (np.dtype("float64"), TensorProto.DOUBLE, "double_data"),
    TensorProto.UINT32: (np.dtype("uint32"), TensorProto.UINT32, "uint64_data"),
    TensorProto.UINT64: (np.dtype("uint64"), TensorProto.UINT64, "uint64_data"),
    TensorProto.STRING: (np.dtype("object"), TensorProto.STRING, "string_data"),
}


def _entry(tensor_dtype):
    try:
        return TENSOR_TYPE_MAP[tensor_dtype]
    except KeyError:
        raise TypeError("tensor data type %r is not supported by the onnx shim" % (tensor_dtype,))


def tensor_dtype_to_np_dtype(tensor_dtype):
    return _entry(tensor_dtype)[0]


def tensor_dtype_to_storage_tensor_dtype(tensor_dtype):
    return _entry(tensor_dtype)[1]


def tensor_dtype_to_field(tensor_dtype):
    return _entry(tensor_dtype)[2]


def get_attribute_value(attr):
    """Value of an AttributeProto according to its `type` tag (a reference attribute, which
    only occurs inside function bodies, has no value: ValueError as in onnx)."""
    if attr.ref_attr_name:
        raise ValueError("Cannot get value of reference attribute: %r" % (attr,))
    t = attr.type
    if t == AttributeProto.FLOAT:
        return attr.f
    if t == AttributeProto.INT:
        return attr.i
    if t == AttributeProto.STRING:
        return attr.s
    if t == AttributeProto.TENSOR:
        return attr.t
    if t == AttributeProto.SPARSE_TENSOR:
        return attr.sparse_tensor
    if t == AttributeProto.GRAPH:
        return attr.g
    if t == AttributeProto.TYPE_PROTO:
        return attr.tp
    if t == AttributeProto.FLOATS:
        return list(attr.floats)
    if t == AttributeProto.INTS:
        return list(attr.ints)
    if t == AttributeProto.STRINGS:
        return list(attr.strings)
    if t == AttributeProto.TENSORS:
        return list(attr.tensors)
    if t == AttributeProto.SPARSE_TENSORS:
        return list(attr.sparse_tensors)
    if t == AttributeProto.GRAPHS:
        return list(attr.graphs)
    if t == AttributeProto.TYPE_PROTOS:
        return list(attr.type_protos)
    if t == AttributeProto.UNDEFINED:
        return None
    raise ValueError("Unsupported ONNX attribute: %r" % (attr,))
