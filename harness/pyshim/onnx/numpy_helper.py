"""`onnx.numpy_helper.to_array` (little-endian host)."""
import sys

import numpy as np

from . import TensorProto, helper, load_external_data_for_tensor, uses_external_data


def to_array(tensor, base_dir=""):
    """TensorProto -> numpy array, as onnx.numpy_helper.to_array does:
    * `raw_data` present: reinterpret the little-endian bytes as the tensor's dtype;
    * otherwise read the typed storage field (`float_data`, `int32_data` for the narrow integer
      types, bool and the f16 bit patterns, `int64_data`, `double_data`, `uint64_data`) and cast
      to the tensor's dtype;
    then reshape to `dims`."""
    if tensor.HasField("segment"):
        raise ValueError("Currently not supporting loading segments.")
    if tensor.data_type == TensorProto.UNDEFINED:
        raise TypeError("The element type in the input tensor is not defined.")
    tensor_dtype = tensor.data_type
    np_dtype = helper.tensor_dtype_to_np_dtype(tensor_dtype)
    storage_np_dtype = helper.tensor_dtype_to_np_dtype(helper.tensor_dtype_to_storage_tensor_dtype(tensor_dtype))
    storage_field = helper.tensor_dtype_to_field(tensor_dtype)
    dims = list(tensor.dims)

    if tensor_dtype == TensorProto.STRING:
        ss = [s.decode("utf-8") for s in tensor.string_data]
        return np.asarray(ss).astype(np_dtype).reshape(dims)

    if uses_external_data(tensor):
        load_external_data_for_tensor(tensor, base_dir)

    if tensor.HasField("raw_data"):
        raw = tensor.raw_data
        arr = np.frombuffer(raw, dtype=np_dtype.newbyteorder("<"))
        if sys.byteorder == "big":
            arr = arr.byteswap().view(np_dtype)
        return arr.astype(np_dtype, copy=False).reshape(dims)

    if tensor_dtype == TensorProto.FLOAT16:
        # stored as uint16 bit patterns in int32_data
        return np.asarray(tensor.int32_data, dtype=np.uint16).reshape(dims).view(np.float16)

    data = getattr(tensor, storage_field)
    return np.asarray(data, dtype=storage_np_dtype).astype(np_dtype).reshape(dims)
