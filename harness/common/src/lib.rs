//! Shared helpers for the correspondence harnesses: seeded PRNG, case writer
//! (request / implementation-answer line files + statistics), panic capture.
use std::collections::{BTreeMap, HashSet};
use std::fs::File;
use std::io::{BufWriter, Write};
use std::panic::{catch_unwind, AssertUnwindSafe};

/// splitmix64-seeded xorshift64* generator. Every random choice of a harness
/// derives from one instance so that a run replays exactly from its seed.
#[derive(Clone)]
pub struct Rng(u64);

impl Rng {
    pub fn new(seed: u64) -> Rng {
        let mut z = seed.wrapping_add(0x9E3779B97F4A7C15);
        z = (z ^ (z >> 30)).wrapping_mul(0xBF58476D1CE4E5B9);
        z = (z ^ (z >> 27)).wrapping_mul(0x94D049BB133111EB);
        z ^= z >> 31;
        Rng(if z == 0 { 0x1234_5678_9abc_def1 } else { z })
    }
    pub fn next_u64(&mut self) -> u64 {
        let mut x = self.0;
        x ^= x >> 12;
        x ^= x << 25;
        x ^= x >> 27;
        self.0 = x;
        x.wrapping_mul(0x2545F4914F6CDD1D)
    }
    /// Uniform in `0..n` (n > 0).
    pub fn below(&mut self, n: u64) -> u64 {
        self.next_u64() % n
    }
    pub fn usize_below(&mut self, n: usize) -> usize {
        self.below(n as u64) as usize
    }
    /// Uniform in `lo..=hi`.
    pub fn range_i64(&mut self, lo: i64, hi: i64) -> i64 {
        lo + self.below((hi - lo + 1) as u64) as i64
    }
    pub fn chance(&mut self, num: u64, den: u64) -> bool {
        self.below(den) < num
    }
    pub fn pick<'a, T>(&mut self, xs: &'a [T]) -> &'a T {
        &xs[self.usize_below(xs.len())]
    }
    pub fn f32_unit(&mut self) -> f32 {
        (self.next_u64() >> 40) as f32 / (1u64 << 24) as f32
    }
    pub fn shuffle<T>(&mut self, xs: &mut [T]) {
        for i in (1..xs.len()).rev() {
            let j = self.usize_below(i + 1);
            xs.swap(i, j);
        }
    }
}

/// Run `f`, turning a panic into `Err(message)`.
pub fn catch<T>(f: impl FnOnce() -> T) -> Result<T, String> {
    match catch_unwind(AssertUnwindSafe(f)) {
        Ok(v) => Ok(v),
        Err(e) => {
            let msg = if let Some(s) = e.downcast_ref::<&str>() {
                s.to_string()
            } else if let Some(s) = e.downcast_ref::<String>() {
                s.clone()
            } else {
                "panic".to_string()
            };
            Err(msg.replace(['\n', '\t'], " "))
        }
    }
}

/// Silence the default panic hook (panics are expected observables).
pub fn quiet_panics() {
    std::panic::set_hook(Box::new(|_| {}));
}

pub fn join<T: std::fmt::Display>(xs: impl IntoIterator<Item = T>, sep: &str) -> String {
    let v: Vec<String> = xs.into_iter().map(|x| x.to_string()).collect();
    v.join(sep)
}

pub struct Args {
    pub prop: String,
    pub seed: u64,
    pub thorough: bool,
    pub out: String,
    pub replay: Option<String>,
}

pub fn parse_args() -> Args {
    let a: Vec<String> = std::env::args().collect();
    let mut args = Args {
        prop: String::new(),
        seed: 1,
        thorough: false,
        out: ".".into(),
        replay: None,
    };
    let mut i = 1;
    while i < a.len() {
        match a[i].as_str() {
            "--seed" => {
                args.seed = a[i + 1].parse().unwrap_or(1);
                i += 1;
            }
            "--tier" => {
                args.thorough = a[i + 1] == "thorough";
                i += 1;
            }
            "--out" => {
                args.out = a[i + 1].clone();
                i += 1;
            }
            "--replay" => {
                args.replay = Some(a[i + 1].clone());
                i += 1;
            }
            _ => {}
        }
        i += 1;
    }
    args
}

/// Writes the three files `bin/check` consumes:
/// * `req.txt`  — one request per line, fed verbatim to the Lean model driver;
/// * `impl.txt` — one line per request: the implementation's canonical answer,
///   optionally followed by `\tPROPFAIL <what>` when the property's own oracle,
///   evaluated on the implementation's output, fails for that case;
/// * `stats.json` — counters, input-distribution histogram, samples.
pub struct Out {
    req: BufWriter<File>,
    imp: BufWriter<File>,
    dir: String,
    pub evaluations: u64,
    nontrivial: HashSet<u64>,
    pub propfails: u64,
    hist: BTreeMap<String, u64>,
    samples: Vec<(String, String)>,
    notes: Vec<String>,
}

fn hash_str(s: &str) -> u64 {
    let mut h: u64 = 0xcbf29ce484222325;
    for b in s.bytes() {
        h ^= b as u64;
        h = h.wrapping_mul(0x100000001b3);
    }
    h
}

fn json_escape(s: &str) -> String {
    let mut o = String::new();
    for c in s.chars() {
        match c {
            '"' => o.push_str("\\\""),
            '\\' => o.push_str("\\\\"),
            '\n' => o.push_str("\\n"),
            '\t' => o.push_str("\\t"),
            c if (c as u32) < 0x20 => o.push_str(&format!("\\u{:04x}", c as u32)),
            c => o.push(c),
        }
    }
    o
}

impl Out {
    pub fn new(dir: &str) -> Out {
        std::fs::create_dir_all(dir).unwrap();
        Out {
            req: BufWriter::new(File::create(format!("{dir}/req.txt")).unwrap()),
            imp: BufWriter::new(File::create(format!("{dir}/impl.txt")).unwrap()),
            dir: dir.to_string(),
            evaluations: 0,
            nontrivial: HashSet::new(),
            propfails: 0,
            hist: BTreeMap::new(),
            samples: vec![],
            notes: vec![],
        }
    }
    /// Record one case. `req` and `ans` must not contain newlines or tabs.
    pub fn case(&mut self, req: &str, ans: &str, propfail: Option<&str>, nontrivial: bool) {
        debug_assert!(!req.contains('\n') && !ans.contains('\n'));
        writeln!(self.req, "{req}").unwrap();
        match propfail {
            Some(m) => {
                self.propfails += 1;
                writeln!(self.imp, "{ans}\tPROPFAIL {}", m.replace(['\n', '\t'], " ")).unwrap()
            }
            None => writeln!(self.imp, "{ans}").unwrap(),
        }
        self.evaluations += 1;
        if nontrivial {
            self.nontrivial.insert(hash_str(req));
        }
        let n = self.evaluations;
        if self.samples.len() < 3 || (n % 997 == 0 && self.samples.len() < 8) {
            self.samples.push((req.to_string(), ans.to_string()));
        }
    }
    /// Count an input-distribution bucket.
    pub fn bucket(&mut self, name: &str) {
        *self.hist.entry(name.to_string()).or_insert(0) += 1;
    }
    pub fn note(&mut self, s: &str) {
        self.notes.push(s.to_string());
    }
    pub fn finish(mut self, rule: &str) {
        self.req.flush().unwrap();
        self.imp.flush().unwrap();
        let mut s = String::from("{");
        s += &format!("\"evaluations\":{},", self.evaluations);
        s += &format!("\"distinct_nontrivial\":{},", self.nontrivial.len());
        s += &format!("\"propfails\":{},", self.propfails);
        s += &format!("\"rule\":\"{}\",", json_escape(rule));
        s += "\"distribution\":{";
        let h: Vec<String> = self
            .hist
            .iter()
            .map(|(k, v)| format!("\"{}\":{}", json_escape(k), v))
            .collect();
        s += &h.join(",");
        s += "},\"notes\":[";
        let nn: Vec<String> = self.notes.iter().map(|n| format!("\"{}\"", json_escape(n))).collect();
        s += &nn.join(",");
        s += "],\"samples\":[";
        let ss: Vec<String> = self
            .samples
            .iter()
            .map(|(r, a)| format!("{{\"request\":\"{}\",\"impl\":\"{}\"}}", json_escape(r), json_escape(a)))
            .collect();
        s += &ss.join(",");
        s += "]}";
        std::fs::write(format!("{}/stats.json", self.dir), s).unwrap();
    }
}
