#!/usr/bin/env python3
"""C12 translator: extract the literal `output_types` rule lists from rten's operator sources.

For every `fn output_types(..)` under `<repo>/src/ops/**/*.rs` the enclosing
`impl Operator for X` names the operator struct.  Bodies that are a literal
list of `OutputType::…` rules are translated to a Lean `Rule` list; a small
number of parametric shapes are recognised explicitly:

  * `OutputTypeList::from_elem(<rule>, ctx.num_outputs)`            -> `.repeatNumOutputs rule`
  * `Fixed(ValueType::Tensor(self.<field>))`                         -> `.fixedAttr "<field>"` (dtype attribute)
  * `let mut types = OutputTypeList::from([..]); if ctx.num_outputs > 1 { types.push(..)* } Some(types)`
                                                                     -> `.ifMoreThanOne base extra`
  * `None`                                                           -> `.noRules`

Everything else (branches on attributes, delegation to an inner operator) is
emitted as `.opaque` and the Lean driver answers `skip` for those operators:
their rule objects are then only checked by the harness's own oracle.

`impl Operator for $op` inside a `macro_rules! m` is expanded by looking for
top-level invocations `m!(Name, …)` in the same file.

The `max_inputs` body is extracted the same way (`Some(n)` / `None`; anything
else becomes `unknown`) because T3 (every `CopyFromInput i` refers to an
existing slot) needs it.

Output: lean/RtenVerif/Generated/OutputTypeTable.lean (import-free apart from
Model/OutputTypes).
"""
import argparse
import os
import re
import sys


def find_matching(src, i, open_ch="{", close_ch="}"):
    """src[i] == open_ch; return index just after the matching close."""
    depth = 0
    n = len(src)
    in_line_comment = False
    in_str = False
    j = i
    while j < n:
        c = src[j]
        if in_line_comment:
            if c == "\n":
                in_line_comment = False
        elif in_str:
            if c == "\\":
                j += 1
            elif c == '"':
                in_str = False
        elif c == "/" and j + 1 < n and src[j + 1] == "/":
            in_line_comment = True
        elif c == '"':
            in_str = True
        elif c == open_ch:
            depth += 1
        elif c == close_ch:
            depth -= 1
            if depth == 0:
                return j + 1
        j += 1
    return n


def strip_comments(s):
    return re.sub(r"//[^\n]*", "", s)


DTYPES = {"Int32": "int32", "Float": "float", "Int8": "int8", "UInt8": "uint8"}

RULE_RE = re.compile(
    r"OutputType::(Fixed\(\s*ValueType::(Tensor|Sequence)\(\s*(DataType::(\w+)|self\.(\w+))\s*\)\s*\)"
    r"|CopyFromInput\(\s*(\d+)\s*\)"
    r"|ElementTypeOfInputSequence\(\s*(\d+)\s*\)"
    r"|SequenceWithElementTypeOfInput\(\s*(\d+)\s*\))"
)


def parse_rule(m):
    """-> (lean_term, is_attr)"""
    if m.group(2):
        kind = "tensor" if m.group(2) == "Tensor" else "sequence"
        if m.group(4):
            if m.group(4) not in DTYPES:
                return None
            return f".fixed (.{kind} .{DTYPES[m.group(4)]})"
        return f'.fixedAttr "{m.group(5)}" {"false" if kind == "tensor" else "true"}'
    if m.group(6) is not None:
        return f".copyFromInput {m.group(6)}"
    if m.group(7) is not None:
        return f".elementTypeOfInputSequence {m.group(7)}"
    return f".sequenceWithElementTypeOfInput {m.group(8)}"


def parse_rule_list(text):
    """text must consist only of rules separated by commas/whitespace."""
    rules = []
    pos = 0
    text = text.strip()
    while pos < len(text):
        m = RULE_RE.match(text, pos)
        if not m:
            return None
        r = parse_rule(m)
        if r is None:
            return None
        rules.append(r)
        pos = m.end()
        while pos < len(text) and text[pos] in ", \n\t":
            pos += 1
    return rules


def lean_list(rules):
    return "[" + ", ".join(rules) + "]"


def translate_body(body):
    b = strip_comments(body).strip()
    b = re.sub(r"\s+", " ", b)
    if b == "None":
        return ".noRules"
    # Some([..].into()) / Some(OutputTypeList::from_slice(&[..])) / Some([..].into_iter().collect())
    m = re.fullmatch(r"Some\( ?\[(.*)\] ?\.into\(\) ?\)", b)
    if not m:
        m = re.fullmatch(r"Some\( ?OutputTypeList::from_slice\( ?&\[(.*)\] ?\) ?\)", b)
    if not m:
        m = re.fullmatch(r"Some\( ?\[(.*)\] ?\.into_iter\(\) ?\.collect\(\) ?,? ?\)", b)
    if not m:
        m = re.fullmatch(r"Some\( ?OutputTypeList::from\( ?\[(.*)\] ?\) ?\)", b)
    if m:
        rules = parse_rule_list(m.group(1))
        if rules is not None:
            return f".list {lean_list(rules)}"
    # let dtype = self.F.unwrap_or(DataType::D); Some([OutputType::Fixed(ValueType::K(dtype))].into())
    m = re.fullmatch(
        r"let dtype = self\.(\w+)\.unwrap_or\( ?DataType::(\w+) ?\); "
        r"Some\( ?\[ ?OutputType::Fixed\( ?ValueType::(Tensor|Sequence)\( ?dtype ?\) ?\) ?\] ?\.into\(\) ?\)",
        b,
    )
    if m and m.group(2) in DTYPES:
        kind = "tensor" if m.group(3) == "Tensor" else "sequence"
        seq = "false" if kind == "tensor" else "true"
        return f'.list [.attrOr "{m.group(1)}" {seq} (.fixed (.{kind} .{DTYPES[m.group(2)]}))]'
    # Some([if let Some(dtype) = self.F { Fixed(Tensor(dtype)) } else { RULE }].into())
    m = re.fullmatch(
        r"Some\( ?\[ ?if let Some\(dtype\) = self\.(\w+) \{ OutputType::Fixed\( ?ValueType::(Tensor|Sequence)\( ?dtype ?\) ?\) \} "
        r"else \{ (.*?) \} ?\] ?\.into\(\),? ?\)",
        b,
    )
    if m:
        fb = parse_rule_list(m.group(3))
        if fb is not None and len(fb) == 1:
            seq = "false" if m.group(2) == "Tensor" else "true"
            return f'.list [.attrOr "{m.group(1)}" {seq} ({fb[0]})]'
    # Fixed(ValueType::Tensor(self.value.dtype()))
    m = re.fullmatch(
        r"Some\( ?\[ ?OutputType::Fixed\( ?ValueType::(Tensor|Sequence)\( ?self\.(\w+)\.dtype\(\) ?\) ?\) ?\] ?\.into\(\) ?\)", b
    )
    if m:
        seq = "false" if m.group(1) == "Tensor" else "true"
        return f'.list [.fixedAttr "{m.group(2)}.dtype" {seq}]'
    m = re.fullmatch(r"Some\( ?OutputTypeList::from_elem\( ?(.*?), ?ctx\.num_outputs,? ?\) ?\)", b)
    if m:
        rules = parse_rule_list(m.group(1))
        if rules is not None and len(rules) == 1:
            return f".repeatNumOutputs ({rules[0]})"
        return None
    m = re.fullmatch(
        r"let mut types = OutputTypeList::from\( ?\[(.*?)\] ?\); if ctx\.num_outputs > 1 \{ (.*?) \} Some\(types\)",
        b,
    )
    if m:
        base = parse_rule_list(m.group(1))
        pushes = re.findall(r"types\.push\( ?(.*?) ?\);", m.group(2))
        rest = re.sub(r"types\.push\( ?(.*?) ?\);", "", m.group(2)).strip()
        extra = []
        for p in pushes:
            r = parse_rule_list(p)
            if r is None or len(r) != 1:
                return None
            extra.append(r[0])
        if base is not None and rest == "":
            return f".ifMoreThanOne {lean_list(base)} {lean_list(extra)}"
    return None


def translate_max_inputs(body):
    b = re.sub(r"\s+", " ", strip_comments(body).strip())
    if b == "None":
        return "none", True
    m = re.fullmatch(r"Some\( ?(\d+) ?\)", b)
    if m:
        return f"some {m.group(1)}", True
    return "none", False


def fn_body(src, start):
    """start = index of 'fn name('; return body text between the outermost braces."""
    i = src.index("{", src.index(")", start))
    # skip return type which may contain no braces
    end = find_matching(src, i)
    return src[i + 1 : end - 1], end


def scan_file(path, rel):
    src = open(path, encoding="utf-8").read()
    # cut off the test module
    tm = re.search(r"#\[cfg\(test\)\]\s*mod tests", src)
    if tm:
        src = src[: tm.start()]
    entries = []
    # macro definitions: name -> (start, end)
    macros = []
    for m in re.finditer(r"macro_rules!\s*(\w+)\s*\{", src):
        end = find_matching(src, m.end() - 1)
        macros.append((m.group(1), m.start(), end))
    for m in re.finditer(r"impl\s+Operator\s+for\s+(\$?\w+)\s*\{", src):
        name = m.group(1)
        end = find_matching(src, m.end() - 1)
        block = src[m.end() : end]
        om = re.search(r"fn output_types\s*\(", block)
        if not om:
            continue
        body, _ = fn_body(block, om.start())
        rule = translate_body(body)
        mi = re.search(r"fn max_inputs\s*\(", block)
        if mi:
            mbody, _ = fn_body(block, mi.start())
            max_in, max_known = translate_max_inputs(mbody)
        else:
            max_in, max_known = "none", False
        line = src.count("\n", 0, m.start()) + 1
        names = [name]
        if name.startswith("$"):
            encl = [mc for mc in macros if mc[1] <= m.start() < mc[2]]
            names = []
            if encl:
                mname = encl[-1][0]
                for inv in re.finditer(r"^" + mname + r"!\(\s*(\w+)", src, re.M):
                    names.append(inv.group(1))
        for n in names:
            entries.append(
                {
                    "name": n,
                    "file": rel,
                    "line": line,
                    "rule": rule if rule is not None else ".opaque",
                    "max_inputs": max_in,
                    "max_known": max_known,
                    "macro": name.startswith("$"),
                }
            )
    return entries


def main():
    ap = argparse.ArgumentParser()
    ap.add_argument("--repo", required=True)
    ap.add_argument("--verif", required=True)
    ap.add_argument("--print", action="store_true")
    a = ap.parse_args()
    root = os.path.join(a.repo, "src", "ops")
    entries = []
    for d, _, files in sorted(os.walk(root)):
        for f in sorted(files):
            if f.endswith(".rs"):
                p = os.path.join(d, f)
                entries += scan_file(p, os.path.relpath(p, a.repo))
    entries.sort(key=lambda e: (e["name"], e["file"], e["line"]))
    # struct names are unique across src/ops (they are all re-exported from ops/mod.rs)
    seen = {}
    for e in entries:
        if e["name"] in seen:
            sys.stderr.write(f"duplicate operator struct {e['name']}\n")
        seen[e["name"]] = e
    out = []
    out.append("import RtenVerif.Model.OutputTypes")
    out.append("")
    out.append("/-! GENERATED by translate/output_types.py from <repo>/src/ops/**/*.rs — do not edit.")
    out.append("One entry per `impl Operator for X` that defines `output_types`:")
    out.append("struct name, `max_inputs` (`none` = variadic or not a literal), whether `max_inputs` was a literal,")
    out.append("and the translated rule body. -/")
    out.append("namespace RtenVerif.OutputTypes.Generated")
    out.append("open RtenVerif.OutputTypes")
    out.append("")
    out.append("def table : List Entry := [")
    rows = []
    for e in entries:
        rows.append(
            f'  ⟨"{e["name"]}", {e["max_inputs"]}, {"true" if e["max_known"] else "false"}, {e["rule"]}⟩'
            f'  -- {e["file"]}:{e["line"]}'
        )
    # comments after a comma: put the comma before the comment
    fixed = []
    for i, r in enumerate(rows):
        code, _, comment = r.partition("  -- ")
        sep = "," if i + 1 < len(rows) else ""
        fixed.append(f"{code}{sep}  -- {comment}")
    out += fixed
    out.append("]")
    out.append("")
    out.append("end RtenVerif.OutputTypes.Generated")
    text = "\n".join(out) + "\n"
    if a.print:
        sys.stdout.write(text)
        return
    dst = os.path.join(a.verif, "lean", "RtenVerif", "Generated", "OutputTypeTable.lean")
    os.makedirs(os.path.dirname(dst), exist_ok=True)
    old = open(dst, encoding="utf-8").read() if os.path.exists(dst) else None
    if old != text:
        with open(dst, "w", encoding="utf-8") as f:
            f.write(text)
    n_opaque = sum(1 for e in entries if e["rule"] == ".opaque")
    sys.stderr.write(f"output_types.py: {len(entries)} operators, {n_opaque} opaque\n")


if __name__ == "__main__":
    main()
