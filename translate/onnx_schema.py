#!/usr/bin/env python3
"""onnx_schema.py --repo <repo> --verif <verif>

Translate every `impl DecodeMessage for X` of <repo>/rten-onnx/src/onnx.rs into the Lean table
<verif>/lean/RtenVerif/Generated/OnnxSchema.lean: message -> field number -> (kind, repeated).

The translator is deliberately strict: every `match field.number()` arm must be one of the known
forms (a single consuming call on `field`); anything else is a translation error (exit 1), because
the Lean model (`RtenVerif.Protobuf.consumeField`) only gives semantics to those forms.  It also
checks the shape of the surrounding loop (`while let Some(mut field) = fields.next()?`), and that the
default arm is `field.skip()?`.  Python stdlib only.
"""
import argparse
import os
import re
import sys


def die(msg):
    print("onnx_schema.py: " + msg, file=sys.stderr)
    sys.exit(1)


def matching_brace(src, i):
    """src[i] == '{' -> index of the matching '}' (no braces in strings/comments in onnx.rs impls)."""
    assert src[i] == "{"
    depth = 0
    j = i
    while j < len(src):
        c = src[j]
        if c == "/" and src.startswith("//", j):
            j = src.index("\n", j)
            continue
        if c == "{":
            depth += 1
        elif c == "}":
            depth -= 1
            if depth == 0:
                return j
        j += 1
    die("unbalanced braces")


def strip_comments(s):
    return re.sub(r"//[^\n]*", "", s)


CALLS = [
    (r"field\.read_string\(\)\?", "str"),
    (r"field\.read_bytes\(\)\?", "bytes"),
    (r"field\.get_float\(\)\?", "f32"),
    (r"field\.get_int64\(\)\?", "int64"),
    (r"field\.get_int32\(\)\?", "int32"),
    (r"field\.get_enum\(\)\?", "int32"),
    (r"field\.read_repeated_float\(\)\?", "packedF32"),
    (r"field\.read_repeated_double\(\)\?", "packedF64"),
    (r"field\.read_repeated_int32\(\)\?", "packedI32"),
    (r"field\.read_repeated_int64\(\)\?", "packedI64"),
    (r"field\.read_repeated_uint64\(\)\?", "packedU64"),
    (r"field\.skip\(\)\?", "skip"),
]


def classify(body, where):
    """Return (kind, child_message|None, repeated)."""
    b = " ".join(strip_comments(body).split())
    uses = re.findall(r"\bfield\b", b)
    m = re.search(r"\b(\w+)::decode_field\(&mut field\)\?", b)
    if m:
        if len(uses) != 1:
            die(f"{where}: `field` used more than once in a message arm: {b}")
        kind, child = "msg", m.group(1)
    else:
        kind, child = None, None
        for pat, k in CALLS:
            if re.search(pat, b):
                if kind is not None:
                    die(f"{where}: more than one field call in arm: {b}")
                kind = k
        if kind is None:
            die(f"{where}: unrecognised arm body: {b}")
        if len(uses) != 1:
            die(f"{where}: `field` used more than once in arm: {b}")
    if kind.startswith("packed"):
        # for x in field.read_repeated_*()? { msg.y.push(x?); }
        if not re.fullmatch(r"for (\w+) in field\.read_repeated_\w+\(\)\? \{ msg\.[\w#]+\.push\(\1\?\); \}", b):
            die(f"{where}: packed arm is not a plain `for x in … {{ push(x?) }}` loop: {b}")
        return kind, None, True
    if kind == "skip":
        if b == "field.skip()?;":
            return "skip", None, False
        if re.fullmatch(r"msg\.[\w#]+ = true; field\.skip\(\)\?;", b):
            return "flag", None, False
        die(f"{where}: unrecognised skip arm: {b}")
    if re.fullmatch(r"msg\.[\w#]+ \.?push\(.*\);", b) or re.fullmatch(r"msg\.[\w#]+\.push\(.*\);", b) \
            or re.fullmatch(r"msg \.[\w#]+ \.push\(.*\);", b):
        return kind, child, True
    if re.fullmatch(r"msg\.[\w#]+ = Some\(.*\);", b):
        return kind, child, False
    die(f"{where}: arm is neither `msg.x = Some(..)` nor `msg.x.push(..)`: {b}")


def parse(src):
    # constants: impl X { const NAME: u64 = n; ... }
    consts = {}
    for m in re.finditer(r"^impl (\w+) \{", src, re.M):
        name = m.group(1)
        end = matching_brace(src, m.end() - 1)
        body = src[m.end():end]
        for c in re.finditer(r"const (\w+): u64 = (\d+);", body):
            consts.setdefault(name, {})[c.group(1)] = int(c.group(2))
    msgs = []
    for m in re.finditer(r"^impl DecodeMessage for (\w+) \{", src, re.M):
        name = m.group(1)
        end = matching_brace(src, m.end() - 1)
        body = src[m.end():end]
        if "type Types = OwnedValues;" not in body:
            die(f"{name}: unexpected Types")
        lm = re.search(r"while let Some\(mut field\) = fields\.next\(\)\? \{\s*match field\.number\(\) \{", body)
        if not lm:
            die(f"{name}: decode_fields is not the standard `while let Some(mut field) = fields.next()?` loop")
        # nothing but `let mut msg = …;` before the loop and `Ok(msg)` after it
        pre = " ".join(strip_comments(body[:lm.start()]).split())
        if not re.search(r"\) -> Result<Self, ProtobufError> \{ let mut msg = (Self|\w+)::default\(\); $", pre + " "):
            die(f"{name}: unexpected code before the field loop: {pre[-120:]}")
        mstart = body.index("{", lm.end() - 1)
        mend = matching_brace(body, mstart)
        post = " ".join(strip_comments(body[mend + 1:]).split())
        if post != "} Ok(msg) }":
            die(f"{name}: unexpected code after the field loop: {post}")
        arms_src = body[mstart + 1:mend]
        fields = []
        seen_default = False
        pos = 0
        while True:
            am = re.compile(r"\s*(?:(\w+)::(\w+)|(_))\s*=>\s*\{").match(arms_src, pos)
            if not am:
                if arms_src[pos:].strip():
                    die(f"{name}: cannot parse arms near: {arms_src[pos:pos+80]!r}")
                break
            bstart = am.end() - 1
            bend = matching_brace(arms_src, bstart)
            arm_body = arms_src[bstart + 1:bend]
            pos = bend + 1
            if am.group(3):
                k = classify(arm_body, f"{name}::_")
                if k != ("skip", None, False):
                    die(f"{name}: default arm is not `field.skip()?`")
                seen_default = True
                continue
            if seen_default:
                die(f"{name}: arm after the default arm")
            owner = name if am.group(1) == "Self" else am.group(1)
            cname = am.group(2)
            if cname not in consts.get(owner, {}):
                die(f"{name}: unknown constant {owner}::{cname}")
            num = consts[owner][cname]
            kind, child, rep = classify(arm_body, f"{name}::{cname}")
            if any(f[0] == num for f in fields):
                die(f"{name}: duplicate field number {num}")
            fields.append((num, cname, kind, child, rep))
        if not seen_default:
            die(f"{name}: no default arm")
        msgs.append((name, fields))
    if not msgs:
        die("no `impl DecodeMessage` found")
    return msgs


def emit(msgs):
    ids = {name: i for i, (name, _) in enumerate(msgs)}
    out = []
    out.append("import RtenVerif.Model.Protobuf")
    out.append("/-! GENERATED by translate/onnx_schema.py from rten-onnx/src/onnx.rs — do not edit. -/")
    out.append("")
    out.append("namespace RtenVerif.Generated.OnnxSchema")
    out.append("open RtenVerif.Protobuf")
    out.append("")
    out.append("/-- Message names, indexed by message id. -/")
    out.append("def msgNames : List String := [" + ", ".join('"%s"' % n for n, _ in msgs) + "]")
    out.append("")
    for name, i in ids.items():
        out.append(f"def id{name} : Nat := {i}")
    out.append("")
    out.append("/-- message id ↦ [(field number, ⟨kind, repeated⟩)]; unlisted numbers are skipped. -/")
    out.append("def schema : Schema := [")
    rows = []
    for name, fields in msgs:
        ents = []
        for num, cname, kind, child, rep in fields:
            if kind == "msg":
                if child not in ids:
                    die(f"{name}::{cname}: unknown child message {child}")
                k = f".msg {ids[child]}"
            else:
                k = "." + kind
            ents.append(f"({num}, ⟨{k}, {'true' if rep else 'false'}⟩) /- {cname} -/")
        rows.append(f"  /- {ids[name]} {name} -/ [" + (",\n     ".join(ents)) + "]")
    out.append(",\n".join(rows))
    out.append("]")
    out.append("")
    out.append("end RtenVerif.Generated.OnnxSchema")
    return "\n".join(out) + "\n"


def main():
    ap = argparse.ArgumentParser()
    ap.add_argument("--repo", required=True)
    ap.add_argument("--verif", required=True)
    a = ap.parse_args()
    src = open(os.path.join(a.repo, "rten-onnx", "src", "onnx.rs")).read()
    txt = emit(parse(src))
    dst = os.path.join(a.verif, "lean", "RtenVerif", "Generated", "OnnxSchema.lean")
    os.makedirs(os.path.dirname(dst), exist_ok=True)
    if not os.path.exists(dst) or open(dst).read() != txt:
        tmp = dst + ".tmp%d" % os.getpid()
        open(tmp, "w").write(txt)
        os.replace(tmp, dst)
    return 0


if __name__ == "__main__":
    sys.exit(main())
