#!/usr/bin/env python3
"""C16 translator: re-extract the blocking formulas / constants of rten-gemm from the Rust source.

Reads  <repo>/rten-gemm/src/lib.rs and kernels/*.rs
Writes <verif>/lean/RtenVerif/Generated/GemmConsts.lean

For each blocking function the body is normalised (comments and whitespace removed) and matched
against the *shape* that `RtenVerif/Model/Gemm.lean` encodes, with holes for the numeric
constants.  If a shape no longer matches, the corresponding `shape…` flag is emitted as `false`
and the theorem `consts_shapes_ok` (Props/C16.lean, `by decide`) stops checking: the model must be
revisited.  The `(name, MR, NR)` table of every f32 kernel in the source is emitted too.
"""
import argparse, os, re, sys


def strip_comments(src):
    src = re.sub(r"/\*.*?\*/", "", src, flags=re.S)
    src = re.sub(r"//[^\n]*", "", src)
    return src


def fn_body(src, name):
    """Return the normalised text of `fn name…{ body }` (brace matched) or None."""
    m = re.search(r"\bfn\s+%s\b" % re.escape(name), src)
    if not m:
        return None
    i = src.find("{", m.end())
    # skip generic bounds `<...>` and args; find the first `{` after the closing `)` of args
    depth = 0
    j = m.end()
    while j < len(src):
        if src[j] == "(":
            depth += 1
        elif src[j] == ")":
            depth -= 1
            if depth == 0:
                break
        j += 1
    i = src.find("{", j)
    depth = 0
    k = i
    while k < len(src):
        if src[k] == "{":
            depth += 1
        elif src[k] == "}":
            depth -= 1
            if depth == 0:
                break
        k += 1
    return re.sub(r"\s+", "", src[i + 1:k])


def main():
    ap = argparse.ArgumentParser()
    ap.add_argument("--repo", required=True)
    ap.add_argument("--verif", required=True)
    a = ap.parse_args()
    gsrc = os.path.join(a.repo, "rten-gemm", "src")
    lib = strip_comments(open(os.path.join(gsrc, "lib.rs")).read())
    problems = []
    consts = {}
    shapes = {}

    def shape(name, body, pattern, keys):
        ok = False
        if body is not None:
            m = re.fullmatch(pattern, body)
            if m:
                ok = True
                for k, v in zip(keys, m.groups()):
                    consts[k] = int(v)
        shapes[name] = ok
        if not ok:
            problems.append(f"{name}: body no longer has the modelled shape: {body!r}")
            for k in keys:
                consts.setdefault(k, 0)

    shape("DepthBlockSize", fn_body(lib, "depth_block_size"),
          r"letmax=(\d+)/size_of::<RhsT>\(\);max\.min\(a_cols\)\.max\(min_size\.unwrap_or\(0\)\)",
          ["depthBytes"])
    shape("ColBlockSize", fn_body(lib, "col_block_size"),
          r"letparallelism=rayon::current_num_threads\(\);letlower_bound=(\d+)\.min\(b_cols\);"
          r"letunrounded=\(b_cols/parallelism\)\.max\(lower_bound\)\.min\((\d+)\);unrounded\.next_multiple_of\(nr\)",
          ["colLower", "colUpper"])
    shape("RowBlockSize", fn_body(lib, "row_block_size"),
          r"(\d+)\.min\(a_rows\)\.next_multiple_of\(mr\)", ["rowMax"])

    # gemv block sizes (two `let` lines inside gemv)
    gemv = fn_body(lib, "gemv") or ""
    m = re.search(r"letb_block_size=b_cols\.div_ceil\(rayon::current_num_threads\(\)\)\.max\((\d+)\);"
                  r"letk_block_size=ifb\.row_stride\(\)==1\{(\d+)\}else\{(\d+)\};", gemv)
    if m:
        consts["gemvColMin"], consts["gemvKUnitRow"], consts["gemvKOther"] = map(int, m.groups())
    else:
        problems.append("gemv: block size lines no longer have the modelled shape")
        for k in ("gemvColMin", "gemvKUnitRow", "gemvKOther"):
            consts[k] = 0
    shapes["GemvBlocks"] = bool(m)

    # Loop-nest landmarks of gemm_impl / gemm_block that the schedule model relies on.
    impl = fn_body(lib, "gemm_impl") or ""
    block = fn_body(lib, "gemm_block") or ""
    marks_impl = [
        "letnc=col_block_size(b.cols(),kernel.nr());",
        "letmc=row_block_size(a.rows(),kernel.mr());",
        "letkc=depth_block_size::<RhsT>(a.cols(),depth_min);",
        "letn_col_blocks=b.cols().div_ceil(nc);",
        "letn_row_blocks=a.rows().div_ceil(mc);",
        "letcol_start=col_idx*nc;letcol_end=(col_start+nc).min(b.cols());",
        "for(depth_block_idx,depth_range)inrange_chunks(0..a.cols(),kc).enumerate()",
        "leteffective_beta=ifdepth_range.start==0{beta}else{OutT::one()};",
        "letrow_start=row_idx*mc;letrow_end=(row_start+mc).min(a.rows());",
        "col_start/nr..col_end.div_ceil(nr),row_start/mr..row_end.div_ceil(mr),depth_range.clone(),",
        "ifa.rows()==0||b.cols()==0{",
        "ifa.cols()==0{",
        "iflet(1,GemmInputA::Unpacked(a),GemmInputB::Unpacked(b))=(a.rows(),a,b){",
    ]
    marks_block = [
        "col_tiles.enumerate().for_each(|(block_col_tile,col_tile)|{",
        "for(block_row_tile,row_tile)inrow_tiles.clone().enumerate(){",
        "letout_tile=unsafe{output.tile(row_tile,col_tile)};",
        "ifdepth_range.start==0{",
    ]
    ok_impl = all(mk in impl for mk in marks_impl)
    ok_block = all(mk in block for mk in marks_block)
    for mk in marks_impl:
        if mk not in impl:
            problems.append("gemm_impl: landmark missing: " + mk)
    for mk in marks_block:
        if mk not in block:
            problems.append("gemm_block: landmark missing: " + mk)
    shapes["GemmImplLoops"] = ok_impl
    shapes["GemmBlockLoops"] = ok_block

    tiles = strip_comments(open(os.path.join(gsrc, "tiles.rs")).read())
    tbody = fn_body(tiles, "tile") or ""
    tmarks = [
        "assert!(row<self.n_row_tiles&&col<self.n_col_tiles);",
        "letstart_row=row*self.tile_rows;letstart_col=col*self.tile_cols;",
        "used_rows:(self.rows-start_row).min(self.tile_rows),",
        "used_cols:(self.cols-start_col).min(self.tile_cols),",
    ]
    shapes["OutputTile"] = all(mk in tbody for mk in tmarks)
    if not shapes["OutputTile"]:
        problems.append("tiles.rs: OutputTiles::tile no longer has the modelled shape")

    # f32 kernels: struct name -> (MR, NR), kernel name string.
    kernels = []
    kdir = os.path.join(gsrc, "kernels")
    for fn in sorted(os.listdir(kdir)):
        if not fn.endswith(".rs"):
            continue
        ks = strip_comments(open(os.path.join(kdir, fn)).read())
        for m in re.finditer(r"unsafe\s+impl\s+Kernel<f32,\s*f32,\s*f32>\s+for\s+(\w+)", ks):
            struct = m.group(1)
            mm = re.search(r"impl\s+%s\s*\{(.*?)\n\}" % struct, ks, flags=re.S)
            mr = nr = None
            if mm:
                a1 = re.search(r"const\s+MR\s*:\s*usize\s*=\s*(\d+)", mm.group(1))
                a2 = re.search(r"const\s+NR\s*:\s*usize\s*=\s*(\d+)", mm.group(1))
                mr = int(a1.group(1)) if a1 else None
                nr = int(a2.group(1)) if a2 else None
            nm = re.search(r"fn\s+name\s*\(&self\)\s*->\s*&'static\s+str\s*\{\s*\"([^\"]+)\"", ks[m.end():])
            name = nm.group(1) if nm else struct
            if mr is None or nr is None:
                problems.append(f"kernel {struct}: MR/NR constants not found")
                mr, nr = mr or 0, nr or 0
            kernels.append((name, struct, mr, nr))

    out = []
    out.append("import RtenVerif.Model.Gemm")
    out.append("")
    out.append("/-! GENERATED by translate/gemm_consts.py from rten-gemm/src/{lib.rs,tiles.rs,kernels/*.rs}.")
    out.append("Do not edit; re-run `python3 translate/gemm_consts.py --repo <repo> --verif <verif>`. -/")
    out.append("namespace RtenVerif.Gemm.Generated")
    out.append("")
    out.append("/-- Numeric constants of `depth_block_size`, `col_block_size`, `row_block_size`, `gemv`. -/")
    out.append("def consts : BlockConsts :=")
    order = ["depthBytes", "colLower", "colUpper", "rowMax", "gemvColMin", "gemvKUnitRow", "gemvKOther"]
    out.append("  { " + ", ".join(f"{k} := {consts[k]}" for k in order) + " }")
    out.append("")
    out.append("/-- `(kernel name, MR, NR)` of every `Kernel<f32, f32, f32>` implementation in the source. -/")
    out.append("def f32Kernels : List (String × Nat × Nat) :=")
    out.append("  [" + ", ".join(f'("{n}", {mr}, {nr})' for (n, _, mr, nr) in kernels) + "]")
    out.append("")
    out.append("/-- `size_of::<f32>()` -/")
    out.append("def f32Size : Nat := 4")
    out.append("")
    for k in ["DepthBlockSize", "ColBlockSize", "RowBlockSize", "GemvBlocks", "GemmImplLoops", "GemmBlockLoops", "OutputTile"]:
        out.append(f"/-- the source text of this item still has the shape encoded in Model/Gemm.lean -/")
        out.append(f"def shape{k} : Bool := {'true' if shapes[k] else 'false'}")
    out.append("")
    out.append("def allShapesOk : Bool :=")
    out.append("  shapeDepthBlockSize && shapeColBlockSize && shapeRowBlockSize && shapeGemvBlocks &&")
    out.append("  shapeGemmImplLoops && shapeGemmBlockLoops && shapeOutputTile")
    out.append("")
    out.append("end RtenVerif.Gemm.Generated")
    txt = "\n".join(out) + "\n"
    dst = os.path.join(a.verif, "lean", "RtenVerif", "Generated", "GemmConsts.lean")
    os.makedirs(os.path.dirname(dst), exist_ok=True)
    if not os.path.exists(dst) or open(dst).read() != txt:
        tmp = dst + ".tmp%d" % os.getpid()
        open(tmp, "w").write(txt)
        os.replace(tmp, dst)
    for p in problems:
        print("gemm_consts: " + p, file=sys.stderr)
    return 0


if __name__ == "__main__":
    sys.exit(main())
