#!/usr/bin/env python3
"""Translator for C20: extract the dtype -> conversion-rule tables of BOTH load paths into
lean/RtenVerif/Generated/ConverterConsts.lean.

 * converter: `constant_node_from_onnx_initializer` (rten-convert/rten_convert/converter.py,
   Python `ast`).  The statements around the `match dtype_name:` and the COMPLETE body of every
   case are compared (after `ast.unparse`) with the exact text this translator gives meaning to;
   a case guard, an augmented assignment, an extra statement ... make the case `.unrecognised`.
 * ONNX loader: `load_constant` (src/model/onnx_loader.rs).  The body of
   `match initializer.data_type` is cut into arms at every top-level `=>`; every arm pattern must be
   `Some(onnx::DataType::X)`, `Some(dtype)` or `None`, and the whitespace-normalised text of every
   arm is compared with the exact expected text.  The helper functions the arms call
   (`make_constant`, `convert_constant`, `convert_f16_constant`, `elements_from_le_bytes`,
   `saturating_cast_i64_to_i32`) are pinned the same way.

Structural surprises (an arm pattern of another shape, a number of `DataType::` occurrences that
differs from the number of extracted arms, a missing function) are fatal: exit 1.  Text that is
not recognised is written as `.unrecognised` / `false` (so that `c20_const_rules_agree` fails and
the generated file shows where) and the translator ALSO exits 1.  Python stdlib only."""
import argparse, ast, os, re, sys

ap = argparse.ArgumentParser()
ap.add_argument("--repo", default="/repo")
ap.add_argument("--verif", default=os.path.dirname(os.path.dirname(os.path.abspath(__file__))))
a = ap.parse_args()
problems = []


def die(msg):
    print("converter_consts.py: " + msg, file=sys.stderr)
    sys.exit(1)


NP2ONNX = {"float32": "FLOAT", "float64": "DOUBLE", "float16": "FLOAT16", "bool": "BOOL", "int8": "INT8",
           "uint8": "UINT8", "int16": "INT16", "uint16": "UINT16", "int32": "INT32", "int64": "INT64",
           "uint32": "UINT32", "uint64": "UINT64"}

# ---------------------------------------------------------------- converter.py
src = open(os.path.join(a.repo, "rten-convert", "rten_convert", "converter.py")).read()
tree = ast.parse(src)
fn = next((n for n in ast.walk(tree) if isinstance(n, ast.FunctionDef) and n.name == "constant_node_from_onnx_initializer"), None)
if fn is None:
    die("constant_node_from_onnx_initializer not found")
matches = [n for n in fn.body if isinstance(n, ast.Match)]
if len(matches) != 1 or ast.unparse(matches[0].subject) != "dtype_name":
    die("expected exactly one top-level `match dtype_name:` in constant_node_from_onnx_initializer")
m = matches[0]
frame = "\n".join(ast.unparse(s) for s in fn.body if not isinstance(s, ast.Match))
FRAME = ("dims = list(tensor.dims)\ndata = numpy_helper.to_array(tensor)\ndtype_name = data.dtype.name\n"
         "return ConstantNode(name=tensor.name, shape=dims, data=data)")
frame_ok = frame == FRAME and fn.body.index(m) == 3
if not frame_ok:
    problems.append("converter: statements around the match changed: %r" % frame)

WARN16 = ("warn_once(f'Converting {dtype_name} weights to float32 because {dtype_name} is not supported natively yet."
          " This will increase model size.')\n")
WARN64 = "warn_once(f'Converting {dtype_name} weights to float32 because {dtype_name} is not supported natively yet.')\n"
INT64_PRE = ("i32 = np.iinfo(np.int32)\ni64 = np.iinfo(np.int64)\n"
             "out_of_range_mask = np.logical_or(data > i32.max, data < i32.min)\n"
             "for val in data[out_of_range_mask]:\n    neg_inf_threshold = -i64.max\n    pos_inf_threshold = i64.max\n"
             "    if val <= neg_inf_threshold or val >= pos_inf_threshold:\n        continue\n"
             "    warn_once(f'Clamping out-of-range tensor value {val} to [{i32.min}, {i32.max}]')\n")
# (numpy dtype, exact case body) -> rule
CONV_RULES = {
    ("float32", "pass"): "keepF32", ("int32", "pass"): "keepI32", ("int8", "pass"): "keepI8", ("uint8", "pass"): "keepU8",
    ("bool", "data = data.astype(np.int32)"): "boolToI32", ("int16", "data = data.astype(np.int32)"): "widenI16",
    ("float16", WARN16 + "data = data.astype(np.float32)"): "f16ToF32",
    ("float64", WARN64 + "data = data.astype(np.float32)"): "f64ToF32",
    ("int64", INT64_PRE + "data = data.clip(i32.min, i32.max).astype(np.int32)"): "satI64",
    ("int64", INT64_PRE + "data = data.astype(np.int32)"): "wrapI64",
    ("int64", "data = data.astype(np.int32)"): "wrapI64",
}
WILDCARD_BODY = "raise ConversionError(f'Unsupported tensor data type {data.dtype.name} for operator {op_name}')"


def names(pat):
    if isinstance(pat, ast.MatchValue) and isinstance(pat.value, ast.Constant) and isinstance(pat.value.value, str):
        return [pat.value.value]
    if isinstance(pat, ast.MatchOr):
        out = []
        for p in pat.patterns:
            n = names(p)
            if n is None:
                return None
            out += n
        return out
    return None


def last_data_assignment(body):
    act = "pass"
    for st in body:
        for n in ast.walk(st):
            if isinstance(n, ast.Assign) and any(isinstance(t, ast.Name) and t.id == "data" for t in n.targets):
                act = ast.unparse(n.value)
            if isinstance(n, (ast.AugAssign, ast.AnnAssign)) and isinstance(n.target, ast.Name) and n.target.id == "data":
                act = ast.unparse(n)
    return act


conv, wildcards = [], 0
for case in m.cases:
    body = "\n".join(ast.unparse(s) for s in case.body)
    is_wild = isinstance(case.pattern, ast.MatchAs) and case.pattern.pattern is None and case.pattern.name is None
    if is_wild:
        wildcards += 1
        if case.guard is not None or body != WILDCARD_BODY or case is not m.cases[-1]:
            problems.append("converter: wildcard case is not the final unconditional `raise ConversionError`: %r" % body)
            frame_ok = False
        continue
    ns = names(case.pattern)
    if ns is None:
        die("converter: case pattern %r is neither string literals nor `_`" % ast.unparse(case.pattern))
    for n in ns:
        rule = CONV_RULES.get((n, body), "unrecognised")
        if case.guard is not None:
            rule = "unrecognised"
            problems.append("converter: case %r has a guard `if %s`" % (n, ast.unparse(case.guard)))
        if rule == "unrecognised":
            problems.append("converter: body of case %r not recognised: %r" % (n, body))
        conv.append((NP2ONNX.get(n, n.upper()), rule, last_data_assignment(case.body)))
if wildcards != 1:
    problems.append("converter: expected exactly one wildcard case, found %d" % wildcards)
    frame_ok = False
if len({d for d, _, _ in conv}) != len(conv):
    die("converter: a dtype occurs in two cases")

# ---------------------------------------------------------------- onnx_loader.rs
rs = open(os.path.join(a.repo, "src", "model", "onnx_loader.rs")).read()
norm = lambda s: re.sub(r"\s+", " ", re.sub(r"//[^\n]*", "", s)).strip()


def braces(text, k):
    """text[k] == '{' -> index of the matching '}'."""
    depth, e = 0, k
    while True:
        c = text[e]
        if c == "{":
            depth += 1
        elif c == "}":
            depth -= 1
            if depth == 0:
                return e
        e += 1
        if e >= len(text):
            die("unbalanced braces")


def rust_fn(name):
    """Whitespace-normalised, comment-free text of `fn name ... { ... }`."""
    hits = [mm.start() for mm in re.finditer(r"\bfn %s\b" % re.escape(name), rs)]
    if len(hits) != 1:
        die("loader: expected exactly one `fn %s`, found %d" % (name, len(hits)))
    i = hits[0]
    d, p = 0, i
    while True:
        ch = rs[p]
        if ch in "(<[":
            d += 1
        elif ch in ")]" or (ch == ">" and rs[p - 1] != "-"):
            d -= 1
        elif ch == "{" and d == 0:
            break
        p += 1
        if p >= len(rs):
            die("loader: body of fn %s not found" % name)
    return norm(rs[i:braces(rs, p) + 1])


i = rs.find("fn load_constant(")
j = rs.find("match initializer.data_type", i)
if i < 0 or j < 0 or rs.count("match initializer.data_type") != 1:
    die("load_constant / a unique `match initializer.data_type` not found")
k = rs.index("{", j)
body = re.sub(r"//[^\n]*", "", rs[k + 1:braces(rs, k)])
# arms = top-level `=>`
starts, d = [], 0
for mm in re.finditer(r"[\(\)\[\]\{\}]|=>", body):
    t = mm.group(0)
    if t in "([{":
        d += 1
    elif t in ")]}":
        d -= 1
    elif d == 0:
        starts.append(mm.start())
pats = [(body.rfind("\n", 0, s) + 1, s) for s in starts]
arms = []
for n, (p0, p1) in enumerate(pats):
    end = pats[n + 1][0] if n + 1 < len(pats) else len(body)
    arms.append((norm(body[p0:p1]), norm(body[p1 + 2:end])))

MK = "make_constant( name, &shape, raw_data, external_data, &initializer.%s, %s, )?,"
ARMS = {
    "FLOAT": ("keepF32", MK % ("float_data", "|x| x")),
    "INT32": ("keepI32", MK % ("int32_data", "|x| x")),
    "UINT8": ("keepU8", MK % ("int32_data", "|x| x as u8")),
    "INT8": ("keepI8", MK % ("int32_data", "|x| x as i8")),
    "INT64": ("satI64", "{ let i64_bytes_to_i32 = |bytes: [u8; 8]| saturating_cast_i64_to_i32(i64::from_le_bytes(bytes)); "
                        "convert_constant( name, &shape, raw_data.as_deref(), external_data, &initializer.int64_data, "
                        "saturating_cast_i64_to_i32, i64_bytes_to_i32, )? }"),
    "BOOL": ("boolToI32", "{ let u8_to_i32 = |bytes: [u8; 1]| if bytes[0] != 0 { 1 } else { 0 }; "
                          "convert_constant( name, &shape, raw_data.as_deref(), external_data, &initializer.int32_data, "
                          "|x| if x != 0 { 1 } else { 0 }, u8_to_i32, )? }"),
    "DOUBLE": ("f64ToF32", "{ let f64_bytes_to_f32 = |bytes: [u8; 8]| f64::from_le_bytes(bytes) as f32; "
                           "convert_constant( name, &shape, raw_data.as_deref(), external_data, &initializer.double_data, "
                           "|x| x as f32, f64_bytes_to_f32, )? }"),
    "FLOAT16": ("f16ToF32", "convert_f16_constant( name, &shape, raw_data.as_deref(), external_data, &initializer.int32_data, )?,"),
}
FALLBACKS = {
    "Some(dtype)": '{ return Err(load_error!( GraphError, name, "initializer has unsupported data type {}", dtype )); }',
    "None": '{ return Err(load_error!( GraphError, name, "initializer is missing data type" )); }',
}
loader, fallbacks_seen = [], []
for pat, text in arms:
    mm = re.fullmatch(r"Some\(onnx::DataType::([A-Z0-9_]+)\)", pat)
    if mm:
        dt = mm.group(1)
        exp = ARMS.get(dt)
        if exp is not None and exp[1] == text:
            loader.append((dt, exp[0]))
        else:
            loader.append((dt, "unrecognised"))
            problems.append("loader: arm %s not recognised: %r" % (dt, text))
    elif pat in FALLBACKS:
        fallbacks_seen.append(pat)
        if FALLBACKS[pat] != text:
            die("loader: fallback arm `%s` is not the expected `return Err(..)`: %r" % (pat, text))
    else:
        die("loader: arm pattern %r is none of Some(onnx::DataType::X) / Some(dtype) / None" % pat)
n_dt = len(re.findall(r"DataType::", body))
if n_dt != len(loader):
    die("loader: %d occurrences of `DataType::` in the match body but %d arms extracted" % (n_dt, len(loader)))
if fallbacks_seen != ["Some(dtype)", "None"]:
    die("loader: expected the fallback arms Some(dtype), None last; found %r" % fallbacks_seen)
if len({d for d, _ in loader}) != len(loader):
    die("loader: a dtype occurs in two arms")
if [p for p, _ in arms][-2:] != ["Some(dtype)", "None"]:
    die("loader: fallback arms are not last")

HELPERS = {
    "saturating_cast_i64_to_i32": "fn saturating_cast_i64_to_i32(x: i64) -> i32 { x.clamp(i32::MIN as i64, i32::MAX as i64) as i32 }",
    "make_constant": "fn make_constant<T: FromByteArray, U: FromByteArray>( name: Option<&str>, shape: &[usize], raw_data: Option<Vec<u8>>, external_data: Option<DataSlice>, typed_data: &[U], convert: impl Fn(U) -> T, ) -> Result<Constant, LoadError> where Constant: From<ConstantNode<T>>, { let tensor: ConstantNodeData<T> = if let Some(data) = raw_data { tensor_from_bytes::<T>(shape, data, name)?.into() } else if let Some(external_data) = external_data { tensor_from_external_data::<T>(shape, &external_data, name)?.into() } else { let data = typed_data.iter().copied().map(convert).collect(); tensor_from_elements(shape, data, name)?.into() }; Ok(Constant::new(name, tensor)) }",
    "convert_constant": "fn convert_constant<U: Copy, T, const N: usize>( name: Option<&str>, shape: &[usize], raw_data: Option<&[u8]>, external_data: Option<DataSlice>, typed_data: &[U], convert: impl Fn(U) -> T, convert_bytes: impl Fn([u8; N]) -> T, ) -> Result<Constant, LoadError> where Constant: From<ConstantNode<T>>, { let data = if let Some(data) = raw_data { elements_from_le_bytes(data, convert_bytes) } else if let Some(external_data) = external_data { elements_from_le_bytes(external_data.data(), convert_bytes) } else { typed_data.iter().copied().map(convert).collect() }; let tensor = tensor_from_elements(shape, data, name)?; Ok(Constant::new(name, tensor)) }",
    "convert_f16_constant": "fn convert_f16_constant( name: Option<&str>, shape: &[usize], raw_data: Option<&[u8]>, external_data: Option<DataSlice>, int32_data: &[i32], ) -> Result<Constant, LoadError> { let ext_bytes = external_data.as_ref().map(|data| data.data()); let f16s: Cow<[f16]> = if let Some(bytes) = raw_data.or(ext_bytes) { let halfs = f16_slice_from_le_bytes(bytes).ok_or_else(|| { load_error!(GraphError, name, \"f16 tensor data is not 2-byte aligned\") })?; Cow::Borrowed(halfs) } else { int32_data .iter() .map(|&x| f16::from_bits(x as u16)) .collect() }; let n = f16s.len(); let mut data: Vec<f32> = Vec::with_capacity(n); data.extend_init(|spare_capacity| F16ToF32::new(&f16s, &mut spare_capacity[..n]).dispatch()); let tensor = tensor_from_elements(shape, data, name)?; Ok(Constant::new(name, tensor)) }",
    "elements_from_le_bytes": "fn elements_from_le_bytes<T, const ELEM_SIZE: usize>( data: &[u8], convert: impl Fn([u8; ELEM_SIZE]) -> T, ) -> Vec<T> { data.as_chunks::<ELEM_SIZE>() .0 .iter() .copied() .map(convert) .collect() }",
}
helpers = []
for name, exp in HELPERS.items():
    got = rust_fn(name)
    ok = got == exp
    helpers.append((name, ok))
    if not ok:
        problems.append("loader: fn %s changed: %r" % (name, got))
sat = re.search(r"fn saturating_cast_i64_to_i32\(x: i64\) -> i32 \{(.*?)\n\}", rs, re.S)
sat_body = norm(sat.group(1)) if sat else "<not found>"

esc = lambda s: s.replace("\\", "\\\\").replace('"', '\\"').replace("\n", "\\n")
out = '''import RtenVerif.Model.ConstNarrow
/-! GENERATED by translate/converter_consts.py from rten-convert/rten_convert/converter.py
(`constant_node_from_onnx_initializer`) and src/model/onnx_loader.rs (`load_constant` and the
helpers its arms call). Do not edit. -/
namespace RtenVerif.Generated
open RtenVerif.ConstNarrow
/-- ONNX dtype ↦ rule applied by rten-convert to an initializer of that dtype (exact case bodies). -/
def converterConstRules : List (String × Rule) :=
  [%s]
/-- The statements around the converter's `match` are the expected ones (`to_array`, then the
match, then `ConstantNode(...)`) and the only wildcard case is the final `raise`. -/
def converterFrameRecognised : Bool := %s
/-- The expression each converter case assigns to `data` last (documentation of the table above). -/
def converterConstActions : List (String × String) :=
  [%s]
/-- ONNX dtype ↦ rule applied by the ONNX loader (`load_constant`), every arm compared with its exact text. -/
def loaderConstRules : List (String × Rule) :=
  [%s]
/-- Helper functions called by the arms: name ↦ "text is exactly the one the rules were read from". -/
def loaderHelpersRecognised : List (String × Bool) :=
  [%s]
/-- Body of `saturating_cast_i64_to_i32`. -/
def loaderSatCastBody : String := "%s"
end RtenVerif.Generated
''' % (", ".join('("%s", .%s)' % (d, r) for d, r, _ in conv),
       "true" if frame_ok else "false",
       ", ".join('("%s", "%s")' % (d, esc(act)) for d, _, act in conv),
       ", ".join('("%s", .%s)' % (d, r) for d, r in loader),
       ", ".join('("%s", %s)' % (n, "true" if ok else "false") for n, ok in helpers),
       esc(sat_body))
dst = os.path.join(a.verif, "lean", "RtenVerif", "Generated", "ConverterConsts.lean")
if not os.path.exists(dst) or open(dst).read() != out:
    open(dst, "w").write(out)
print("converter_consts: converter %s; loader %s; helpers %s; sat body %r" % (
    " ".join("%s=%s" % (d, r) for d, r, _ in conv), " ".join("%s=%s" % x for x in loader),
    " ".join("%s=%s" % x for x in helpers), sat_body))
if problems:
    for p in problems:
        print("converter_consts.py: NOT RECOGNISED: " + p, file=sys.stderr)
    sys.exit(1)
