#!/usr/bin/env python3
"""Translator for C20: extract the dtype -> conversion-rule tables of BOTH load paths into
lean/RtenVerif/Generated/ConverterConsts.lean:

 * converter: the `match dtype_name:` of `constant_node_from_onnx_initializer`
   (rten-convert/rten_convert/converter.py, Python `ast`): each case's numpy dtype names and what
   its body does to `data` (`pass`, `data.astype(np.X)`, `data.clip(i32.min, i32.max).astype(np.X)`);
 * ONNX loader: the `match initializer.data_type` of `load_constant` (src/model/onnx_loader.rs):
   each `Some(onnx::DataType::X) =>` arm, classified by the conversion expressions it contains,
   plus the body of `saturating_cast_i64_to_i32`.

Anything not recognised becomes `.unrecognised`, which makes `c20_const_rules_agree` fail.
Python stdlib only."""
import argparse, ast, os, re, sys

ap = argparse.ArgumentParser()
ap.add_argument("--repo", default="/repo")
ap.add_argument("--verif", default=os.path.dirname(os.path.dirname(os.path.abspath(__file__))))
a = ap.parse_args()

NP2ONNX = {"float32": "FLOAT", "float64": "DOUBLE", "float16": "FLOAT16", "bool": "BOOL", "int8": "INT8",
           "uint8": "UINT8", "int16": "INT16", "uint16": "UINT16", "int32": "INT32", "int64": "INT64",
           "uint32": "UINT32", "uint64": "UINT64"}

# ---------------------------------------------------------------- converter.py
src = open(os.path.join(a.repo, "rten-convert", "rten_convert", "converter.py")).read()
tree = ast.parse(src)
fn = next((n for n in ast.walk(tree) if isinstance(n, ast.FunctionDef) and n.name == "constant_node_from_onnx_initializer"), None)
if fn is None:
    sys.exit("constant_node_from_onnx_initializer not found")
m = next((n for n in ast.walk(fn) if isinstance(n, ast.Match) and ast.unparse(n.subject) == "dtype_name"), None)
if m is None:
    sys.exit("match dtype_name not found")


def names(pat):
    if isinstance(pat, ast.MatchValue) and isinstance(pat.value, ast.Constant) and isinstance(pat.value.value, str):
        return [pat.value.value]
    if isinstance(pat, ast.MatchOr):
        out = []
        for p in pat.patterns:
            n = names(p)
            if n is None:
                return None
            out += n
        return out
    return None


def action(body):
    """What the case body does to `data`: the source of the last assignment to `data`, `pass`,
    or `raise`."""
    act = "pass"
    for st in body:
        for n in ast.walk(st):
            if isinstance(n, ast.Assign) and len(n.targets) == 1 and isinstance(n.targets[0], ast.Name) and n.targets[0].id == "data":
                act = ast.unparse(n.value)
            if isinstance(n, ast.Raise):
                return "raise"
    return act


def conv_rule(np_name, act):
    table = {
        ("float32", "pass"): "keepF32", ("int32", "pass"): "keepI32", ("int8", "pass"): "keepI8", ("uint8", "pass"): "keepU8",
        ("bool", "data.astype(np.int32)"): "boolToI32", ("int16", "data.astype(np.int32)"): "widenI16",
        ("float16", "data.astype(np.float32)"): "f16ToF32", ("float64", "data.astype(np.float32)"): "f64ToF32",
        ("int64", "data.clip(i32.min, i32.max).astype(np.int32)"): "satI64",
        ("int64", "data.astype(np.int32)"): "wrapI64",
    }
    if act == "raise":
        return "unsupported"
    return table.get((np_name, act), "unrecognised")


conv = []
for case in m.cases:
    ns = names(case.pattern)
    if ns is None:
        continue  # wildcard
    act = action(case.body)
    for n in ns:
        conv.append((NP2ONNX.get(n, n.upper()), conv_rule(n, act), act))

# ---------------------------------------------------------------- onnx_loader.rs
rs = open(os.path.join(a.repo, "src", "model", "onnx_loader.rs")).read()
i = rs.find("fn load_constant(")
j = rs.find("match initializer.data_type", i)
if i < 0 or j < 0:
    sys.exit("load_constant / match initializer.data_type not found")
# the match body
k = rs.index("{", j)
depth, e = 0, k
while True:
    c = rs[e]
    if c == "{":
        depth += 1
    elif c == "}":
        depth -= 1
        if depth == 0:
            break
    e += 1
body = rs[k + 1:e]
arms = re.split(r"\n\s*(?=Some\(onnx::DataType::[A-Z0-9_]+\) =>)", body)
norm = lambda s: re.sub(r"\s+", " ", re.sub(r"//[^\n]*", "", s)).strip()


def loader_rule(dt, text):
    t = norm(text)
    if dt in ("FLOAT", "INT32") and "make_constant(" in t and t.count("|x| x,") + t.count("|x| x )") + t.count("|x| x)") >= 1 and " as " not in t:
        return {"FLOAT": "keepF32", "INT32": "keepI32"}[dt]
    if dt == "UINT8" and "make_constant(" in t and "|x| x as u8" in t:
        return "keepU8"
    if dt == "INT8" and "make_constant(" in t and "|x| x as i8" in t:
        return "keepI8"
    if dt == "INT64" and "convert_constant(" in t:
        typed_sat = re.search(r"&initializer\.int64_data, saturating_cast_i64_to_i32,", t) is not None
        bytes_sat = "|bytes: [u8; 8]| saturating_cast_i64_to_i32(i64::from_le_bytes(bytes))" in t
        if typed_sat and bytes_sat:
            return "satI64"
        if "as i32" in t:
            return "wrapI64"
        return "unrecognised"
    if dt == "BOOL" and "convert_constant(" in t:
        if "|bytes: [u8; 1]| if bytes[0] != 0 { 1 } else { 0 }" in t and "|x| if x != 0 { 1 } else { 0 }" in t:
            return "boolToI32"
        return "unrecognised"
    if dt == "DOUBLE" and "convert_constant(" in t:
        if "|bytes: [u8; 8]| f64::from_le_bytes(bytes) as f32" in t and "|x| x as f32" in t:
            return "f64ToF32"
        return "unrecognised"
    if dt == "FLOAT16" and "convert_f16_constant(" in t:
        return "f16ToF32"
    return "unrecognised"


loader = []
for arm in arms:
    mm = re.match(r"Some\(onnx::DataType::([A-Z0-9_]+)\) =>", arm.strip())
    if mm:
        loader.append((mm.group(1), loader_rule(mm.group(1), arm)))
sat = re.search(r"fn saturating_cast_i64_to_i32\(x: i64\) -> i32 \{(.*?)\n\}", rs, re.S)
sat_body = norm(sat.group(1)) if sat else "<not found>"

esc = lambda s: s.replace("\\", "\\\\").replace('"', '\\"')
out = '''import RtenVerif.Model.ConstNarrow
/-! GENERATED by translate/converter_consts.py from rten-convert/rten_convert/converter.py
(`constant_node_from_onnx_initializer`) and src/model/onnx_loader.rs (`load_constant`,
`saturating_cast_i64_to_i32`). Do not edit. -/
namespace RtenVerif.Generated
open RtenVerif.ConstNarrow
/-- ONNX dtype ↦ rule applied by rten-convert to an initializer of that dtype. -/
def converterConstRules : List (String × Rule) :=
  [%s]
/-- The expression each converter case assigns to `data` (documentation of the table above). -/
def converterConstActions : List (String × String) :=
  [%s]
/-- ONNX dtype ↦ rule applied by the ONNX loader (`load_constant`). -/
def loaderConstRules : List (String × Rule) :=
  [%s]
/-- Body of `saturating_cast_i64_to_i32`. -/
def loaderSatCastBody : String := "%s"
end RtenVerif.Generated
''' % (", ".join('("%s", .%s)' % (d, r) for d, r, _ in conv),
       ", ".join('("%s", "%s")' % (d, esc(act)) for d, _, act in conv),
       ", ".join('("%s", .%s)' % (d, r) for d, r in loader),
       esc(sat_body))
dst = os.path.join(a.verif, "lean", "RtenVerif", "Generated", "ConverterConsts.lean")
if not os.path.exists(dst) or open(dst).read() != out:
    open(dst, "w").write(out)
print("converter_consts: converter %s; loader %s; sat body %r" % (
    " ".join("%s=%s" % (d, r) for d, r, _ in conv), " ".join("%s=%s" % x for x in loader), sat_body))
