-- Root of the `RtenVerif` library: imports every model, lemma and property module.
import RtenVerif.Model.Overlap
import RtenVerif.Lemmas.Overlap
import RtenVerif.Props.C08
