/-!
# Graph IR — a model of `rten::graph::Graph` (src/graph.rs, src/graph/node.rs)

Import-free, executable, reusable (C02 C03 C04 C22 C24 C26 import this file).

## What is modelled

* A graph is a table `NodeId ↦ Node`.  `Graph::add_node` hands out ids `0,1,2,…`
  in insertion order, so the table is a `List Node` and **the id of a node is its
  index**.  `get_node id = nodes[id]?`; any id `≥ nodes.length` is "not in the
  graph" (that also stands for ids removed by `Graph::remove_nodes`, which this
  IR does not model).
* Three node kinds (`Node::Value | Node::Constant | Node::Operator`).  Value and
  constant payloads (names, shapes, dtypes, tensor data) are *not* part of the IR:
  clients that need them (C02, C26) keep a side table indexed by id.
* An operator node carries its `inputs`/`outputs` (`[Option<NodeId>]`: `none` is
  an omitted optional input / unused output; ids may repeat; ids are *not*
  required to be value nodes or even to exist — `Graph::add_op` checks nothing),
  the ids its subgraphs capture (`captureIds`, see below) and the static flags
  of the `Operator` trait the graph code consults:
  `inPlace` ⇔ `!op.in_place_inputs().is_empty()`, `commutative` =
  `op.is_commutative()`, `deterministic` = `op.is_deterministic()`.
* `Graph::captures` (values looked up in the parent scope), default
  `input_ids`/`output_ids`.
* `source_ids` (value id ↦ producing operator) is *derived*: `add_op` inserts
  `output ↦ op_id` for every `some` output, later insertions overwrite earlier
  ones, hence `sourceOf g v` = the **last** operator node listing `v` among its
  outputs.  `get_source_node` additionally checks that the id found is an
  operator node, which holds by construction here (`sourceOf_spec`).
* `operator_dependencies` (src/graph.rs:1391): the `some` inputs in order,
  followed by each captured id that is not also an input.  In the code captures
  are *names* resolved through `get_node_id`; a name that resolves to nothing is
  skipped.  The IR stores the id each capture name resolves to, and an id
  `≥ nodes.length` stands for "name not found" (skipped, like in the code).
  Duplicates are kept, exactly as the iterator yields them.

Node ids are plain `Nat` (not an `abbrev`, so `omega` sees through them).
-/
namespace RtenVerif.Graph

/-- Operator node: edges and the static operator flags used by graph code. -/
structure OpNode where
  /-- `OperatorNode::input_ids()`. -/
  inputs : List (Option Nat)
  /-- `OperatorNode::output_ids()` (trailing `none`s are trimmed by the real
  constructor; the model does not care). -/
  outputs : List (Option Nat)
  /-- ids that `OperatorNode::capture_names()` resolve to via `get_node_id`,
  in order; an id outside the graph means "name not found". -/
  captureIds : List Nat := []
  /-- `!operator.in_place_inputs().is_empty()`. -/
  inPlace : Bool := false
  /-- `operator.is_commutative()`. -/
  commutative : Bool := false
  /-- `operator.is_deterministic()`. -/
  deterministic : Bool := true
deriving Repr, DecidableEq, Inhabited

/-- `graph::Node`, payload-free. -/
inductive Node where
  | value
  | constant
  | operator (op : OpNode)
deriving Repr, DecidableEq, Inhabited

/-- `graph::Graph`: node table (id = index), captures, default inputs/outputs. -/
structure Graph where
  nodes : List Node
  /-- `Graph::captures()`. -/
  captures : List Nat := []
  /-- `Graph::input_ids()`. -/
  inputIds : List Nat := []
  /-- `Graph::output_ids()`. -/
  outputIds : List Nat := []
deriving Repr, DecidableEq, Inhabited

/-- `Graph::get_node`. -/
def getNode (g : Graph) (id : Nat) : Option Node := g.nodes[id]?

/-- `matches!(get_node(id), Some(Node::Constant(_)))`. -/
def isConstant (g : Graph) (id : Nat) : Bool :=
  match getNode g id with
  | some .constant => true
  | _ => false

/-- `matches!(get_node(id), Some(Node::Value(_) | Node::Constant(_)))`
(the kind check `create_plan` applies to requested inputs and outputs). -/
def isValueOrConstant (g : Graph) (id : Nat) : Bool :=
  match getNode g id with
  | some .value => true
  | some .constant => true
  | _ => false

/-- The operator stored at `id`, if `id` is an operator node. -/
def getOp (g : Graph) (id : Nat) : Option OpNode :=
  match getNode g id with
  | some (.operator op) => some op
  | _ => none

/-- `output_ids().iter().filter_map(|id| *id)`. -/
def opOutputs (op : OpNode) : List Nat := op.outputs.filterMap id

/-- `input_ids().iter().filter_map(|id| *id)`. -/
def opInputs (op : OpNode) : List Nat := op.inputs.filterMap id

/-- `Graph::operator_dependencies`: inputs, then captured ids that resolve to a
node of this graph and are not already inputs. -/
def opDeps (g : Graph) (op : OpNode) : List Nat :=
  opInputs op ++
    op.captureIds.filter (fun c => decide (c < g.nodes.length) && !op.inputs.contains (some c))

/-- Scan of the node table from index `i`: last operator producing `v`. -/
def sourceFrom (v : Nat) : List Node → Nat → Option Nat → Option Nat
  | [], _, acc => acc
  | .operator op :: rest, i, acc =>
      sourceFrom v rest (i + 1) (if op.outputs.contains (some v) then some i else acc)
  | _ :: rest, i, acc => sourceFrom v rest (i + 1) acc

/-- `source_ids.get(v)`: id of the last-added operator listing `v` as an output. -/
def sourceOf (g : Graph) (v : Nat) : Option Nat := sourceFrom v g.nodes 0 none

/-- `Graph::get_source_node`: the producing operator's id and node. -/
def getSource (g : Graph) (v : Nat) : Option (Nat × OpNode) :=
  match sourceOf g v with
  | some p =>
      match getOp g p with
      | some op => some (p, op)
      | none => none
  | none => none

/-- Ids of all operator nodes, ascending. -/
def opIds (g : Graph) : List Nat :=
  (List.range g.nodes.length).filter (fun i => (getOp g i).isSome)

/-- `Graph::get_consumers`-like view: operators having `v` among their inputs
(ascending id order; the real map keeps insertion order, which is the same for
graphs built by `add_op` only). -/
def consumersOf (g : Graph) (v : Nat) : List Nat :=
  (List.range g.nodes.length).filter (fun i =>
    match getOp g i with
    | some op => op.inputs.contains (some v)
    | none => false)

/-- Every value has at most one producer: any operator listing `v` as an output
is the registered source of `v`.  Graphs loaded from model files satisfy this;
`add_op` does not enforce it (a later op "replaces" the source). -/
def UniqueProducer (g : Graph) : Prop :=
  ∀ p op v, getOp g p = some op → v ∈ opOutputs op → sourceOf g v = some p

end RtenVerif.Graph
