/-!
# Model of `rten::ctc` (`/repo/src/ctc.rs`) — import-free

`CtcDecoder::decode_greedy`, `decode_beam_impl`, `decode_beam`, `decode_beam_nbest`,
`CtcHypothesis::from_beam_state`, as of the `fix:` commit that skips zero-probability
extensions in the top-k selection.

The code works in log space over `f32`.  The model is parametric in a carrier `α` with a
record of *uninterpreted* operations `Ops α` (no laws), in "probability space":

| code (log space)                        | model            |
|-----------------------------------------|------------------|
| `f32::NEG_INFINITY`                     | `ops.zero`       |
| `0.`                                    | `ops.one`        |
| `a + b`                                 | `ops.mul a b`    |
| `log_sum_exp([a, b])`                   | `ops.add a b`    |
| `log_sum_exp([a, b, c])`                | `ops.add (ops.add a b) c` |
| `a > b` (push test)                     | `ops.gt a b`     |
| `cmp_nan_greater(a, b) == Greater`      | `ops.argGt a b`  |
| `(-a).total_cmp(&-b) != Greater` (sort) | `ops.sortGe a b` |
| `x == f32::NEG_INFINITY`                | `ops.isZero x`   |

Theorems that do not need arithmetic laws (T1 shape, T2 distinctness) are proved for every
`Ops α`, hence also for the `f32` instance; T3 (score bound) is proved for `natOps`
(exact arithmetic on `Nat` weights = probabilities scaled by a common denominator).

Matrices are `rows : List (List α)` (one row per time step) plus the label count `L`
(`prob_seq.shape() = [rows.length, L]`); entries are read with `getD _ ops.zero`.
`none` = the real code panics.
-/
namespace RtenVerif.Ctc

/-- Uninterpreted operations on the probability carrier (see the table above). -/
structure Ops (α : Type) where
  zero : α
  one : α
  add : α → α → α
  mul : α → α → α
  gt : α → α → Bool
  argGt : α → α → Bool
  sortGe : α → α → Bool
  isZero : α → Bool

/-- Exact instance: `Nat` weights (probabilities times a fixed denominator per row). -/
def natOps : Ops Nat where
  zero := 0
  one := 1
  add := (· + ·)
  mul := (· * ·)
  gt a b := decide (b < a)
  argGt a b := decide (b < a)
  sortGe a b := decide (b ≤ a)
  isZero a := a == 0

/-- `DecodeStep`. -/
structure Step where
  label : Nat
  pos : Nat
deriving DecidableEq, Repr

/-- `CtcHypothesis`. -/
structure Hyp (α : Type) where
  steps : List Step
  score : α

def labels (p : List Step) : List Nat := p.map (·.label)

/-! ## Greedy decoding -/

/-- `max_position_by` in `src/ops/reduce.rs` (`select_max_index`): the current best is
replaced only when `compare(item, best) == Greater`, so among equal maxima the **first**
index wins (ONNX `select_last_index = 0`). -/
def argmaxGo {α} (ops : Ops α) : Nat → α → Nat → List α → Nat
  | bi, _, _, [] => bi
  | bi, bv, i, y :: ys =>
    if ops.argGt y bv then argmaxGo ops i y (i + 1) ys else argmaxGo ops bi bv (i + 1) ys

/-- `arg_max` over one lane; `none` for an empty lane (`OpError` → `expect` panics). -/
def argmaxRow {α} (ops : Ops α) : List α → Option Nat
  | [] => none
  | x :: xs => some (argmaxGo ops 0 x 1 xs)

/-- The `for (pos, label)` loop of `decode_greedy` (the `steps` part). -/
def greedyLoop : Nat → Nat → List Nat → List Step
  | _, _, [] => []
  | pos, last, l :: ls =>
    if l = last then greedyLoop (pos + 1) last ls
    else if 0 < l then ⟨l, pos⟩ :: greedyLoop (pos + 1) l ls
    else greedyLoop (pos + 1) l ls

/-- `score += prob_seq[[pos, label]]`, left to right, starting from `0.`. -/
def greedyScore {α} (ops : Ops α) (rows : List (List α)) (path : List Nat) : α :=
  (rows.zip path).foldl (fun s rl => ops.mul s (rl.1.getD rl.2 ops.zero)) ops.one

/-- `decode_greedy`.  `L = 0` makes `arg_max` fail (`expect` panics) for every `T`. -/
def decodeGreedy {α} (ops : Ops α) (L : Nat) (rows : List (List α)) : Option (Hyp α) :=
  if L = 0 then none else
  match rows.mapM (argmaxRow ops) with
  | none => none
  | some path => some ⟨greedyLoop 0 0 path, greedyScore ops rows path⟩

/-! ## Beam search -/

/-- `BeamState`. -/
structure BState (α : Type) where
  pre : List Step
  pb : α
  pnb : α

/-- `next_prob_blank` / `next_prob_no_blank`: `[beam_size, n_labels]` tensors.  All indices
used by the code are in bounds when `beam_size ≥ 1` (`beam.len() ≤ beam_size`), so a total
function table is a faithful representation. -/
abbrev Table (α : Type) := Nat → Nat → α

def Table.upd {α} (t : Table α) (i j : Nat) (v : α) : Table α :=
  fun i' j' => if i' = i ∧ j' = j then v else t i' j'

structure Tabs (α : Type) where
  nb : Table α
  nnb : Table α

/-- `labels p2 = labels p1 ++ [l]`: the condition under which the code inserts
`(s1_index, l) ↦ s2_index` into `merges`. -/
def extends1 (p1 p2 : List Step) (l : Nat) : Bool := labels p2 == labels p1 ++ [l]

def lastIdxGo {β} (p : β → Bool) : List β → Nat → Option Nat → Option Nat
  | [], _, acc => acc
  | x :: xs, i, acc => lastIdxGo p xs (i + 1) (if p x then some i else acc)

/-- `merges.get(&(s1_index, l))`: `HashMap::insert` overwrites, the inner loop runs over
`s2_index` ascending, so the last matching index wins. -/
def mergeTarget {α} (beam : List (BState α)) (p1 : List Step) (l : Nat) : Option Nat :=
  lastIdxGo (fun s2 => extends1 p1 s2.pre l) beam 0 none

/-- Body of `for label in 1..n_labels` for beam state `s` at index `bi`. -/
def extLabel {α} (ops : Ops α) (beam : List (BState α)) (row : List α) (bi : Nat)
    (s : BState α) (t : Tabs α) (label : Nat) : Tabs α :=
  let prob := row.getD label ops.zero
  let prev := (s.pre.getLast?).map (·.label)
  let tgt : Nat × Nat :=
    match mergeTarget beam s.pre label with
    | some ti => (ti, 0)
    | none => (bi, label)
  if some label != prev then
    let v := ops.add (ops.add (t.nnb tgt.1 tgt.2) (ops.mul s.pb prob)) (ops.mul s.pnb prob)
    { t with nnb := Table.upd t.nnb tgt.1 tgt.2 v }
  else
    let nnb1 := Table.upd t.nnb tgt.1 tgt.2 (ops.add (t.nnb tgt.1 tgt.2) (ops.mul s.pb prob))
    { t with nnb := Table.upd nnb1 bi 0 (ops.add (nnb1 bi 0) (ops.mul s.pnb prob)) }

/-- Body of `for (beam_index, state) in beam.iter().enumerate()`. -/
def extState {α} (ops : Ops α) (L : Nat) (beam : List (BState α)) (row : List α)
    (t : Tabs α) (sb : BState α × Nat) : Tabs α :=
  let s := sb.1
  let bi := sb.2
  let p0 := row.getD 0 ops.zero
  let v := ops.add (ops.add (t.nb bi 0) (ops.mul s.pb p0)) (ops.mul s.pnb p0)
  let t1 : Tabs α := { t with nb := Table.upd t.nb bi 0 v }
  (List.range' 1 (L - 1)).foldl (extLabel ops beam row bi s) t1

/-- "Compute probabilities of all possible extensions to beam states." -/
def extendAll {α} (ops : Ops α) (L : Nat) (beam : List (BState α)) (row : List α) : Tabs α :=
  beam.zipIdx.foldl (extState ops L beam row) ⟨fun _ _ => ops.zero, fun _ _ => ops.zero⟩

/-- `BeamExtension` (`label = 0` ⇔ `None`). -/
structure Ext (α : Type) where
  index : Nat
  label : Nat
  prob : α

/-- All `(bi, label)` pairs in the order of the selection loops, with `prob_sum`. -/
def candidates {α} (ops : Ops α) (L : Nat) (n : Nat) (t : Tabs α) : List (Ext α) :=
  (List.range n).flatMap fun bi =>
    (List.range L).map fun label => ⟨bi, label, ops.add (t.nb bi label) (t.nnb bi label)⟩

def insertDesc {α} (ops : Ops α) (x : Ext α) : List (Ext α) → List (Ext α)
  | [] => [x]
  | y :: ys => if ops.sortGe y.prob x.prob then y :: insertDesc ops x ys else x :: y :: ys

/-- Stable sort by descending `prob` (`sort_by` is stable; `total_cmp` is a total order,
for which the stable result is unique and equals this insertion sort). -/
def sortDesc {α} (ops : Ops α) (l : List (Ext α)) : List (Ext α) :=
  l.foldl (fun acc x => insertDesc ops x acc) []

/-- One iteration of the selection loop (with the zero-probability skip of the fix). -/
def pushExt {α} (ops : Ops α) (B : Nat) (topk : List (Ext α)) (c : Ext α) : List (Ext α) :=
  if ops.isZero c.prob then topk
  else if topk.length < B || ops.gt c.prob ((topk.getLast?.map (·.prob)).getD ops.zero) then
    (sortDesc ops (topk ++ [c])).take B
  else topk

def selectTopk {α} (ops : Ops α) (B : Nat) (cands : List (Ext α)) : List (Ext α) :=
  let topk := cands.foldl (pushExt ops B) []
  if topk.isEmpty then [⟨0, 0, ops.zero⟩] else topk

def emptyState {α} (ops : Ops α) : BState α := ⟨[], ops.zero, ops.zero⟩

/-- `beam = topk_extensions.iter().map(..).collect()`. -/
def mkState {α} (ops : Ops α) (beam : List (BState α)) (pos : Nat) (t : Tabs α)
    (e : Ext α) : BState α :=
  let old := (beam.getD e.index (emptyState ops)).pre
  { pre := if e.label = 0 then old else old ++ [⟨e.label, pos⟩]
    pb := t.nb e.index e.label
    pnb := t.nnb e.index e.label }

/-- One iteration of `for pos in 0..seq`. -/
def beamStep {α} (ops : Ops α) (B L : Nat) (beam : List (BState α)) (pos : Nat)
    (row : List α) : List (BState α) :=
  let t := extendAll ops L beam row
  (selectTopk ops B (candidates ops L beam.length t)).map (mkState ops beam pos t)

def initBeam {α} (ops : Ops α) : List (BState α) := [⟨[], ops.one, ops.zero⟩]

def beamLoop {α} (ops : Ops α) (B L : Nat) : List (BState α) → Nat → List (List α) →
    List (BState α)
  | beam, _, [] => beam
  | beam, pos, row :: rows => beamLoop ops B L (beamStep ops B L beam pos row) (pos + 1) rows

/-- `decode_beam_impl`.  With at least one time step, `beam_size = 0` panics on
`next_prob_blank[[0, 0]]` and `n_labels = 0` on `prob_seq[[pos, 0]]`. -/
def decodeBeamImpl {α} (ops : Ops α) (B L : Nat) (rows : List (List α)) :
    Option (List (BState α)) :=
  if rows.isEmpty then some (initBeam ops)
  else if B = 0 ∨ L = 0 then none
  else some (beamLoop ops B L (initBeam ops) 0 rows)

/-- `CtcHypothesis::from_beam_state`. -/
def hypOf {α} (ops : Ops α) (s : BState α) : Hyp α := ⟨s.pre, ops.add s.pb s.pnb⟩

/-- `decode_beam_nbest`. -/
def decodeBeamNbest {α} (ops : Ops α) (B N L : Nat) (rows : List (List α)) :
    Option (List (Hyp α)) :=
  (decodeBeamImpl ops B L rows).map fun beam => (beam.take N).map (hypOf ops)

/-- `decode_beam` (`remove(0)` panics on an empty vector). -/
def decodeBeam {α} (ops : Ops α) (B L : Nat) (rows : List (List α)) : Option (Hyp α) :=
  match decodeBeamImpl ops B L rows with
  | some (s :: _) => some (hypOf ops s)
  | _ => none

/-! ## The code before the fix (kept for the negation witness) -/

def pushExtOld {α} (ops : Ops α) (B : Nat) (topk : List (Ext α)) (c : Ext α) : List (Ext α) :=
  if topk.length < B || ops.gt c.prob ((topk.getLast?.map (·.prob)).getD ops.zero) then
    (sortDesc ops (topk ++ [c])).take B
  else topk

def beamStepOld {α} (ops : Ops α) (B L : Nat) (beam : List (BState α)) (pos : Nat)
    (row : List α) : List (BState α) :=
  let t := extendAll ops L beam row
  ((candidates ops L beam.length t).foldl (pushExtOld ops B) []).map (mkState ops beam pos t)

def beamLoopOld {α} (ops : Ops α) (B L : Nat) : List (BState α) → Nat → List (List α) →
    List (BState α)
  | beam, _, [] => beam
  | beam, pos, row :: rows =>
    beamLoopOld ops B L (beamStepOld ops B L beam pos row) (pos + 1) rows

/-! ## Specification-level notions (used by the theorems and by nothing in the decoders) -/

/-- Merge adjacent repeats. -/
def dedupAdj : List Nat → List Nat
  | [] => []
  | [x] => [x]
  | x :: y :: r => if x = y then dedupAdj (y :: r) else x :: dedupAdj (y :: r)

/-- The CTC collapse map `B`: merge repeats, then delete blanks. -/
def collapse (a : List Nat) : List Nat := (dedupAdj a).filter (· ≠ 0)

/-- Run starts of a path with their positions: `(label, pos)` for every `pos` whose label
differs from the label at `pos - 1` (position 0 always starts a run). -/
def runStarts : Nat → Option Nat → List Nat → List Step
  | _, _, [] => []
  | pos, prev, l :: ls =>
    if prev = some l then runStarts (pos + 1) (some l) ls
    else ⟨l, pos⟩ :: runStarts (pos + 1) (some l) ls

/-- Collapse with first-occurrence positions: run starts of non-blank labels. -/
def collapsePos (path : List Nat) : List Step :=
  (runStarts 0 none path).filter (·.label ≠ 0)

/-- All alignments (label sequences over `0..L-1`) of length `t` (enumerated by last label). -/
def allAligns (L : Nat) : Nat → List (List Nat)
  | 0 => [[]]
  | t + 1 => (allAligns L t).flatMap fun a => (List.range L).map fun l => a ++ [l]

/-- Product of the entries along an alignment (`= greedyScore natOps`). -/
def weight (rows : List (List Nat)) (a : List Nat) : Nat :=
  (rows.zip a).foldl (fun w rl => w * rl.1.getD rl.2 0) 1

/-- Exact total probability (scaled) of a label sequence: sum over *all* alignments that
collapse to it. -/
def exactTotal (L : Nat) (rows : List (List Nat)) (s : List Nat) : Nat :=
  (((allAligns L rows.length).filter (fun a => collapse a == s)).map (weight rows)).sum

/-- The textbook CTC prefix recursion, as a specification: for the rows given in
**reverse** order (last time step first) and a label sequence `s`, the pair
(total weight of alignments collapsing to `s` that end in a blank or are empty,
 total weight of those that end in a non-blank). -/
def dpRev : List (List Nat) → List Nat → Nat × Nat
  | [], s => (if s = [] then 1 else 0, 0)
  | row :: before, s =>
    let cur := dpRev before s
    let nb' :=
      match s.getLast? with
      | none => 0
      | some m =>
        let par := dpRev before s.dropLast
        row.getD m 0 * (cur.2 + par.1 + (if s.dropLast.getLast? = some m then 0 else par.2))
    (row.getD 0 0 * (cur.1 + cur.2), nb')

/-- "Nothing is pruned at this step": the number of extensions with non-zero probability
does not exceed the beam width. -/
def noPruneStep {α} (ops : Ops α) (B L : Nat) (beam : List (BState α)) (row : List α) : Bool :=
  decide (((candidates ops L beam.length (extendAll ops L beam row)).filter
    (fun e => !ops.isZero e.prob)).length ≤ B)

/-- "The beam is wide enough that nothing is pruned" at any step of the run. -/
def noPrune {α} (ops : Ops α) (B L : Nat) : List (BState α) → Nat → List (List α) → Bool
  | _, _, [] => true
  | beam, pos, row :: rows =>
    noPruneStep ops B L beam row && noPrune ops B L (beamStep ops B L beam pos row) (pos + 1) rows

end RtenVerif.Ctc
