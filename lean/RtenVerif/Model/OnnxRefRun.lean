import RtenVerif.Model.OnnxRef
/-!
# C15 — operator dispatch of the ONNX reference (attribute defaults, optional inputs)

`runOp name attrs inputs` evaluates one ONNX node in its opset-21 signature:
values that older opsets pass as attributes (Slice starts, Reduce axes, Split
split, Pad pads, …) are always *inputs* here; the harness encodes them either
way in the real ONNX model. Attribute defaults are those of the specification.
-/
namespace RtenVerif.OnnxRef

structure Attrs where
  ints : List (String × List Int) := []
  strs : List (String × String) := []

def Attrs.ints? (a : Attrs) (n : String) : Option (List Int) := (a.ints.find? (·.1 == n)).map (·.2)
def Attrs.int? (a : Attrs) (n : String) : Option Int := (a.ints? n).bind List.head?
def Attrs.int (a : Attrs) (n : String) (d : Int) : Int := (a.int? n).getD d
def Attrs.flag (a : Attrs) (n : String) (d : Bool) : Bool :=
  match a.int? n with
  | some v => v != 0
  | none => d
def Attrs.str (a : Attrs) (n : String) (d : String) : String :=
  ((a.strs.find? (·.1 == n)).map (·.2)).getD d

abbrev Inputs := List (Option Tensor)

def inp (xs : Inputs) (k : Nat) : R Tensor :=
  match xs.getD k none with
  | some t => pure t
  | none => fail

def optInp (xs : Inputs) (k : Nat) : Option Tensor := xs.getD k none

/-- The value of a single-element tensor. -/
def scalarVal (t : Tensor) : R Int :=
  match t.data with
  | [v] => pure v
  | _ => fail

/-- A rank-1 (or, leniently, rank-0) integer list input. -/
def listVal (t : Tensor) : R (List Int) :=
  if t.rank ≤ 1 then pure t.data else fail

def allPresent (xs : Inputs) : R (List Tensor) :=
  xs.mapM (fun o => match o with | some t => pure t | none => (fail : R Tensor))

def bin (f : Int → Int → Int) (xs : Inputs) : R (List Tensor) := do
  let a ← inp xs 0; let b ← inp xs 1
  let r ← binop f a b
  pure [r]

/-- Binary operator undefined when `bad y` holds for some element of the second operand (division by
zero, negative integer exponent) — also when broadcasting against an empty operand means the element
is never used (implementations may validate the whole operand). -/
def binGuard (bad : Int → Bool) (f : Int → Int → Int) (xs : Inputs) : R (List Tensor) := do
  let a ← inp xs 0; let b ← inp xs 1
  if b.data.any bad then ambig
  else do
    let r ← binop f a b
    pure [r]

def reduceOp (f : List Int → Option Int) (a : Attrs) (xs : Inputs) (idNoop : Bool := true) :
    R (List Tensor) := do
  let x ← inp xs 0
  let axes ← match optInp xs 1 with
    | some t => do let l ← listVal t; pure (some l)
    | none => pure none
  -- ReduceL1 / ReduceSumSquare … with `noop_with_empty_axes`: the text says "the output is the
  -- input", the ONNX reference implementation still applies abs / square: ambiguous.
  if !idNoop && a.flag "noop_with_empty_axes" false && (axes.getD []).isEmpty then ambig
  else do
    let r ← reduce f x axes (a.flag "keepdims" true) (a.flag "noop_with_empty_axes" false)
    pure [r]

def natsAttr (a : Attrs) (n : String) (d : List Nat) : R (List Nat) :=
  match a.ints? n with
  | some l => if l.all (· ≥ 0) then pure (l.map Int.toNat) else fail
  | none => pure d

def poolOp (mode : String) (a : Attrs) (xs : Inputs) : R (List Tensor) := do
  let x ← inp xs 0
  match a.ints? "kernel_shape" with
  | none => fail
  | some ks =>
    guardR (ks.all (· ≥ 1))
    let kernel := ks.map Int.toNat
    let n := kernel.length
    let strides ← natsAttr a "strides" (List.replicate n 1)
    let dils ← natsAttr a "dilations" (List.replicate n 1)
    let pads ← natsAttr a "pads" (List.replicate (2 * n) 0)
    let autoPad := a.str "auto_pad" "NOTSET"
    -- explicit pads together with auto_pad: "pads … cannot be used simultaneously with auto_pad"
    if autoPad != "NOTSET" && (a.ints? "pads").isSome then ambig
    else do
      let r ← pool mode x kernel strides dils pads (a.flag "ceil_mode" false) autoPad
        (a.flag "count_include_pad" false) (a.int "scale" 1)
      pure [r]

def globalPoolOp (mode : String) (a : Attrs) (xs : Inputs) : R (List Tensor) := do
  let x ← inp xs 0
  guardR (x.rank ≥ 3)
  let kernel := x.shape.drop 2
  let n := kernel.length
  let r ← pool mode x kernel (List.replicate n 1) (List.replicate n 1) (List.replicate (2 * n) 0) false "NOTSET"
    false (a.int "scale" 1)
  pure [r]

def convOp (a : Attrs) (xs : Inputs) : R (List Tensor) := do
  let x ← inp xs 0; let w ← inp xs 1
  let n := x.rank - 2
  match a.ints? "kernel_shape" with
  | some ks => guardR (ks.map Int.toNat == w.shape.drop 2)
  | none => pure ()
  let strides ← natsAttr a "strides" (List.replicate n 1)
  let dils ← natsAttr a "dilations" (List.replicate n 1)
  let pads ← natsAttr a "pads" (List.replicate (2 * n) 0)
  let autoPad := a.str "auto_pad" "NOTSET"
  guardR (a.int "group" 1 ≥ 1)
  if autoPad != "NOTSET" && (a.ints? "pads").isSome then ambig
  else do
    let r ← conv x w (optInp xs 2) strides dils pads (a.int "group" 1).toNat autoPad
    pure [r]

def runOp (op : String) (a : Attrs) (xs : Inputs) : R (List Tensor) :=
  match op with
  | "Add" => bin (· + ·) xs
  | "Sub" => bin (· - ·) xs
  | "Mul" => bin (· * ·) xs
  | "Div" => binGuard (fun y => y == 0) divI xs
  | "Mod" => binGuard (fun y => y == 0) (modI (a.flag "fmod" false)) xs
  | "Pow" => binGuard (fun y => y < 0) powI xs
  | "Equal" => bin (fun x y => b2i (x == y)) xs
  | "Less" => bin (fun x y => b2i (x < y)) xs
  | "LessOrEqual" => bin (fun x y => b2i (x ≤ y)) xs
  | "Greater" => bin (fun x y => b2i (x > y)) xs
  | "GreaterOrEqual" => bin (fun x y => b2i (x ≥ y)) xs
  | "And" => bin (fun x y => b2i (x != 0 && y != 0)) xs
  | "Or" => bin (fun x y => b2i (x != 0 || y != 0)) xs
  | "Xor" => bin (fun x y => b2i ((x != 0) != (y != 0))) xs
  | "Not" => do let x ← inp xs 0; pure [unop (fun v => b2i (v == 0)) x]
  | "Neg" => do let x ← inp xs 0; pure [unop (fun v => -v) x]
  | "Abs" => do let x ← inp xs 0; pure [unop (fun v => if v < 0 then -v else v) x]
  | "Sign" => do let x ← inp xs 0; pure [unop (fun v => if v < 0 then -1 else if v > 0 then 1 else 0) x]
  | "Relu" => do let x ← inp xs 0; pure [unop (fun v => max v 0) x]
  | "Identity" => do let x ← inp xs 0; pure [x]
  | "Clip" => do
    let x ← inp xs 0
    let lo ← match optInp xs 1 with | some t => do let v ← scalarVal t; pure (some v) | none => pure none
    let hi ← match optInp xs 2 with | some t => do let v ← scalarVal t; pure (some v) | none => pure none
    pure [unop (clipI lo hi) x]
  | "Min" => do let ts ← allPresent xs; let r ← variadic min ts; pure [r]
  | "Max" => do let ts ← allPresent xs; let r ← variadic max ts; pure [r]
  | "Sum" => do let ts ← allPresent xs; let r ← variadic (· + ·) ts; pure [r]
  | "Where" => do
    let c ← inp xs 0; let x ← inp xs 1; let y ← inp xs 2
    let r ← whereOp c x y
    pure [r]
  | "Cast" => do
    let x ← inp xs 0
    match a.int? "to" with
    | some 9 => pure [unop (fun v => b2i (v != 0)) x]
    | some 6 => pure [x]
    | some 7 => pure [x]
    | _ => fail
  | "Reshape" => do
    let x ← inp xs 0; let s ← inp xs 1
    let spec ← listVal s
    let r ← reshape x spec (a.flag "allowzero" false)
    pure [r]
  | "Flatten" => do let x ← inp xs 0; let r ← flatten x (a.int "axis" 1); pure [r]
  | "Squeeze" => do
    let x ← inp xs 0
    let axes ← match optInp xs 1 with | some t => do let l ← listVal t; pure (some l) | none => pure none
    let r ← squeeze x axes
    pure [r]
  | "Unsqueeze" => do
    let x ← inp xs 0; let t ← inp xs 1
    let axes ← listVal t
    let r ← unsqueeze x axes
    pure [r]
  | "Transpose" => do let x ← inp xs 0; let r ← transpose x (a.ints? "perm"); pure [r]
  | "Expand" => do
    let x ← inp xs 0; let s ← inp xs 1
    let spec ← listVal s
    let r ← expand x spec
    pure [r]
  | "Tile" => do
    let x ← inp xs 0; let s ← inp xs 1
    let reps ← listVal s
    let r ← tile x reps
    pure [r]
  | "Slice" => do
    let x ← inp xs 0; let st ← inp xs 1; let en ← inp xs 2
    let starts ← listVal st; let ends ← listVal en
    let axes ← match optInp xs 3 with | some t => do let l ← listVal t; pure (some l) | none => pure none
    let steps ← match optInp xs 4 with | some t => do let l ← listVal t; pure (some l) | none => pure none
    let r ← slice x starts ends axes steps
    pure [r]
  | "Concat" => do
    let ts ← allPresent xs
    match a.int? "axis" with
    | some ax => do let r ← concat ts ax; pure [r]
    | none => fail
  | "Split" => do
    let x ← inp xs 0
    let sizes ← match optInp xs 1 with | some t => do let l ← listVal t; pure (some l) | none => pure none
    let nout := (a.int "nout" 1).toNat
    split x (a.int "axis" 0) sizes nout
  | "Gather" => do let x ← inp xs 0; let i ← inp xs 1; let r ← gather x i (a.int "axis" 0); pure [r]
  | "GatherElements" => do
    let x ← inp xs 0; let i ← inp xs 1
    let r ← gatherElements x i (a.int "axis" 0)
    pure [r]
  | "GatherND" => do
    let x ← inp xs 0; let i ← inp xs 1
    let r ← gatherND x i (a.int "batch_dims" 0)
    pure [r]
  | "ReduceSum" => reduceOp (fun l => some (sumI l)) a xs
  | "ReduceProd" => reduceOp (fun l => some (prodI l)) a xs
  | "ReduceMin" => reduceOp minL a xs
  | "ReduceMax" => reduceOp maxL a xs
  | "ReduceL1" => reduceOp (fun l => some (sumI (l.map (fun v => if v < 0 then -v else v)))) a xs false
  | "ReduceSumSquare" => reduceOp (fun l => some (sumI (l.map (fun v => v * v)))) a xs false
  | "ArgMax" => do
    let x ← inp xs 0
    let r ← argReduce true x (a.int "axis" 0) (a.flag "keepdims" true) (a.flag "select_last_index" false)
    pure [r]
  | "ArgMin" => do
    let x ← inp xs 0
    let r ← argReduce false x (a.int "axis" 0) (a.flag "keepdims" true) (a.flag "select_last_index" false)
    pure [r]
  | "CumSum" => do
    let x ← inp xs 0; let t ← inp xs 1
    let ax ← scalarVal t
    let r ← cumsum x ax (a.flag "exclusive" false) (a.flag "reverse" false)
    pure [r]
  | "Pad" => do
    let x ← inp xs 0; let p ← inp xs 1
    let pads ← listVal p
    let cval ← match optInp xs 2 with | some t => scalarVal t | none => pure 0
    let axes ← match optInp xs 3 with | some t => do let l ← listVal t; pure (some l) | none => pure none
    let r ← pad x pads cval axes (a.str "mode" "constant")
    pure [r]
  | "Trilu" => do
    let x ← inp xs 0
    let k ← match optInp xs 1 with | some t => scalarVal t | none => pure 0
    let r ← trilu x k (a.flag "upper" true)
    pure [r]
  | "Range" => do
    let s ← inp xs 0; let l ← inp xs 1; let d ← inp xs 2
    let sv ← scalarVal s; let lv ← scalarVal l; let dv ← scalarVal d
    let r ← rangeOp sv lv dv
    pure [r]
  | "OneHot" => do
    let i ← inp xs 0; let d ← inp xs 1; let v ← inp xs 2
    let dv ← scalarVal d
    match v.data with
    | [off, on] => do let r ← oneHot i dv off on (a.int "axis" (-1)); pure [r]
    | _ => fail
  | "EyeLike" => do let x ← inp xs 0; let r ← eyeLike x.shape (a.int "k" 0); pure [r]
  | "MatMul" => do let x ← inp xs 0; let y ← inp xs 1; let r ← matmul x y; pure [r]
  | "ScatterElements" => do
    let x ← inp xs 0; let i ← inp xs 1; let u ← inp xs 2
    let r ← scatterElements x i u (a.int "axis" 0) (a.str "reduction" "none")
    pure [r]
  | "ScatterND" => do
    let x ← inp xs 0; let i ← inp xs 1; let u ← inp xs 2
    let r ← scatterND x i u (a.str "reduction" "none")
    pure [r]
  | "TopK" => do
    let x ← inp xs 0; let kt ← inp xs 1
    let k ← scalarVal kt
    if !(a.flag "sorted" true) then ambig
    else do
      let (v, i) ← topk x k (a.int "axis" (-1)) (a.flag "largest" true)
      pure [v, i]
  | "DepthToSpace" => do
    let x ← inp xs 0
    match a.int? "blocksize" with
    | some b => do let r ← depthToSpace x b (a.str "mode" "DCR"); pure [r]
    | none => fail
  | "MaxPool" => poolOp "max" a xs
  | "AveragePool" => poolOp "avg" a xs
  | "GlobalMaxPool" => globalPoolOp "max" a xs
  | "GlobalAveragePool" => globalPoolOp "avg" a xs
  | "Conv" => convOp a xs
  | "Shape" => do let x ← inp xs 0; pure [shapeOp x (a.int "start" 0) (a.int? "end")]
  | "Size" => do let x ← inp xs 0; pure [scalar (prod x.shape)]
  | "NonZero" => do let x ← inp xs 0; pure [nonZero x]
  | "ConstantOfShape" => do
    let s ← inp xs 0
    let dims ← listVal s
    guardR (dims.all (· ≥ 0))
    let sh := dims.map Int.toNat
    pure [⟨sh, List.replicate (prod sh) (a.int "value" 0)⟩]
  | _ => .error "unknown-op"

end RtenVerif.OnnxRef
