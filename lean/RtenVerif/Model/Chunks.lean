/-!
# Model of `chunks_with_overlap` (rten-text/src/split.rs) and `Tokenizer::encode_chunks`
(rten-text/src/tokenizer.rs) — import-free

A window is a pair `(start, length)` into the token list. `none` models a Rust panic
(`assert!(overlap < chunk_size)`).
-/
namespace RtenVerif.Chunks

/-- Number of items produced by `self.windows(size).step_by(stride)` on a slice of length `n`. -/
def fullCount (n size stride : Nat) : Nat :=
  if n < size then 0 else (n - size) / stride + 1

/-- `remainder_size` of `chunks_with_overlap`. -/
def remSize (n size stride : Nat) : Nat :=
  if n < size then n else (n - size) % stride

/-- Windows `(start, length)` yielded by `xs.chunks_with_overlap(size, overlap)` for `xs.len() = n`:
the full windows `i * stride`, then the final remainder `&self[len - remainder_size..]`. -/
def chunkRanges (n size overlap : Nat) : Option (List (Nat × Nat)) :=
  if overlap < size then
    let stride := size - overlap
    let rem := remSize n size stride
    some ((List.range (fullCount n size stride)).map (fun i => (i * stride, size))
      ++ (if 0 < rem then [(n - rem, rem)] else []))
  else none

def slice {α : Type} (xs : List α) (r : Nat × Nat) : List α := (xs.drop r.1).take r.2

def chunksWithOverlap {α : Type} (xs : List α) (size overlap : Nat) : Option (List (List α)) :=
  (chunkRanges xs.length size overlap).map (fun rs => rs.map (slice xs))

/-- One `Encoded` chunk: token ids, token offsets, `first_seq_tokens`. -/
structure Chunk where
  ids : List Nat
  offsets : List Nat
  firstSeq : Nat
  deriving DecidableEq, Repr

def optLen (o : Option Nat) : Nat := if o.isSome then 1 else 0

/-- `max_tokens_per_chunk`. -/
def maxTokens (limit : Option Nat) (total overhead : Nat) : Nat :=
  (limit.getD (total + overhead)) - overhead

/-- `let overlap = if tokens.len() <= window { 0 } else { options.overlap }` (added by the
`fix:` commit for C29: the overlap is ignored when everything fits into one chunk). -/
def effOverlap (n window overlap : Nat) : Nat := if n ≤ window then 0 else overlap

/-- Body of the `for (chunk_idx, (tokens_chunk, offsets_chunk))` loop, single-sequence path. -/
def mkSingle (cls sep : Option Nat) (toks offs : List Nat) (textLen maxTok : Nat)
    (p : (Nat × Nat) × Nat) : Chunk :=
  let tc := slice toks p.1
  let oc := slice offs p.1
  let ids := cls.toList ++ tc ++ sep.toList
  { ids := ids
    offsets := (if cls.isSome then [oc.headD 0] else []) ++ oc ++
      [offs.getD (p.2 * maxTok + oc.length) textLen]
    firstSeq := ids.length }

/-- `encode_chunks` for `EncoderInput::Item`. `toks`/`offs` are the encoded tokens and their
offsets, `textLen` = `item.len()`. `none` = panic, `some []` = `Ok(vec![])`. -/
def encodeSingle (cls sep : Option Nat) (limit : Option Nat) (overlap : Nat)
    (toks offs : List Nat) (textLen : Nat) : Option (List Chunk) :=
  let maxTok := maxTokens limit toks.length (optLen cls + optLen sep)
  if maxTok = 0 then some []
  else
    (chunkRanges toks.length maxTok (effOverlap toks.length maxTok overlap)).map
      (fun rs => rs.zipIdx.map (mkSingle cls sep toks offs textLen maxTok))

/-- Loop body of the pair path. -/
def mkPair (cls sep : Option Nat) (toks1 offs1 toks2 offs2 : List Nat) (len1 len2 : Nat)
    (firstLen secondLen : Nat) (p : (Nat × Nat) × Nat) : Chunk :=
  let tc := slice toks2 p.1
  let oc := slice offs2 p.1
  let head := cls.toList ++ toks1.take firstLen ++ sep.toList
  { ids := head ++ tc ++ sep.toList
    offsets := (if cls.isSome then [0] else []) ++ offs1.take firstLen ++
      (if sep.isSome then [len1] else []) ++ oc ++
      [offs2.getD (p.2 * secondLen + oc.length) (len1 + len2)]
    firstSeq := head.length }

/-- `encode_chunks` for `EncoderInput::Pair`. `len1`/`len2` = byte lengths of the two texts;
`offs2` already includes the `first_seq.len()` start offset. -/
def encodePair (cls sep : Option Nat) (limit : Option Nat) (overlap : Nat)
    (toks1 offs1 toks2 offs2 : List Nat) (len1 len2 : Nat) : Option (List Chunk) :=
  let maxTok := maxTokens limit (toks1.length + toks2.length) (optLen cls + 2 * optLen sep)
  if maxTok = 0 then some []
  else
    let firstLen := min toks1.length maxTok
    let secondLen := min toks2.length (maxTok - firstLen)
    if secondLen = 0 then some []
    else
      (chunkRanges toks2.length secondLen (effOverlap toks2.length secondLen overlap)).map
        (fun rs => rs.zipIdx.map (mkPair cls sep toks1 offs1 toks2 offs2 len1 len2 firstLen secondLen))

end RtenVerif.Chunks
