/-!
# Model of `chunks_with_overlap` (rten-text/src/split.rs) and `Tokenizer::encode_chunks`
(rten-text/src/tokenizer.rs) — import-free

A window is a pair `(start, length)` into the token list. `none` models a Rust panic
(`assert!(overlap < chunk_size)`).
-/
namespace RtenVerif.Chunks

/-- Number of items produced by `self.windows(size).step_by(stride)` on a slice of length `n`. -/
def fullCount (n size stride : Nat) : Nat :=
  if n < size then 0 else (n - size) / stride + 1

/-- `remainder_size` of `chunks_with_overlap`. -/
def remSize (n size stride : Nat) : Nat :=
  if n < size then n else (n - size) % stride

/-- Windows `(start, length)` yielded by `xs.chunks_with_overlap(size, overlap)` for `xs.len() = n`:
the full windows `i * stride`, then the final remainder `&self[len - remainder_size..]`. -/
def chunkRanges (n size overlap : Nat) : Option (List (Nat × Nat)) :=
  if overlap < size then
    let stride := size - overlap
    let rem := remSize n size stride
    some ((List.range (fullCount n size stride)).map (fun i => (i * stride, size))
      ++ (if 0 < rem then [(n - rem, rem)] else []))
  else none

def slice {α : Type} (xs : List α) (r : Nat × Nat) : List α := (xs.drop r.1).take r.2

def chunksWithOverlap {α : Type} (xs : List α) (size overlap : Nat) : Option (List (List α)) :=
  (chunkRanges xs.length size overlap).map (fun rs => rs.map (slice xs))

/-- One `Encoded` chunk: token ids, token offsets, `first_seq_tokens`. -/
structure Chunk where
  ids : List Nat
  offsets : List Nat
  firstSeq : Nat
  deriving DecidableEq, Repr

def optLen (o : Option Nat) : Nat := if o.isSome then 1 else 0

/-- `max_tokens_per_chunk`. -/
def maxTokens (limit : Option Nat) (total overhead : Nat) : Nat :=
  (limit.getD (total + overhead)) - overhead

/-- `let overlap = if tokens.len() <= window { 0 } else { options.overlap }` (added by the
`fix:` commit for C29: the overlap is ignored when everything fits into one chunk). -/
def effOverlap (n window overlap : Nat) : Nat := if n ≤ window then 0 else overlap

/-- Body of the `for (tokens_chunk, offsets_chunk)` loop, single-sequence path. The final offset
is looked up at the chunk's own end position (`subslice_offsets(offsets_chunk).end`). -/
def mkSingle (cls sep : Option Nat) (toks offs : List Nat) (textLen : Nat) (r : Nat × Nat) : Chunk :=
  let tc := slice toks r
  let oc := slice offs r
  let ids := cls.toList ++ tc ++ sep.toList
  { ids := ids
    offsets := (if cls.isSome then [oc.headD 0] else []) ++ oc ++ [offs.getD (r.1 + oc.length) textLen]
    firstSeq := ids.length }

/-- `encode_chunks` for `EncoderInput::Item`. `toks`/`offs` are the encoded tokens and their
offsets, `textLen` = `item.len()`. `none` = panic, `some []` = `Ok(vec![])`. -/
def encodeSingle (cls sep : Option Nat) (limit : Option Nat) (overlap : Nat)
    (toks offs : List Nat) (textLen : Nat) : Option (List Chunk) :=
  let maxTok := maxTokens limit toks.length (optLen cls + optLen sep)
  if maxTok = 0 then some []
  else
    (chunkRanges toks.length maxTok (effOverlap toks.length maxTok overlap)).map
      (fun rs => rs.map (mkSingle cls sep toks offs textLen))

/-- Loop body of the pair path. -/
def mkPair (cls sep : Option Nat) (toks1 offs1 toks2 offs2 : List Nat) (len1 len2 : Nat)
    (firstLen : Nat) (r : Nat × Nat) : Chunk :=
  let tc := slice toks2 r
  let oc := slice offs2 r
  let head := cls.toList ++ toks1.take firstLen ++ sep.toList
  { ids := head ++ tc ++ sep.toList
    offsets := (if cls.isSome then [0] else []) ++ offs1.take firstLen ++
      (if sep.isSome then [len1] else []) ++ oc ++ [offs2.getD (r.1 + oc.length) (len1 + len2)]
    firstSeq := head.length }

/-- `encode_chunks` for `EncoderInput::Pair`. `len1`/`len2` = byte lengths of the two texts;
`offs2` already includes the `first_seq.len()` start offset. -/
def encodePair (cls sep : Option Nat) (limit : Option Nat) (overlap : Nat)
    (toks1 offs1 toks2 offs2 : List Nat) (len1 len2 : Nat) : Option (List Chunk) :=
  let maxTok := maxTokens limit (toks1.length + toks2.length) (optLen cls + 2 * optLen sep)
  if maxTok = 0 then some []
  else
    let firstLen := min toks1.length maxTok
    let secondLen := min toks2.length (maxTok - firstLen)
    if secondLen = 0 then some []
    else
      (chunkRanges toks2.length secondLen (effOverlap toks2.length secondLen overlap)).map
        (fun rs => rs.map (mkPair cls sep toks1 offs1 toks2 offs2 len1 len2 firstLen))

/-! ## The public entry points: special-token resolution, `encode_chunks`, `encode` -/

/-- A configured special token (`TokenizerOptions::cls_token` / `sep_token`): not configured,
configured with a string the model does not know (`get_token_id` fails), or known with an id. -/
inductive Special where
  | absent
  | unknown
  | tok (id : Nat)
  deriving DecidableEq, Repr

inductive EncErr where
  | tokenIdNotFound
  deriving DecidableEq, Repr

/-- `self.cls_token()` / `self.sep_token()`: `Option<&str>` → `Result<Option<TokenId>, _>`. -/
def Special.resolve : Special → Except EncErr (Option Nat)
  | .absent => .ok none
  | .unknown => .error .tokenIdNotFound
  | .tok id => .ok (some id)

/-- `EncoderInput` after `encode_str`: token ids, offsets and byte length(s) of the text(s). -/
inductive Input where
  | item (toks offs : List Nat) (len : Nat)
  | pair (toks1 offs1 toks2 offs2 : List Nat) (len1 len2 : Nat)

def Input.isPair : Input → Bool
  | .item .. => false
  | .pair .. => true

/-- `Tokenizer::encode_chunks(input, EncodeOptions { max_chunk_len, overlap })`.
`.error` = `Err(TokenizerError)`, `.ok none` = panic, `.ok (some cs)` = `Ok(cs)`.
`[CLS]` is resolved before `[SEP]`, both before anything is encoded. -/
def encodeChunks (cls sep : Special) (limit : Option Nat) (overlap : Nat) (inp : Input) :
    Except EncErr (Option (List Chunk)) := do
  let c ← cls.resolve
  let s ← sep.resolve
  match inp with
  | .item toks offs len => pure (encodeSingle c s limit overlap toks offs len)
  | .pair t1 o1 t2 o2 l1 l2 => pure (encodePair c s limit overlap t1 o1 t2 o2 l1 l2)

/-- The single empty chunk `Tokenizer::encode` fabricates when `encode_chunks` yields nothing. -/
def fallbackChunk (c s : Option Nat) (isPair : Bool) : Chunk :=
  let ids := c.toList ++ s.toList ++ (if isPair then s.toList else [])
  { ids := ids, offsets := ids.map (fun _ => 0), firstSeq := optLen c + optLen s }

/-- `Tokenizer::encode(input, Some(options))`: the first chunk of `encode_chunks`, or the
fallback chunk. -/
def encode (cls sep : Special) (limit : Option Nat) (overlap : Nat) (inp : Input) :
    Except EncErr (Option Chunk) := do
  let c ← cls.resolve
  let s ← sep.resolve
  match ← encodeChunks cls sep limit overlap inp with
  | none => pure none
  | some [] => pure (some (fallbackChunk c s inp.isPair))
  | some (ch :: _) => pure (some ch)

end RtenVerif.Chunks
