import RtenVerif.Model.Contours

/-
Model of `FillIter` (`Polygon::fill_iter`, rten-imageproc/src/drawing.rs), of `draw_line` with
width > 1 (given the integer corners of the rotated rect, which the code computes in `f32`) and
of `draw_polygon` with width 1.  Core Lean only.

Points are `(y, x)`.  `i32`/`u32` arithmetic is modelled over `Int` (no overflow).  The order of
`active_edges` (a stable sort by `(x, x_step, extra_x_step)`) is kept although the yielded pixels
only depend on how many active edges have `x ≤ cursor.x`.  `edges` is sorted by descending
`start_y` (stable) and popped from the back in the code; here `pending` is sorted by ascending
`start_y` and taken from the front.  Among edges with equal `start_y` the code therefore activates
them in reverse input order and the model in input order; this is unobservable, because only the
*number* of active edges with `x ≤ cursor.x` is used.
-/
namespace RtenVerif.Contours

structure Edge where
  startY : Int
  ySteps : Int
  x : Int
  error : Int
  errorIncr : Int
  errorDecr : Int
  xStep : Int
  extraXStep : Int
  deriving Repr, DecidableEq

/-- `Polygon::edges()`: each vertex paired with its cyclic successor. -/
def polyEdges (pts : List Pt) : List (Pt × Pt) := pts.zip (pts.drop 1 ++ pts.take 1)

/-- The `Edge` record built in `FillIter::new` for a non-horizontal edge. -/
def mkEdge (e : Pt × Pt) : Edge :=
  let s := if e.1.1 ≤ e.2.1 then e.1 else e.2
  let t := if e.1.1 ≤ e.2.1 then e.2 else e.1
  let dx := t.2 - s.2
  let dy := t.1 - s.1
  { startY := s.1, ySteps := dy, x := s.2, xStep := Int.tdiv dx dy,
    error := if dx ≥ 0 then 0 else -dy + 1,
    errorIncr := Int.tmod (iabs dx) dy, errorDecr := dy, extraXStep := sgn dx }

/-- Stable insertion sort. -/
def insertE (le : Edge → Edge → Bool) (x : Edge) : List Edge → List Edge
  | [] => [x]
  | y :: ys => if le x y then x :: y :: ys else y :: insertE le x ys

def isortE (le : Edge → Edge → Bool) : List Edge → List Edge
  | [] => []
  | x :: xs => insertE le x (isortE le xs)

/-- `bounding_rect()` as `(top, left, bottom, right)` = `(min y, min x, max y, max x)`; the empty
polygon gets an empty rect (the code uses `i32::MAX/MIN`). -/
def polyBounds : List Pt → Int × Int × Int × Int
  | [] => (0, 0, 0, 0)
  | p :: ps => ps.foldl (fun b q =>
      (if q.1 < b.1 then q.1 else b.1, if q.2 < b.2.1 then q.2 else b.2.1,
       if q.1 > b.2.2.1 then q.1 else b.2.2.1, if q.2 > b.2.2.2 then q.2 else b.2.2.2))
      (p.1, p.2, p.1, p.2)

def boundsEmpty (b : Int × Int × Int × Int) : Bool := decide (b.2.2.2 ≤ b.2.1 ∨ b.2.2.1 ≤ b.1)

structure FillSt where
  pending : List Edge
  active : List Edge
  cursor : Pt

/-- The `retain_mut` closure of `update_active_edges`. -/
def advanceEdge (e : Edge) : Option Edge :=
  let ys := e.ySteps - 1
  if ys > 0 then
    let err := e.error + e.errorIncr
    if err > 0 then
      some { e with ySteps := ys, x := e.x + e.xStep + e.extraXStep, error := err - e.errorDecr }
    else some { e with ySteps := ys, x := e.x + e.xStep, error := err }
  else none

/-- The `while let Some(edge) = self.edges.last()` loop: edges that start at or above `y`. -/
def takeStart (y : Int) : List Edge → List Edge × List Edge
  | [] => ([], [])
  | e :: es => if e.startY > y then ([], e :: es) else ((takeStart y es).1.cons e, (takeStart y es).2)

def activeLe (a b : Edge) : Bool :=
  a.x < b.x || (a.x == b.x && (a.xStep < b.xStep || (a.xStep == b.xStep && a.extraXStep ≤ b.extraXStep)))

/-- `update_active_edges` for the scanline `y`. -/
def updateActive (y : Int) (active pending : List Edge) : List Edge × List Edge :=
  let kept := active.filterMap advanceEdge
  let ts := takeStart y pending
  (isortE activeLe (kept ++ ts.1), ts.2)

/-- `FillIter::new` (with the fix: no edges when the bounds are empty). -/
def fillInit (pts : List Pt) : (Int × Int × Int × Int) × FillSt :=
  let b := polyBounds pts
  let edges := if boundsEmpty b then []
    else isortE (fun a c => decide (a.startY ≤ c.startY))
      (((polyEdges pts).filter fun e => e.1.1 != e.2.1).map mkEdge)
  let cursor : Pt := if boundsEmpty b then (b.2.2.1, b.2.2.2) else (b.1, b.2.1)
  let u := updateActive cursor.1 [] edges
  (b, { pending := u.2, active := u.1, cursor := cursor })

/-- The cursor movement inside `FillIter::next`: one pixel to the right, or to the start of the
next scanline (with `update_active_edges`) when the right bound is reached. -/
def fillNext (b : Int × Int × Int × Int) (st : FillSt) : FillSt :=
  if st.cursor.2 + 1 = b.2.2.2 then
    { pending := (updateActive (st.cursor.1 + 1) st.active st.pending).2,
      active := (updateActive (st.cursor.1 + 1) st.active st.pending).1,
      cursor := (st.cursor.1 + 1, b.2.1) }
  else { st with cursor := (st.cursor.1, st.cursor.2 + 1) }

/-- `FillIter::next` iterated to exhaustion: yielded pixels, and whether the iterator finished
within the fuel (one unit per iteration of the `while` loop). -/
def runFill (b : Int × Int × Int × Int) : Nat → FillSt → List Pt × Bool
  | 0, st => ([], st.active.isEmpty)
  | n + 1, st =>
    if st.active.isEmpty then ([], true)
    else
      let inter := st.active.countP fun e => decide (e.x ≤ st.cursor.2)
      let r := runFill b n (fillNext b st)
      (if inter % 2 = 1 then st.cursor :: r.1 else r.1, r.2)

/-- `polygon.fill_iter().collect()`; fuel = area of the bounding rect + 1. -/
def fillIter (pts : List Pt) : List Pt × Bool :=
  let i := fillInit pts
  runFill i.1 (((i.1.2.2.1 - i.1.1) * (i.1.2.2.2 - i.1.2.1)).toNat + 1) i.2

/-- The `for p in fill_iter()` loop of wide `draw_line`: `p.coord()` panics on a negative
coordinate, `image.get_mut` skips pixels outside the image. -/
def writeClipped (h w : Int) : List Pt → List Pt × Bool
  | [] => ([], false)
  | p :: ps =>
    if p.1 < 0 ∨ p.2 < 0 then ([], true)
    else
      let r := writeClipped h w ps
      (if inImage h w p then p :: r.1 else r.1, r.2)

/-- `draw_line(image, line, value, width)` for `width > 1`, given the four integer corners of
the rotated rect (computed by the code in `f32` and truncated). -/
def drawWideLine (h w : Int) (corners : List Pt) : List Pt × Bool :=
  writeClipped h w (fillIter corners).1

/-- `draw_polygon(image, poly, value, 1)`: `draw_line` for every edge; a panic stops. -/
def drawPolygon1 (h w : Int) : List (Pt × Pt) → List Pt × Bool
  | [] => ([], false)
  | e :: es =>
    let r := drawLine1 h w e.1 e.2
    if r.2 then (r.1, true)
    else
      let rs := drawPolygon1 h w es
      (r.1 ++ rs.1, rs.2)

end RtenVerif.Contours
