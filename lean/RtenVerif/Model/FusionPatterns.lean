import RtenVerif.Model.Pattern

/-!
# C01 — the patterns of the modelled fusions (`fusions.rs`), shared by the driver and the proofs

`constsGuarded p`: every constant pattern of `p` is a *direct operand of an operator pattern* (never
directly under `anyOf`, never the root). Only then does the matcher's rank guard
(`constants_preserve_rank`, which looks at an operator pattern's own operand list, flattened for
chains) see it. `allFusionPatterns_constsGuarded` checks this for every modelled pattern.
-/
namespace RtenVerif.Pattern

def constsGuarded : Nat → Bool → Pat → Bool
  | 0, _, _ => false
  | fuel + 1, direct, p =>
    match p with
    | .const _ _ => direct
    | .sym _ _ => true
    | .op _ pins _ => pins.all (constsGuarded fuel true)
    | .anyOf ps => ps.all (constsGuarded fuel false)

namespace Fusions

def f32 (bits : Nat) : Pat := .const bits false
def f32x (bits : Nat) : Pat := .const bits true
def bop (n : String) (a b : Pat) : Pat := .op n [a, b] none
def uop (n : String) (a : Pat) : Pat := .op n [a] none
def X : Pat := .sym "x" false

-- f32 bit patterns of the pattern constants
def bOne := 1065353216
def bZero := 0
def bHalf := 1056964608
def bTwo := 1073741824
def bThree := 1077936128
def bSqrt2 := 1068827891          -- (2f32).sqrt()
def bInvSqrt2 := 1060439283       -- 1 / (2f32).sqrt()
def bSqrt2Pi := 1061962281        -- (2/pi).sqrt()
def bGeluK := 1027024659          -- 0.044715

def identityPat : Pat := .anyOf [uop "Identity" X, bop "Add" X (f32x bZero), bop "Sub" X (f32x bZero), bop "Mul" X (f32x bOne), bop "Div" X (f32x bOne)]
def reciprocalPat : Pat := bop "Div" (f32 bOne) X
def siluPat : Pat := bop "Mul" X (uop "Sigmoid" X)
def swishPat : Pat := bop "Mul" X (uop "Sigmoid" (bop "Mul" (.sym "alpha" true) X))
def geluPat : Pat :=
  let xs := Pat.anyOf [bop "Div" X (f32 bSqrt2), bop "Mul" X (f32 bInvSqrt2)]
  bop "Mul" (bop "Mul" X (bop "Add" (uop "Erf" xs) (f32 bOne))) (f32 bHalf)
def approxGeluPat : Pat :=
  bop "Mul" (bop "Mul" X (f32 bHalf))
    (bop "Add" (f32 bOne) (uop "Tanh" (bop "Mul" (f32 bSqrt2Pi) (bop "Add" X (bop "Mul" (bop "Pow" X (f32 bThree)) (f32 bGeluK))))))
def centerPat : Pat := bop "Sub" X (.op "ReduceMean" [X] (some "center_mean"))
def normVarPat : Pat :=
  bop "Div" centerPat (uop "Sqrt" (bop "Add" (.sym "epsilon" true) (.op "ReduceMean" [bop "Pow" centerPat (f32 bTwo)] (some "norm_mean"))))
def layerNormPat : Pat :=
  .anyOf [bop "Add" (bop "Mul" normVarPat (.sym "scale" true)) (.sym "bias" true), bop "Mul" normVarPat (.sym "scale" true)]
def rmsNormPat : Pat :=
  bop "Mul" (bop "Mul" X (uop "Reciprocal" (uop "Sqrt" (bop "Add" (.sym "epsilon" true)
    (.op "ReduceMean" [bop "Pow" X (f32 bTwo)] (some "norm_mean")))))) (.sym "scale" true)
def matmulAddPat : Pat := bop "Add" (bop "MatMul" (.sym "a" false) (.sym "b" false)) (.sym "bias" true)
def safeSoftmaxPat : Pat :=
  let y := Pat.op "Softmax" [X] (some "softmax")
  .op "Where" [uop "IsNaN" y, f32 bZero, y] none
def addSoftmaxPat : Pat := .op "Softmax" [bop "Add" (.sym "qk" false) (.sym "mask" false)] (some "softmax")
def reduceMeanAxesPat : Pat := .op "ReduceMean" [X, .sym "axes" true] (some "mean")


def repeatInterleavePat : Pat :=
  .op "Reshape" [.op "Expand" [.op "Unsqueeze" [X, .sym "axes" true] none, .sym "expand_shape" false] none,
    .sym "reshape_shape" false] (some "reshape")

def matmulIntPat : Pat :=
  bop "Mul" (.op "Cast" [.op "MatMulInteger" [.sym "a" false, .sym "b" false, .sym "a_zero" false, .sym "b_zero" false] none] (some "cast"))
    (.sym "scale" false)
def convIntPat : Pat :=
  bop "Mul" (.op "Cast" [.op "ConvInteger" [.sym "x" false, .sym "w" false, .sym "x_zero" false, .sym "w_zero" false] (some "conv")] (some "cast"))
    (.sym "scale" false)

def gqaPat : Pat :=
  let t1 := Pat.op "RepeatInterleave" [.sym "b" false] (some "repeat")
  .anyOf [bop "MatMul" (.sym "a" false) t1,
          .op "FusedMatMul" [.sym "a" false, .op "Transpose" [t1] (some "transpose")] (some "scaled_matmul")]

def allFusionPatterns : List Pat :=
  [identityPat, reciprocalPat, siluPat, swishPat, geluPat, approxGeluPat, layerNormPat, rmsNormPat,
   matmulAddPat, safeSoftmaxPat, addSoftmaxPat, reduceMeanAxesPat, repeatInterleavePat, matmulIntPat, convIntPat, gqaPat]

end Fusions
end RtenVerif.Pattern
