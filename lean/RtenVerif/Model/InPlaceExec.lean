/-
C13, executor level: which operand `Graph::run` takes as the owned in-place value
(src/graph.rs: in-place candidates, "all candidates available as owned values with refcount 1"),
what it then runs, and the capacity decision behind `Concat::run_in_place`
(`Tensor::has_capacity` → `expanded_layout`, rten-tensor/src/tensor.rs).

Core Lean + the import-free models InPlace / Layout; links into `model_C13`.
-/
import RtenVerif.Model.InPlace
import RtenVerif.Model.Layout

namespace RtenVerif.InPlace
open RtenVerif.FastBroadcast

/-- The executor runs in place iff there are candidates and *every* candidate can be taken as an
owned value.  `inTemp[i]`: input `i` is held by the run as an owned value (`temp_values`); the
commutative `max_by_key` looks lengths up there, so a borrowed input counts as length 0.
`takeable[i]`: additionally its reference count is 1.  The candidates are then passed as the
in-place inputs; for the binary operators there is at most one: its position. -/
def execChoice (ips : List Nat) (commutative : Bool) (lens : List (Option Nat))
    (inTemp takeable : List Bool) : Option Nat :=
  let keys := (List.zip lens inTemp).map (fun p => p.1.map (fun n => if p.2 then n else 0))
  let c := inPlaceCandidates ips commutative keys
  if !c.isEmpty && c.all (fun i => takeable.getD i false) then c.head? else none

/-- A binary operator node run by the executor: in place on the chosen operand (the operator's
`run_in_place` names the owned value `a` and the remaining input `b`), otherwise `run`.
`ownA`/`ownB`: the input is an owned value of the run; `shared`: one value feeds both operands
(reference count 2). -/
def graphExec {α : Type} (f : α → α → α) (ips : List Nat) (commutative : Bool)
    (a b : Tens α) (ownA ownB shared : Bool) : Option (Tens α) :=
  match execChoice ips commutative [some a.data.length, some b.data.length] [ownA, ownB]
      [ownA && !shared, ownB && !shared] with
  | some 0 => runInPlace f a b
  | some _ => runInPlace f b a
  | none => binop f a b

/-- Which input buffer the output of a binary operator node reuses: 0, 1 or none. -/
def graphReuse (ips : List Nat) (commutative : Bool) (a b : List Nat) (ownA ownB shared : Bool) :
    Option Nat :=
  match execChoice ips commutative [some (numel a), some (numel b)] [ownA, ownB]
      [ownA && !shared, ownB && !shared] with
  | some 0 => if canRunInPlace a b then some 0 else none
  | some _ => if canRunInPlace b a then some 1 else none
  | none => none

end RtenVerif.InPlace

namespace RtenVerif.Layout
open RtenVerif.Overlap

/-- `Tensor::has_capacity(axis, new_size)` = `expanded_layout(axis, new_size).is_some()`:
the layout with `axis` resized must fit the `Vec`'s capacity and must not overlap itself. -/
def hasCapacity (d : Dims) (capacity axis newSize : Nat) : Bool :=
  let nd := resizeDim d axis newSize
  decide (minDataLen nd ≤ capacity) && !mayOverlap nd

end RtenVerif.Layout
