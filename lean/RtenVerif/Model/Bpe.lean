/-!
# Model of `rten-text/src/models/bpe.rs` (BPE merging) — import-free

* `windows2`, `minByKey`, `candidates`, `findMinPair` — the scan
  `tokens.windows(2).filter_map(lookup).min_by_key(rank)` (Rust's `min_by_key` keeps the
  *first* minimum).
* `replaceLoop` — the in-place `while i < tokens.len() - 1 { … tokens.remove(i+1) … i += 1 }`
  loop, on a list with an explicit index.
* `replacePairs` — the functional left-to-right, non-overlapping replacement (spec of the loop).
* `mergeRound`, `bpeMergeFuel`, `bpeMerge` — one iteration / the whole `loop { … }` of `bpe_merge`.
* `MergeMap`, `lookup` — `FxHashMap<(TokenId,TokenId),(Rank,TokenId)>` as an association list,
  most recent `insert` first (so a later duplicate key overrides an earlier one).
* `buildMergeMap` — `build_merge_map` (`build_vocab`/`encode_piece` are in `Model/BpeEncode.lean`).
* `refRank`, `refBestBy`, `refStepBy`, `refBpe` — the string-level reference BPE procedure.
-/
namespace RtenVerif.Bpe

/-- `slice.windows(2)` as pairs. -/
def windows2 {α : Type} : List α → List (α × α)
  | [] => []
  | a :: t =>
    match t with
    | [] => []
    | b :: _ => (a, b) :: windows2 t

/-- Rust `Iterator::min_by_key`: the first element whose key is minimal. -/
def minByKey {β : Type} (key : β → Nat) : List β → Option β
  | [] => none
  | x :: xs => some (xs.foldl (fun best y => if key y < key best then y else best) x)

/-- Hash map from token pair to `(rank, merged id)`; head = most recently inserted. -/
abbrev MergeMap (α : Type) := List ((α × α) × (Nat × α))

def lookup {α : Type} [DecidableEq α] : MergeMap α → α × α → Option (Nat × α)
  | [], _ => none
  | (k, v) :: rest, p => if k = p then some v else lookup rest p

/-- Adjacent pairs that have a merge entry, in order of position. -/
def candidates {α : Type} [DecidableEq α] (m : MergeMap α) (toks : List α) :
    List ((α × α) × (Nat × α)) :=
  (windows2 toks).filterMap (fun p => (lookup m p).map (fun r => (p, r)))

def findMinPair {α : Type} [DecidableEq α] (m : MergeMap α) (toks : List α) :
    Option ((α × α) × (Nat × α)) :=
  minByKey (fun c => c.2.1) (candidates m toks)

/-- The in-place replacement loop of `bpe_merge` (`i` = loop index, `fuel` ≥ remaining steps).
`toks.length - 1` is truncated subtraction; the loop is only entered with `toks.length ≥ 2`
(`findMinPair_some_length`). -/
def replaceLoop {α : Type} [DecidableEq α] (first second merged : α) :
    Nat → Nat → List α → List α
  | 0, _, toks => toks
  | fuel + 1, i, toks =>
    if i < toks.length - 1 then
      if toks[i]? = some first ∧ toks[i + 1]? = some second then
        replaceLoop first second merged fuel (i + 1) ((toks.set i merged).eraseIdx (i + 1))
      else
        replaceLoop first second merged fuel (i + 1) toks
    else toks

/-- Functional specification of the loop: replace every non-overlapping occurrence of
`first, second` by `merged`, scanning left to right:
`replacePairs (x :: y :: rest) = if x = first ∧ y = second then merged :: replacePairs rest
 else x :: replacePairs (y :: rest)` (`replacePairs_cons_cons`); written with a carried head
element so that the recursion is structural and `decide` can evaluate it. -/
def replaceGo {α : Type} [DecidableEq α] (first second merged : α) : α → List α → List α
  | x, [] => [x]
  | x, y :: rest =>
    if x = first ∧ y = second then
      merged :: (match rest with
        | [] => []
        | z :: r => replaceGo first second merged z r)
    else x :: replaceGo first second merged y rest

def replacePairs {α : Type} [DecidableEq α] (first second merged : α) : List α → List α
  | [] => []
  | x :: t => replaceGo first second merged x t

/-- One iteration of the outer `loop` of `bpe_merge`; `none` = `break`. -/
def mergeRound {α : Type} [DecidableEq α] (m : MergeMap α) (toks : List α) : Option (List α) :=
  match findMinPair m toks with
  | none => none
  | some ((f, s), (_, mid)) => some (replaceLoop f s mid toks.length 0 toks)

def bpeMergeFuel {α : Type} [DecidableEq α] (m : MergeMap α) : Nat → List α → List α
  | 0, toks => toks
  | n + 1, toks =>
    match mergeRound m toks with
    | none => toks
    | some t' => bpeMergeFuel m n t'

/-- `bpe_merge`: `toks.length` rounds always suffice (`bpeMerge_fixpoint`). -/
def bpeMerge {α : Type} [DecidableEq α] (m : MergeMap α) (toks : List α) : List α :=
  bpeMergeFuel m toks.length toks

/-! ## `build_merge_map` -/

inductive BuildErr where
  | invalidMergeEntry
  | missingVocabEntry
  deriving DecidableEq, Repr

/-- `build_merge_map` with the vocabulary as a total id function `v` plus a domain test `dom`
(`vocab.get(s)` is `Some (v s)` iff `dom s`). Entry `i` gets rank `i`; `insert` = cons. -/
def buildMergeMapFrom {σ : Type} (dom : σ → Bool) (v : σ → Nat) (cat : σ → σ → σ) :
    Nat → List (σ × σ) → MergeMap Nat → Except BuildErr (MergeMap Nat)
  | _, [], acc => .ok acc
  | i, (a, b) :: rest, acc =>
    if dom a && dom b && dom (cat a b) then
      buildMergeMapFrom dom v cat (i + 1) rest (((v a, v b), (i, v (cat a b))) :: acc)
    else .error .invalidMergeEntry

def buildMergeMap {σ : Type} (dom : σ → Bool) (v : σ → Nat) (cat : σ → σ → σ)
    (merges : List (σ × σ)) : Except BuildErr (MergeMap Nat) :=
  buildMergeMapFrom dom v cat 0 merges []

/-! ## String-level reference BPE -/

/-- Rank of a pair = position of its first occurrence in the merge list. -/
def refRank {σ : Type} [DecidableEq σ] : List (σ × σ) → σ × σ → Option Nat
  | [], _ => none
  | q :: rest, p => if q = p then some 0 else (refRank rest p).map (· + 1)

/-- Rank of a pair = position of its *last* occurrence in the merge list (what a hash map
filled front to back yields when the list has duplicates). -/
def refRankLast {σ : Type} [DecidableEq σ] : List (σ × σ) → σ × σ → Option Nat
  | [], _ => none
  | q :: rest, p =>
    match refRankLast rest p with
    | some r => some (r + 1)
    | none => if q = p then some 0 else none

def refCandidatesBy {σ : Type} (rank : σ × σ → Option Nat) (pieces : List σ) :
    List ((σ × σ) × Nat) :=
  (windows2 pieces).filterMap (fun p => (rank p).map (fun r => (p, r)))

/-- The lowest-ranked adjacent pair (leftmost among equal ranks). -/
def refBestBy {σ : Type} (rank : σ × σ → Option Nat) (pieces : List σ) : Option (σ × σ) :=
  (minByKey (fun c => c.2) (refCandidatesBy rank pieces)).map (·.1)

/-- Merge all non-overlapping occurrences of the best pair, left to right. -/
def refStepBy {σ : Type} [DecidableEq σ] (cat : σ → σ → σ) (rank : σ × σ → Option Nat)
    (pieces : List σ) : Option (List σ) :=
  (refBestBy rank pieces).map (fun p => replacePairs p.1 p.2 (cat p.1 p.2) pieces)

def refBpeFuelBy {σ : Type} [DecidableEq σ] (cat : σ → σ → σ) (rank : σ × σ → Option Nat) :
    Nat → List σ → List σ
  | 0, ps => ps
  | n + 1, ps =>
    match refStepBy cat rank ps with
    | none => ps
    | some ps' => refBpeFuelBy cat rank n ps'

/-- Reference BPE for a given rank function: repeat `refStepBy` until no adjacent pair has a
rank (at most `pieces.length` rounds are ever needed). -/
def refBpeBy {σ : Type} [DecidableEq σ] (cat : σ → σ → σ) (rank : σ × σ → Option Nat)
    (pieces : List σ) : List σ :=
  refBpeFuelBy cat rank pieces.length pieces

/-- **The reference BPE procedure** of C28: rank = position in the merge list. -/
def refBpe {σ : Type} [DecidableEq σ] (cat : σ → σ → σ) (merges : List (σ × σ))
    (pieces : List σ) : List σ :=
  refBpeBy cat (refRank merges) pieces

/-- Variant in which a duplicated merge entry takes the rank of its last occurrence. -/
def refBpeLast {σ : Type} [DecidableEq σ] (cat : σ → σ → σ) (merges : List (σ × σ))
    (pieces : List σ) : List σ :=
  refBpeBy cat (refRankLast merges) pieces

/-! ## Functional round model and the seeded "first occurrence only" variant -/

/-- One round, functionally: replace all non-overlapping occurrences of the chosen pair. -/
def mergeRoundFun {α : Type} [DecidableEq α] (m : MergeMap α) (toks : List α) : Option (List α) :=
  (findMinPair m toks).map (fun c => replacePairs c.1.1 c.1.2 c.2.2 toks)

def bpeMergeFunFuel {α : Type} [DecidableEq α] (m : MergeMap α) : Nat → List α → List α
  | 0, toks => toks
  | n + 1, toks =>
    match mergeRoundFun m toks with
    | none => toks
    | some t' => bpeMergeFunFuel m n t'

/-- The purely functional model of `bpe_merge` (no index loop, no `Vec::remove`). -/
def bpeMergeFun {α : Type} [DecidableEq α] (m : MergeMap α) (toks : List α) : List α :=
  bpeMergeFunFuel m toks.length toks

/-- Replace only the left-most occurrence of the pair. -/
def replaceFirst {α : Type} [DecidableEq α] (first second merged : α) : List α → List α
  | [] => []
  | x :: t =>
    match t with
    | [] => [x]
    | y :: rest =>
      if x = first ∧ y = second then merged :: rest
      else x :: replaceFirst first second merged t

/-- A *different* algorithm: per round only the left-most occurrence of the lowest-ranked pair is
merged, then the pair is selected again (what a "we already know the position" optimisation
does). Used only to show that it is not what `bpe_merge` / the reference compute. -/
def bpeMergeFirstOnlyFuel {α : Type} [DecidableEq α] (m : MergeMap α) : Nat → List α → List α
  | 0, toks => toks
  | n + 1, toks =>
    match findMinPair m toks with
    | none => toks
    | some c => bpeMergeFirstOnlyFuel m n (replaceFirst c.1.1 c.1.2 c.2.2 toks)

def bpeMergeFirstOnly {α : Type} [DecidableEq α] (m : MergeMap α) (toks : List α) : List α :=
  bpeMergeFirstOnlyFuel m toks.length toks

/-- Rank / merged id of a pair as functions, read off an id-level merge map. -/
def rankOf {α : Type} [DecidableEq α] (m : MergeMap α) (p : α × α) : Option Nat :=
  (lookup m p).map (·.1)

def mergedOf {α : Type} [DecidableEq α] (m : MergeMap α) (a b : α) : α :=
  ((lookup m (a, b)).map (·.2)).getD a

/-- A vocabulary `FxHashMap<String, TokenId>` as an association list, most recent insert first. -/
abbrev Vocab := List (String × Nat)

def vocabGet : Vocab → String → Option Nat
  | [], _ => none
  | (k, i) :: rest, s => if k = s then some i else vocabGet rest s

def vDom (vc : Vocab) (s : String) : Bool := (vocabGet vc s).isSome
def vId (vc : Vocab) (s : String) : Nat := (vocabGet vc s).getD 0

end RtenVerif.Bpe
