/-!
# C15 — executable reference of ONNX operator semantics on integer tensors

Written from the text of the ONNX operator specification (opset 21 forms; no
onnx / onnxruntime reference is available in the sandbox, so this file is part
of the trusted base; `Props/C15.lean` proves laws that validate it).

A tensor is a shape plus its elements in row-major order. Booleans are the
integers 0 / 1. Most operators are written in "index form":
`build outShape (fun idx => … x.get (g idx) …)`, i.e. directly as the formula
the specification gives for one output element. Import-free (core Lean only).

Result convention: `Except String`, error `"err"` = the specification defines
no result (invalid attribute / shape / index), `"skip"` = the specification is
ambiguous or leaves the behaviour undefined for this input (not compared).
-/
namespace RtenVerif.OnnxRef

structure Tensor where
  shape : List Nat
  data : List Int
  deriving Repr, BEq, DecidableEq

abbrev R := Except String
def fail {α : Type} : R α := .error "err"
def ambig {α : Type} : R α := .error "skip"
def guardR (b : Bool) : R Unit := if b then pure () else fail

/-! ## Index space -/

def prod : List Nat → Nat
  | [] => 1
  | d :: ds => d * prod ds

/-- All indices of a shape in row-major order. -/
def allIdx : List Nat → List (List Nat)
  | [] => [[]]
  | d :: ds => (List.range d).flatMap (fun i => (allIdx ds).map (fun r => i :: r))

/-- Row-major linear offset of an index. -/
def ravel : List Nat → List Nat → Nat
  | _ :: ds, i :: is => i * prod ds + ravel ds is
  | _, _ => 0

/-- `idx` is a valid index of shape `s`. -/
def validIdx : List Nat → List Nat → Bool
  | [], [] => true
  | d :: ds, i :: is => decide (i < d) && validIdx ds is
  | _, _ => false

def Tensor.get (t : Tensor) (idx : List Nat) : Int := t.data.getD (ravel t.shape idx) 0

/-- The tensor of shape `s` whose element at `idx` is `f idx`. -/
def build (s : List Nat) (f : List Nat → Int) : Tensor := ⟨s, (allIdx s).map f⟩

def Tensor.wf (t : Tensor) : Bool := t.data.length == prod t.shape

def Tensor.rank (t : Tensor) : Nat := t.shape.length

def scalar (v : Int) : Tensor := ⟨[], [v]⟩

def getN (l : List Nat) (i : Nat) : Nat := l.getD i 0
def getI (l : List Int) (i : Nat) : Int := l.getD i 0

def setAt (l : List Nat) (k v : Nat) : List Nat := l.set k v

def hasDup : List Nat → Bool
  | [] => false
  | x :: xs => xs.contains x || hasDup xs

def sumI (l : List Int) : Int := l.foldl (· + ·) 0
def prodI (l : List Int) : Int := l.foldl (· * ·) 1

/-- Normalise an axis in `[-rank, rank)`. -/
def normAxis (rank : Nat) (a : Int) : R Nat :=
  if a < 0 then (if -a ≤ (rank : Int) then pure (a + rank).toNat else fail)
  else if a < (rank : Int) then pure a.toNat else fail

def normAxes (rank : Nat) (axes : List Int) : R (List Nat) := do
  let ax ← axes.mapM (normAxis rank)
  if hasDup ax then ambig else pure ax

/-! ## Multidirectional broadcasting -/

def bdim (x y : Nat) : Option Nat :=
  if x = y then some x else if x = 1 then some y else if y = 1 then some x else none

/-- Broadcast of two shapes given innermost dimension first. -/
def bshapeRev : List Nat → List Nat → Option (List Nat)
  | [], ys => some ys
  | x :: xs, [] => some (x :: xs)
  | x :: xs, y :: ys =>
    match bdim x y, bshapeRev xs ys with
    | some d, some r => some (d :: r)
    | _, _ => none

def bshape (a b : List Nat) : Option (List Nat) :=
  (bshapeRev a.reverse b.reverse).map List.reverse

def bshapeR (a b : List Nat) : R (List Nat) :=
  match bshape a b with
  | some s => pure s
  | none => fail

/-- Index into an operand of shape `s` for output index `idx` (right-aligned,
size-1 dimensions pinned to 0). -/
def bidx (s idx : List Nat) : List Nat :=
  List.zipWith (fun d i => if d = 1 then 0 else i) s (idx.drop (idx.length - s.length))

/-- `x` broadcast to shape `s` (caller guarantees compatibility). -/
def broadcastTo (x : Tensor) (s : List Nat) : Tensor :=
  build s (fun idx => x.get (bidx x.shape idx))

def binop (f : Int → Int → Int) (a b : Tensor) : R Tensor := do
  let s ← bshapeR a.shape b.shape
  pure (build s (fun idx => f (a.get (bidx a.shape idx)) (b.get (bidx b.shape idx))))

def unop (f : Int → Int) (a : Tensor) : Tensor := ⟨a.shape, a.data.map f⟩

def b2i (b : Bool) : Int := if b then 1 else 0

/-- ONNX `Where(condition, X, Y)`. -/
def whereOp (c x y : Tensor) : R Tensor := do
  let s1 ← bshapeR c.shape x.shape
  let s ← bshapeR s1 y.shape
  pure (build s (fun idx =>
    if c.get (bidx c.shape idx) ≠ 0 then x.get (bidx x.shape idx) else y.get (bidx y.shape idx)))

/-- Variadic Min / Max / Sum: left fold of the broadcasting binary operator. -/
def variadic (f : Int → Int → Int) : List Tensor → R Tensor
  | [] => fail
  | x :: xs => xs.foldlM (binop f) x

/-- Integer `Div`: truncation toward zero (C / numpy `astype` of the true quotient). -/
def divI (x y : Int) : Int := Int.tdiv x y

/-- Integer `Mod`: `fmod = 1` → C `fmod` (remainder has the sign of the dividend);
`fmod = 0` → Python `%` (remainder has the sign of the divisor). -/
def modI (fmod : Bool) (x y : Int) : Int := if fmod then Int.tmod x y else Int.fmod x y

/-- `Clip(x, min?, max?)`: `min(max(x, lo), hi)`. -/
def clipI (lo hi : Option Int) (v : Int) : Int :=
  let v1 := match lo with | some l => max v l | none => v
  match hi with | some h => min v1 h | none => v1

/-- Integer `Pow` (non-negative exponents only; negative exponent on integers is undefined). -/
def powI (x y : Int) : Int := x ^ y.toNat

/-! ## Shape-only operators -/

/-- Resolve the (at most one) `-1` of an already zero-resolved target so that the element count is `n`. -/
def reshapeResolve (n : Nat) (dims : List Int) : R (List Nat) :=
  if (dims.filter (· == -1)).length > 1 then fail
  else
    let known := prod ((dims.filter (· != -1)).map Int.toNat)
    if dims.contains (-1) then
      if known == 0 then ambig
      else if n % known != 0 then fail
      else pure (dims.map (fun d => if d == -1 then n / known else d.toNat))
    else
      if known == n then pure (dims.map Int.toNat) else fail

/-- `Reshape`: `0` copies the input dimension (unless `allowzero`), one `-1` is inferred. -/
def reshapeDims (inShape : List Nat) (spec : List Int) (allowzero : Bool) : R (List Nat) := do
  guardR (spec.all (fun d => d ≥ -1))
  if allowzero && spec.contains 0 && spec.contains (-1) then fail
  -- resolve zeros
  let dims : List Int ← (List.range spec.length).mapM (fun k =>
    let d := getI spec k
    if d == 0 && !allowzero then
      (if k < inShape.length then pure (Int.ofNat (getN inShape k)) else fail)
    else pure d)
  reshapeResolve (prod inShape) dims

def reshape (x : Tensor) (spec : List Int) (allowzero : Bool) : R Tensor := do
  let s ← reshapeDims x.shape spec allowzero
  pure ⟨s, x.data⟩

def flatten (x : Tensor) (axis : Int) : R Tensor := do
  let r := x.rank
  let a ← if axis == (r : Int) then pure r else normAxis r axis
  pure ⟨[prod (x.shape.take a), prod (x.shape.drop a)], x.data⟩

/-- Remove the positions in `axes` from a list. -/
def removeAxes (s : List Nat) (axes : List Nat) : List Nat :=
  ((List.range s.length).filter (fun k => !axes.contains k)).map (getN s)

def squeeze (x : Tensor) (axes : Option (List Int)) : R Tensor := do
  match axes with
  | none => pure ⟨x.shape.filter (· != 1), x.data⟩
  | some axes =>
    let ax ← normAxes x.rank axes
    guardR (ax.all (fun k => getN x.shape k == 1))
    pure ⟨removeAxes x.shape ax, x.data⟩

/-- Insert size-1 dimensions so that they end up at the (sorted) positions `axes` of the result. -/
def insertOnes : List Nat → Nat → List Nat → Nat → List Nat
  | _, _, _, 0 => []
  | s, pos, axes, fuel + 1 =>
    if axes.contains pos then 1 :: insertOnes s (pos + 1) axes fuel
    else match s with
      | [] => []
      | d :: ds => d :: insertOnes ds (pos + 1) axes fuel

def unsqueeze (x : Tensor) (axes : List Int) : R Tensor := do
  let outRank := x.rank + axes.length
  let ax ← axes.mapM (normAxis outRank)
  guardR (!hasDup ax)
  pure ⟨insertOnes x.shape 0 ax outRank, x.data⟩

/-! ## Transpose -/

def isPerm (p : List Nat) : Bool := (List.range p.length).all (fun k => p.contains k)

/-- Input index of `Transpose(perm)` for output index `idx`: `in[perm[k]] = idx[k]`. -/
def unpermute (p idx : List Nat) : List Nat :=
  (List.range p.length).map (fun a => getN idx (p.idxOf a))

def transposeP (x : Tensor) (p : List Nat) : Tensor :=
  build (p.map (getN x.shape)) (fun idx => x.get (unpermute p idx))

def transpose (x : Tensor) (perm : Option (List Int)) : R Tensor := do
  let r := x.rank
  match perm with
  | none => pure (transposeP x (List.range r).reverse)
  | some p =>
    guardR (p.length == r)
    let p' ← p.mapM (fun a => if 0 ≤ a ∧ a < (r : Int) then pure a.toNat else (fail : R Nat))
    guardR (isPerm p')
    pure (transposeP x p')

/-! ## Expand / Tile -/

def expand (x : Tensor) (shape : List Int) : R Tensor := do
  guardR (shape.all (· ≥ 0))
  let s ← bshapeR x.shape (shape.map Int.toNat)
  pure (broadcastTo x s)

/-- `Tile` with natural repeat counts: element `idx` of the result is `x[idx mod shape]`. -/
def tileCore (x : Tensor) (reps : List Nat) : Tensor :=
  build (List.zipWith (fun d r => d * r) x.shape reps)
    (fun idx => x.get (List.zipWith (fun i d => i % d) idx x.shape))

def tile (x : Tensor) (reps : List Int) : R Tensor := do
  guardR (reps.length == x.rank && reps.all (· ≥ 0))
  pure (tileCore x (reps.map Int.toNat))

/-! ## Slice -/

def clampI (lo hi x : Int) : Int := max lo (min hi x)

/-- The specification text and its numpy-based reference implementation disagree for one case: a
negative step whose start lies below `-dim` (text: clamp to index 0; numpy: clamp to "before the first
element") while the end is also before the first element. Text gives `[x[0]]`, numpy gives `[]`. -/
def sliceAmbiguous (dim : Nat) (start stop step : Int) : Bool :=
  let d : Int := dim
  dim != 0 && step < 0 && start + d < 0 && (if stop < 0 then stop + d else stop) < 0

/-- Effective (normalised, clamped) start index: negative values count from the end; clamped into
`[0, dim]` for positive and `[0, dim-1]` for negative stepping. -/
def sliceStart (dim : Nat) (start step : Int) : Int :=
  let d : Int := dim
  if step > 0 then clampI 0 d (if start < 0 then start + d else start)
  else clampI 0 (d - 1) (if start < 0 then start + d else start)

/-- Effective end index: clamped into `[0, dim]` for positive and `[-1, dim-1]` for negative stepping. -/
def sliceStop (dim : Nat) (stop step : Int) : Int :=
  let d : Int := dim
  if step > 0 then clampI 0 d (if stop < 0 then stop + d else stop)
  else clampI (-1) (d - 1) (if stop < 0 then stop + d else stop)

/-- Effective start, number of elements for one axis. -/
def sliceAxis (dim : Nat) (start stop step : Int) : Int × Nat :=
  if dim = 0 then (0, 0)
  else
    let s := sliceStart dim start step
    let e := sliceStop dim stop step
    if step > 0 then (s, ((e - s + step - 1) / step).toNat)
    else (s, ((s - e + (-step) - 1) / (-step)).toNat)

/-- Normalised strided slice: element `idx` of the result is `x[start + idx * step]`. -/
def sliceCore (x : Tensor) (starts steps : List Int) (dims : List Nat) : Tensor :=
  build dims (fun idx =>
    x.get ((List.range idx.length).map (fun k => (getI starts k + (getN idx k : Int) * getI steps k).toNat)))

def slice (x : Tensor) (starts ends : List Int) (axes steps : Option (List Int)) : R Tensor := do
  let r := x.rank
  let n := starts.length
  guardR (ends.length == n)
  let axes ← match axes with
    | some a => do guardR (a.length == n); normAxes r a
    | none => do
      guardR (n ≤ r)
      -- "If axes are omitted, they are set to [0, ..., r-1]": fewer starts than axes is not defined
      if n < r then ambig else pure (List.range n)
  let steps ← match steps with
    | some s => do guardR (s.length == n); pure s
    | none => pure (List.replicate n 1)
  guardR (steps.all (· != 0))
  if (List.range n).any (fun j =>
      sliceAmbiguous (getN x.shape (getN axes j)) (getI starts j) (getI ends j) (getI steps j)) then ambig
  -- per input axis: (start, step, len)
  let per : List (Int × Int × Nat) := (List.range r).map (fun k =>
    let j := axes.idxOf k
    if j < n then
      let (s, len) := sliceAxis (getN x.shape k) (getI starts j) (getI ends j) (getI steps j)
      (s, getI steps j, len)
    else (0, 1, getN x.shape k))
  pure (sliceCore x (per.map (·.1)) (per.map (·.2.1)) (per.map (·.2.2)))

/-! ## Concat / Split -/

/-- Replace position `k` of `l` by `v`. -/
def withAt (l : List Nat) (k v : Nat) : List Nat := l.set k v

/-- Two-tensor concatenation along `ax` (shapes already checked). -/
def concat2 (ax : Nat) (a b : Tensor) : Tensor :=
  let da := getN a.shape ax
  build (withAt a.shape ax (da + getN b.shape ax)) (fun idx =>
    if getN idx ax < da then a.get idx else b.get (withAt idx ax (getN idx ax - da)))

def concat (xs : List Tensor) (axis : Int) : R Tensor :=
  match xs with
  | [] => fail
  | x :: rest => do
    let ax ← normAxis x.rank axis
    guardR (rest.all (fun y => y.rank == x.rank &&
      (List.range x.rank).all (fun k => k == ax || getN y.shape k == getN x.shape k)))
    pure (rest.foldl (concat2 ax) x)

/-- Sub-tensor `[off, off+len)` along `ax`. -/
def narrow (x : Tensor) (ax off len : Nat) : Tensor :=
  build (withAt x.shape ax len) (fun idx => x.get (withAt idx ax (getN idx ax + off)))

def splitSizes (x : Tensor) (ax : Nat) : List Nat → Nat → List Tensor
  | [], _ => []
  | n :: ns, off => narrow x ax off n :: splitSizes x ax ns (off + n)

def split (x : Tensor) (axis : Int) (sizes : Option (List Int)) (nout : Nat) : R (List Tensor) := do
  let ax ← normAxis x.rank axis
  let dim := getN x.shape ax
  match sizes with
  | some sz =>
    guardR (sz.all (· ≥ 0) && sumI sz == dim && sz.length == nout)
    pure (splitSizes x ax (sz.map Int.toNat) 0)
  | none =>
    guardR (nout > 0)
    let chunk := (dim + nout - 1) / nout
    -- "the last chunk will be smaller": an empty last chunk (or an empty axis) is not clearly defined
    if chunk * (nout - 1) ≥ dim then (if nout == 1 && dim > 0 then pure [x] else ambig)
    else
      let sz := (List.range nout).map (fun i => if i + 1 < nout then chunk else dim - chunk * (nout - 1))
      pure (splitSizes x ax sz 0)

/-! ## Gather family -/

/-- Normalise a (possibly negative) index into `[0, dim)`. -/
def normIndex (dim : Nat) (i : Int) : Option Nat :=
  if i < 0 then (if -i ≤ (dim : Int) then some (i + dim).toNat else none)
  else if i < (dim : Int) then some i.toNat else none

def allIndicesOk (dim : Nat) (ind : Tensor) : Bool := ind.data.all (fun i => (normIndex dim i).isSome)

def gather (x ind : Tensor) (axis : Int) : R Tensor := do
  let ax ← normAxis x.rank axis
  let dim := getN x.shape ax
  let outShape := x.shape.take ax ++ ind.shape ++ x.shape.drop (ax + 1)
  if !allIndicesOk dim ind then (if prod outShape == 0 then ambig else fail)
  else
    let q := ind.rank
    pure (build outShape (fun idx =>
      let j := ind.get ((idx.drop ax).take q)
      x.get (idx.take ax ++ [((normIndex dim j).getD 0)] ++ idx.drop (ax + q))))

def gatherElements (x ind : Tensor) (axis : Int) : R Tensor := do
  let ax ← normAxis x.rank axis
  guardR (ind.rank == x.rank)
  let dim := getN x.shape ax
  -- non-axis extents of `indices` must index inside `x`
  if !(List.range x.rank).all (fun k => k == ax || getN ind.shape k ≤ getN x.shape k) then
    (if prod ind.shape == 0 then ambig else fail)
  else if !allIndicesOk dim ind then fail
  else
    pure (build ind.shape (fun idx => x.get (withAt idx ax ((normIndex dim (ind.get idx)).getD 0))))

def gatherND (x ind : Tensor) (batchDims : Int) : R Tensor := do
  guardR (batchDims ≥ 0)
  let b := batchDims.toNat
  let r := x.rank
  let q := ind.rank
  guardR (q ≥ 1 && r ≥ 1 && b < min q r)
  let k := getN ind.shape (q - 1)
  guardR (k ≥ 1 && k + b ≤ r)
  guardR (x.shape.take b == ind.shape.take b)
  let outer := ind.shape.take (q - 1)
  let outShape := outer ++ x.shape.drop (b + k)
  -- every index tuple must be in range
  let tuples := (allIdx outer).map (fun o => (List.range k).map (fun j => ind.get (o ++ [j])))
  let ok := tuples.all (fun t => (List.range k).all (fun j => (normIndex (getN x.shape (b + j)) (getI t j)).isSome))
  if !ok then (if prod outShape == 0 then ambig else fail)
  else
    pure (build outShape (fun idx =>
      let o := idx.take (q - 1)
      let tup := (List.range k).map (fun j => (normIndex (getN x.shape (b + j)) (ind.get (o ++ [j]))).getD 0)
      x.get (o.take b ++ tup ++ idx.drop (q - 1))))

/-! ## Reductions -/

/-- Values reduced into output index `idx` (given in keep-dims form). -/
def reduceVals (x : Tensor) (axes : List Nat) (idx : List Nat) : List Int :=
  let redShape := (List.range x.rank).map (fun k => if axes.contains k then getN x.shape k else 1)
  (allIdx redShape).map (fun r => x.get (List.zipWith (· + ·) idx r))

/-- Generic reduction. `f` folds the (row-major ordered) reduced values; `none` = no value
for an empty set. -/
def reduce (f : List Int → Option Int) (x : Tensor) (axes : Option (List Int)) (keepdims noop : Bool) :
    R Tensor := do
  let r := x.rank
  let axesN ← match axes with
    | some a => normAxes r a
    | none => pure []
  if axesN.isEmpty && noop then pure x
  else
    let ax := if axesN.isEmpty then List.range r else axesN
    let keepShape := (List.range r).map (fun k => if ax.contains k then 1 else getN x.shape k)
    let vals := (allIdx keepShape).map (fun idx => f (reduceVals x ax idx))
    if vals.any Option.isNone then ambig
    else
      let outShape := if keepdims then keepShape else removeAxes x.shape ax
      pure ⟨outShape, vals.map (fun v => v.getD 0)⟩

def minL : List Int → Option Int
  | [] => none
  | x :: xs => some (xs.foldl min x)
def maxL : List Int → Option Int
  | [] => none
  | x :: xs => some (xs.foldl max x)

/-- One step of the arg-extreme scan: state = (best index, best value, next index). -/
def argStep (better : Int → Int → Bool) (selectLast : Bool) (acc : Nat × Int × Nat) (v : Int) : Nat × Int × Nat :=
  if better v acc.2.1 || (selectLast && v == acc.2.1) then (acc.2.2, v, acc.2.2 + 1)
  else (acc.1, acc.2.1, acc.2.2 + 1)

/-- Position of the first (or last) extreme value. -/
def argBest (better : Int → Int → Bool) (selectLast : Bool) : List Int → Option Nat
  | [] => none
  | x :: xs => some (xs.foldl (argStep better selectLast) (0, x, 1)).1

def argReduce (isMax : Bool) (x : Tensor) (axis : Int) (keepdims selectLast : Bool) : R Tensor := do
  let ax ← normAxis x.rank axis
  -- an empty axis has no arg-extreme (numpy raises even when the result would be empty)
  if getN x.shape ax == 0 then ambig else
  reduce (fun vs => (argBest (if isMax then (fun a b => decide (a > b)) else (fun a b => decide (a < b)))
    selectLast vs).map Int.ofNat) x (some [axis]) keepdims false

/-- `CumSum` along the (normalised) axis `ax`: element `idx` sums `x[idx with ax := j]` over the `j`
before (`j ≤ i`, or `j < i` if exclusive) resp. after (`reverse`) `i = idx[ax]`. -/
def cumsumCore (x : Tensor) (ax : Nat) (exclusive reverse : Bool) : Tensor :=
  let dim := getN x.shape ax
  build x.shape (fun idx =>
    let i := getN idx ax
    sumI (((List.range dim).filter (fun j =>
      if reverse then (if exclusive then j > i else j ≥ i) else (if exclusive then j < i else j ≤ i))).map
        (fun j => x.get (withAt idx ax j))))

def cumsum (x : Tensor) (axis : Int) (exclusive reverse : Bool) : R Tensor := do
  let ax ← normAxis x.rank axis
  pure (cumsumCore x ax exclusive reverse)

/-! ## Pad -/

/-- Source coordinate for padded coordinate `c` (already shifted by the begin pad) in `dim`. -/
def padSrc (mode : String) (dim : Nat) (c : Int) : Option Nat :=
  let d : Int := dim
  if 0 ≤ c ∧ c < d then some c.toNat
  else if mode == "edge" then some (clampI 0 (d - 1) c).toNat
  else if mode == "wrap" then some (c % d).toNat
  else if mode == "reflect" then
    if dim ≤ 1 then some 0
    else
      let p := 2 * (d - 1)
      let m := c % p
      some (if m < d then m else p - m).toNat
  else none

/-- Padded tensor of shape `outDims`: element `idx` comes from `x[idx - before]` (mapped back into
range according to `mode`) or is the constant. -/
def padCore (x : Tensor) (before : List Int) (outDims : List Nat) (mode : String) (cval : Int) : Tensor :=
  build outDims (fun idx =>
    let src := (List.range x.rank).map (fun k => padSrc mode (getN x.shape k) ((getN idx k : Int) - getI before k))
    if src.all Option.isSome then x.get (src.map (fun o => o.getD 0)) else cval)

def pad (x : Tensor) (pads : List Int) (cval : Int) (axes : Option (List Int)) (mode : String) : R Tensor := do
  let r := x.rank
  let axes ← match axes with
    | some a => normAxes r a
    | none => pure (List.range r)
  let n := axes.length
  guardR (pads.length == 2 * n)
  guardR (mode == "constant" || mode == "edge" || mode == "reflect" || mode == "wrap")
  let before : List Int := (List.range r).map (fun k =>
    let j := axes.idxOf k; if j < n then getI pads j else 0)
  let after : List Int := (List.range r).map (fun k =>
    let j := axes.idxOf k; if j < n then getI pads (n + j) else 0)
  let outDims : List Int := (List.range r).map (fun k => (getN x.shape k : Int) + getI before k + getI after k)
  guardR (outDims.all (· ≥ 0))
  -- a negative pad that removes more than the axis holds: not defined by the text
  if (List.range r).any (fun k => -(getI before k) > (getN x.shape k : Int) || -(getI after k) > (getN x.shape k : Int)
      || (getI before k < 0 && getI after k < 0 && -(getI before k) - getI after k > (getN x.shape k : Int))) then ambig
  -- non-constant modes with negative pads or empty source dimensions: not defined by the text
  if mode != "constant" &&
      ((before ++ after).any (· < 0) ||
       (List.range r).any (fun k => getN x.shape k == 0 && (getI before k != 0 || getI after k != 0))) then ambig
  else
    pure (padCore x before (outDims.map Int.toNat) mode cval)

/-! ## Trilu / Range / OneHot / EyeLike -/

def trilu (x : Tensor) (k : Int) (upper : Bool) : R Tensor := do
  let r := x.rank
  guardR (r ≥ 2)
  pure (build x.shape (fun idx =>
    let i : Int := getN idx (r - 2)
    let j : Int := getN idx (r - 1)
    if (if upper then j ≥ i + k else j ≤ i + k) then x.get idx else 0))

def rangeOp (start limit delta : Int) : R Tensor :=
  if delta == 0 then ambig
  else
    let n := if delta > 0 then ((limit - start + delta - 1) / delta).toNat
             else ((start - limit + (-delta) - 1) / (-delta)).toNat
    pure ⟨[n], (List.range n).map (fun (i : Nat) => start + (i : Int) * delta)⟩

def oneHot (ind : Tensor) (depth : Int) (offV onV : Int) (axis : Int) : R Tensor := do
  let r := ind.rank
  guardR (depth ≥ 1)
  let ax ← if axis == (r : Int) then pure r else normAxis (r + 1) axis
  let outShape := ind.shape.take ax ++ [depth.toNat] ++ ind.shape.drop ax
  pure (build outShape (fun idx =>
    let v := ind.get (idx.take ax ++ idx.drop (ax + 1))
    let v' := if v < 0 then v + depth else v
    if v' == (getN idx ax : Int) then onV else offV))

def eyeLike (shape : List Nat) (k : Int) : R Tensor := do
  guardR (shape.length == 2)
  pure (build shape (fun idx => if (getN idx 1 : Int) == (getN idx 0 : Int) + k then 1 else 0))

/-! ## MatMul -/

def matmul (a b : Tensor) : R Tensor := do
  guardR (a.rank ≥ 1 && b.rank ≥ 1)
  -- 1-D promotion
  let a' : Tensor := if a.rank == 1 then ⟨1 :: a.shape, a.data⟩ else a
  let b' : Tensor := if b.rank == 1 then ⟨b.shape ++ [1], b.data⟩ else b
  let ra := a'.rank
  let rb := b'.rank
  let m := getN a'.shape (ra - 2)
  let k := getN a'.shape (ra - 1)
  let k2 := getN b'.shape (rb - 2)
  let n := getN b'.shape (rb - 1)
  guardR (k == k2)
  let ba := a'.shape.take (ra - 2)
  let bb := b'.shape.take (rb - 2)
  let bs ← bshapeR ba bb
  let full := build (bs ++ [m, n]) (fun idx =>
    let bi := idx.take bs.length
    let i := getN idx bs.length
    let j := getN idx (bs.length + 1)
    sumI ((List.range k).map (fun l => a'.get (bidx ba bi ++ [i, l]) * b'.get (bidx bb bi ++ [l, j]))))
  let outShape := bs ++ (if a.rank == 1 then [] else [m]) ++ (if b.rank == 1 then [] else [n])
  pure ⟨outShape, full.data⟩

/-! ## Scatter family -/

def scatterCombine (red : String) (old upd : Int) : Int :=
  if red == "add" then old + upd
  else if red == "mul" then old * upd
  else if red == "min" then min old upd
  else if red == "max" then max old upd
  else upd

/-- Apply `(offset, update)` pairs in order; with `reduction = none` duplicate targets are undefined. -/
def scatterApply (data : List Int) (red : String) (ups : List (Nat × Int)) : R (List Int) :=
  if red == "none" && hasDup (ups.map (·.1)) then ambig
  else pure (ups.foldl (fun d (o, u) => d.set o (scatterCombine red (getI d o) u)) data)

def scatterElements (x ind upd : Tensor) (axis : Int) (red : String) : R Tensor := do
  let ax ← normAxis x.rank axis
  guardR (ind.rank == x.rank && upd.shape == ind.shape)
  guardR (red == "none" || red == "add" || red == "mul" || red == "min" || red == "max")
  let dim := getN x.shape ax
  if !(List.range x.rank).all (fun k => k == ax || getN ind.shape k ≤ getN x.shape k) then
    (if prod ind.shape == 0 then ambig else fail)
  else if !allIndicesOk dim ind then fail
  else
    let ups := (allIdx ind.shape).map (fun idx =>
      (ravel x.shape (withAt idx ax ((normIndex dim (ind.get idx)).getD 0)), upd.get idx))
    let d ← scatterApply x.data red ups
    pure ⟨x.shape, d⟩

def scatterND (x ind upd : Tensor) (red : String) : R Tensor := do
  let r := x.rank
  let q := ind.rank
  guardR (q ≥ 1 && r ≥ 1)
  guardR (red == "none" || red == "add" || red == "mul" || red == "min" || red == "max")
  let k := getN ind.shape (q - 1)
  guardR (k ≥ 1 && k ≤ r)
  let outer := ind.shape.take (q - 1)
  let sliceShape := x.shape.drop k
  guardR (upd.shape == outer ++ sliceShape)
  let tuples := (allIdx outer).map (fun o => (List.range k).map (fun j => ind.get (o ++ [j])))
  let ok := tuples.all (fun t => (List.range k).all (fun j => (normIndex (getN x.shape j) (getI t j)).isSome))
  if !ok then (if prod upd.shape == 0 then ambig else fail)
  else
    let ups := (allIdx outer).flatMap (fun o =>
      let tup := (List.range k).map (fun j => (normIndex (getN x.shape j) (ind.get (o ++ [j]))).getD 0)
      (allIdx sliceShape).map (fun s => (ravel x.shape (tup ++ s), upd.get (o ++ s))))
    let d ← scatterApply x.data red ups
    pure ⟨x.shape, d⟩

/-! ## TopK -/

/-- Insert keeping the list sorted by `before` (stable: equal elements stay in insertion order). -/
def insertBy (before : (Int × Nat) → (Int × Nat) → Bool) (e : Int × Nat) : List (Int × Nat) → List (Int × Nat)
  | [] => [e]
  | y :: ys => if before e y then e :: y :: ys else y :: insertBy before e ys

def sortBy (before : (Int × Nat) → (Int × Nat) → Bool) (l : List (Int × Nat)) : List (Int × Nat) :=
  l.foldr (insertBy before) []

/-- TopK order on (value, index) pairs: larger (or smaller) value first, equal values by lower index. -/
def topkBefore (largest : Bool) (a b : Int × Nat) : Bool :=
  if a.1 == b.1 then decide (a.2 < b.2) else if largest then decide (a.1 > b.1) else decide (a.1 < b.1)

/-- `TopK` (sorted): values and indices; ties broken by the lower index. -/
def topk (x : Tensor) (k : Int) (axis : Int) (largest : Bool) : R (Tensor × Tensor) := do
  guardR (x.rank ≥ 1)
  let ax ← normAxis x.rank axis
  let dim := getN x.shape ax
  guardR (0 ≤ k && k ≤ (dim : Int))
  let kk := k.toNat
  let before := topkBefore largest
  let lane := fun (idx : List Nat) =>
    sortBy before ((List.range dim).map (fun j => (x.get (withAt idx ax j), j)))
  let outShape := withAt x.shape ax kk
  let vals := build outShape (fun idx => ((lane idx).getD (getN idx ax) (0, 0)).1)
  let inds := build outShape (fun idx => (((lane idx).getD (getN idx ax) (0, 0)).2 : Int))
  pure (vals, inds)

/-! ## DepthToSpace (specified as reshape / transpose / reshape) -/

def depthToSpace (x : Tensor) (bs : Int) (mode : String) : R Tensor := do
  guardR (x.rank == 4 && bs ≥ 1)
  let b := bs.toNat
  let n := getN x.shape 0; let c := getN x.shape 1; let h := getN x.shape 2; let w := getN x.shape 3
  guardR (c % (b * b) == 0)
  let c' := c / (b * b)
  if mode == "DCR" then
    let t := transposeP ⟨[n, b, b, c', h, w], x.data⟩ [0, 3, 4, 1, 5, 2]
    pure ⟨[n, c', h * b, w * b], t.data⟩
  else if mode == "CRD" then
    let t := transposeP ⟨[n, c', b, b, h, w], x.data⟩ [0, 1, 4, 2, 5, 3]
    pure ⟨[n, c', h * b, w * b], t.data⟩
  else fail

/-! ## Pooling (MaxPool / AveragePool / Global*Pool) on integer-valued data

Output extent per the specification: `floor` or (`ceil_mode`) `ceil` of
`(in + pad_begin + pad_end - ((k-1)*dilation + 1)) / stride + 1`; with `ceil_mode` "sliding windows
that would start in the right padded region are ignored". `auto_pad` SAME_UPPER / SAME_LOWER:
`ceil(in / stride)` with the padding split so that the extra unit goes to the end / the beginning;
VALID: no padding. -/

/-- `(out, padBegin, padEnd)` for one spatial axis. -/
def poolAxis (inSize k stride dil padB padE : Nat) (ceil : Bool) (autoPad : String) : R (Nat × Nat × Nat) := do
  guardR (k ≥ 1 && stride ≥ 1 && dil ≥ 1)
  let eff := (k - 1) * dil + 1
  if autoPad == "SAME_UPPER" || autoPad == "SAME_LOWER" then
    if inSize == 0 then ambig else
    let out := (inSize + stride - 1) / stride
    let total := ((out - 1) * stride + eff) - inSize
    let small := total / 2
    let big := total - small
    if autoPad == "SAME_UPPER" then pure (out, small, big) else pure (out, big, small)
  else
    let (pb, pe) := if autoPad == "VALID" then (0, 0) else (padB, padE)
    guardR (autoPad == "VALID" || autoPad == "NOTSET")
    -- the deprecated `auto_pad=VALID` formula ignores `ceil_mode`; implementations differ
    if autoPad == "VALID" && ceil then ambig else
    let padded := inSize + pb + pe
    -- kernel larger than the padded input, or padding that can hold a whole window: not defined
    if padded < eff || pb ≥ eff || pe ≥ eff then ambig else
    let w := padded - eff
    let out0 := if ceil then (w + stride - 1) / stride + 1 else w / stride + 1
    let out := if ceil && (out0 - 1) * stride ≥ inSize + pb then out0 - 1 else out0
    pure (out, pb, pe)

/-- One pooling window: for every kernel offset, the input element (`some v`), `none` if the
position is padding; the flag tells whether the position lies inside the explicitly padded extent. -/
def poolWindow (x : Tensor) (nc o kernel strides dils padB padE : List Nat) : List (Option Int × Bool) :=
  let sp := x.shape.drop 2
  let n := kernel.length
  (allIdx kernel).map (fun kk =>
    let pos : List Int := (List.range n).map (fun a =>
      ((getN o a * getN strides a + getN kk a * getN dils a : Nat) : Int) - (getN padB a : Int))
    let inside := (List.range n).all (fun a => 0 ≤ getI pos a && getI pos a < (getN sp a : Int))
    let inPadded := (List.range n).all (fun a => getI pos a < ((getN sp a + getN padE a : Nat) : Int))
    (if inside then some (x.get (nc ++ pos.map Int.toNat)) else none, inPadded))

/-- `mode` = "max" | "avg". For "avg" the result is `sum * scale / count` which must be an exact
integer (the harness chooses `scale` as a common multiple of all possible counts and multiplies
rten's f32 average by it). -/
def pool (mode : String) (x : Tensor) (kernel strides dils pads : List Nat) (ceil : Bool) (autoPad : String)
    (countIncludePad : Bool) (scale : Int) : R Tensor := do
  let n := kernel.length
  guardR (x.rank == n + 2 && n ≥ 1)
  guardR (strides.length == n && dils.length == n && pads.length == 2 * n)
  let sp := x.shape.drop 2
  let geo ← (List.range n).mapM (fun a =>
    poolAxis (getN sp a) (getN kernel a) (getN strides a) (getN dils a) (getN pads a) (getN pads (n + a)) ceil autoPad)
  let outSp := geo.map (·.1)
  let padB := geo.map (·.2.1)
  let padE := geo.map (·.2.2)
  let outShape := x.shape.take 2 ++ outSp
  let cells := (allIdx outShape).map (fun idx =>
    let win := poolWindow x (idx.take 2) (idx.drop 2) kernel strides dils padB padE
    let vals := win.filterMap (·.1)
    if mode == "max" then maxL vals
    else
      let cnt : Int := if countIncludePad then ((win.filter (·.2)).length : Int) else (vals.length : Int)
      -- a window hanging over the padded extent with count_include_pad: divisor not clearly defined
      if countIncludePad && win.any (fun p => !p.2) then none
      else if cnt == 0 then none
      else if (sumI vals * scale) % cnt != 0 then none
      else some (sumI vals * scale / cnt))
  if cells.any Option.isNone then ambig
  else pure ⟨outShape, cells.map (fun v => v.getD 0)⟩

/-! ## Conv over integers -/

/-- `Conv` (any number of spatial axes, groups, strides, dilations, pads / auto_pad, optional bias). -/
def conv (x w : Tensor) (bias : Option Tensor) (strides dils pads : List Nat) (group : Nat) (autoPad : String) :
    R Tensor := do
  let n := x.rank - 2
  guardR (x.rank ≥ 3 && w.rank == x.rank && group ≥ 1)
  guardR (strides.length == n && dils.length == n && pads.length == 2 * n)
  let c := getN x.shape 1
  let m := getN w.shape 0
  let cg := getN w.shape 1
  guardR (c == cg * group && m % group == 0)
  match bias with
  | some b => guardR (b.shape == [m])
  | none => pure ()
  let sp := x.shape.drop 2
  let kernel := w.shape.drop 2
  let geo ← (List.range n).mapM (fun a =>
    poolAxis (getN sp a) (getN kernel a) (getN strides a) (getN dils a) (getN pads a) (getN pads (n + a)) false autoPad)
  let outSp := geo.map (·.1)
  let padB := geo.map (·.2.1)
  let mg := m / group
  pure (build ([getN x.shape 0, m] ++ outSp) (fun idx =>
    let b := getN idx 0
    let oc := getN idx 1
    let g := oc / mg
    let o := idx.drop 2
    let acc := sumI ((List.range cg).map (fun ci =>
      sumI ((allIdx kernel).map (fun kk =>
        let pos : List Int := (List.range n).map (fun a =>
          ((getN o a * getN strides a + getN kk a * getN dils a : Nat) : Int) - (getN padB a : Int))
        if (List.range n).all (fun a => 0 ≤ getI pos a && getI pos a < (getN sp a : Int)) then
          x.get ([b, g * cg + ci] ++ pos.map Int.toNat) * w.get ([oc, ci] ++ kk)
        else 0))))
    acc + (match bias with | some bt => getI bt.data oc | none => 0)))

/-! ## Shape / Size / NonZero -/

def shapeOp (x : Tensor) (start : Int) (stop : Option Int) : Tensor :=
  let r : Int := x.rank
  let s := clampI 0 r (if start < 0 then start + r else start)
  let e0 := stop.getD r
  let e := clampI 0 r (if e0 < 0 then e0 + r else e0)
  let dims := (x.shape.drop s.toNat).take (e - s).toNat
  ⟨[dims.length], dims.map Int.ofNat⟩

def nonZero (x : Tensor) : Tensor :=
  let hits := (allIdx x.shape).filter (fun idx => x.get idx != 0)
  let r := x.rank
  build [r, hits.length] (fun idx => (getN (hits.getD (getN idx 1) []) (getN idx 0) : Int))

end RtenVerif.OnnxRef
