/-!
# C16 — model of `rten-gemm`'s blocked matrix multiplication (`gemm_impl`)

Import-free, executable.  The model follows `rten-gemm/src/lib.rs`:

* `depth_block_size` / `col_block_size` / `row_block_size` (numeric constants are parameters,
  re-extracted from the source into `Generated/GemmConsts.lean`),
* `range_chunks` (`rten-base/src/iter/range.rs`) as the iterator's `next` loop,
* the loop nest of `gemm_impl` (column blocks × depth blocks × row blocks) and of `gemm_block`
  (column tiles × row tiles), `OutputTiles::tile` (`used_rows` / `used_cols`),
* effective beta (`depth_range.start == 0`) and the bias rule of `gemm_block`,
* the argument checks, the empty-output and zero-depth branches and the `gemv` fast path,
* `pack_a_block` / `pack_b_block` panel layouts (`packing.rs`) as index maps.

The micro-kernel is abstract: `tile ← α·A_blk·B_blk + β_eff·tile`, where `β_eff = 0` means
"do not read the tile" (the output may be uninitialised: `none`).  Scalars live in any type with
`+ * 0 1`; the theorems (Props/C16.lean) are over an arbitrary commutative semiring, the driver
instantiates `Int`.
-/
namespace RtenVerif.Gemm

/-! ## Integer helpers (Rust `usize` methods) -/

/-- `usize::div_ceil`. -/
def divCeil (x n : Nat) : Nat := if x % n > 0 then x / n + 1 else x / n

/-- `usize::next_multiple_of`. -/
def nextMultipleOf (x n : Nat) : Nat := if x % n = 0 then x else x + (n - x % n)

/-- Numeric constants appearing in the blocking formulas of `lib.rs`. -/
structure BlockConsts where
  /-- `depth_block_size`: `let max = 1024 / size_of::<RhsT>()`. -/
  depthBytes : Nat
  /-- `col_block_size`: `128.min(b_cols)`. -/
  colLower : Nat
  /-- `col_block_size`: `.min(1024)`. -/
  colUpper : Nat
  /-- `row_block_size`: `64.min(a_rows)`. -/
  rowMax : Nat
  /-- `gemv`: `b_cols.div_ceil(threads).max(128)`. -/
  gemvColMin : Nat
  /-- `gemv`: k block size if `b.row_stride() == 1`. -/
  gemvKUnitRow : Nat
  /-- `gemv`: k block size otherwise. -/
  gemvKOther : Nat
deriving Repr, DecidableEq

/-- `depth_block_size::<RhsT>(a_cols, min_size)`. -/
def depthBlockSize (k : BlockConsts) (elemSize aCols : Nat) (minSize : Option Nat) : Nat :=
  max (min (k.depthBytes / elemSize) aCols) (minSize.getD 0)

/-- `col_block_size(b_cols, nr)` with `parallelism = threads`. -/
def colBlockSize (k : BlockConsts) (bCols nr threads : Nat) : Nat :=
  nextMultipleOf (min (max (bCols / threads) (min k.colLower bCols)) k.colUpper) nr

/-- `row_block_size(a_rows, mr)`. -/
def rowBlockSize (k : BlockConsts) (aRows mr : Nat) : Nat :=
  nextMultipleOf (min k.rowMax aRows) mr

/-- `range_chunks(start..end, chunk)` collected: the iterator's `next`, run with `fuel` steps
(`fuel ≥ end - start` suffices when `chunk > 0`; with `chunk = 0` the real iterator never ends). -/
def rangeChunks : Nat → Nat → Nat → Nat → List (Nat × Nat)
  | 0, _, _, _ => []
  | fuel + 1, s, e, c =>
    if s < e then
      let e' := min (s + c) e
      (s, e') :: rangeChunks fuel (s + (e' - s)) e c
    else []

/-- Depth blocks of `gemm_impl`: `range_chunks(0..a.cols(), kc)`. -/
def depthBlocks (K kc : Nat) : List (Nat × Nat) := rangeChunks K 0 K kc

/-- `(start, end)` of block `i` in the index-based block loops:
`start = i * bs; end = (start + bs).min(n)`. -/
def blockRange (n bs i : Nat) : Nat × Nat := (i * bs, min (i * bs + bs) n)

/-! ## Kernel invocations -/

/-- One micro-kernel invocation made by `gemm_block`. -/
structure Call where
  rowTile : Nat
  colTile : Nat
  /-- `OutputTile::used_rows` -/
  usedRows : Nat
  /-- `OutputTile::used_cols` -/
  usedCols : Nat
  dStart : Nat
  dEnd : Nat
  /-- effective beta is the caller's beta (otherwise it is one) -/
  betaUser : Bool
  /-- the bias vector is added after this call -/
  bias : Bool
deriving Repr, DecidableEq

/-- `OutputTiles::tile(rt, ct)` sizes + the flags `gemm_impl` / `gemm_block` derive from the
depth range.  (The `assert!(row < n_row_tiles && col < n_col_tiles)` of `tile` is shown never
to fire: `schedule_tiles_valid`.) -/
def mkCall (M N mr nr : Nat) (d : Nat × Nat) (rt ct : Nat) : Call :=
  { rowTile := rt, colTile := ct,
    usedRows := min (M - rt * mr) mr, usedCols := min (N - ct * nr) nr,
    dStart := d.1, dEnd := d.2, betaUser := d.1 == 0, bias := d.1 == 0 }

/-- Tile index range `start / t .. end.div_ceil(t)` passed to `gemm_block`. -/
def tileRange (s e t : Nat) : List Nat := List.range' (s / t) (divCeil e t - s / t)

/-- `gemm_block`: loop over column tiles, then row tiles. -/
def gemmBlock (M N mr nr : Nat) (colR rowR d : Nat × Nat) : List Call :=
  (tileRange colR.1 colR.2 nr).flatMap fun ct =>
    (tileRange rowR.1 rowR.2 mr).map fun rt => mkCall M N mr nr d rt ct

/-- The loop nest of `gemm_impl` (single-threaded order): column blocks, depth blocks, row
blocks, then `gemm_block`. -/
def schedule (M N K mr nr mc nc kc : Nat) : List Call :=
  (List.range (divCeil N nc)).flatMap fun ci =>
    (depthBlocks K kc).flatMap fun d =>
      (List.range (divCeil M mc)).flatMap fun ri =>
        gemmBlock M N mr nr (blockRange N nc ci) (blockRange M mc ri) d

/-- Element `(r, c)` lies in the part of the tile that the call writes. -/
def Call.covers (mr nr : Nat) (cl : Call) (r c : Nat) : Bool :=
  decide (cl.rowTile * mr ≤ r) && decide (r < cl.rowTile * mr + cl.usedRows) &&
  decide (cl.colTile * nr ≤ c) && decide (c < cl.colTile * nr + cl.usedCols)

/-! ## Semantics over an abstract scalar type -/

section Sem
variable {α : Type} [Add α] [Mul α] [Zero α] [One α] [DecidableEq α]

/-- `Σ_{i < n} f (s + i)`. -/
def sumFrom (f : Nat → α) (s : Nat) : Nat → α
  | 0 => 0
  | n + 1 => sumFrom f s n + f (s + n)

/-- Output matrix contents; `none` = uninitialised memory. -/
abbrev OutMat (α : Type) := Nat → Nat → Option α

inductive Bias (α : Type) where
  | none
  | row (b : Nat → α)
  | col (b : Nat → α)

/-- `*out_el = *out_el + bias[..]`. -/
def addBias (bias : Bias α) (r c : Nat) (v : Option α) : Option α :=
  match bias with
  | .none => v
  | .row b => v.map (· + b c)
  | .col b => v.map (· + b r)

/-- Specification assumed of every micro-kernel, per output element: with `beta = 0` the old
value is not read (it may be uninitialised); otherwise it is read (reading uninitialised memory
poisons the result: `none`). -/
def kernelElem (alpha s beta : α) (old : Option α) : Option α :=
  if beta = 0 then some (alpha * s) else old.map fun x => alpha * s + beta * x

/-- Dot product of row `r` of A and column `c` of B over the depth range `[s, s+len)`. -/
def dot (A B : Nat → Nat → α) (r c s len : Nat) : α := sumFrom (fun k => A r k * B k c) s len

/-- What one kernel call (plus the bias step of `gemm_block`) does to one covered element. -/
def elemStep (alpha beta : α) (bias : Bias α) (A B : Nat → Nat → α) (r c : Nat)
    (v : Option α) (cl : Call) : Option α :=
  let v' := kernelElem alpha (dot A B r c cl.dStart (cl.dEnd - cl.dStart))
    (if cl.betaUser then beta else 1) v
  if cl.bias then addBias bias r c v' else v'

/-- Effect of one kernel call on the output matrix. -/
def applyCall (mr nr : Nat) (alpha beta : α) (bias : Bias α) (A B : Nat → Nat → α)
    (C : OutMat α) (cl : Call) : OutMat α :=
  fun r c => if cl.covers mr nr r c then elemStep alpha beta bias A B r c (C r c) cl else C r c

/-- Run a list of kernel calls in order. -/
def runCalls (mr nr : Nat) (alpha beta : α) (bias : Bias α) (A B : Nat → Nat → α)
    (C : OutMat α) (calls : List Call) : OutMat α :=
  calls.foldl (applyCall mr nr alpha beta bias A B) C

/-- The zero-depth branch of `gemm_impl`: `fill(0)` or `x * beta`, then bias. -/
def zeroDepth (M N : Nat) (beta : α) (bias : Bias α) (C : OutMat α) : OutMat α :=
  fun r c =>
    if r < M ∧ c < N then
      addBias bias r c (if beta = 0 then some 0 else (C r c).map (· * beta))
    else C r c

/-! ### gemv fast path -/

/-- Events of `gemv`: a `gemv_kernel` call on a column block and k block, or the bias loop that
ends a column block. -/
inductive GemvEv where
  | kernel (cStart cEnd dStart dEnd : Nat) (betaUser : Bool)
  | bias (cStart cEnd : Nat)
deriving Repr, DecidableEq

/-- k-block calls of one column block: the first uses the caller's beta (`effective_beta` is
reset to one after each call). -/
def gemvKCalls (cs ce : Nat) : Bool → List (Nat × Nat) → List GemvEv
  | _, [] => []
  | first, d :: ds => GemvEv.kernel cs ce d.1 d.2 first :: gemvKCalls cs ce false ds

/-- `gemv`: `par_chunks_mut(b_block_size)` over the output, `range_chunks(0..a_cols, k_block_size)`
inside, bias at the end of each column block. -/
def gemvSchedule (k : BlockConsts) (N K threads : Nat) (bRowStride1 : Bool) : List GemvEv :=
  let bbs := max (divCeil N threads) k.gemvColMin
  let kbs := if bRowStride1 then k.gemvKUnitRow else k.gemvKOther
  (List.range (divCeil N bbs)).flatMap fun ci =>
    let cr := blockRange N bbs ci
    gemvKCalls cr.1 cr.2 true (rangeChunks K 0 K kbs) ++ [GemvEv.bias cr.1 cr.2]

/-- `gemv_kernel` computes `y = alpha·(a B) + beta·y`; the bias loop adds `bias[0]` (column
bias) or `bias[col]` (row bias).  Only row 0 exists. -/
def applyGemv (alpha beta : α) (bias : Bias α) (A B : Nat → Nat → α) (C : OutMat α)
    (ev : GemvEv) : OutMat α :=
  fun r c =>
    match ev with
    | .kernel cs ce ds de bu =>
      if r = 0 ∧ cs ≤ c ∧ c < ce then
        kernelElem alpha (dot A B 0 c ds (de - ds)) (if bu then beta else 1) (C r c)
      else C r c
    | .bias cs ce => if r = 0 ∧ cs ≤ c ∧ c < ce then addBias bias 0 c (C r c) else C r c

def runGemv (alpha beta : α) (bias : Bias α) (A B : Nat → Nat → α) (C : OutMat α)
    (evs : List GemvEv) : OutMat α :=
  evs.foldl (applyGemv alpha beta bias A B) C

/-! ## `gemm_impl` -/

inductive GemmErr where
  | kSizeMismatch | wrongBiasSize | wrongQuantParamSize | outputSizeMismatch
  | packedDataKernelMismatch | packedDataBlockingMismatch
deriving Repr, DecidableEq

/-- Tile sizes and identity of a kernel. -/
structure KernelCfg where
  id : Nat
  mr : Nat
  nr : Nat
  /-- `size_of::<RhsT>()` -/
  elemSize : Nat
deriving Repr, DecidableEq

/-- Metadata stored by `prepack_a` / `prepack_b` that `validate` inspects. -/
structure PackedMeta where
  panelSize : Nat
  kernelId : Nat
  depthBlock : Nat
deriving Repr, DecidableEq

/-- `prepack_a` (`panelIsMr = true`) / `prepack_b`: `depth_block_size(depth, None)`. -/
def prepackMeta (k : BlockConsts) (kern : KernelCfg) (panelIsMr : Bool) (depth : Nat) : PackedMeta :=
  { panelSize := if panelIsMr then kern.mr else kern.nr, kernelId := kern.id,
    depthBlock := depthBlockSize k kern.elemSize depth none }

/-- `PackedAMatrix::validate` / `PackedBMatrix::validate`. -/
def validatePacked (kern : KernelCfg) (panel kc : Nat) (m : PackedMeta) : Except GemmErr Unit :=
  if m.panelSize ≠ panel ∨ m.kernelId ≠ kern.id then .error .packedDataKernelMismatch
  else if m.depthBlock ≠ kc then .error .packedDataBlockingMismatch
  else .ok ()

/-- Which path `gemm_impl` took (for the trace correspondence). -/
inductive Path where
  | none
  | gemv (evs : List GemvEv)
  | gemm (mc nc kc : Nat) (calls : List Call)

/-- Shape-level inputs of `gemm_impl`. `aPacked` / `bPacked`: `some meta` for prepacked inputs;
`bOther`: B is neither `Unpacked` nor `Packed` (im2col).  `GemmInputB::BlockQuantized` is not
modelled here (it changes `depth_min`; property C37); `BlockQuantizedInputNotSupported` cannot
arise for f32 because every f32 kernel implements `pack_block_quant`. -/
structure Problem where
  M : Nat
  Ka : Nat
  Kb : Nat
  N : Nat
  outLen : Nat
  /-- `some len` for a row bias -/
  rowBiasLen : Option Nat
  /-- `some len` for a column bias -/
  colBiasLen : Option Nat
  /-- `a_quant.zero_point.len()` if quantization parameters are passed for A (the f32 kernels
  ignore their contents, but `gemm_impl` checks the length for every element type) -/
  aQuantLen : Option Nat
  /-- `b_quant.zero_point.len()` -/
  bQuantLen : Option Nat
  aPacked : Option PackedMeta
  bPacked : Option PackedMeta
  bOther : Bool
  bRowStride1 : Bool
  threads : Nat

/-- `bias.len() == b.cols()` / `== a.rows()` check (also used for the zero-point lengths), negated. -/
def biasLenBad (len : Option Nat) (n : Nat) : Bool :=
  match len with
  | some l => l != n
  | none => false

/-- Control flow of `gemm_impl` down to the schedule of kernel calls. -/
def gemmPath (k : BlockConsts) (kern : KernelCfg) (p : Problem) : Except GemmErr Path :=
  if p.Ka ≠ p.Kb then .error .kSizeMismatch
  else if biasLenBad p.rowBiasLen p.N then .error .wrongBiasSize
  else if biasLenBad p.colBiasLen p.M then .error .wrongBiasSize
  else if biasLenBad p.aQuantLen p.M then .error .wrongQuantParamSize
  else if biasLenBad p.bQuantLen p.N then .error .wrongQuantParamSize
  else if p.outLen ≠ p.M * p.N then .error .outputSizeMismatch
  else if p.M = 0 ∨ p.N = 0 then .ok .none
  else if p.Ka = 0 then .ok .none
  else if p.M = 1 ∧ p.aPacked.isNone ∧ p.bPacked.isNone ∧ !p.bOther then
    .ok (.gemv (gemvSchedule k p.N p.Ka p.threads p.bRowStride1))
  else
    let nc := colBlockSize k p.N kern.nr p.threads
    let mc := rowBlockSize k p.M kern.mr
    let kc := depthBlockSize k kern.elemSize p.Ka none
    match (match p.aPacked with | some m => validatePacked kern kern.mr kc m | none => .ok ()) with
    | .error e => .error e
    | .ok () =>
      match (match p.bPacked with | some m => validatePacked kern kern.nr kc m | none => .ok ()) with
      | .error e => .error e
      | .ok () => .ok (.gemm mc nc kc (schedule p.M p.N p.Ka kern.mr kern.nr mc nc kc))

/-- `gemm_impl`: the resulting output matrix (entries outside `M × N` are unchanged). -/
def gemmImpl (k : BlockConsts) (kern : KernelCfg) (p : Problem) (alpha beta : α) (bias : Bias α)
    (A B : Nat → Nat → α) (C : OutMat α) : Except GemmErr (OutMat α) :=
  match gemmPath k kern p with
  | .error e => .error e
  | .ok .none =>
    if p.M = 0 ∨ p.N = 0 then .ok C else .ok (zeroDepth p.M p.N beta bias C)
  | .ok (.gemv evs) => .ok (runGemv alpha beta bias A B C evs)
  | .ok (.gemm _ _ _ calls) => .ok (runCalls kern.mr kern.nr alpha beta bias A B C calls)

end Sem

/-! ## Packed panel layouts (`packing.rs`) -/

/-- `pack_a_block::<T, MR>`: offset (in elements) of element `(row, col)` of the block
`rows × cols` (`row < rows`, `col < cols`): panels of `MR` rows, row-major inside a panel. -/
def packAOffset (mr cols row col : Nat) : Nat := (row / mr) * (mr * cols) + (row % mr) * cols + col

/-- `pack_b_block::<T, NR>`: offset of element `(row, col)` of the block: panels of `NR`
columns, row-major (`rows × NR`) inside a panel. -/
def packBOffset (nr rows row col : Nat) : Nat := (col / nr) * (rows * nr) + row * nr + (col % nr)

/-- `pack_a_block` as a list of `Option (row, col)` slots (`none` = zero padding), in write
order: for each panel, the rows present, then the padding rows. -/
def packASlots (mr rows cols : Nat) : List (Option (Nat × Nat)) :=
  (rangeChunks rows 0 rows mr).flatMap fun pr =>
    ((List.range' pr.1 (pr.2 - pr.1)).flatMap fun row =>
      (List.range cols).map fun col => some (row, col)) ++
    ((List.range' pr.2 (pr.1 + mr - pr.2)).flatMap fun _ => List.replicate cols none)

/-- `pack_b_block` as a list of slots in write order: for each panel, for each row, `NR`
columns (padding beyond the block's columns). -/
def packBSlots (nr rows cols : Nat) : List (Option (Nat × Nat)) :=
  (List.range (divCeil cols nr)).flatMap fun panel =>
    (List.range rows).flatMap fun row =>
      (List.range nr).map fun j =>
        if panel * nr + j < cols then some (row, panel * nr + j) else none

/-! ## A micro-kernel specification that reads the packed panels

`simd_gemm` (used by every f32 kernel) reads element `(x, k)` of the A panel at
`x * depth + k` (`a_ptr.add(i * a_row_stride + k)`, `a_row_stride = depth` for packed input) and
element `(k, y)` of the B panel at `k * NR + y`; `gemm_block` hands it panel `i` / `jt` of the
block at `i * panel_stride`. -/

section PanelKernel
variable {α : Type} [Add α] [Mul α] [Zero α]

/-- Values stored by `pack_a_block` for the block `rows [rs, re) × depth [ds, de)` of `A`. -/
def packAVals (A : Nat → Nat → α) (mr rs re ds de : Nat) : List α :=
  (packASlots mr (re - rs) (de - ds)).map fun
    | some (r, c) => A (rs + r) (ds + c)
    | none => 0

/-- Values stored by `pack_b_block` for the block `depth [ds, de) × cols [cs, ce)` of `B`. -/
def packBVals (B : Nat → Nat → α) (nr ds de cs ce : Nat) : List α :=
  (packBSlots nr (de - ds) (ce - cs)).map fun
    | some (k, c) => B (ds + k) (cs + c)
    | none => 0

/-- The dot product a panel-reading kernel accumulates for element `(x, y)` of the tile whose
operands are panel `i` of the packed A block and panel `jt` of the packed B block. -/
def panelDot (pa pb : List α) (mr nr depth i jt x y : Nat) : α :=
  sumFrom (fun k => pa.getD (i * (mr * depth) + (x * depth + k)) 0 *
                    pb.getD (jt * (depth * nr) + (k * nr + y)) 0) 0 depth

end PanelKernel

/-! ## Prepacked matrices (`prepack.rs`)

Units are elements (bytes / `size_of::<f32>()`).  `prepack_a` (`t = MR`, `nm = a.rows()`) and
`prepack_b` (`t = NR`, `nm = b.cols()`) are symmetric: one `pack_*_block` call per depth block
`range_chunks(0..K, kc)`, written at `depth_block_idx * layout.size()`; the last depth block may be
shorter and then has the smaller `tail_panel_stride`. -/

/-- `PackedMatrixBase` (the fields `block` uses) + total buffer length. -/
structure PackedBase where
  panelSize : Nat
  depthBlock : Nat
  depthBlockStride : Nat
  panelStride : Nat
  tailPanelStride : Nat
  nmSize : Nat
  depthSize : Nat
  totalLen : Nat
deriving Repr, DecidableEq

/-- `prepack_a` / `prepack_b` metadata for an `nm × K` operand, panel size `t`, depth block `kc`
(`packed_*_layout`: `size = nm.next_multiple_of(t) * depth`, `panel_stride = t * depth`). -/
def prepackBase (t nm K kc : Nat) : PackedBase :=
  { panelSize := t, depthBlock := kc,
    depthBlockStride := nextMultipleOf nm t * kc,
    panelStride := t * kc,
    tailPanelStride := if K % kc = 0 then t * kc else t * (K % kc),
    nmSize := nm, depthSize := K,
    totalLen := (K / kc) * (nextMultipleOf nm t * kc) +
      (if K % kc = 0 then 0 else nextMultipleOf nm t * (K % kc)) }

/-- `let panel_stride = if depth_block_idx == n_blocks - 1 { tail_panel_stride } else { panel_stride }`
with `n_blocks = depth_size.div_ceil(depth_block)`. -/
def PackedBase.panelStrideAt (b : PackedBase) (idx : Nat) : Nat :=
  if idx = divCeil b.depthSize b.depthBlock - 1 then b.tailPanelStride else b.panelStride

/-- `PackedMatrixBase::block(nm_range, depth_block_idx)`: `(start, end, panel_stride)` of the
returned slice `data[start..end]` (the `assert_eq!(nm_range.start % panel_size, 0)` is a
precondition). -/
def PackedBase.block (b : PackedBase) (s e idx : Nat) : Nat × Nat × Nat :=
  let ps := b.panelStrideAt idx
  let off := idx * b.depthBlockStride
  (off + (s / b.panelSize) * ps, off + divCeil e b.panelSize * ps, ps)

/-- The buffer `prepack_a` fills: the packed block of all rows for each depth block, in order. -/
def prepackABuf {α : Type} [Add α] [Mul α] [Zero α] (A : Nat → Nat → α) (mr rows K kc : Nat) : List α :=
  (depthBlocks K kc).flatMap fun d => packAVals A mr 0 rows d.1 d.2

/-- The buffer `prepack_b` fills. -/
def prepackBBuf {α : Type} [Add α] [Mul α] [Zero α] (B : Nat → Nat → α) (nr cols K kc : Nat) : List α :=
  (depthBlocks K kc).flatMap fun d => packBVals B nr d.1 d.2 0 cols

/-- Seeded variant C16_c of `block` (full `panel_stride` for the start offset even in the tail
depth block), kept to show the theorems tell it apart. -/
def PackedBase.blockSeedC (b : PackedBase) (s e idx : Nat) : Nat × Nat × Nat :=
  let ps := b.panelStrideAt idx
  let off := idx * b.depthBlockStride
  let start := off + (s / b.panelSize) * b.panelStride
  (start, start + (divCeil e b.panelSize - s / b.panelSize) * ps, ps)

/-! ## Packing from strided storage

`pack_a_block` / `pack_b_block` receive a matrix *view* (`row_stride`, `col_stride` arbitrary) and a
block `rows r0..r1 × cols c0..c1` in absolute coordinates.  These functions list the storage
offsets read, in write order (`none` = zero padding written). -/

/-- `pack_a_block`: `range_chunks(rows, MR)` over the absolute row range, `a[[row, col]]` at
`row·row_stride + col·col_stride`, zero rows up to `MR`. -/
def packASrc (mr rstr cstr r0 r1 c0 c1 : Nat) : List (Option Nat) :=
  (rangeChunks (r1 - r0) r0 r1 mr).flatMap fun pr =>
    ((List.range' pr.1 (pr.2 - pr.1)).flatMap fun row =>
      (List.range (c1 - c0)).map fun col => some (row * rstr + (c0 + col) * cstr)) ++
    ((List.range' pr.2 (pr.1 + mr - pr.2)).flatMap fun _ => List.replicate (c1 - c0) none)

/-- `pack_b_block`, both branches as written: full panels use
`b_offset = rows.start·rs + (cols.start + panel_start_col)·cs` and `in_offset = b_offset + row·rs`
(`+ col` resp. `+ col·cs`); the final padded panel uses
`(rows.start + row)·rs + (cols.start + panel_start_col + col)·cs`. -/
def packBSrc (nr rstr cstr r0 r1 c0 c1 : Nat) : List (Option Nat) :=
  (List.range (divCeil (c1 - c0) nr)).flatMap fun panel =>
    let start := panel * nr
    if nr ≤ (c1 - c0) - start then
      (List.range (r1 - r0)).flatMap fun row =>
        (List.range nr).map fun col =>
          some ((r0 * rstr + (c0 + start) * cstr) + row * rstr + col * cstr)
    else
      (List.range (r1 - r0)).flatMap fun row =>
        (List.range nr).map fun col =>
          if start + col < c1 - c0 then
            some ((r0 + row) * rstr + (c0 + start + col) * cstr)
          else none

section StridedVals
variable {α : Type} [Zero α]

/-- Values written when the storage is `data`. -/
def srcVals (data : Nat → α) (src : List (Option Nat)) : List α :=
  src.map fun
    | some o => data o
    | none => 0

end StridedVals

end RtenVerif.Gemm
