/-!
# Model of rten's operator output-type rules and graph-level type propagation (C12)

Anchors: `src/operator.rs` (`OutputType`, `Operator::output_types`), `src/value.rs`
(`DataType`, `ValueType`, `to_tensor_type`, `to_sequence_type`), `src/infer_shapes.rs`
(type part of `infer_shapes`), `src/optimize.rs` (`update_value_type`),
`src/optimize/fusions.rs` (`CastElimination`), `src/ops/convert.rs` (`cast`).

Import-free (core Lean only).
-/
namespace RtenVerif.OutputTypes

/-- `rten::DataType`. -/
inductive DType | int32 | float | int8 | uint8
  deriving DecidableEq, Repr, Inhabited

/-- `rten::ValueType`. -/
inductive VType
  | tensor (d : DType)
  | sequence (d : DType)
  deriving DecidableEq, Repr, Inhabited

/-- `ValueType::to_tensor_type`. -/
def VType.toTensor : VType → VType
  | .tensor d => .tensor d
  | .sequence d => .tensor d

/-- `ValueType::to_sequence_type`. -/
def VType.toSequence : VType → VType
  | .tensor d => .sequence d
  | .sequence d => .sequence d

/-- `OutputType`, extended by the two attribute-parametric forms that occur in operator sources
(`Fixed(Tensor(self.to))`, `self.dtype.map(Fixed).unwrap_or(rule)`); the parametric forms never
reach the propagation loop: `Rule.instantiate` resolves them against the operator's attributes. -/
inductive Rule
  | fixed (t : VType)
  | copyFromInput (i : Nat)
  | elementTypeOfInputSequence (i : Nat)
  | sequenceWithElementTypeOfInput (i : Nat)
  | fixedAttr (name : String) (seq : Bool)
  | attrOr (name : String) (seq : Bool) (fallback : Rule)
  deriving Repr, Inhabited

/-- A rule that `Operator::output_types` can return at run time. -/
def Rule.concrete : Rule → Bool
  | .fixedAttr .. => false
  | .attrOr .. => false
  | _ => true

/-- Translated body of one `fn output_types`. -/
inductive Body
  | noRules                                      -- `None`
  | list (rs : List Rule)                        -- literal list
  | repeatNumOutputs (r : Rule)                  -- `from_elem(r, ctx.num_outputs)`
  | ifMoreThanOne (base extra : List Rule)       -- `if ctx.num_outputs > 1 { push extra }`
  | opaque                                       -- not a literal (translator could not read it)
  deriving Repr, Inhabited

/-- One row of the generated table. -/
structure Entry where
  name : String
  maxInputs : Option Nat
  /-- `max_inputs` was a literal `Some(n)` / `None` in the source. -/
  maxKnown : Bool
  body : Body
  deriving Repr, Inhabited

abbrev Attrs := List (String × DType)

def mkV (seq : Bool) (d : DType) : VType := if seq then .sequence d else .tensor d

/-- Resolve attribute-parametric rules. `none` = a required attribute is missing. -/
def Rule.instantiate (attrs : Attrs) : Rule → Option Rule
  | .fixedAttr n seq => (attrs.lookup n).map fun d => .fixed (mkV seq d)
  | .attrOr n seq fb =>
    match attrs.lookup n with
    | some d => some (.fixed (mkV seq d))
    | none => fb.instantiate attrs
  | r => some r

/-- Rule list returned by `output_types(ctx)` for a table body: `none` = opaque / missing attribute,
`some none` = the operator returns `None`, `some (some rs)` = the list. -/
def Body.rules (attrs : Attrs) (numOutputs : Nat) : Body → Option (Option (List Rule))
  | .noRules => some Option.none
  | .opaque => Option.none
  | .list rs => (rs.mapM (Rule.instantiate attrs)).map some
  | .repeatNumOutputs r => (r.instantiate attrs).map fun r' => some (List.replicate numOutputs r')
  | .ifMoreThanOne base extra =>
    ((if numOutputs > 1 then base ++ extra else base).mapM (Rule.instantiate attrs)).map some

/-- Evaluate a concrete rule given the (known) types of the operator's inputs.
`get i = none`: input `i` is absent or its type is unknown. -/
def Rule.eval (get : Nat → Option VType) : Rule → Option VType
  | .fixed t => some t
  | .copyFromInput i => get i
  | .elementTypeOfInputSequence i => (get i).map VType.toTensor
  | .sequenceWithElementTypeOfInput i => (get i).map VType.toSequence
  | .fixedAttr .. => none
  | .attrOr .. => none

/-! ## Graph-level propagation (`infer_shapes`, type part) -/

abbrev NodeId := Nat

/-- An operator node in plan order: the rule list its `output_types` returns, its input
and output value ids (`none` = omitted optional input / unused output). -/
structure OpNode where
  rules : Option (List Rule)
  inputs : List (Option NodeId)
  outputs : List (Option NodeId)
  deriving Repr, Inhabited

/-- A finite map as an association list (latest binding first), as `HashMap::insert` overwrites. -/
abbrev TypeMap := List (NodeId × VType)

def TypeMap.get (m : TypeMap) (id : NodeId) : Option VType := List.lookup id m

/-- `get_input_type`: the input's inferred label if present, else the node's static dtype
(`graph.get_node(id)?.dtype()`: declared value type or constant element type). -/
def getInputType (static : NodeId → Option VType) (types : TypeMap) (op : OpNode) (i : Nat) : Option VType :=
  match op.inputs[i]? with
  | some (some id) =>
    match types.get id with
    | some t => some t
    | none => static id
  | _ => none

/-- Inner loop over `op.output_ids().zip(output_type_list)`; `none` = strict-mode failure.
`get_input_type` reads the map being updated, so the current `types` is threaded through. -/
def stepOutputs (strict : Bool) (static : NodeId → Option VType) (op : OpNode) :
    List (Option NodeId) → List Rule → TypeMap → Option TypeMap
  | some id :: outs, r :: rs, types =>
    match r.eval (getInputType static types op) with
    | some t => stepOutputs strict static op outs rs ((id, t) :: types)
    | none => if strict then none else stepOutputs strict static op outs rs types
  | none :: outs, _ :: rs, types => stepOutputs strict static op outs rs types
  | _, _, types => some types

/-- One operator of the plan. -/
def stepOp (strict : Bool) (static : NodeId → Option VType) (types : TypeMap) (op : OpNode) : Option TypeMap :=
  match op.rules with
  | some rs => stepOutputs strict static op op.outputs rs types
  | none => if strict then none else some types

/-- The whole loop over the execution plan. -/
def propagate (strict : Bool) (static : NodeId → Option VType) : List OpNode → TypeMap → Option TypeMap
  | [], types => some types
  | op :: ops, types =>
    match stepOp strict static types op with
    | some types' => propagate strict static ops types'
    | none => none

/-- Label of a value after the optimizer has applied the inference result
(`update_value_type` overwrites the static dtype). -/
def label (static : NodeId → Option VType) (types : TypeMap) (id : NodeId) : Option VType :=
  match types.get id with
  | some t => some t
  | none => static id

/-! ## `Cast` and `CastElimination` -/

/-- A run-time value: a tensor of some element type with an (abstract) payload, or a sequence. -/
inductive RtValue (α : Type)
  | tensor (d : DType) (payload : α)
  | sequence (d : DType) (items : List α)
  deriving DecidableEq

def RtValue.vtype {α} : RtValue α → VType
  | .tensor d _ => .tensor d
  | .sequence d _ => .sequence d

/-- `ops::convert::cast`: same dtype → a copy of the tensor (`to_tensor_in`), otherwise an
element-wise conversion `conv from to`; sequences are rejected. -/
def castOp {α} (conv : DType → DType → α → α) (to : DType) : RtValue α → Option (RtValue α)
  | .tensor d p => if d = to then some (.tensor d p) else some (.tensor to (conv d to p))
  | .sequence _ _ => none

/-- The guard of `CastElimination::maybe_fuse`: the Cast's single input has a known label equal to
`Tensor(to)`. -/
def castElimGuard (inputLabel : Option VType) (to : DType) : Bool :=
  match inputLabel with
  | some t => t == .tensor to
  | none => false

/-! ## Table helpers used by the driver and by T3 -/

def findEntry (table : List Entry) (name : String) : Option Entry :=
  table.find? (fun e => e.name == name)

/-- Input index a rule refers to. -/
def Rule.inputIndex : Rule → Option Nat
  | .copyFromInput i => some i
  | .elementTypeOfInputSequence i => some i
  | .sequenceWithElementTypeOfInput i => some i
  | .attrOr _ _ fb => fb.inputIndex
  | _ => none

def Body.allRules : Body → List Rule
  | .list rs => rs
  | .repeatNumOutputs r => [r]
  | .ifMoreThanOne b e => b ++ e
  | _ => []

/-- T3 check for one entry: every input index mentioned is `< max_inputs` (variadic = no bound). -/
def Entry.slotsOk (e : Entry) : Bool :=
  match e.maxInputs with
  | none => true
  | some n => e.body.allRules.all fun r =>
      match r.inputIndex with
      | some i => decide (i < n)
      | none => true

end RtenVerif.OutputTypes
