/-
Model of `fast_broadcast_cycles_repeats` (src/ops/binary_elementwise.rs) and of the reference
broadcast it is a shortcut for (C14 T1; reused by C13 for the in-place element-wise loop).

Import-free (core Lean only) so that it links into the `model_C13` / `model_C14` drivers.

Tensors are flat row-major element lists plus a shape.  A broadcast from shape `frm` to shape
`to` is described by the list of per-axis pairs `(from size, to size)` after left-padding `frm`
with 1s (`pairsTo`).
-/
namespace RtenVerif.FastBroadcast

/-- Number of elements of a shape (`iter().product()`). -/
def numel (s : List Nat) : Nat := s.foldr (· * ·) 1

/-- `from_size(dim)`: `from_shape` implicitly left-padded with 1s to the rank of `to_shape`. -/
def padFrom (frm to : List Nat) : List Nat := List.replicate (to.length - frm.length) 1 ++ frm

/-- Per-axis `(from, to)` sizes. -/
def pairsTo (frm to : List Nat) : List (Nat × Nat) := List.zip (padFrom frm to) to

/-- Loop condition shared by the leading and the trailing scan:
`from == 1 && to == 1` (a common 1) or `from == 1 && to > 1` (a broadcast axis); anything else
is the `break`. -/
def good (p : Nat × Nat) : Bool := (p.1 == 1 && p.2 == 1) || (p.1 == 1 && decide (p.2 > 1))

/-- Result of `fast_broadcast_cycles_repeats`: the `assert!(to_shape.len() >= from_shape.len())`
panic, `None`, or `Some((cycles, repeats))`. -/
inductive FB
  | panic
  | none
  | some (cycles repeats : Nat)
  deriving Repr, DecidableEq

/-- `fast_broadcast_cycles_repeats(from_shape, to_shape)` as coded: two early returns, the assert,
the leading scan (`takeWhile good` from the front: `leading_1s + leading_bcast` axes, `cycles` =
product of their target sizes), the trailing scan (the same from the back), and the check that
every axis in between has equal sizes. -/
def fastBroadcast (frm to : List Nat) : FB :=
  if frm = to then .some 1 1
  else if numel frm = 1 then .some 1 (numel to)
  else if to.length < frm.length then .panic
  else
    let ps := pairsTo frm to
    let lead := ps.takeWhile good
    let trail := ps.reverse.takeWhile good
    let mid := (ps.drop lead.length).take (to.length - trail.length - lead.length)
    if mid.all (fun p => p.1 == p.2) then
      .some (numel (lead.map (·.2))) (numel (trail.map (·.2)))
    else .none

/-! ## Reference broadcast (index maps) -/

/-- Reference semantics of broadcasting the row-major element list `x` (of shape `ps.map fst`)
to shape `ps.map snd`: output index `i :: rest` reads the sub-block `i` of the source along this
axis — sub-block `0` when the source axis has size 1 — and recurses on `rest`. -/
def bcast {α : Type} : List (Nat × Nat) → List α → List α
  | [], x => x.take 1
  | (f, t) :: ps, x =>
    (List.range t).flatMap
      (fun i => bcast ps (x.drop ((if f = 1 then 0 else i) * numel (ps.map (·.1)))))

/-- Broadcast the elements `x` of a tensor of shape `s` to shape `target`. -/
def bcastTo {α : Type} (x : List α) (s target : List Nat) : List α := bcast (pairsTo s target) x

/-- What `apply_fast` reads: every element repeated `repeats` times, the whole sequence `cycles`
times (`for _ in 0..cycles { for b_elt in b { for _ in 0..repeats { … } } }`). -/
def cycleRepeat {α : Type} (cycles repeats : Nat) (x : List α) : List α :=
  (List.replicate cycles (x.flatMap (List.replicate repeats))).flatten

/-! ## Multi-index form of the same reference (used to cross-check `bcast` in the driver and in
`Props/C14.lean`) -/

/-- All valid indices of a shape in row-major order. -/
def idxs : List Nat → List (List Nat)
  | [] => [[]]
  | n :: ns => (List.range n).flatMap (fun i => (idxs ns).map (fun is => i :: is))

/-- Row-major linear position of an index in a contiguous tensor of shape `s`. -/
def flat : List Nat → List Nat → Nat
  | _ :: ns, i :: is => i * numel ns + flat ns is
  | _, _ => 0

/-- Source index of a broadcast output index: 0 on stretched axes. -/
def bcIdx : List (Nat × Nat) → List Nat → List Nat
  | (f, _) :: ps, i :: is => (if f = 1 then 0 else i) :: bcIdx ps is
  | _, _ => []

/-- Element-by-element reference: `out[idx] = x[bcIdx idx]`. -/
def bcastIdx {α : Type} (ps : List (Nat × Nat)) (x : List α) : List (Option α) :=
  (idxs (ps.map (·.2))).map (fun idx => x[flat (ps.map (·.1)) (bcIdx ps idx)]?)

end RtenVerif.FastBroadcast
