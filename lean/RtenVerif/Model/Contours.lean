/-
Model of `rten-imageproc/src/contours.rs` (`find_nonzero_neighbor`, `find_contours`) and of the
integer drawing primitives of `rten-imageproc/src/drawing.rs` (`clamp_to_bounds`,
`BreshamPoints`, `draw_line` with width 1, `fill_rect`, `stroke_rect`).  Import-free.

Conventions: points are `(y, x)` over `Int` (`i32` in the code; no overflow modelled).  The
working mask of `find_contours` is the zero-padded copy, stored row-major in a `List Int` of
width `W`.  Reads outside the list give `0` (the code would panic on such an index; it never
happens for neighbours of interior pixels, and the harness would see the panic).  Loops whose
termination is not structural take fuel; `nofuel` is a distinct outcome.
-/
namespace RtenVerif.Contours

abbrev Pt := Int × Int  -- (y, x)

inductive Res (α : Type) where
  | ok : α → Res α
  | panic : Res α
  | nofuel : Res α
  deriving Repr, DecidableEq

/-- `Point::neighbors()`: clockwise from north, as `(dy, dx)` offsets. -/
def nbOffsets : List Pt :=
  [(-1, 0), (-1, 1), (0, 1), (1, 1), (1, 0), (1, -1), (0, -1), (-1, -1)]

def neighbors (c : Pt) : List Pt := nbOffsets.map fun d => (c.1 + d.1, c.2 + d.2)

/-- Read the working mask at `p` (padded coordinates). -/
def getM (m : List Int) (W : Nat) (p : Pt) : Int :=
  if p.1 < 0 ∨ p.2 < 0 ∨ p.2 ≥ W then 0 else m.getD (p.1.toNat * W + p.2.toNat) 0

def setM (m : List Int) (W : Nat) (p : Pt) (v : Int) : List Int :=
  if p.1 < 0 ∨ p.2 < 0 ∨ p.2 ≥ W then m else m.set (p.1.toNat * W + p.2.toNat) v

/-- Index of `start` among the neighbours of `center` (`position(..).unwrap()`). -/
def nbIndex (center start : Pt) : Nat :=
  (neighbors center).findIdx (fun p => p == start)

/-- The order in which `find_nonzero_neighbor` inspects the eight neighbours. -/
def searchOrder (startIdx : Nat) (clockwise skipFirst : Bool) : List Nat :=
  let next := fun (i : Nat) => if clockwise then (i + 1) % 8 else (i + 7) % 8
  let s := if skipFirst then next startIdx else startIdx
  (List.range 8).map fun k => if clockwise then (s + k) % 8 else (s + 8 * 8 - k) % 8

/-- `find_nonzero_neighbor(mask, center, start, dir, skip_first)`. -/
def findNonzeroNeighbor (m : List Int) (W : Nat) (center start : Pt) (clockwise skipFirst : Bool) :
    Option Pt :=
  let nbs := neighbors center
  ((searchOrder (nbIndex center start) clockwise skipFirst).map fun i => nbs.getD i center).find?
    fun p => getM m W p != 0

/-- The marking step inside the border-following loop: returns the new mask and whether the
current point is pushed onto `border`. -/
def markStep (m : List Int) (W : Nat) (cur : Pt) : List Int × Bool :=
  if getM m W (cur.1, cur.2 + 1) = 0 then (setM m W cur (-2), true)
  else if getM m W cur = 1 then (setM m W cur 2, true)
  else (m, false)

/-- The border-following `loop` (border kept reversed). -/
def follow (W : Nat) (start startNb : Pt) :
    Nat → List Int → Pt → Pt → List Pt → Res (List Int × List Pt)
  | 0, _, _, _, _ => .nofuel
  | fuel + 1, m, cur, prevNb, border =>
    let next := findNonzeroNeighbor m W cur prevNb false true
    let ms := markStep m W cur
    let border' := if ms.2 then cur :: border else border
    if next = some start ∧ cur = startNb then .ok (ms.1, border')
    else match next with
      | none => .panic  -- `next_point.unwrap()`
      | some nx => follow W start startNb fuel ms.1 nx cur border'

/-- Decide whether a border starts at `p` and with which neighbour (`start_neighbor`). -/
def startNeighbor (m : List Int) (W : Nat) (outerOnly : Bool) (lastNonzero : Int) (p : Pt) :
    Option Pt :=
  let current := getM m W p
  let prev : Pt := (p.1, p.2 - 1)
  let next : Pt := (p.1, p.2 + 1)
  if outerOnly then
    if lastNonzero ≤ 0 ∧ getM m W prev = 0 ∧ current = 1 then some prev else none
  else if getM m W prev = 0 ∧ current = 1 then some prev
  else if current ≥ 1 ∧ getM m W next = 0 then some next
  else none

structure ScanState where
  m : List Int
  contours : List (List Pt)   -- reversed
  lastNonzero : Int

/-- Body of the inner `for x` loop at padded pixel `p`. -/
def visit (W : Nat) (fuel : Nat) (outerOnly : Bool) (s : ScanState) (p : Pt) : Res ScanState :=
  let current := getM s.m W p
  if current = 0 then .ok s
  else
    match startNeighbor s.m W outerOnly s.lastNonzero p with
    | none => .ok { s with lastNonzero := getM s.m W p }
    | some sn =>
      match findNonzeroNeighbor s.m W p sn true false with
      | none =>
        let m' := setM s.m W p (-2)
        .ok { m := m', contours := [(p.1 - 1, p.2 - 1)] :: s.contours, lastNonzero := getM m' W p }
      | some startNb =>
        match follow W p startNb fuel s.m p startNb [] with
        | .ok (m', border) =>
          .ok { m := m',
                contours := (border.reverse.map fun q => (q.1 - 1, q.2 - 1)) :: s.contours,
                lastNonzero := getM m' W p }
        | .panic => .panic
        | .nofuel => .nofuel

/-- Zero-padded `i8` copy of the boolean mask (`rows × cols`, row-major). -/
def padMask (rows cols : Nat) (mask : List Bool) : List Int :=
  let W := cols + 2
  (List.range ((rows + 2) * W)).map fun i =>
    let y := i / W
    let x := i % W
    if 1 ≤ y ∧ y ≤ rows ∧ 1 ≤ x ∧ x ≤ cols then
      (if mask.getD ((y - 1) * cols + (x - 1)) false then 1 else 0)
    else 0

/-- The interior pixels in scan order, with the row-start flag. -/
def scanOrder (rows cols : Nat) : List Pt :=
  (List.range rows).flatMap fun y => (List.range cols).map fun x =>
    ((Int.ofNat y) + 1, (Int.ofNat x) + 1)

def scanAll (W fuel : Nat) (outerOnly : Bool) : List Pt → ScanState → Res ScanState
  | [], s => .ok s
  | p :: ps, s =>
    -- `last_nonzero_pixel = 0` at the start of every row
    let s := if p.2 = 1 then { s with lastNonzero := 0 } else s
    match visit W fuel outerOnly s p with
    | .ok s' => scanAll W fuel outerOnly ps s'
    | .panic => .panic
    | .nofuel => .nofuel

/-- `find_contours(mask, mode)`; fuel `8 · padded pixels + 8` per border. -/
def findContours (rows cols : Nat) (mask : List Bool) (outerOnly : Bool) : Res (List (List Pt)) :=
  let W := cols + 2
  let fuel := 8 * ((rows + 2) * W) + 8
  match scanAll W fuel outerOnly (scanOrder rows cols)
      { m := padMask rows cols mask, contours := [], lastNonzero := 0 } with
  | .ok s => .ok s.contours.reverse
  | .panic => .panic
  | .nofuel => .nofuel

/-- "`p` (image coordinates) is inside the `rows × cols` image and a foreground pixel". -/
def maskAt (rows cols : Nat) (mask : List Bool) (p : Pt) : Bool :=
  decide (0 ≤ p.1 ∧ p.1 < rows ∧ 0 ≤ p.2 ∧ p.2 < cols) &&
    mask.getD (p.1.toNat * cols + p.2.toNat) false

/-! ## Drawing -/

def clampI (v lo hi : Int) : Int := if v < lo then lo else if v > hi then hi else v

/-- `clamp_to_bounds(p, height, width)`. -/
def clampToBounds (p : Pt) (h w : Int) : Pt :=
  (clampI p.1 0 (if h - 1 > 0 then h - 1 else 0), clampI p.2 0 (if w - 1 > 0 then w - 1 else 0))

def sgn (v : Int) : Int := if v > 0 then 1 else if v < 0 then -1 else 0
def iabs (v : Int) : Int := if v < 0 then -v else v

structure Bres where
  cur : Pt
  remaining : Nat
  dx : Int      -- twice |Δx|
  dy : Int      -- twice |Δy|
  error : Int
  xStep : Int
  yStep : Int

/-- `BreshamPoints::new(Line { start, end })`. -/
def Bres.new (s e : Pt) : Bres :=
  let dx := iabs (e.2 - s.2)
  let dy := iabs (e.1 - s.1)
  { cur := s, remaining := (if dx ≥ dy then dx else dy).toNat, dx := dx * 2, dy := dy * 2,
    error := if dx ≥ dy then dy * 2 - dx else dx * 2 - dy,
    xStep := sgn (e.2 - s.2), yStep := sgn (e.1 - s.1) }

/-- One `next()` that yields a point (`remaining_steps > 0`): the state after it. -/
def Bres.step (b : Bres) : Bres :=
  let b := { b with remaining := b.remaining - 1 }
  if b.xStep = 0 then { b with cur := (b.cur.1 + b.yStep, b.cur.2) }
  else if b.yStep = 0 then { b with cur := (b.cur.1, b.cur.2 + b.xStep) }
  else if b.dx ≥ b.dy then
    let (y, err) := if b.error ≥ 0 then (b.cur.1 + b.yStep, b.error - b.dx) else (b.cur.1, b.error)
    { b with cur := (y, b.cur.2 + b.xStep), error := err + b.dy }
  else
    let (x, err) := if b.error ≥ 0 then (b.cur.2 + b.xStep, b.error - b.dy) else (b.cur.2, b.error)
    { b with cur := (b.cur.1 + b.yStep, x), error := err + b.dx }

/-- All points the iterator yields (`n` = `remaining_steps`). -/
def Bres.run : Nat → Bres → List Pt
  | 0, _ => []
  | n + 1, b => b.cur :: Bres.run n b.step

def bresenham (s e : Pt) : List Pt :=
  let b := Bres.new s e
  Bres.run b.remaining b

def inImage (h w : Int) (p : Pt) : Bool := decide (0 ≤ p.1 ∧ p.1 < h ∧ 0 ≤ p.2 ∧ p.2 < w)

/-- Checked writes in sequence: pixels written before the first out-of-image index, and
whether that index was hit (= the indexing panics). -/
def writeAll (h w : Int) : List Pt → List Pt × Bool
  | [] => ([], false)
  | p :: ps =>
    if inImage h w p then
      let r := writeAll h w ps
      (p :: r.1, r.2)
    else ([], true)

/-- `draw_line(image, line, value, 1)` on an `h × w` image. -/
def drawLine1 (h w : Int) (s e : Pt) : List Pt × Bool :=
  writeAll h w (bresenham (clampToBounds s h w) (clampToBounds e h w))

/-- Pixels of `Rect::from_tlbr(t, l, b, r)` in `fill_rect` order. -/
def rectPixels (t l b r : Int) : List Pt :=
  (List.range (b - t).toNat).flatMap fun dy => (List.range (r - l).toNat).map fun dx =>
    (t + Int.ofNat dy, l + Int.ofNat dx)

/-- `fill_rect(mask, rect, value)`. -/
def fillRect (h w : Int) (t l b r : Int) : List Pt × Bool :=
  writeAll h w (rectPixels t l b r)

/-- The border width `stroke_rect` uses: the requested width limited to the rect's width and
height (and to 0 for inverted rects). -/
def strokeWidth (t l b r sw0 : Int) : Int :=
  -- `width as i32`: a `u32` width of 2^31 or more wraps to a negative `i32`
  let sw := (sw0 + 2147483648) % 4294967296 - 2147483648
  let a := if sw < r - l then sw else r - l
  let c := if a < b - t then a else b - t
  if c > 0 then c else 0

/-- `stroke_rect(mask, rect, value, width)`: four `fill_rect`s; a panic stops the sequence. -/
def strokeRect (h w : Int) (t l b r : Int) (sw0 : Int) : List Pt × Bool :=
  let sw := strokeWidth t l b r sw0
  writeAll h w
    (rectPixels t l b (l + sw) ++ rectPixels t (l + sw) (t + sw) (r - sw) ++
     rectPixels t (r - sw) b r ++ rectPixels (b - sw) (l + sw) b (r - sw))

end RtenVerif.Contours
