/-
Model of the constant conversions both load paths apply to dtypes rten does not store natively
(C20): f64 → f32 (`x as f32` in `src/model/onnx_loader.rs::load_constant`, numpy
`astype(np.float32)` in `rten_convert/converter.py::constant_node_from_onnx_initializer`),
bool → i32, and the wrapping of `int32_data` into u8 / i8.  Bit patterns and scaled values are
natural numbers; import-free.  (Kept apart from `Model/RtenHeader.lean` so that the slow
enumeration in `Lemmas/F16Exact.lean` is not rebuilt when this file changes.)
-/
namespace RtenVerif.ConstNarrow

/-- `|a - b|` on naturals. -/
def absDiff (a b : Nat) : Nat := (a - b) + (b - a)

/-- Number of significant bits (`0` for `0`). -/
def bitLen (n : Nat) : Nat := if n = 0 then 0 else Nat.log2 n + 1

/-- `x / 2^sh` rounded to nearest, ties to even (what a hardware right shift with guard/sticky
bits computes). -/
def rneShift (x sh : Nat) : Nat :=
  let k := x / 2 ^ sh
  let r := x % 2 ^ sh
  if 2 * r > 2 ^ sh ∨ (2 * r = 2 ^ sh ∧ k % 2 = 1) then k + 1 else k

def f32Inf : Nat := 0x7f800000

/-- Exact value of a *finite* f64 magnitude bit pattern (`b < 2^63`, exponent field `< 2047`),
scaled by `2^1074` (the smallest f64 subnormal is `2^-1074`, so this is a natural number). -/
def f64MagValue (b : Nat) : Nat :=
  let e := b / 2 ^ 52
  let m := b % 2 ^ 52
  if e = 0 then m else (2 ^ 52 + m) * 2 ^ (e - 1)

/-- Exact value of a *finite* f32 magnitude bit pattern (`y < 0x7f800000`), scaled by `2^1074`:
subnormals are `m * 2^-149 = m * 2^925 / 2^1074`. -/
def f32MagValue (y : Nat) : Nat :=
  let e := y / 2 ^ 23
  let m := y % 2 ^ 23
  if e = 0 then m * 2 ^ 925 else (2 ^ 23 + m) * 2 ^ (e - 1 + 925)

/-- Round the value `M * 2^E` (scaled by `2^1074`) to the nearest f32 magnitude bit pattern, ties to
even.  The result keeps 24 significant bits, but never a quantum below `2^-149` (= `2^925`
scaled): `q` is the exponent of the result's unit in the last place.  The f32 encoding is monotone
in the magnitude, so for a significand `k` (`k ≤ 2^24`, a carry to `2^24` included) at quantum `q`
the bit pattern is `(q - 925) * 2^23 + k`; anything at or above the pattern of infinity is
infinity. -/
def f32OfScaled (M E : Nat) : Nat :=
  if M = 0 then 0
  else
    let q := max (E + bitLen M - 24) 925
    let k := if q ≤ E then M * 2 ^ (E - q) else rneShift M (q - E)
    let bits := (q - 925) * 2 ^ 23 + k
    if bits ≥ f32Inf then f32Inf else bits

/-- Significand and exponent of a finite f64 magnitude: value `= M * 2^E / 2^1074`. -/
def f64Sig (b : Nat) : Nat := if b / 2 ^ 52 = 0 then b % 2 ^ 52 else 2 ^ 52 + b % 2 ^ 52
def f64Exp (b : Nat) : Nat := if b / 2 ^ 52 = 0 then 0 else b / 2 ^ 52 - 1

/-- f64 → f32 on magnitude bit patterns (`b < 2^63`), round to nearest even; NaN keeps the upper
payload bits and becomes quiet (what `cvtsd2ss` / Rust `as f32` / numpy `astype` do). -/
def f64ToF32Mag (b : Nat) : Nat :=
  if b / 2 ^ 52 = 2047 then
    (if b % 2 ^ 52 = 0 then f32Inf else 0x7fc00000 + (b % 2 ^ 52 / 2 ^ 29) % 2 ^ 22)
  else f32OfScaled (f64Sig b) (f64Exp b)

/-- f64 → f32 on full bit patterns (`b < 2^64`): the sign bit is copied. -/
def f64ToF32Bits (b : Nat) : Nat := (b / 2 ^ 63) * 2 ^ 31 + f64ToF32Mag (b % 2 ^ 63)

def isNaN32 (y : Nat) : Bool := (y % 2 ^ 31) / 2 ^ 23 = 255 ∧ (y % 2 ^ 23) ≠ 0
def isNaN64 (b : Nat) : Bool := (b % 2 ^ 63) / 2 ^ 52 = 2047 ∧ (b % 2 ^ 52) ≠ 0

/-- Every NaN is reported as the canonical quiet NaN (the harness does the same). -/
def canonNaN32 (y : Nat) : Nat := if isNaN32 y then 0x7fc00000 else y

/-! ### bool and narrow integers -/

/-- Loader: `if byte != 0 { 1 } else { 0 }` (raw bytes) / `if x != 0 { 1 } else { 0 }` (int32_data). -/
def loaderBool (x : Int) : Int := if x ≠ 0 then 1 else 0

/-- Converter: numpy views the byte as `bool` (`x != 0`) and `astype(np.int32)` maps
`True ↦ 1`, `False ↦ 0`. -/
def numpyBoolAsInt32 (x : Int) : Int := if x = 0 then 0 else 1

/-- `x as u8` of an `int32_data` element = numpy `astype(uint8)`. -/
def wrapU8 (x : Int) : Int := x % 256
/-- `x as i8` of an `int32_data` element = numpy `astype(int8)`. -/
def wrapI8 (x : Int) : Int := (x + 128) % 256 - 128

/-! ### the dtype → conversion-rule table of both loaders -/

/-- How a constant of an ONNX dtype is turned into one of rten's four native element types. -/
inductive Rule where
  | keepF32 | keepI32 | keepI8 | keepU8
  /-- int64 → i32, saturating -/
  | satI64
  /-- int64 → i32, two's-complement truncation (NOT what the property promises) -/
  | wrapI64
  /-- bool → i32 (0 / 1) -/
  | boolToI32
  /-- int16 → i32 (value preserving widening) -/
  | widenI16
  /-- f16 → f32 (exact) -/
  | f16ToF32
  /-- f64 → f32 (round to nearest even) -/
  | f64ToF32
  | unsupported
  /-- the translator did not recognise the code of this arm -/
  | unrecognised
  deriving DecidableEq, Repr

/-- Rule of a dtype in an association list (ONNX `DataType` name ↦ rule); absent = unsupported. -/
def ruleOf (tbl : List (String × Rule)) (d : String) : Rule :=
  match tbl.find? (fun p => p.1 == d) with
  | some p => p.2
  | none => .unsupported

end RtenVerif.ConstNarrow
