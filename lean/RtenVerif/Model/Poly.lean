/-
Model of `rten-imageproc/src/poly_algos.rs`: `simplify_polyline_internal`,
`simplify_polyline`, `simplify_polygon`, `convex_hull`, and the projection fold of
`min_area_rect`.  Import-free (links into the `model_C35` driver).

Conventions
* Douglas–Peucker is generic in the point type `P`, the distance type `D`, the distance
  function `dist a b p` (= `Line::from_endpoints(a, b).distance(p)`) and the two float
  comparisons the code uses (`>=`, `>`), bundled in `Cmp`.  Nothing is assumed about them
  in the *model*; the theorems state the (IEEE-like, NaN-tolerant) laws they need.
* Recursion is by fuel; running out of fuel is the observable `nofuel` (= the code would
  not terminate), an assertion failure / out-of-range index is `panic`.
* The convex hull works on integer points `(x, y)`; the cross product is exact (the fixed
  code computes it in `f64`).  `hullWith` takes the sort comparator as a parameter `le` on
  decorated entries (the theorems about the scan hold for every comparator, e.g. also for the
  rounded `f32` cosine keys of the code before the fix); `hullKey` instantiates it with the
  code's key order `keyLe`, `hullExact` with the equivalent orientation form `exactLe`.
-/
namespace RtenVerif.Poly

/-- Outcome of a call: value, Rust panic, or fuel exhausted (non-termination). -/
inductive Outcome (α : Type) where
  | ok : α → Outcome α
  | panic : Outcome α
  | nofuel : Outcome α
  deriving Repr, DecidableEq

/-- The comparisons on distances used by the code: `a >= b`, `a > b`, and the constant `0.`. -/
structure Cmp (D : Type) where
  ge : D → D → Bool
  gt : D → D → Bool
  zero : D

/-- Distances as the driver sees them: the bit pattern of a non-negative `f32` (monotone in
the value) or `none` for NaN.  Comparisons with NaN are false, as in IEEE 754. -/
def natCmp : Cmp (Option Nat) where
  ge a b := match a, b with
    | some x, some y => decide (x ≥ y)
    | _, _ => false
  gt a b := match a, b with
    | some x, some y => decide (x > y)
    | _, _ => false
  zero := some 0

variable {P D : Type}

/-- The `fold` that finds the pivot: `(max_index, max_dist)`; `i` is the enumerate index of
the head of the list of inner points, the accumulator starts at `(0, 0.)`.  Note `>=`: the
*last* maximal point wins. -/
def pivot (c : Cmp D) (dist : P → D) : List P → Nat → Nat × D → Nat × D
  | [], _, acc => acc
  | p :: ps, i, acc =>
    pivot c dist ps (i + 1) (if c.ge (dist p) acc.2 then (i + 1, dist p) else acc)

/-- `simplify_polyline_internal(points, epsilon, out_points, keep_last)`; returns what is
pushed to `out_points`.  `none` = fuel exhausted. -/
def dpInternal (c : Cmp D) (dist : P → P → P → D) (eps : D) :
    Nat → List P → Bool → Option (List P)
  | 0, _, _ => none
  | fuel + 1, pts, keepLast =>
    match pts with
    | [] => some []
    | [p] => some [p]
    | a :: b0 :: rest0 =>
      let rest := b0 :: rest0
      let b := rest.getLastD a
      let inner := rest.dropLast
      let m := pivot c (dist a b) inner 0 (0, c.zero)
      if c.gt m.2 eps then
        match dpInternal c dist eps fuel (pts.take (m.1 + 1)) false,
              dpInternal c dist eps fuel (pts.drop m.1) keepLast with
        | some l, some r => some (l ++ r)
        | _, _ => none
      else some (if keepLast then [a, b] else [a])

/-- `simplify_polyline(points, epsilon)`: `assert!(epsilon >= 0.)`, then the recursion with
`keep_last = true`.  Fuel `len + 1` is enough whenever the laws of `Cmp` hold (theorem
`dp_terminates`). -/
def simplifyPolyline (c : Cmp D) (dist : P → P → P → D) (eps : D) (pts : List P) :
    Outcome (List P) :=
  if c.ge eps c.zero then
    match dpInternal c dist eps (pts.length + 1) pts true with
    | some out => .ok out
    | none => .nofuel
  else .panic

/-- `simplify_polygon(points, epsilon)` (after the fix for the empty input, which used to
index `points[0]`): close the polyline with `points[0]`, simplify, drop the last point. -/
def simplifyPolygon (c : Cmp D) (dist : P → P → P → D) (eps : D) (pts : List P) :
    Outcome (List P) :=
  match pts with
  | [] => .ok []
  | a :: _ =>
    match simplifyPolyline c dist eps (pts ++ [a]) with
    | .ok out => .ok out.dropLast
    | .panic => .panic
    | .nofuel => .nofuel

/-! ## Convex hull -/

/-- Integer point `(x, y)`. -/
abbrev Pt := Int × Int

/-- `orientation(a, b, p)`: cross product of `a → b` and `a → p`.  The code computes it in
`f64` from `f32` coordinates, where differences and products are exact (no rounding, overflow
or underflow for finite `f32` inputs whose exponents are not wildly apart) — modelled exactly. -/
def cross (a b p : Pt) : Int :=
  (b.1 - a.1) * (p.2 - a.2) - (b.2 - a.2) * (p.1 - a.1)

/-- `sq_distance(a, b)`. -/
def sqDist (a b : Pt) : Int :=
  (b.1 - a.1) * (b.1 - a.1) + (b.2 - a.2) * (b.2 - a.2)

/-- The `min_by` comparator says `p` is strictly less than `q`: larger `y` first (the code
compares `-y`), then smaller `x`. -/
def minLt (p q : Pt) : Bool :=
  if p.2 ≠ q.2 then decide (p.2 > q.2) else decide (p.1 < q.1)

/-- `Iterator::min_by`: the first of the minimal elements. -/
def minPoint : List Pt → Option Pt
  | [] => none
  | p :: ps => some (ps.foldl (fun best q => if minLt q best then q else best) p)

/-- Stable insertion into a list sorted by `le`. -/
def insertBy {α : Type} (le : α → α → Bool) (x : α) : List α → List α
  | [] => [x]
  | y :: ys => if le x y then x :: y :: ys else y :: insertBy le x ys

/-- Stable insertion sort (stands for `sort_by`, which is stable). -/
def isort {α : Type} (le : α → α → Bool) : List α → List α
  | [] => []
  | x :: xs => insertBy le x (isort le xs)

/-- `Vec::dedup_by_key` tail: drop every element whose key equals the key `prev` of the last
retained element. -/
def dedupGo {α : Type} (pt : α → Pt) (prev : Pt) : List α → List α
  | [] => []
  | y :: ys => if pt y = prev then dedupGo pt prev ys else y :: dedupGo pt (pt y) ys

/-- `Vec::dedup_by_key(|(p, _)| *p)`: keeps the first element of every run of equal points. -/
def dedupKey {α : Type} (pt : α → Pt) : List α → List α
  | [] => []
  | x :: xs => x :: dedupGo pt (pt x) xs

/-- The inner `while hull.len() >= 2` loop; the stack is kept top first. -/
def popWhile (p : Pt) : List Pt → List Pt
  | [] => []
  | prev :: tl =>
    match tl with
    | [] => [prev]
    | prev2 :: _ => if cross prev2 prev p > 0 then prev :: tl else popWhile p tl

/-- The `for &(p, _) in sorted_points` loop (stack top first). -/
def scan : List Pt → List Pt → List Pt
  | [], st => st
  | p :: ps, st => scan ps (p :: popWhile p st)

/-- `convex_hull` on decorated entries: `pt` extracts the point, `le a b` is
"the `sort_by` comparator does not return `Greater`". -/
def hullWith {α : Type} (pt : α → Pt) (le : α → α → Bool) (xs : List α) : List Pt :=
  (scan ((dedupKey pt (isort le xs)).map pt) []).reverse

/-- The *orientation form* of the angular order around the min point `m`, as "not `Greater`":
`m` itself first, then by the sign of `orientation(m, p, q)`, collinear points by squared
distance from `m`.  The code used this as its `sort_by` comparator between the fixes 5bb4df1 and
3c15d64; it now sorts precomputed keys (`keyLe` below).  The two orders coincide on the points
`min_by` can leave (`keyLe_eq_exactLe`), and the order theory (`exactLe_trans`, …) is proved on
this form. -/
def exactLe (m p q : Pt) : Bool :=
  if p = m then true
  else if q = m then false
  else if cross m p q > 0 then true
  else if cross m p q < 0 then false
  else decide (sqDist m p ≤ sqDist m q)

/-- `convex_hull` with the orientation form of the sort order (see `hullKey_eq_hullExact`). -/
def hullExact (pts : List Pt) : List Pt :=
  match minPoint pts with
  | none => []
  | some m => hullWith id (exactLe m) pts

/-- **The code's sort order** (poly_algos.rs, `sort_key` + `sort_by` with `total_cmp`): every
point gets the key `(dx / (0 − dy), dx² + dy²)` relative to the min point `m`, and `(−∞, 0)` if it
equals `m`; keys are compared lexicographically.  Exact version: the quotients `a / (−b)` and
`c / (−d)` are compared by cross-multiplication (`−b, −d > 0` for every point other than `m`,
because `m` has the largest `y`), and `dy = 0` gives `+∞`.

**Assumption A-f64 (not proved, named in `checks/C35.json`)**: the code computes the quotients
and the squared distances in `f64`; the model assumes (i) the differences `dx, dy` are exact,
(ii) correctly rounded division maps *distinct* rational slopes to distinct `f64` values and equal
slopes to the same value (the second half always holds; the first holds e.g. for integer
coordinates up to about 2^20), (iii) the rounded squared distances order collinear points as the
exact ones do. -/
def keyLe (m p q : Pt) : Bool :=
  if p = m then true
  else if q = m then false
  else
    let a := p.1 - m.1
    let b := p.2 - m.2
    let c := q.1 - m.1
    let d := q.2 - m.2
    let lt := if b = 0 then false else if d = 0 then true else decide (a * (-d) < c * (-b))
    let eq := if b = 0 then decide (d = 0) else if d = 0 then false
      else decide (a * (-d) = c * (-b))
    if lt then true else if eq then decide (sqDist m p ≤ sqDist m q) else false

/-- `convex_hull` as coded: min point, stable sort by key, dedup, orientation scan. -/
def hullKey (pts : List Pt) : List Pt :=
  match minPoint pts with
  | none => []
  | some m => hullWith id (keyLe m) pts

/-! ## `min_area_rect`: the projection fold -/

/-- `min` / `max` with a neutral start value (`f32::MAX` / `f32::MIN` in the code). -/
def optMin (a : Option Int) (b : Int) : Option Int :=
  match a with
  | none => some b
  | some x => some (if b < x then b else x)

def optMax (a : Option Int) (b : Int) : Option Int :=
  match a with
  | none => some b
  | some x => some (if b > x then b else x)

/-- Un-normalised projections of `p` relative to the edge `s → e`:
`par = (e - s)·(p - s)`, `perp = -(e - s).perpendicular()·(p - s)`. -/
def parProj (s e p : Pt) : Int := (e.1 - s.1) * (p.1 - s.1) + (e.2 - s.2) * (p.2 - s.2)
def perpProj (s e p : Pt) : Int := -(e.2 - s.2) * (p.1 - s.1) + (e.1 - s.1) * (p.2 - s.2)

/-- The fold over the hull for one edge: `(min_par, max_par, max_perp)`. -/
def edgeBounds (s e : Pt) (hull : List Pt) : Option Int × Option Int × Option Int :=
  hull.foldl (fun acc p =>
    (optMin acc.1 (parProj s e p), optMax acc.2.1 (parProj s e p), optMax acc.2.2 (perpProj s e p)))
    (none, none, none)

end RtenVerif.Poly
