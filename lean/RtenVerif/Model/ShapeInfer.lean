/-!
# Model of rten's value-level shape inference for the shape-carrying subset (C10)

Anchors: `rten-shape-inference/src/sym_tensor.rs` (`SymTensor`), `sym_expr.rs` (`SymExpr::eval`,
`range`, `PartialEq`), `infer_shapes.rs` (`BinaryOp`), `ops/binary.rs` (`symbolic_binary_op`,
`Add`/`Sub`/`Mul`/`Div`/`Equal`/`Where`), `ops/layout.rs` (`Shape`, `Size`, `Squeeze`, `Unsqueeze`,
`Expand`), `ops/concat.rs`, `ops/gather.rs`.

Own minimal symbolic-dimension model (b-C11's `Model/Sym.lean` is not imported). Integers are
unbounded (`Int`); `i32` wrap-around is outside this model. Import-free.
-/
namespace RtenVerif.ShapeInfer

/-- `SymExpr` (all constructors). -/
inductive Sym
  | val (n : Int)
  | var (name : String) (positive : Bool)
  | neg (a : Sym)
  | add (a b : Sym)
  | sub (a b : Sym)
  | mul (a b : Sym)
  | div (a b : Sym)
  | divCeil (a b : Sym)
  | max (a b : Sym)
  | min (a b : Sym)
  | bcast (a b : Sym)
  deriving Repr, Inhabited, DecidableEq

abbrev Env := String → Option Int

/-- Rust `i32::/` (truncation toward zero). -/
def tdiv (x y : Int) : Int := Int.tdiv x y

/-- `div_ceil` of `sym_expr.rs`. -/
def cdiv (x y : Int) : Int :=
  let d := Int.tdiv x y
  let r := Int.tmod x y
  if r != 0 then (if (x < 0) == (y < 0) then d + 1 else d) else d

/-- `Broadcast` evaluation after fix a4a397a: a size of 1 broadcasts to the other size (also to 0). -/
def bcastI (x y : Int) : Int := if x = 1 then y else if y = 1 then x else Max.max x y

/-- `SymExpr::eval`: `none` = missing symbol or division by zero. -/
def Sym.eval (σ : Env) : Sym → Option Int
  | .val n => some n
  | .var x _ => σ x
  | .neg a => (a.eval σ).map fun x => -x
  | .add a b => do let x ← a.eval σ; let y ← b.eval σ; pure (x + y)
  | .sub a b => do let x ← a.eval σ; let y ← b.eval σ; pure (x - y)
  | .mul a b => do let x ← a.eval σ; let y ← b.eval σ; pure (x * y)
  | .div a b => do let x ← a.eval σ; let y ← b.eval σ; if y = 0 then none else pure (tdiv x y)
  | .divCeil a b => do let x ← a.eval σ; let y ← b.eval σ; if y = 0 then none else pure (cdiv x y)
  | .max a b => do let x ← a.eval σ; let y ← b.eval σ; pure (Max.max x y)
  | .min a b => do let x ← a.eval σ; let y ← b.eval σ; pure (Min.min x y)
  | .bcast a b => do let x ← a.eval σ; let y ← b.eval σ; pure (bcastI x y)

/-- `impl PartialEq for SymExpr`: variables by name, commutative operators modulo swapping. -/
def Sym.beq : Sym → Sym → Bool
  | .val x, .val y => x == y
  | .var x _, .var y _ => x == y
  | .neg a, .neg b => a.beq b
  | .add a b, .add c d => (a.beq c && b.beq d) || (a.beq d && b.beq c)
  | .mul a b, .mul c d => (a.beq c && b.beq d) || (a.beq d && b.beq c)
  | .max a b, .max c d => (a.beq c && b.beq d) || (a.beq d && b.beq c)
  | .min a b, .min c d => (a.beq c && b.beq d) || (a.beq d && b.beq c)
  | .bcast a b, .bcast c d => (a.beq c && b.beq d) || (a.beq d && b.beq c)
  | .sub a b, .sub c d => a.beq c && b.beq d
  | .div a b, .div c d => a.beq c && b.beq d
  | .divCeil a b, .divCeil c d => a.beq c && b.beq d
  | _, _ => false

def i32Min : Int := -2147483648
def i32Max : Int := 2147483647
def sat (x : Int) : Int := if x < i32Min then i32Min else if x > i32Max then i32Max else x

/-- `SymExpr::range` (after `fix: SymExpr::range returns sound bounds …`), saturating arithmetic. -/
def Sym.range : Sym → Int × Int
  | .val n => (n, n)
  | .var _ p => if p then (0, i32Max) else (i32Min, i32Max)
  | .neg a => let (lo, hi) := a.range; (sat (-hi), sat (-lo))
  | .add a b => let (al, ah) := a.range; let (bl, bh) := b.range; (sat (al + bl), sat (ah + bh))
  | .mul a b =>
    let (al, ah) := a.range; let (bl, bh) := b.range
    if al ≥ 0 && bl ≥ 0 then (sat (al * bl), sat (ah * bh)) else (i32Min, i32Max)
  | .div a b | .divCeil a b =>
    let (al, ah) := a.range; let (bl, _) := b.range
    if bl ≥ 0 then (Min.min al 0, Max.max ah 0)
    else (Min.min al (sat (-ah)), Max.max ah (sat (-al)))
  | .max a b | .min a b =>
    let (al, ah) := a.range; let (bl, bh) := b.range; (Min.min al bl, Max.max ah bh)
  | .sub _ _ => (i32Min, i32Max)
  | .bcast a b =>
    let (al, ah) := a.range; let (bl, bh) := b.range
    (Max.max (Min.min al bl) 0, Max.max (Max.max ah bh) 0)

/-- `Iterator<Item = Option<_>>::collect::<Option<Vec<_>>>()` (structural, so that proofs can follow it). -/
def mapO {α β : Type} (f : α → Option β) : List α → Option (List β)
  | [] => some []
  | a :: as =>
    match f a with
    | none => none
    | some b =>
      match mapO f as with
      | none => none
      | some bs => some (b :: bs)

/-- `SymTensor`. -/
inductive STn
  | scalar (e : Sym)
  | vector (es : List Sym)
  | shape (ds : List Sym)
  | unknown
  deriving Repr, Inhabited, DecidableEq

def STn.values : STn → Option (List Sym)
  | .scalar e => some [e]
  | .vector es => some es
  | _ => none

def STn.dims : STn → Option (List Sym)
  | .scalar _ => some []
  | .vector es => some [Sym.val (es.length : Int)]
  | .shape ds => some ds
  | .unknown => none

/-- `Constant` extracted by `to_constant` (all elements are `Value`). -/
def STn.constant : STn → Option (Bool × List Int)   -- (isScalar, values)
  | .scalar (.val n) => some (true, [n])
  | .vector es => (mapO (fun (e : Sym) => match e with | Sym.val n => some n | _ => none) es).map fun vs => (false, vs)
  | _ => none

inductive Err | incorrectInputCount | incompatibleShapes | incorrectRank | invalidValue
  deriving Repr, DecidableEq

/-! ## `BinaryOp`: broadcasting shape rule -/

def Sym.isOne : Sym → Bool
  | .val n => n == 1
  | _ => false

/-- One dimension of `BinaryOp` (the match arms in source order; the literal-1 arms are tests). -/
def bdim (a b : Sym) : Except Err Sym :=
  if a.beq b then .ok a
  else if a.isOne then .ok b
  else if b.isOne then .ok a
  else
    match a, b with
    | .val _, .val _ => .error .incompatibleShapes
    | .var _ _, .val n => .ok (.val n)
    | .val n, .var _ _ => .ok (.val n)
    | a, b => .ok (.bcast a b)

def padLeft (n : Nat) (ds : List Sym) : List Sym := List.replicate (n - ds.length) (.val 1) ++ ds

def bdims : List Sym → List Sym → Except Err (List Sym)
  | a :: as, b :: bs =>
    match bdim a b with
    | .error e => .error e
    | .ok d =>
      match bdims as bs with
      | .error e => .error e
      | .ok r => .ok (d :: r)
  | _, _ => .ok []

def binaryShape (a b : STn) : Except Err STn :=
  match a.dims, b.dims with
  | some ad, some bd =>
    let n := Nat.max ad.length bd.length
    (bdims (padLeft n ad) (padLeft n bd)).map STn.shape
  | _, _ => .ok .unknown

/-! ## `symbolic_binary_op` and the arithmetic / comparison operators -/

/-- The three zipping modes of `symbolic_binary_op` (`cycle` on the length-1 side). -/
def zipCycle (op : Sym → Sym → Option Sym) (l r : List Sym) : Option (List Sym) :=
  match l, r with
  | [x], r => mapO (fun y => op x y) r
  | l, [y] => mapO (fun x => op x y) l
  | l, r => mapO (fun (p : Sym × Sym) => op p.1 p.2) (List.zip l r)

def symBinary (op : Sym → Sym → Option Sym) (a b : STn) : Option STn :=
  match a, b with
  | .scalar x, .scalar y => (op x y).map STn.scalar
  | a, b =>
    match a.values, b.values with
    | some l, some r => (zipCycle op l r).map STn.vector
    | _, _ => none

def binaryInfer (op : Sym → Sym → Option Sym) (a b : STn) : Except Err STn :=
  match symBinary op a b with
  | some r => .ok r
  | none => binaryShape a b

def addOp (x y : Sym) : Option Sym :=
  match x, y with | .val a, .val b => some (.val (a + b)) | x, y => some (.add x y)
def subOp (x y : Sym) : Option Sym :=
  match x, y with | .val a, .val b => some (.val (a - b)) | x, y => some (.sub x y)
def mulOp (x y : Sym) : Option Sym :=
  match x, y with | .val a, .val b => some (.val (a * b)) | x, y => some (.mul x y)
def divOp (x y : Sym) : Option Sym :=
  match x, y with
  | .val a, .val b => if b ≠ 0 then some (.val (tdiv a b)) else some (.div x y)
  | x, y => some (.div x y)

/-- `Equal`'s element rule: structurally equal → 1; disjoint ranges → 0; otherwise unknown. -/
def eqOp (x y : Sym) : Option Sym :=
  if x.beq y then some (.val 1)
  else if x.range.2 < y.range.1 || y.range.2 < x.range.1 then some (.val 0)
  else none

/-! ## `Where` -/

/-- `iter().cycle().take(n)`, structurally: `cur` is what is left of the current pass over `orig`. -/
def cycAux {α : Type} : Nat → List α → List α → List α
  | 0, _, _ => []
  | n + 1, orig, [] =>
    match orig with
    | [] => []
    | o :: os => o :: cycAux n orig os
  | n + 1, orig, c :: cs => c :: cycAux n orig cs

def cycleTake {α : Type} (n : Nat) (l : List α) : List α := cycAux n l l

/-- One element of `Where`: only a constant condition is decided. -/
def whereElem (truthy : Int → Bool) (c x y : Sym) : Option Sym :=
  match c with
  | .val v => some (if truthy v then x else y)
  | _ => none

/-- `truthy` is the test applied to a constant condition element: the code before the fix used
`v == 1`, the fixed code (and the real `Where` kernel) uses `v != 0`. -/
def whereVals (truthy : Int → Bool) (c x y : List Sym) : Option (List Sym) :=
  let n := Nat.max (Nat.max c.length x.length) y.length
  mapO (fun (t : Sym × Sym × Sym) => whereElem truthy t.1 t.2.1 t.2.2)
    (List.zip (cycleTake n c) (List.zip (cycleTake n x) (cycleTake n y)))

def STn.isScalar : STn → Bool
  | .scalar _ => true
  | _ => false

/-- `allScalarFix`: the fixed code returns a scalar when all three inputs are scalars. -/
def whereInfer (truthy : Int → Bool) (allScalarFix : Bool) (c x y : STn) : Except Err STn :=
  let valued : Option STn :=
    match c.values, x.values, y.values with
    | some cv, some xv, some yv =>
      match whereVals truthy cv xv yv with
      | some vs =>
        if allScalarFix && c.isScalar && x.isScalar && y.isScalar then
          match vs with
          | [v] => some (.scalar v)
          | _ => some (.vector vs)
        else some (.vector vs)
      | none => none
    | _, _, _ => none
  match valued with
  | some r => .ok r
  | none => do
    let cx ← binaryShape c x
    binaryShape cx y

/-! ## Layout rules -/

/-- `Shape::resolve_start_end`. -/
def resolveStartEnd (start stop : Option Int) (ndim : Nat) : Nat × Nat :=
  let n : Int := ndim
  let clamp (v : Int) : Nat := (Max.max 0 (Min.min n (if v < 0 then v + n else v))).toNat
  let s := match start with | some v => clamp v | none => 0
  let e := match stop with | some v => clamp v | none => ndim
  (s, Nat.max e s)

def shapeInfer (start stop : Option Int) (a : STn) : STn :=
  match a.dims with
  | some ds => let (s, e) := resolveStartEnd start stop ds.length; .vector ((ds.drop s).take (e - s))
  | none => .unknown

/-- `Size` without the final `simplify()` (simplification is C11's subject). -/
def sizeInfer (a : STn) : STn :=
  match a.dims with
  | some ds => .scalar (ds.foldl (fun p d => .mul p d) (.val 1))
  | none => .shape []

/-- `resolve_index`. -/
def resolveIndex (len : Nat) (i : Int) : Option Nat :=
  let n : Int := len
  if i < -n || i ≥ n then none else some (if i ≥ 0 then i.toNat else (n + i).toNat)

/-- `get` of `Gather`: resolve a possibly negative index against the vector. -/
def gatherGet (vals : List Sym) (i : Int) : Option Sym :=
  (resolveIndex vals.length i).bind fun k => vals[k]?

/-- `Gather` restricted to a valued input and constant indices (axis must resolve against rank ≤ 1). -/
def gatherValues (vals : List Sym) (isScalarIdx : Bool) (idxs : List Int) : Except Err STn :=
  if isScalarIdx then
    match idxs with
    | [i] => (match gatherGet vals i with | some v => .ok (.scalar v) | none => .error .invalidValue)
    | _ => .error .invalidValue
  else
    match mapO (gatherGet vals) idxs with
    | some vs => .ok (.vector vs)
    | none => .error .invalidValue

/-- `Concat` with axis 0 when every input has values. -/
def concatValues (inputs : List STn) : Option STn :=
  (mapO STn.values inputs).map fun vs => .vector vs.flatten

/-- `Unsqueeze` of a scalar with `axes = [0]`. -/
def unsqueezeScalar (a : STn) : Option STn :=
  match a with | .scalar e => some (.vector [e]) | _ => none

/-- `Squeeze` of a length-1 vector (axes `[0]` or absent). -/
def squeezeVector (a : STn) : Option STn :=
  match a with | .vector [e] => some (.scalar e) | _ => none


/-! ## Shape-level layout rules -/

/-- `Transpose { perm }` on a known input shape: `perm = none` reverses, otherwise every index must
be `< ndim` (`IncorrectRank`) and the output has one dimension per entry of `perm`. -/
def transposeInfer (perm : Option (List Nat)) (a : STn) : Except Err STn :=
  match a.dims with
  | none => .ok .unknown       -- (with a perm the code generates fresh symbols: not modelled)
  | some ds =>
    match perm with
    | none => .ok (.shape ds.reverse)
    | some p =>
      match mapO (fun i => ds[i]?) p with
      | some out => .ok (.shape out)
      | none => .error .incorrectRank

def insertAt {α : Type} : Nat → α → List α → List α
  | 0, x, l => x :: l
  | _ + 1, x, [] => [x]          -- `Vec::insert` would panic here; unreachable for sorted distinct axes
  | n + 1, x, y :: l => y :: insertAt n x l

def insertSorted (x : Nat) : List Nat → List Nat
  | [] => [x]
  | y :: l => if x ≤ y then x :: y :: l else y :: insertSorted x l

def sortNat (l : List Nat) : List Nat := l.foldr insertSorted []

/-- `windows(2).any(|p| p[0] == p[1])`. -/
def hasAdjDup : List Nat → Bool
  | x :: y :: l => x == y || hasAdjDup (y :: l)
  | _ => false

/-- `Unsqueeze` shape path (duplicate axes are rejected with `InvalidValue`): resolve the constant axes against the output rank, sort, insert 1s. -/
def unsqueezeShape (a : STn) (axes : List Int) : Except Err STn :=
  match a.dims with
  | none => .ok .unknown
  | some ds =>
    match mapO (resolveIndex (ds.length + axes.length)) axes with
    | none => .error .incorrectRank
    | some rs =>
      if hasAdjDup (sortNat rs) then .error .invalidValue
      else .ok (.shape ((sortNat rs).foldl (fun d ax => insertAt ax (Sym.val 1) d) ds))

def removeIdx {α : Type} (rm : List Nat) : Nat → List α → List α
  | _, [] => []
  | i, x :: l => if rm.contains i then removeIdx rm (i + 1) l else x :: removeIdx rm (i + 1) l

/-- `Squeeze` shape path with constant axes: drop the listed axes (no check that they are 1). -/
def squeezeShape (a : STn) (axes : List Int) : Except Err STn :=
  match a.dims with
  | none => .ok .unknown
  | some ds =>
    match mapO (resolveIndex ds.length) axes with
    | none => .error .incorrectRank
    | some rs => .ok (.shape (removeIdx rs 0 ds))

/-- `ConstantOfShape { value }` when the shape input has values (`value = none`: float fill). -/
def constantOfShapeInfer (value : Option Int) (shape : List Sym) : Except Err STn :=
  match value, shape with
  | some v, [] => .ok (.scalar (.val v))
  | some v, [.val n] => if 0 ≤ n then .ok (.vector (List.replicate n.toNat (.val v))) else .error .invalidValue
  | some _, [e] => .ok (.shape [e])
  | _, es => .ok (.shape es)

/-- `Expand(data, shape)` when the `shape` input has values: the rule is `BinaryOp` applied to the
data and a tensor of shape `sizes` (rten-shape-inference/src/ops/layout.rs). -/
def expandInfer (data : STn) (sizes : List Sym) : Except Err STn := binaryShape data (.shape sizes)

/-- `Neg`: value-carrying inputs are negated element-wise (`-item`, not constant-folded),
otherwise `UnaryOp` (the shape is copied). -/
def negInfer (a : STn) : STn :=
  match a with
  | .scalar e => .scalar (.neg e)
  | .vector es => .vector (es.map Sym.neg)
  | .shape ds => .shape ds
  | .unknown => .unknown

/-- `Identity`: the input, unchanged. -/
def identityInfer (a : STn) : STn := a


/-! ## Full rules (every branch) of `Unsqueeze`, `Squeeze`, the shape paths of `Gather` and `Concat`,
`UnaryOp` -/

/-- `UnaryOp`: the input's shape, or unknown. -/
def unaryInfer (a : STn) : STn :=
  match a.dims with
  | some ds => .shape ds
  | none => .unknown

/-- `Unsqueeze`, all three branches. -/
def unsqueezeInfer (a axes : STn) : Except Err STn :=
  match axes.constant with
  | some (_, idxs) =>
    match a, idxs with
    | .scalar e, [0] => .ok (.vector [e])
    | _, _ => match a.dims with
      | some _ => unsqueezeShape a idxs
      | none => .ok .unknown
  | none => .ok .unknown

/-- `Squeeze`, every branch (`axes = none`: the input is absent). -/
def squeezeInfer (a : STn) (axes : Option STn) : Except Err STn :=
  match a.dims with
  | none => .ok .unknown
  | some ds =>
    let constAxes : Option (List Int) :=
      match axes with
      | some ax => (match ax.constant with | some (false, idxs) => some idxs | _ => none)
      | none => none
    let resolved : Except Err (Option (List Nat)) :=
      match constAxes with
      | some idxs => (match mapO (resolveIndex ds.length) idxs with
          | some rs => .ok (some rs)
          | none => .error .incorrectRank)
      | none => .ok none
    match resolved with
    | .error e => .error e
    | .ok rs =>
      let vecToScalar : Option STn :=
        match a, rs with
        | .vector [e], some [0] => some (.scalar e)
        | .vector [e], none => some (.scalar e)
        | _, _ => none
      match vecToScalar with
      | some r => .ok r
      | none =>
        match rs with
        | some rs => .ok (.shape (removeIdx rs 0 ds))
        | none =>
          if axes.isNone && ds.all (fun d => match d with | .val _ => true | _ => false) then
            .ok (.shape (ds.filter fun d => match d with | .val 1 => false | _ => true))
          else .ok .unknown

/-- `Gather`: the value path when the data has values and the indices are constant, otherwise the
shape path `data[..axis] ++ indices.shape ++ data[axis+1..]`. -/
def gatherInfer (axis : Int) (data indices : STn) : Except Err STn :=
  match data.dims with
  | none => .ok .unknown
  | some dd =>
    match resolveIndex dd.length axis with
    | none => .error .incorrectRank
    | some ax =>
      match data.values, indices.constant with
      | some vals, some (isScalar, idxs) => gatherValues vals isScalar idxs
      | _, _ =>
        match indices.dims with
        | some idd => .ok (.shape (dd.take ax ++ idd ++ dd.drop (ax + 1)))
        | none => .ok .unknown

/-- `Concat`: the value path (axis 0, every input valued) or the shape path (`+=` on the axis);
`none` = an input of unknown shape makes the code generate a fresh symbol (not modelled). -/
def concatInfer (axis : Int) (inputs : List STn) : Option (Except Err STn) :=
  match inputs with
  | [] => some (.error .incorrectInputCount)
  | first :: rest =>
    match first.dims with
    | none => some (.ok .unknown)
    | some fd =>
      match resolveIndex fd.length axis with
      | none => some (.error .incorrectRank)
      | some ax =>
        if ax == 0 && inputs.all (fun t => t.values.isSome) then (concatValues inputs).map Except.ok
        else
          (rest.foldl (fun (acc : Option (List Sym)) t =>
            match acc, t.dims with
            | some out, some td =>
              (match td[ax]? with
               | some d => some (out.set ax (.add (out.getD ax (.val 0)) d))
               | none => none)
            | _, _ => none) (some fd)).map fun out => .ok (.shape out)

/-! ## `Pool` (MaxPool / AveragePool) -/

inductive PadSpec
  | same
  | fixed (pads : List Int)

/-- `output_size` on symbolic input size and symbolic kernel size (stride, dilation and pads are
attributes), both padding modes. -/
def convOutSym (inp k : Sym) (s d : Int) (pad : Option (Int × Int)) (ceil : Bool) : Sym :=
  match pad with
  | none => .divCeil inp (.val s)                       -- `DimPadding::Same`
  | some (ps, pe) =>
    let one : Sym := .val 1
    let padded : Sym := .add (.add inp (.val ps)) (.val pe)
    let w : Sym := .sub (.sub padded (.mul (.val d) (.sub k one))) one
    if !ceil then .add (.div w (.val s)) one
    else
      let maxSize : Sym := .divCeil (.add inp (.val ps)) (.val s)
      let c : Sym := .divCeil w (.val s)
      .min (.add c one) (.max c maxSize)

/-- Pooling: the kernel size is an attribute. -/
def poolOutSym (inp : Sym) (k s d : Int) (pad : Option (Int × Int)) (ceil : Bool) : Sym :=
  convOutSym inp (.val k) s d pad ceil

def padDim (pad : PadSpec) (i spatial : Nat) : Option (Option (Int × Int)) :=
  match pad with
  | .same => some none
  | .fixed ps => match ps[i]?, ps[spatial + i]? with
    | some a, some b => some (some (a, b))
    | _, _ => none

/-- `Pool::infer_shapes`: batch and channel dims are copied, the first one or two spatial dims go
through `output_size` (dilation 1). -/
def poolInfer (kernel strides : List Int) (pad : PadSpec) (ceil : Bool) (a : STn) : Except Err STn :=
  match a.dims with
  | none => .ok .unknown
  | some ds =>
    if ds.length < 3 then .error .incorrectRank
    else
      let spatial := ds.length - 2
      match ds[0]?, ds[1]?, ds[2]?, padDim pad 0 spatial, kernel[0]?, strides[0]? with
      | some n, some c, some h, some ph, some kh, some sh =>
        let outH := poolOutSym h kh sh 1 ph ceil
        match ds[3]? with
        | none => .ok (.shape [n, c, outH])
        | some w =>
          match padDim pad 1 spatial, kernel[1]?, strides[1]? with
          | some pw, some kw, some sw => .ok (.shape [n, c, outH, poolOutSym w kw sw 1 pw ceil])
          | _, _, _ => .error .invalidValue
      | _, _, _, _, _, _ => .error .invalidValue


/-- `Conv::infer_shapes`: batch from the data, output channels and kernel sizes from the weights,
floor mode. -/
def convInfer (strides dilations : List Int) (pad : PadSpec) (data weights : STn) : Except Err STn :=
  match data.dims, weights.dims with
  | none, _ => .ok .unknown
  | some _, none => .ok .unknown
  | some ds, some ws =>
    if ds.length < 3 then .error .incorrectRank
    else if ws.length != ds.length then .error .incorrectRank
    else
      let spatial := ds.length - 2
      match ds[0]?, ws[0]?, ds[2]?, ws[2]?, padDim pad 0 spatial, strides[0]?, dilations[0]? with
      | some n, some co, some h, some kh, some ph, some sh, some dh =>
        let outH := convOutSym h kh sh dh ph false
        match ds[3]?, ws[3]? with
        | some w, some kw =>
          match padDim pad 1 spatial, strides[1]?, dilations[1]? with
          | some pw, some sw, some dw => .ok (.shape [n, co, outH, convOutSym w kw sw dw pw false])
          | _, _, _ => .error .invalidValue
        | _, _ => .ok (.shape [n, co, outH])
      | _, _, _, _, _, _, _ => .error .invalidValue

end RtenVerif.ShapeInfer
