/-
C14: the layout-handling glue shared by element-wise operators, over *views* (base offset +
(size, stride) list, Model/Layout.lean) of abstract element storage:

* `binary_op` (src/ops/binary_elementwise.rs): output shape by `broadcast_shapes`; fast path when
  the LHS already has the output shape, both operands are contiguous (`data()` is `Some`) and
  `fast_broadcast_cycles_repeats` succeeds (`apply_fast`: cycles / repeats over the two slices);
  otherwise both operands are broadcast to the output shape (`broadcast_strides`, stride 0 on
  stretched axes) and combined index by index in row-major order (`apply_indexed`);
* `unary_op` / `unary_op_in_place` (src/ops/unary_elementwise.rs): map over the contiguous slice
  when there is one, else over `to_contiguous` (row-major copy);
* `TransformInputs` with a *list* of permute transforms.

Core Lean + import-free models; links into `model_C14`.
-/
import RtenVerif.Model.InPlace
import RtenVerif.Model.Layout
import RtenVerif.Model.Iter

namespace RtenVerif.Layout
open RtenVerif.Overlap RtenVerif.FastBroadcast RtenVerif.InPlace
open RtenVerif.Iter (rowMajor)
open RtenVerif.Arr (Err)

/-- The logical content of a view: shape and elements in row-major index order. -/
def tensOf {α : Type} (v : View) (s : Nat → α) : Tens α :=
  ⟨sizes v.dims, (rowMajor v.dims).map (fun o => s (v.base + o))⟩

/-- `TensorView::data()`: the elements as one slice, only for a contiguous layout. -/
def viewData {α : Type} (v : View) (s : Nat → α) : Option (List α) :=
  if isContiguous v.dims then
    some ((List.range (RtenVerif.Arr.numel (sizes v.dims))).map (fun i => s (v.base + i)))
  else none

/-- Elements of `v.broadcast(target)` in iteration (row-major) order: offsets computed from the
broadcast strides. -/
def bcastViewElems {α : Type} (v : View) (target : List Nat) (s : Nat → α) : List α :=
  (rowMajor (List.zip target (broadcastStrides v.dims target))).map (fun o => s (v.base + o))

/-- `binary_op(a, b, f)`. `none` = `IncompatibleInputShapes`. -/
def binaryOp {α β γ : Type} (f : α → β → γ) (a : View) (sa : Nat → α) (b : View) (sb : Nat → β) :
    Option (Tens γ) :=
  match broadcastShapes (sizes a.dims) (sizes b.dims) with
  | none => none
  | some out =>
    let fast : Option (List γ) :=
      if sizes a.dims = out then
        match viewData a sa, viewData b sb with
        | some ad, some bd =>
          match fastBroadcast (sizes b.dims) (sizes a.dims) with
          | .some c r => some (List.zipWith f ad (cycleRepeat c r bd))
          | _ => none
        | _, _ => none
      else none
    match fast with
    | some d => some ⟨out, d⟩
    | none => some ⟨out, List.zipWith f (bcastViewElems a out sa) (bcastViewElems b out sb)⟩

/-- `unary_op(input, f)`: `to_contiguous` (borrow the slice if contiguous, else copy in row-major
order), then map over the slice. -/
def unaryOp {α β : Type} (f : α → β) (v : View) (s : Nat → α) : Tens β :=
  match viewData v s with
  | some d => ⟨sizes v.dims, d.map f⟩
  | none => ⟨sizes v.dims, ((rowMajor v.dims).map (fun o => s (v.base + o))).map f⟩

/-- One `TransformInputs` entry: permute input `index` by `perm` (`none`: reverse the axes). -/
structure PermuteSpec where
  index : Nat
  perm : Option (List Nat)
  deriving Repr, DecidableEq

def applyPerm (v : View) : Option (List Nat) → Except Err View
  | some p => permuted v p
  | none => .ok (transposed v)

/-- The transform loop of `TransformInputs::run`: entries applied in order to the input *views*
(a missing input is `MissingInputs`, an invalid permutation panics). -/
def applyTransforms : List PermuteSpec → List TState → Except Err (List TState)
  | [], ts => .ok ts
  | sp :: rest, ts =>
    match ts[sp.index]? with
    | none => .error .err
    | some t =>
      match applyPerm t.view sp.perm with
      | .error e => .error e
      | .ok v => applyTransforms rest (ts.set sp.index { t with view := v })

/-- `TransformInputs::in_place_inputs`: the inner operator's set, unless a transform applies to one
of those inputs (only the first 16 inputs can be in-place inputs), in which case in-place
execution is refused altogether. -/
def transformInPlaceInputs (innerIps : List Nat) (specs : List PermuteSpec) : List Nat :=
  if specs.any (fun sp => decide (sp.index < 16) && innerIps.contains sp.index) then [] else innerIps

/-- The transform loop of `TransformInputs::run_in_place`: it runs over `ctx.inputs()`, where the
positions of the in-place inputs are `None`; hitting such a slot is `MissingInputs`. -/
def applyTransformsOpt : List PermuteSpec → List (Option TState) → Except Err (List (Option TState))
  | [], ts => .ok ts
  | sp :: rest, ts =>
    match ts[sp.index]? with
    | some (some t) =>
      match applyPerm t.view sp.perm with
      | .error e => .error e
      | .ok v => applyTransformsOpt rest (ts.set sp.index (some { t with view := v }))
    | _ => .error .err

/-- `TransformInputs::run`. -/
def transformInputsRunAll {β : Type} (specs : List PermuteSpec) (inner : List TState → β)
    (ts : List TState) : Except Err β :=
  (applyTransforms specs ts).map inner

/-- The unfused graph: explicit `Transpose` operators (copying into fresh contiguous tensors)
in front of the inner operator. -/
def explicitTransposes : List PermuteSpec → List TState → Except Err (List TState)
  | [], ts => .ok ts
  | sp :: rest, ts =>
    match ts[sp.index]? with
    | none => .error .err
    | some t =>
      match applyPerm t.view sp.perm with
      | .error e => .error e
      | .ok v =>
        explicitTransposes rest (ts.set sp.index (TState.ofArr (denote v (fun i => t.store.getD i 0))))

end RtenVerif.Layout
