/-!
# Model of the bit-level parts of rten-vecmath's `exp` family (C19)

Import-free, executable.

* IEEE-754 binary32 field decoding on raw bit patterns (`Nat < 2^32`).
* `Exp::eval`'s reconstruction of `2^k` as the product of two floats built with integer
  operations (`rten-vecmath/src/exp.rs`):
  ```
  ia = select(0, 0x83000000, k > 0);  is = ia + 0x7f000000;  it = (k << 23) - ia
  s = bitcast(is); t = bitcast(it);   result = r * s * t
  ```
  and `ReducedRangeExp`'s single factor `(k + 127) << 23`.
* The special-value select chains of `Exp` (`x ≥ 104 → +inf`, `x ≤ −104 → 0`),
  `ReducedRangeExp`, and `Tanh` as decision logic over an abstract float class.
-/
namespace RtenVerif.ExpBits

/-! ## binary32 decoding -/

def signBit (b : Nat) : Nat := b / 2 ^ 31 % 2
def expField (b : Nat) : Nat := b / 2 ^ 23 % 256
def mantissa (b : Nat) : Nat := b % 2 ^ 23

/-- A finite binary32 value `(-1)^neg · mant · 2^exp`. -/
structure Dyadic where
  neg : Bool
  mant : Nat
  exp : Int
  deriving Repr, DecidableEq

/-- Decode a bit pattern; `none` for infinities and NaNs. -/
def decode (b : Nat) : Option Dyadic :=
  let e := expField b
  if e = 255 then none
  else if e = 0 then some ⟨signBit b = 1, mantissa b, -149⟩
  else some ⟨signBit b = 1, 2 ^ 23 + mantissa b, (e : Int) - 150⟩

/-- `some j` iff the pattern is the *normal* float `+2^j` (sign 0, mantissa 0, exponent field
in `1..254`, `j = field − 127`). -/
def pow2Exp (b : Nat) : Option Int :=
  if signBit b = 0 ∧ mantissa b = 0 ∧ 1 ≤ expField b ∧ expField b ≤ 254 then
    some ((expField b : Int) - 127)
  else none

/-! ## `Exp`: two-factor reconstruction -/

/-- `(is, it)` as computed by `Exp::eval` from the integer `k = to_int_trunc(j)` (i32 lanes,
wrapping arithmetic). -/
def expRecon (k : BitVec 32) : BitVec 32 × BitVec 32 :=
  let kPos : Bool := decide (0 < k.toInt)                       -- int_ops.gt(k, zero)
  let ia : BitVec 32 := if kPos then 0#32 else 0x83000000#32     -- select(zero, x83, mask)
  let is := ia + 0x7f000000#32
  let it := (k <<< 23) - ia
  (is, it)

/-- The exponents of the two factors (`none` if a factor is not a normal power of two). -/
def expFactorExps (k : Int) : Option Int × Option Int :=
  (pow2Exp (expRecon (BitVec.ofInt 32 k)).1.toNat, pow2Exp (expRecon (BitVec.ofInt 32 k)).2.toNat)

/-- Exponent of the constant first factor: `2^127` for `k > 0`, `2^-123` otherwise. -/
def firstExp (k : Int) : Int := if k > 0 then 127 else -123

/-- `ReducedRangeExp`: `k_pow2 = (k + 127) << 23`. -/
def reducedRecon (k : BitVec 32) : BitVec 32 := (k + 127#32) <<< 23

def reducedReconExp (k : Int) : Option Int := pow2Exp (reducedRecon (BitVec.ofInt 32 k)).toNat

/-- Largest `|k|` reachable when `|x| < 104`: `k = rint(x · log2 e)`, `104 · 1.442695… = 150.04`.
(The harness recomputes `j` with the code's own f32 operations at `x = ±nextbelow(104)`.) -/
def kReach : Int := 150

/-! ## special-value decision logic -/

/-- Abstract input: NaN, ±∞, or the finite value `q · 2^-149` (every finite f32 has this form). -/
inductive FVal where
  | nan
  | negInf
  | fin (q : Int)
  | posInf
  deriving Repr, DecidableEq

/-- `2^149`, the scale of `FVal.fin`. -/
def scale : Int := 2 ^ 149

/-- Ordered comparison `x ≥ c` for an integer constant `c` (`_CMP_GE_OQ`: false on NaN). -/
def geC (x : FVal) (num den : Int) : Bool :=
  match x with
  | .nan => false
  | .negInf => false
  | .posInf => true
  | .fin q => decide (q * den ≥ num * scale)

/-- Ordered comparison `x ≤ c`, `c = num/den`, `den > 0` (false on NaN). -/
def leC (x : FVal) (num den : Int) : Bool :=
  match x with
  | .nan => false
  | .negInf => true
  | .posInf => false
  | .fin q => decide (q * den ≤ num * scale)

def ltC (x : FVal) (num den : Int) : Bool :=
  match x with
  | .nan => false
  | .negInf => true
  | .posInf => false
  | .fin q => decide (q * den < num * scale)

def absV : FVal → FVal
  | .nan => .nan
  | .negInf => .posInf
  | .posInf => .posInf
  | .fin q => .fin (if q < 0 then -q else q)

/-- Which value the final selects of `Exp::eval` return. `core` is the arithmetic result
`r·s·t` (which is NaN for a NaN input because every IEEE operation propagates NaN). -/
inductive ExpOut where
  | zero | inf | core
  deriving Repr, DecidableEq

/-- ```
let r = select(INFINITY, r, x >= 104); select(0, r, x <= -104)
``` -/
def expSelect (x : FVal) : ExpOut :=
  let overflow := geC x 104 1
  let underflow := leC x (-104) 1
  let r := if overflow then ExpOut.inf else ExpOut.core
  if underflow then ExpOut.zero else r

/-- Class of an f32 result. -/
inductive FRes where
  | nan | zero | inf | val
  deriving Repr, DecidableEq

/-- Value class returned by `Exp::eval` when the arithmetic part (range reduction, polynomial,
`r·s·t`) yields a result of class `core x` — `core` is a parameter: nothing is assumed about
what the arithmetic produces (for `x = ±∞` it is in fact NaN, from `∞ − ∞`). -/
def expValue (core : FVal → FRes) (x : FVal) : FRes :=
  match expSelect x with
  | .zero => .zero
  | .inf => .inf
  | .core => core x

/-- The same two selects applied in the opposite order (for the order-independence lemma). -/
def expSelectSwapped (x : FVal) : ExpOut :=
  let overflow := geC x 104 1
  let underflow := leC x (-104) 1
  let r := if underflow then ExpOut.zero else ExpOut.core
  if overflow then ExpOut.inf else r

/-- `EXP_LOWER_CUTOFF = -126.5·ln 2 + 0.01 ≈ -87.6731` as the f32 the compiler produces is
bracketed by these rationals (only the bracket is used). -/
def cutoffLoNum : Int := -87674
def cutoffHiNum : Int := -87673
def cutoffDen : Int := 1000

/-- `ReducedRangeExp`: `select(0, r, x < EXP_LOWER_CUTOFF)`; the cutoff is a parameter
`num/den`. -/
def reducedSelect (x : FVal) (num den : Int) : ExpOut :=
  if ltC x num den then ExpOut.zero else ExpOut.core

/-- Branch taken by `Tanh::eval` and whether the result is negated at the end. -/
inductive TanhBranch where
  | one | small | tiny | medium
  deriving Repr, DecidableEq

/-- Branch chosen by `Tanh::eval`:
```
cutoff = |x| >= 9.02; tiny = |x| <= 0.0004; small = |x| <= 0.55
y = select(1, y_medium, cutoff); y = select(y_small, y, small); y = select(|x|, y, tiny)
``` -/
def tanhBranch (x : FVal) : TanhBranch :=
  let a := absV x
  let cutoff := geC a 902 100
  let tiny := leC a 4 10000
  let small := leC a 55 100
  let y := if cutoff then TanhBranch.one else TanhBranch.medium
  let y := if small then TanhBranch.small else y
  if tiny then TanhBranch.tiny else y

/-- Current code (after fix 2nd commit of C19): the sign bit of the input is OR-ed onto the
non-negative magnitude: `or(y, and(x, -0.0))`.  `sb` is the input's sign bit (it distinguishes
`+0.0` from `-0.0`, which `FVal` does not). -/
def tanhSelect (x : FVal) (sb : Bool) : TanhBranch × Bool := (tanhBranch x, sb)

/-- The code as found: `x_negative = x <= 0; … select(-y, y, x_negative)`. -/
def tanhSelectLe (x : FVal) : TanhBranch × Bool := (tanhBranch x, leC x 0 1)

end RtenVerif.ExpBits
