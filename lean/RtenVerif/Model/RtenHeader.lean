/-
Model of `rten-model-file/src/header.rs` (`Header::to_buf`, `Header::from_buf`), of the
ONNX→RTen constant narrowing (`saturating_cast_i64_to_i32`, bool → 0/1) in
`src/model/onnx_loader.rs`, and of `rten_simd::float16::f16_to_f32` (bit level).
Import-free.
-/
namespace RtenVerif.RtenHeader

/-! ### Little-endian integers as byte lists (bytes are `Nat < 256`) -/

/-- `n` little-endian bytes of `v` (`to_le_bytes`). -/
def leBytes : Nat → Nat → List Nat
  | 0, _ => []
  | n + 1, v => (v % 256) :: leBytes n (v / 256)

/-- Value of a little-endian byte list (`from_le_bytes`). -/
def leValue : List Nat → Nat
  | [] => 0
  | b :: bs => b + 256 * leValue bs

structure Header where
  version : Nat
  modelOffset : Nat
  modelLen : Nat
  tensorDataOffset : Nat
  deriving DecidableEq, Repr

inductive HeaderError where
  | tooShort | unsupportedVersion | invalidMagic | invalidOffset | invalidLength
  deriving DecidableEq, Repr

/-- `b"RTEN"` -/
def magic : List Nat := [82, 84, 69, 78]

def headerLen : Nat := 32

def u64Max : Nat := 2 ^ 64 - 1

/-- `u64::saturating_add` -/
def satAdd64 (a b : Nat) : Nat := if a + b > u64Max then u64Max else a + b

/-- `Header::to_buf` -/
def toBuf (h : Header) : List Nat :=
  magic ++ leBytes 4 h.version ++ leBytes 8 h.modelOffset ++ leBytes 8 h.modelLen ++
    leBytes 8 h.tensorDataOffset

/-- `ValueReader::read_n` / `read`: next `n` bytes, or `none`. -/
def readN (buf : List Nat) (pos n : Nat) : Option (List Nat) :=
  if pos + n ≤ buf.length then some ((buf.drop pos).take n) else none

/-- `Header::from_buf` (`buf` is the whole file). -/
def fromBuf (buf : List Nat) : Except HeaderError Header :=
  let fileSize := buf.length
  match readN buf 0 4 with
  | none => .error .tooShort
  | some m =>
    if m ≠ magic then .error .invalidMagic else
    match readN buf 4 4 with
    | none => .error .tooShort
    | some vb =>
      let version := leValue vb
      if version ≠ 2 then .error .unsupportedVersion else
      match readN buf 8 8 with
      | none => .error .tooShort
      | some ob =>
        let modelOffset := leValue ob
        if modelOffset < headerLen ∨ modelOffset > fileSize then .error .invalidOffset else
        match readN buf 16 8 with
        | none => .error .tooShort
        | some lb =>
          let modelLen := leValue lb
          if satAdd64 modelOffset modelLen > fileSize then .error .invalidLength else
          match readN buf 24 8 with
          | none => .error .tooShort
          | some tb =>
            let tdo := leValue tb
            if tdo < headerLen ∨ tdo > fileSize then .error .invalidOffset else
            .ok { version := version, modelOffset := modelOffset, modelLen := modelLen,
                  tensorDataOffset := tdo }

/-! ### The converter's header layout (compared with `Generated/ConverterHeader.lean`) -/

/-- One `fp.write` of `write_header`: literal bytes, or a `struct.pack` format with the name of
the packed variable. -/
inductive HField where
  | lit (bytes : List Nat)
  | pack (fmt : String) (var : String)
  deriving DecidableEq, Repr

/-- The layout `Header::from_buf` expects, in `struct` notation. -/
def expectedLayout : List HField :=
  [.lit magic, .pack "<I" "version", .pack "<Q" "model_data_offset", .pack "<Q" "model_data_len",
   .pack "<Q" "tensor_data_offset"]

/-! ### Constant narrowing -/

def i32Min : Int := -(2 ^ 31)
def i32Max : Int := 2 ^ 31 - 1

/-- `x.clamp(i32::MIN, i32::MAX) as i32` (loader side). -/
def satCastI64ToI32 (x : Int) : Int := if x < i32Min then i32Min else if x > i32Max then i32Max else x

/-- numpy `data.clip(lo, hi)` -/
def npClip (x lo hi : Int) : Int := min (max x lo) hi

/-- numpy `astype(np.int32)` of an int64: two's complement truncation. -/
def wrapI32 (x : Int) : Int := (x + 2 ^ 31) % 2 ^ 32 - 2 ^ 31

/-- Converter side: `data.clip(i32.min, i32.max).astype(np.int32)`. -/
def converterNarrow (x : Int) : Int := wrapI32 (npClip x i32Min i32Max)

/-! ### f16 → f32 on bit patterns (`rten_simd::float16::f16_to_f32`) -/

/-- Number of leading zeros of a 16-bit value (`u16::leading_zeros`). -/
def clz16 (x : Nat) : Nat := 16 - (Nat.log2 x + 1)

def f16ToF32Bits (i : Nat) : Nat :=
  if i &&& 0x7FFF = 0 then i <<< 16
  else
    let halfSign := i &&& 0x8000
    let halfExp := i &&& 0x7C00
    let halfMan := i &&& 0x03FF
    if halfExp = 0x7C00 then
      if halfMan = 0 then (halfSign <<< 16) ||| 0x7F800000
      else (halfSign <<< 16) ||| 0x7FC00000 ||| (halfMan <<< 13)
    else
      let sign := halfSign <<< 16
      if halfExp = 0 then
        let e := clz16 halfMan - 6
        let exp := (127 - 15 - e) <<< 23
        let man := (halfMan <<< (14 + e)) &&& 0x7FFFFF
        sign ||| exp ||| man
      else
        -- unbiased_exp + 127 = (half_exp >> 10) - 15 + 127
        let exp := ((halfExp >>> 10) + 112) <<< 23
        let man := (halfMan &&& 0x03FF) <<< 13
        sign ||| exp ||| man

/-- Exact value of a binary interchange format bit pattern (`eb` exponent bits, `mb` mantissa
bits) as a single natural number code, so that two patterns (possibly of different formats)
denote the same extended real iff their codes are equal:
`class * 2^512 + sign * 2^511 + magnitude`, where class is 0 = zero/finite, 1 = infinity,
2 = NaN (sign and payload ignored), and `magnitude = |x| * 2^200` (an integer for every f16/f32
value since the smallest f32 subnormal is 2^-149). -/
def valueCode (eb mb bits : Nat) : Nat :=
  let sign := (bits >>> (eb + mb)) % 2
  let e := (bits >>> mb) % 2 ^ eb
  let m := bits % 2 ^ mb
  let bias := 2 ^ (eb - 1) - 1
  if e = 2 ^ eb - 1 then (if m = 0 then 1 * 2 ^ 512 + sign * 2 ^ 511 else 2 * 2 ^ 512)
  else if e = 0 then sign * 2 ^ 511 + m * 2 ^ (200 + 1 - bias - mb)
  else sign * 2 ^ 511 + (2 ^ mb + m) * 2 ^ (200 + e - bias - mb)

def codeF16 : Nat → Nat := valueCode 5 10
def codeF32 : Nat → Nat := valueCode 8 23

/-- `∀ i < n, p i`, structurally recursive so the kernel evaluates it quickly. -/
def allBelow (p : Nat → Bool) : Nat → Bool
  | 0 => true
  | n + 1 => p n && allBelow p n

end RtenVerif.RtenHeader
