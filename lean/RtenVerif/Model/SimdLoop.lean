/-!
# Model of rten-simd's slice loops and scalar lane semantics (C18)

Import-free, executable.  Two parts:

* **Index schedules** of the loop skeletons in `rten-simd/src/functional.rs`
  (`simd_map`, `simd_apply<UNROLL>`), `iter.rs` (`Iter::next` + `tail`,
  `fold_unroll`), `writer.rs` (`SliceWriter`) and of `first_n_mask` as coded in
  `arch/generic.rs`, `arch/x86_64/avx2.rs` (array of lane masks) and
  `arch/x86_64/avx512.rs` (bit loop).  A schedule is the list of vector-sized
  accesses (`Chunk`s) the loop performs; a chunk knows its start offset and its
  per-lane mask, so "which slice indices are touched, how often" is a function of
  the schedule.
* **Scalar lane reference semantics** of the integer operations of
  `ops.rs` (`NumOps`/`IntOps`/`SignedIntOps`/`Extend`/`Interleave`/`Concat`/
  `NarrowSaturate`) on `Int`, with two's-complement wrapping made explicit.
-/
namespace RtenVerif.SimdLoop

/-! ## Chunks and masks -/

/-- `first_n_mask(n)` for a vector of `v` lanes, as coded in `generic.rs`/`avx2.rs`:
`array::from_fn(|i| if i < n { !0 } else { 0 })`. -/
def firstNMask (v n : Nat) : List Bool := (List.range v).map (fun i => decide (i < n))

/-- `first_n_mask(n)` as coded in `avx512.rs`: `for i in 0..n { mask |= 1 << i }`
(the mask is a `u16/u32/u64`; all callers pass `n ≤ lanes` so no shift overflows). -/
def bitLoopMask (n : Nat) : Nat := (List.range n).foldl (fun m i => m ||| (1 <<< i)) 0

/-- One vector-sized memory access: lanes `start + i` for the `i` whose mask bit is set. -/
structure Chunk where
  start : Nat
  mask : List Bool
  deriving Repr, DecidableEq

/-- Unmasked access (`load_ptr` / `store_ptr`): all `v` lanes. -/
def full (v off : Nat) : Chunk := ⟨off, List.replicate v true⟩

/-- Masked access (`load_ptr_mask` / `store_ptr_mask`) with `first_n_mask(t)`. -/
def masked (v off t : Nat) : Chunk := ⟨off, firstNMask v t⟩

/-- Offsets of the set lanes of a mask, in lane order. -/
def maskIdx : Nat → List Bool → List Nat
  | _, [] => []
  | off, b :: bs => if b then off :: maskIdx (off + 1) bs else maskIdx (off + 1) bs

/-- The slice indices a chunk touches. -/
def Chunk.indices (c : Chunk) : List Nat := maskIdx c.start c.mask

/-- Number of active lanes. -/
def Chunk.count (c : Chunk) : Nat := c.indices.length

/-- All indices touched by a schedule, in program order (with multiplicity). -/
def touched (cs : List Chunk) : List Nat := cs.flatMap Chunk.indices


/-! ## Emulated masked load / store (AVX2 8- and 16-bit lanes, generic ISA)

AVX2 has masked load/store instructions only for 32-bit lanes.  For `i8/u8/i16/u16/f16`
`avx2.rs` falls back to scalar Rust loops driven by `_mm256_movemask_epi8(mask)`:
```
let mask = _mm256_movemask_epi8(mask.0) as u32;
for i in 0..16 { if mask & (1 << (i * 2 + 1)) != 0 { *ptr.add(i) = xs[i] } }     // 16-bit lanes
for i in 0..32 { if mask & (1 << i) != 0 { *ptr.add(i) = xs[i] } }               // 8-bit lanes
```
and `generic.rs` loops over the lane-mask array (`if mask_array[i] != 0 { … }`). -/

/-- `_mm256_movemask_epi8`: bit `j` of the result is the top bit of byte `j`. -/
def movemask8 : List Bool → Nat
  | [] => 0
  | b :: bs => (if b then 1 else 0) + 2 * movemask8 bs

/-- Byte-level view of a mask register with 16-bit lanes: each lane is all-ones or all-zeros,
so both of its bytes carry the lane's truth value. -/
def bytesOf16 : List Bool → List Bool
  | [] => []
  | b :: bs => b :: b :: bytesOf16 bs

/-- Which bit of the movemask the fallback loop tests for lane `i`. -/
inductive EmuKind where
  | direct      -- generic ISA: `mask_array[i] != 0`
  | avx2x8      -- `mask & (1 << i)`
  | avx2x16     -- `mask & (1 << (i * 2 + 1))`
  deriving Repr, DecidableEq

/-- The loop's per-lane test as coded. -/
def emuBit (k : EmuKind) (m : List Bool) (i : Nat) : Bool :=
  match k with
  | .direct => m.getD i false
  | .avx2x8 => (movemask8 m).testBit i
  | .avx2x16 => (movemask8 (bytesOf16 m)).testBit (i * 2 + 1)

/-- Addresses dereferenced by the fallback loop (`ptr.add(i)` for the lanes whose test
succeeds), in loop order. -/
def emuAccess (lanes : Nat) (bit : Nat → Bool) (off : Nat) : List Nat :=
  (List.range lanes).filterMap (fun i => if bit i then some (off + i) else none)

/-- Emulated masked load: lane `i` is `*ptr.add(i)` if its test succeeds, else zero. -/
def emuLoad {α : Type} (zero : α) (mem : Nat → α) (lanes : Nat) (bit : Nat → Bool) (off : Nat) :
    List α :=
  (List.range lanes).map (fun i => if bit i then mem (off + i) else zero)

/-- Emulated masked store: `for i in 0..lanes { if bit(i) { *ptr.add(i) = xs[i] } }`. -/
def emuStore {α : Type} (zero : α) (mem : Nat → α) (lanes : Nat) (bit : Nat → Bool) (off : Nat)
    (xs : List α) : Nat → α :=
  (List.range lanes).foldl
    (fun mem i => if bit i then (fun a => if a = off + i then xs.getD i zero else mem a) else mem) mem

/-! ## `simd_map` (functional.rs) -/

/-- The `if n > 0 { mask = first_n_mask(n); load_ptr_mask; store_ptr_mask }` epilogue. -/
def tailChunk (v off n : Nat) : List Chunk := if n > 0 then [masked v off n] else []

/-- `while n >= v_len { load; store; n -= v_len; ptr += v_len }` followed by the masked
tail.  `fuel` bounds the loop (each iteration consumes `v ≥ 1` elements). -/
def mapLoop (v : Nat) : Nat → Nat → Nat → List Chunk
  | 0, off, n => tailChunk v off n
  | fuel + 1, off, n =>
    if n ≥ v then full v off :: mapLoop v fuel (off + v) (n - v) else tailChunk v off n

/-- Schedule of `simd_map` over a slice of length `n` with `v` lanes per vector. The
same schedule is used for the source (loads) and the destination (stores). -/
def simdMap (v n : Nat) : List Chunk := mapLoop v n 0 n

/-! ## `simd_apply<UNROLL>` (functional.rs) and `Iter::fold_unroll` (iter.rs) -/

/-- `k` consecutive full chunks starting at `off`. -/
def fullRun (v off k : Nat) : List Chunk := (List.range k).map (fun j => full v (off + j * v))

/-- `dest.chunks_exact_mut(v*u)` with `u` accesses per chunk, then
`remainder.chunks_exact_mut(v)`, then the masked tail (panics if `v*u = 0`, as
`chunks_exact_mut(0)` does). -/
def simdApply (v u n : Nat) : Option (List Chunk) :=
  if v * u = 0 then none else
  let big := v * u
  let nb := n / big
  let main := (List.range nb).flatMap (fun b => fullRun v (b * big) u)
  let rem := n % big
  let off := nb * big
  let mid := fullRun v off (rem / v)
  some (main ++ mid ++ tailChunk v (off + (rem / v) * v) (rem % v))

/-! ## `Iter` (iter.rs) -/

/-- `Iter::tail` in a state with `rem` elements left: `load_pad` uses
`first_n_mask(min(rem, v))`; `None` when nothing is left. -/
def iterTail (v off rem : Nat) : List Chunk :=
  if rem > 0 then [masked v off (min rem v)] else []

/-- `Iter::next` until exhaustion (`split_at_checked(v)`), then `tail()`: the access
pattern of `Iter::fold` / `fold_n` / `simd_iter_pad`. -/
def iterLoop (v : Nat) : Nat → Nat → Nat → List Chunk
  | 0, off, rem => iterTail v off rem
  | fuel + 1, off, rem =>
    if v ≤ rem then full v off :: iterLoop v fuel (off + v) (rem - v) else iterTail v off rem

def simdIter (v n : Nat) : List Chunk := iterLoop v n 0 n


/-! ## Fold skeletons of `Iter` (iter.rs): `fold`, `fold_n`, `fold_unroll`, `fold_n_unroll`

A SIMD register is modelled as a function from lane number to lane value (only lanes `< v`
matter).  `β` is the per-lane accumulator state: one value for `fold`, an `N`-tuple for `fold_n`
(the code applies `select` to each of the `N` accumulators with the same mask, which is `select`
on the tuple). `f` is the per-lane accumulate function. -/
section Fold
variable {α β : Type}

/-- Lane that follows lane `p` in a `v`-lane register (`(p + 1) mod v` without `mod`). -/
def nextLane (v p : Nat) : Nat := if p + 1 = v then 0 else p + 1

def advance (v : Nat) : Nat → Nat → Nat
  | p, 0 => p
  | p, k + 1 => advance v (nextLane v p) k

def updLane (f : β → α → β) (acc : Nat → β) (p : Nat) (x : α) : Nat → β :=
  fun j => if j = p then f (acc j) x else acc j

/-- **Scalar reference**: element number `i` of the slice is folded, in slice order and exactly
once, into lane `i mod v` (the lane pointer starts at `p`). Nothing else ever reaches an
accumulator. -/
def sFold (v : Nat) (f : β → α → β) : Nat → List α → (Nat → β) → (Nat → β)
  | _, [], acc => acc
  | p, x :: xs, acc => sFold v f (nextLane v p) xs (updLane f acc p x)

/-- `load_ptr` of a whole chunk / `load_pad` of a short one: missing lanes are `pad` (zero). -/
def loadVec (pad : α) (c : List α) : Nat → α := fun j => c.getD j pad

def vfold (f : β → α → β) (acc : Nat → β) (x : Nat → α) : Nat → β := fun j => f (acc j) (x j)

def vselect (m : Nat → Bool) (a b : Nat → β) : Nat → β := fun j => if m j then a j else b j

/-- `for chunk in &mut self { accum = fold(accum, chunk) }` — `Iter::next` takes `W` elements
while `split_at_checked(W)` succeeds. Returns the unconsumed rest and the accumulator. -/
def mainLoop (f : β → α → β) (pad : α) (W : Nat) : Nat → List α → (Nat → β) → List α × (Nat → β)
  | 0, rest, acc => (rest, acc)
  | fuel + 1, rest, acc =>
    if W ≤ rest.length then
      mainLoop f pad W fuel (rest.drop W) (vfold f acc (loadVec pad (rest.take W)))
    else (rest, acc)

/-- The tail step of `fold` / `fold_n`:
```
if let Some((tail, mask)) = self.tail() {
    let new_accum = fold(accum, tail);
    accum = self.ops.select(new_accum, accum, mask);
}
```
`sel = false` is the same step *without* the `select` (used for the negation witness). -/
def foldTail (sel : Bool) (f : β → α → β) (pad : α) (v : Nat) (rest : List α) (acc : Nat → β) :
    Nat → β :=
  if rest.length > 0 then
    let new := vfold f acc (loadVec pad rest)
    if sel then vselect (fun j => decide (j < min rest.length v)) new acc else new
  else acc

/-- `Iter::fold` / `Iter::fold_n`. -/
def iterFold (sel : Bool) (f : β → α → β) (pad : α) (v : Nat) (xs : List α) (acc : Nat → β) :
    Nat → β :=
  let r := mainLoop f pad v xs.length xs acc
  foldTail sel f pad v r.1 r.2

/-- `Iter::fold_unroll::<u>` / `fold_n_unroll`: `u` accumulators of `v` lanes, all starting from
`init`, are one accumulator of `v·u` virtual lanes (accumulator `i`, lane `j` ↦ `i·v + j`, as
`load_ptr(chunk.add(v * i))` shows); they are merged with the caller's `fold_acc`, then the
remaining `< v·u` elements go through the plain `fold`. -/
def foldUnroll (f : β → α → β) (facc : β → β → β) (pad : α) (v u : Nat) (xs : List α)
    (init : Nat → β) : Nat → β :=
  let r := mainLoop f pad (v * u) xs.length xs (fun l => init (l % v))
  let merged : Nat → β := fun j =>
    (List.range (u - 1)).foldl (fun a i => facc a (r.2 ((i + 1) * v + j))) (r.2 j)
  iterFold true f pad v r.1 merged

end Fold

/-! ## `SliceWriter` (writer.rs) -/

inductive WOp where
  | vec (v : Nat)            -- `write_vec` with a `v`-lane vector
  | vecs (v k : Nat)         -- `write_vecs::<k>`
  | scalar                   -- `write_scalar`
  deriving Repr, DecidableEq

structure WState where
  len : Nat
  nInit : Nat
  writes : List Nat          -- indices stored so far, in order
  deriving Repr, DecidableEq

/-- One writer call; `none` = the bounds check / slice index panics. -/
def wStep (s : WState) : WOp → Option WState
  | .vec v =>
    if s.len - s.nInit ≥ v then
      some { s with nInit := s.nInit + v, writes := s.writes ++ (full v s.nInit).indices }
    else none
  | .vecs v k =>
    if s.len - s.nInit ≥ v * k then
      some { s with nInit := s.nInit + v * k,
                    writes := s.writes ++ touched (fullRun v s.nInit k) }
    else none
  | .scalar =>
    if s.nInit < s.len then
      some { s with nInit := s.nInit + 1, writes := s.writes ++ [s.nInit] }
    else none

def wRun (s : WState) : List WOp → Option WState
  | [] => some s
  | op :: ops => match wStep s op with
    | some s' => wRun s' ops
    | none => none

/-! ## Scalar lane semantics

A lane type is `(signed, w)`; a lane value is the `Int` it denotes. -/

/-- Two's-complement wrap of `x` to a signed `w`-bit lane (`w ≥ 1`). -/
def wrapS (w : Nat) (x : Int) : Int :=
  let m : Int := 2 ^ w
  let r := x % m
  if r < m / 2 then r else r - m

/-- Wrap of `x` to an unsigned `w`-bit lane. -/
def wrapU (w : Nat) (x : Int) : Int := x % (2 ^ w : Int)

structure LaneTy where
  signed : Bool
  w : Nat
  deriving Repr, DecidableEq

def LaneTy.wrap (t : LaneTy) (x : Int) : Int := if t.signed then wrapS t.w x else wrapU t.w x
def LaneTy.lo (t : LaneTy) : Int := if t.signed then -(2 ^ (t.w - 1) : Int) else 0
def LaneTy.hi (t : LaneTy) : Int := if t.signed then (2 ^ (t.w - 1) : Int) - 1 else (2 ^ t.w : Int) - 1
def LaneTy.inRange (t : LaneTy) (x : Int) : Prop := t.lo ≤ x ∧ x ≤ t.hi

def i8 : LaneTy := ⟨true, 8⟩
def i16 : LaneTy := ⟨true, 16⟩
def i32 : LaneTy := ⟨true, 32⟩
def u8 : LaneTy := ⟨false, 8⟩
def u16 : LaneTy := ⟨false, 16⟩

def laneAdd (t : LaneTy) (a b : Int) : Int := t.wrap (a + b)
def laneSub (t : LaneTy) (a b : Int) : Int := t.wrap (a - b)
def laneMul (t : LaneTy) (a b : Int) : Int := t.wrap (a * b)
def laneNeg (t : LaneTy) (a : Int) : Int := t.wrap (-a)
/-- `select(neg(x), x, lt(x, 0))` — `abs(MIN) = MIN`. -/
def laneAbs (t : LaneTy) (a : Int) : Int := if a < 0 then laneNeg t a else a
def laneMin (a b : Int) : Int := if a ≤ b then a else b
def laneMax (a b : Int) : Int := if a ≥ b then a else b
def laneClamp (x lo hi : Int) : Int := laneMin (laneMax x lo) hi
/-- `shift_left::<k>` (`k < w`): the low `w` bits of `x·2^k`. -/
def laneShl (t : LaneTy) (k : Nat) (a : Int) : Int := t.wrap (a * 2 ^ k)
/-- `shift_right::<k>`: arithmetic for signed lanes, logical for unsigned; on the
denoted value both are the floor division by `2^k`. -/
def laneShr (k : Nat) (a : Int) : Int := a / (2 ^ k : Int)
def laneSel (m : Bool) (a b : Int) : Int := if m then a else b
/-- Bitwise ops on the `w`-bit pattern. -/
def laneBits (t : LaneTy) (f : Nat → Nat → Nat) (a b : Int) : Int :=
  t.wrap (Int.ofNat (f (wrapU t.w a).toNat (wrapU t.w b).toNat))
def laneNot (t : LaneTy) (a : Int) : Int := t.wrap (-a - 1)

/-- `narrow_saturate`: `x.clamp(U::MIN, U::MAX) as U`. -/
def narrowSat (dst : LaneTy) (x : Int) : Int := laneMin (laneMax x dst.lo) dst.hi
/-- `narrow_truncate` (x86 internal): keep the low bits. -/
def narrowTrunc (dst : LaneTy) (x : Int) : Int := dst.wrap x

/-- AVX2 has no unsigned byte compare: `gt` is coded as a signed compare after
`xor 0x80`.  On the denoted value of a `w`-bit unsigned lane, `xor 2^(w-1)` read
as signed is: -/
def xorSignAsSigned (w : Nat) (x : Int) : Int := wrapS w (if x < 2 ^ (w - 1) then x + 2 ^ (w - 1) else x - 2 ^ (w - 1))

/-! ### Whole-vector (layout) operations on lists of lanes -/

def lowHalf (xs : List Int) : List Int := xs.take (xs.length / 2)
def highHalf (xs : List Int) : List Int := xs.drop (xs.length / 2)

def zipAlt : List Int → List Int → List Int
  | a :: as, b :: bs => a :: b :: zipAlt as bs
  | _, _ => []

def interleaveLow (a b : List Int) : List Int := zipAlt (lowHalf a) (lowHalf b)
def interleaveHigh (a b : List Int) : List Int := zipAlt (highHalf a) (highHalf b)
def concatLow (a b : List Int) : List Int := lowHalf a ++ lowHalf b
def concatHigh (a b : List Int) : List Int := highHalf a ++ highHalf b
/-- `extend_low/high`: value-preserving widening of one half. -/
def extendLow (a : List Int) : List Int := lowHalf a
def extendHigh (a : List Int) : List Int := highHalf a
/-- `narrow_saturate(low, high)`: narrowed lanes of `low` followed by those of `high`. -/
def narrowSatVec (dst : LaneTy) (lo hi : List Int) : List Int := (lo ++ hi).map (narrowSat dst)
/-- Horizontal wrapping sum. -/
def laneSum (t : LaneTy) (xs : List Int) : Int := xs.foldl (fun s x => laneAdd t s x) 0

end RtenVerif.SimdLoop
