/-!
# Control-flow subgraphs — model of `If` / `Loop` (src/ops/control_flow.rs), `CaptureEnv`
(src/graph/capture_env.rs) and the subgraph-related parts of `Graph::run_plan` (src/graph.rs)

Import-free and executable.

## Language
A *program* is a graph whose operators are primitive (single output, abstract kind `P`), `If`
(two subgraphs) or `Loop` (one body graph); subgraphs nest arbitrarily.  Value names are `Nat`
(the ONNX value name; inside one graph names and node ids are in bijection, so the model uses
names everywhere).  Values `V` and primitive semantics are abstract (`Sem`).

## Two semantics
* `evalG` — the **naive** denotational semantics: one flat environment, `If` = evaluate the selected
  branch in the environment of the `If`, `Loop` = ONNX fold (`loopIter`).
* `runPlan` — the **operational** semantics as coded: owned inputs are moved to `temp`, reference
  counts (`rcInit`, decrement after every step, release at 0), in-place candidate selection and the
  `run_in_place` condition, `take_value`, by-value capture extraction (`rc = 1` ⇒ moved into the
  child `CaptureEnv`), the `CaptureEnv` lookup chain (`getInput`, `canTake`, `takeInput`), `Loop`
  passing a *clone* of the environment to every iteration, output collection order
  (constant/borrowed input → capture → `temp.remove`).
Both are fuel-indexed on the nesting depth (`fuel` bounds recursion into subgraphs only).
-/
namespace RtenVerif.ControlFlow

/-- Observable failure classes. `missing` is the `panic!("Invalid plan did not produce input …")`
/ `expect("missing output value")` of `run_plan`. -/
inductive Err where
  | missing
  | opError
  | badCond
  | arity
  | scanShape
  | outputMismatch
  | fuel
deriving DecidableEq, Repr, Inhabited

instance instDecEqExcept {ε α : Type} [DecidableEq ε] [DecidableEq α] : DecidableEq (Except ε α)
  | .ok a, .ok b => if h : a = b then isTrue (h ▸ rfl) else isFalse (fun h' => h (Except.ok.inj h'))
  | .error a, .error b =>
    if h : a = b then isTrue (h ▸ rfl) else isFalse (fun h' => h (Except.error.inj h'))
  | .ok _, .error _ => isFalse (fun h => nomatch h)
  | .error _, .ok _ => isFalse (fun h => nomatch h)

mutual
/-- Operator nodes. -/
inductive Op (P V : Type) where
  | prim (k : P) (ins : List Nat) (out : Nat)
  | ifOp (cond : Nat) (thenG elseG : Graph P V) (outs : List Nat)
  | loop (trip cond : Option Nat) (carried : List Nat) (body : Graph P V) (outs : List Nat)
/-- `inputs`, constants (initializers), operators in plan order, `outputs`. -/
inductive Graph (P V : Type) where
  | mk (inputs : List Nat) (consts : List (Nat × V)) (ops : List (Op P V)) (outputs : List Nat)
end

variable {P V : Type}

def Graph.inputs : Graph P V → List Nat | .mk i _ _ _ => i
def Graph.consts : Graph P V → List (Nat × V) | .mk _ c _ _ => c
def Graph.ops : Graph P V → List (Op P V) | .mk _ _ o _ => o
def Graph.outputs : Graph P V → List Nat | .mk _ _ _ o => o

/-- Output names of an operator. -/
def Op.outs : Op P V → List Nat
  | .prim _ _ out => [out]
  | .ifOp _ _ _ outs => outs
  | .loop _ _ _ _ outs => outs

/-- `input_ids().iter().filter_map(|id| *id)`: the operator's own inputs (duplicates kept). -/
def Op.directInputs : Op P V → List Nat
  | .prim _ ins _ => ins
  | .ifOp c _ _ _ => [c]
  | .loop trip cond car _ _ => trip.toList ++ cond.toList ++ car

/-- Abstract operator/value semantics. -/
structure Sem (P V : Type) where
  /-- `Operator::run` = `run_in_place` (per-operator contract, C13). -/
  run : P → List V → Option V
  /-- `TensorView<i32>::item()`: the single element, if there is exactly one. -/
  item : V → Option Int
  /-- `Tensor::from(x: i32)`. -/
  ofInt : Int → V
  /-- `concat_scan_outputs` on a non-empty list (`none`: shapes differ). -/
  stack : List V → Option V
  /-- ONNX: the scan output of a loop that ran zero times. -/
  emptyScan : V
  /-- `Operator::in_place_inputs()`. -/
  inPlaceIdx : P → List Nat
  /-- `Operator::is_commutative()`. -/
  commutative : P → Bool
  /-- `Value::len()`. -/
  size : V → Nat

abbrev Env (V : Type) := List (Nat × V)

/-- First binding of `n`. -/
def look : Env V → Nat → Option V
  | [], _ => none
  | (m, v) :: rest, n => if m = n then some v else look rest n

def erase (σ : Env V) (n : Nat) : Env V := σ.filter (fun p => p.1 != n)

/-- Look up every name; the first missing one fails. Shared by both semantics. -/
def lookups (f : Nat → Option V) : List Nat → Except Err (List V)
  | [] => .ok []
  | n :: ns =>
    match f n with
    | none => .error .missing
    | some v =>
      match lookups f ns with
      | .ok vs => .ok (v :: vs)
      | .error e => .error e

/-- Store operator outputs: `expected_num_outputs > outputs.len()` ⇒ `OutputMismatch`. -/
def bindOuts (outs : List Nat) (vals : List V) (σ : Env V) : Except Err (Env V) :=
  if outs.length > vals.length then .error .outputMismatch else .ok (outs.zip vals ++ σ)

/-! ## `Loop` (shared fold) -/

/-- `scan_outputs[i].push(scan_output)`. -/
def pushScans : List (List V) → List V → List (List V)
  | l :: ls, v :: vs => (l ++ [v]) :: pushScans ls vs
  | ls, _ => ls

/-- The `while (step_index as i32) < trip_count && cond != 0` loop. `rem` = iterations still
allowed by the trip count, `i` = `step_index`, `c` = `cond`, `k` = number of carried values.
`run i args` runs the body for iteration `i`. -/
def loopIter (S : Sem P V) (run : Nat → List V → Except Err (List V)) (k : Nat) :
    Nat → Nat → Int → List V → List (List V) → Except Err (List V × List (List V))
  | 0, _, _, cs, sc => .ok (cs, sc)
  | rem + 1, i, c, cs, sc =>
    if c = 0 then .ok (cs, sc)
    else
      match run i (S.ofInt i :: S.ofInt c :: cs) with
      | .error e => .error e
      | .ok [] => .error .arity
      | .ok (co :: rest) =>
        match S.item co with
        | none => .error .badCond
        | some c' => loopIter S run k rem (i + 1) c' (rest.take k) (pushScans sc (rest.drop k))

/-- Final outputs of `Loop`: carried values, then the concatenated scan outputs.
`onnx = false` is the code (`if output_seq.is_empty() { continue }`: an empty scan output is
*skipped*, the operator then returns too few outputs); `onnx = true` is the ONNX specification
(an empty scan output). -/
def finishScans (S : Sem P V) (onnx : Bool) : List (List V) → Except Err (List V)
  | [] => .ok []
  | sc :: rest =>
    match finishScans S onnx rest with
    | .error e => .error e
    | .ok vs =>
      if sc.isEmpty then .ok (if onnx then S.emptyScan :: vs else vs)
      else
        match S.stack sc with
        | none => .error .scanShape
        | some v => .ok (v :: vs)

def replicateNil (n : Nat) : List (List V) := List.replicate n []

/-- `trip_count.unwrap_or(i32::MAX)` (`none`: the input is not a single element). -/
def tripOf (S : Sem P V) : Option V → Option Int
  | none => some 2147483647
  | some v => S.item v

/-- `cond.unwrap_or(1)`. -/
def condOf (S : Sem P V) : Option V → Option Int
  | none => some 1
  | some v => S.item v

/-- `Loop::run_subgraph` given the looked-up inputs (`tripV`, `condV`, carried values) and a body
runner. -/
def loopCore (S : Sem P V) (onnx : Bool) (run : Nat → List V → Except Err (List V))
    (bodyIn bodyOut : Nat) (tripV condV : Option V) (cs : List V) : Except Err (List V) :=
  match tripOf S tripV with
  | none => .error .badCond
  | some m =>
    match condOf S condV with
    | none => .error .badCond
    | some c0 =>
      if bodyIn != 2 + cs.length then .error .arity
      else if bodyOut < 1 + cs.length then .error .arity
      else
        match loopIter S run cs.length m.toNat 0 c0 cs (replicateNil (bodyOut - 1 - cs.length)) with
        | .error e => .error e
        | .ok (cs', scans) =>
          match finishScans S onnx scans with
          | .error e => .error e
          | .ok vs => .ok (cs' ++ vs)

def optLookup (f : Nat → Option V) : Option Nat → Except Err (Option V)
  | none => .ok none
  | some n => match f n with | none => .error .missing | some v => .ok (some v)

/-! ## Naive semantics -/

/-- One operator in environment `σ`; `ev` evaluates a subgraph in an enclosing environment. -/
def evalOp (S : Sem P V) (onnx : Bool) (ev : Env V → Graph P V → List V → Except Err (List V))
    (σ : Env V) : Op P V → Except Err (Env V)
  | .prim k ins out =>
    match lookups (look σ) ins with
    | .error e => .error e
    | .ok vs =>
      match S.run k vs with
      | none => .error .opError
      | some v => .ok ((out, v) :: σ)
  | .ifOp c t e outs =>
    match (look σ) c with
    | none => .error .missing
    | some cv =>
      match S.item cv with
      | none => .error .badCond
      | some x =>
        match ev σ (if x ≠ 0 then t else e) [] with
        | .error er => .error er
        | .ok r => bindOuts outs r σ
  | .loop trip cond car body outs =>
    match optLookup (look σ) trip with
    | .error e => .error e
    | .ok tv =>
      match optLookup (look σ) cond with
      | .error e => .error e
      | .ok cv =>
        match lookups (look σ) car with
        | .error e => .error e
        | .ok cs =>
          match loopCore S onnx (fun _ args => ev σ body args) body.inputs.length
              body.outputs.length tv cv cs with
          | .error e => .error e
          | .ok r => bindOuts outs r σ

def evalOps (S : Sem P V) (onnx : Bool) (ev : Env V → Graph P V → List V → Except Err (List V)) :
    Env V → List (Op P V) → Except Err (Env V)
  | σ, [] => .ok σ
  | σ, op :: rest =>
    match evalOp S onnx ev σ op with
    | .error e => .error e
    | .ok σ' => evalOps S onnx ev σ' rest

/-- Naive evaluation of graph `g` in the enclosing environment `σ` with arguments `args`. -/
def evalG (S : Sem P V) (onnx : Bool) : Nat → Env V → Graph P V → List V → Except Err (List V)
  | 0, _, _, _ => .error .fuel
  | fuel + 1, σ, g, args =>
    if args.length != g.inputs.length then .error .arity
    else
      match evalOps S onnx (evalG S onnx fuel) (g.inputs.zip args ++ g.consts ++ σ) g.ops with
      | .error e => .error e
      | .ok σ' => lookups (look σ') g.outputs

/-! ## Static structure used by `run_plan` -/

/-- Names defined by the graph itself (non-capture nodes). -/
def Graph.defs (g : Graph P V) : List Nat :=
  g.inputs ++ g.consts.map (·.1) ++ g.ops.flatMap Op.outs

/-- Value (non-constant) nodes defined by the graph. -/
def Graph.valueDefs (g : Graph P V) : List Nat := g.inputs ++ g.ops.flatMap Op.outs

/-- `Graph::captures()` as computed by the ONNX loader: each name that an operator of this graph
uses as an input and that the graph does not define, once. -/
def Graph.caps (g : Graph P V) : List Nat :=
  ((g.ops.flatMap Op.directInputs).filter (fun n => !g.defs.contains n)).eraseDups

mutual
/-- `Graph::capture_names()`: own captures followed by those of all subgraphs (transitive,
duplicates kept). -/
def Graph.capNames : Graph P V → List Nat
  | .mk i c ops o => Graph.caps (.mk i c ops o) ++ capNamesOps ops
def capNamesOps : List (Op P V) → List Nat
  | [] => []
  | op :: rest => Op.capNames op ++ capNamesOps rest
/-- `OperatorNode::capture_names()`. -/
def Op.capNames : Op P V → List Nat
  | .prim _ _ _ => []
  | .ifOp _ t e _ => Graph.capNames t ++ Graph.capNames e
  | .loop _ _ _ b _ => Graph.capNames b
end

/-- `Graph::operator_dependencies`: inputs, then capture names that resolve to a node of this
graph and are not also inputs (every occurrence kept). -/
def deps (g : Graph P V) (op : Op P V) : List Nat :=
  op.directInputs ++
    op.capNames.filter (fun c => (g.defs.contains c || g.caps.contains c) && !op.directInputs.contains c)

/-- `Node::Value` nodes of the graph (the only ones that are reference counted). -/
def isValueNode (g : Graph P V) (n : Nat) : Bool := g.valueDefs.contains n || g.caps.contains n

/-- Initial `temp_value_refcount` (u8 saturation is not modelled, see C02). -/
def rcInit (g : Graph P V) (n : Nat) : Nat :=
  (if isValueNode g n then (g.ops.flatMap (deps g)).count n else 0) + g.outputs.count n

/-! ## `CaptureEnv` -/

/-- One `CaptureEnv` (without its `parent` link; an environment is the list of frames, innermost
first). -/
structure Frame (V : Type) where
  /-- names of the non-capture nodes of the environment's graph -/
  locals : List Nat
  /-- names of the capture nodes of the environment's graph -/
  caps : List Nat
  /-- constants and borrowed inputs of the graph run (`Node::Constant`, `inputs`) -/
  views : Env V
  /-- `temp_values_by_ref` -/
  tempRef : Env V
  /-- `temp_values` (by-value captures) -/
  byVal : Env V

/-- `CaptureEnv::get_input`. -/
def getInput : List (Frame V) → Nat → Option V
  | [], _ => none
  | f :: ps, n =>
    if f.locals.contains n then
      match (look f.tempRef) n with
      | some v => some v
      | none =>
        match (look f.byVal) n with
        | some v => some v
        | none => (look f.views) n
    else getInput ps n

/-- `CaptureEnv::can_take_input`. -/
def canTake : List (Frame V) → Nat → Bool
  | [], _ => false
  | f :: _, n => (f.locals.contains n || f.caps.contains n) && ((look f.byVal) n).isSome

/-- `CaptureEnv::take_input`. -/
def takeInput : List (Frame V) → Nat → Option V × List (Frame V)
  | [], _ => (none, [])
  | f :: ps, n =>
    if f.locals.contains n || f.caps.contains n then
      ((look f.byVal) n, { f with byVal := erase f.byVal n } :: ps)
    else (none, f :: ps)

/-! ## `run_plan` -/

/-- Mutable state of one `run_plan` invocation. -/
structure St (V : Type) where
  temp : Env V
  rc : Nat → Nat
  env : List (Frame V)

/-- `take_value`. -/
def takeValue (gcaps : List Nat) (st : St V) (n : Nat) : Option V × St V :=
  if st.rc n == 1 then
    match (look st.temp) n with
    | some v => (some v, { st with temp := erase st.temp n })
    | none =>
      if gcaps.contains n then
        let r := takeInput st.env n
        (r.1, { st with env := r.2 })
      else (none, st)
  else (none, st)

/-- Input collection order of `run_plan`: constant / borrowed input → `temp_values` → capture. -/
def opLookup (views : Env V) (st : St V) (n : Nat) : Option V :=
  match (look views) n with
  | some v => some v
  | none =>
    match (look st.temp) n with
    | some v => some v
    | none => getInput st.env n

/-- `max_by_key` (last maximum) over `(pos, name)` keyed by the length of the owned value. -/
def lastMax (key : Nat → Nat) : List (Nat × Nat) → Option (Nat × Nat) → Option (Nat × Nat)
  | [], best => best
  | x :: xs, none => lastMax key xs (some x)
  | x :: xs, some b => lastMax key xs (if key x.2 ≥ key b.2 then some x else some b)

/-- `in_place_candidates`. -/
def candidates (S : Sem P V) (k : P) (ins : List Nat) (temp : Env V) : List (Nat × Nat) :=
  if (S.inPlaceIdx k).isEmpty then []
  else if S.commutative k then
    (lastMax (fun n => match (look temp) n with | some v => S.size v | none => 0)
      ((List.range ins.length).zip ins) none).toList
  else (S.inPlaceIdx k).filterMap (fun pos => (ins[pos]?).map (fun n => (pos, n)))

/-- Take the in-place inputs (`expect("input is available")`). -/
def takeAll (gcaps : List Nat) : St V → List (Nat × Nat) → Except Err (St V × List (Nat × V))
  | st, [] => .ok (st, [])
  | st, (pos, n) :: rest =>
    match takeValue gcaps st n with
    | (none, _) => .error .missing
    | (some v, st') =>
      match takeAll gcaps st' rest with
      | .error e => .error e
      | .ok (st'', vs) => .ok (st'', (pos, v) :: vs)

/-- Collect the remaining inputs; positions taken in place use the taken value. -/
def collect (views : Env V) (st : St V) (taken : List (Nat × V)) : Nat → List Nat → Except Err (List V)
  | _, [] => .ok []
  | pos, n :: ns =>
    match (match (look taken) pos with | some v => some v | none => opLookup views st n) with
    | none => .error .missing
    | some v =>
      match collect views st taken (pos + 1) ns with
      | .ok vs => .ok (v :: vs)
      | .error e => .error e

/-- Post-step: `temp_value_refcount.dec(dep)` for every dependency, release at zero. -/
def decDeps : St V → List Nat → St V
  | st, [] => st
  | st, n :: ns =>
    if st.rc n == 0 then decDeps st ns
    else
      let rc' := fun m => if m = n then st.rc n - 1 else st.rc m
      decDeps { st with rc := rc', temp := if st.rc n - 1 == 0 then erase st.temp n else st.temp } ns

/-- By-value capture extraction: every dependency that is not an operator input and that
`take_value` yields (`rc = 1`). Later insertions of the same key overwrite (`FxHashMap::insert`). -/
def extractByVal (gcaps : List Nat) (inputs : List Nat) : St V → List Nat → St V × Env V
  | st, [] => (st, [])
  | st, n :: ns =>
    if inputs.contains n then extractByVal gcaps inputs st ns
    else
      match takeValue gcaps st n with
      | (some v, st') =>
        let r := extractByVal gcaps inputs st' ns
        (r.1, r.2 ++ [(n, v)])
      | (none, st') => extractByVal gcaps inputs st' ns

/-- Runner of a subgraph: graph, arguments (`true` = owned `Value`, `false` = borrowed view),
capture environment. -/
abbrev Runner (P V : Type) := Graph P V → List (Bool × V) → List (Frame V) → Except Err (List V)

/-- One step of `run_plan` for operator `op` of graph `g` (`views` = constants + borrowed inputs). -/
def stepOp (S : Sem P V) (rec : Runner P V) (g : Graph P V) (views : Env V) (st : St V) :
    Op P V → Except Err (St V)
  | .prim k ins out =>
    let cands := candidates S k ins st.temp
    let inPlace := !cands.isEmpty && cands.all (fun c =>
      st.rc c.2 == 1 && (((look st.temp) c.2).isSome || (g.caps.contains c.2 && canTake st.env c.2)))
    match (if inPlace then takeAll g.caps st cands else .ok (st, [])) with
    | .error e => .error e
    | .ok (st1, taken) =>
      match collect views st1 taken 0 ins with
      | .error e => .error e
      | .ok vs =>
        match S.run k vs with
        | none => .error .opError
        | some v => .ok (decDeps { st1 with temp := (out, v) :: st1.temp } ins)
  | .ifOp c t e outs =>
    let op : Op P V := .ifOp c t e outs
    let ex := extractByVal g.caps op.directInputs st (deps g op)
    let st1 := ex.1
    match opLookup views st1 c with
    | none => .error .missing
    | some cv =>
      let frame : Frame V :=
        { locals := g.defs, caps := g.caps, views := views, tempRef := st1.temp, byVal := ex.2 }
      match S.item cv with
      | none => .error .badCond
      | some x =>
        match rec (if x ≠ 0 then t else e) [] (frame :: st1.env) with
        | .error er => .error er
        | .ok r =>
          if outs.length > r.length then .error .outputMismatch
          else .ok (decDeps { st1 with temp := outs.zip r ++ st1.temp } (deps g op))
  | .loop trip cond car body outs =>
    let op : Op P V := .loop trip cond car body outs
    let ex := extractByVal g.caps op.directInputs st (deps g op)
    let st1 := ex.1
    match optLookup (opLookup views st1) trip with
    | .error e => .error e
    | .ok tv =>
      match optLookup (opLookup views st1) cond with
      | .error e => .error e
      | .ok cv =>
        match lookups (opLookup views st1) car with
        | .error e => .error e
        | .ok cs =>
          let frame : Frame V :=
            { locals := g.defs, caps := g.caps, views := views, tempRef := st1.temp, byVal := ex.2 }
          -- `captures.clone()`: every iteration receives the same environment value.
          -- iteration number and condition are owned tensors; carried values are views in the
          -- first iteration and owned afterwards.
          let run := fun (i : Nat) (args : List V) =>
            rec body ((args.zipIdx).map (fun (v, j) => (decide (j < 2) || decide (i ≠ 0), v)))
              (frame :: st1.env)
          match loopCore S false run body.inputs.length body.outputs.length tv cv cs with
          | .error e => .error e
          | .ok r =>
            if outs.length > r.length then .error .outputMismatch
            else .ok (decDeps { st1 with temp := outs.zip r ++ st1.temp } (deps g op))

def stepOps (S : Sem P V) (rec : Runner P V) (g : Graph P V) (views : Env V) :
    St V → List (Op P V) → Except Err (St V)
  | st, [] => .ok st
  | st, op :: rest =>
    match stepOp S rec g views st op with
    | .error e => .error e
    | .ok st' => stepOps S rec g views st' rest

/-- Output collection: constant / borrowed input → capture → `temp_values.remove(id)`. -/
def collectOutputs (views : Env V) (env : List (Frame V)) : Env V → List Nat → Except Err (List V)
  | _, [] => .ok []
  | temp, n :: ns =>
    match (look views) n with
    | some v =>
      (match collectOutputs views env temp ns with | .ok vs => .ok (v :: vs) | .error e => .error e)
    | none =>
      match getInput env n with
      | some v =>
        (match collectOutputs views env temp ns with | .ok vs => .ok (v :: vs) | .error e => .error e)
      | none =>
        match (look temp) n with
        | none => .error .missing
        | some v =>
          match collectOutputs views env (erase temp n) ns with
          | .ok vs => .ok (v :: vs)
          | .error e => .error e

def ownedArgs (ins : List Nat) (args : List (Bool × V)) : Env V :=
  (ins.zip args).filterMap (fun p => if p.2.1 then some (p.1, p.2.2) else none)

def borrowedArgs (ins : List Nat) (args : List (Bool × V)) : Env V :=
  (ins.zip args).filterMap (fun p => if p.2.1 then none else some (p.1, p.2.2))

/-- `Graph::run_plan` (for the plan = all operators of `g`, in order). -/
def runPlan (S : Sem P V) : Nat → Runner P V
  | 0, _, _, _ => .error .fuel
  | fuel + 1, g, args, env =>
    if args.length != g.inputs.length then .error .arity
    else
      let views := borrowedArgs g.inputs args ++ g.consts
      let st0 : St V := { temp := ownedArgs g.inputs args, rc := rcInit g, env := env }
      match stepOps S (runPlan S fuel) g views st0 g.ops with
      | .error e => .error e
      | .ok st => collectOutputs views st.env st.temp g.outputs

/-- `Graph::run` on a top-level graph (no captures). -/
def runTop (S : Sem P V) (fuel : Nat) (g : Graph P V) (args : List (Bool × V)) : Except Err (List V) :=
  runPlan S fuel g args []

/-! ## A concrete instance: int32 tensors with the harness' primitive operators -/

/-- Primitive kinds used by the correspondence harness. -/
inductive Prim where
  | add | sub | mul | neg | abs | ident | less
  /-- `Cast → MatMul(x, W) → Cast` with an integer-valued constant weight (exact in f32). -/
  | matmul
deriving DecidableEq, Repr, Inhabited

/-- An int32 tensor: shape and row-major data. -/
structure Tens where
  shape : List Nat
  data : List Int
deriving DecidableEq, Repr, Inhabited

/-- Two's-complement wrap to `i32` (release builds wrap). -/
def wrap32 (x : Int) : Int := (x + 2147483648) % 4294967296 - 2147483648

def binFn : Prim → Int → Int → Int
  | .add, x, y => wrap32 (x + y)
  | .sub, x, y => wrap32 (x - y)
  | .mul, x, y => wrap32 (x * y)
  | .less, x, y => if x < y then 1 else 0
  | _, x, _ => x

/-- Elementwise binary operator; shapes equal or one side a scalar (rank 0). -/
def binT (k : Prim) (a b : Tens) : Option Tens :=
  if a.shape = b.shape then some ⟨a.shape, List.zipWith (binFn k) a.data b.data⟩
  else match a.shape, a.data, b.shape, b.data with
    | [], [x], _, _ => some ⟨b.shape, b.data.map (fun y => binFn k x y)⟩
    | _, _, [], [y] => some ⟨a.shape, a.data.map (fun x => binFn k x y)⟩
    | _, _, _, _ => none

/-- Row `i` of a row-major matrix with `n` columns. -/
def rowOf (data : List Int) (n i : Nat) : List Int := (data.drop (i * n)).take n

/-- Column `j` of a row-major matrix with `rows` rows and `m` columns. -/
def colOf (data : List Int) (rows m j : Nat) : List Int :=
  (List.range rows).map (fun l => (data.drop (l * m + j)).headD 0)

def dot (a b : List Int) : Int := (List.zipWith (· * ·) a b).foldl (· + ·) 0

/-- `[r, n] × [n, m]` integer matrix product. -/
def matmulT (a w : Tens) : Option Tens :=
  match a.shape, w.shape with
  | [r, n], [n', m] =>
    if n = n' then
      some ⟨[r, m], (List.range r).flatMap (fun i =>
        (List.range m).map (fun j => wrap32 (dot (rowOf a.data n i) (colOf w.data n m j))))⟩
    else none
  | _, _ => none

def runPrim : Prim → List Tens → Option Tens
  | .neg, [a] => some ⟨a.shape, a.data.map (fun x => wrap32 (-x))⟩
  | .abs, [a] => some ⟨a.shape, a.data.map (fun x => wrap32 (if x < 0 then -x else x))⟩
  | .ident, [a] => some a
  | .add, [a, b] => binT .add a b
  | .sub, [a, b] => binT .sub a b
  | .mul, [a, b] => binT .mul a b
  | .less, [a, b] => binT .less a b
  | .matmul, [a, w] => matmulT a w
  | _, _ => none

def stackT : List Tens → Option Tens
  | [] => none
  | t :: ts =>
    if ts.all (fun u => u.shape = t.shape) then
      some ⟨(ts.length + 1) :: t.shape, t.data ++ ts.flatMap (·.data)⟩
    else none

/-- The int32 instance of `Sem`. -/
def intSem : Sem Prim Tens where
  run := runPrim
  item := fun t => match t.data with | [x] => some x | _ => none
  ofInt := fun x => ⟨[], [x]⟩
  stack := stackT
  emptyScan := ⟨[0], []⟩
  inPlaceIdx := fun k => match k with | .less => [] | .matmul => [] | _ => [0]
  commutative := fun k => match k with | .add => true | .mul => true | _ => false
  size := fun t => t.data.length

end RtenVerif.ControlFlow
