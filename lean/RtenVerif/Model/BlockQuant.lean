import RtenVerif.Model.BlockQuantIndex

/-!
# Model of 4-bit block-quantized matrix multiplication (property C37)

Import-free, executable.  Anchors (`/repo/rten-gemm/src/block_quant.rs`, `packing.rs`,
`/repo/src/ops/matmul/contrib.rs`):

* `BlockQuantizedMatrix`: data of shape `(N, k_blocks, block_bytes)`, scales `(N, k_blocks)`,
  `bits ∈ {4, 8}` accepted by `new` (only 4 by the kernels), `block_size = block_bytes * 8 / bits`
  must be a power of two `≥ 16`.  `rows() = k_blocks * block_size`: **a partial final block is not
  representable**; `K` of the LHS must equal `rows()` (`KSizeMismatch` otherwise).
* nibble order: element `2i` of a block is the *low* nibble of byte `i`, element `2i+1` the high
  nibble (`rhs & 0x0F`, `rhs >> 4`; the SIMD path interleaves `lo`/`hi` to the same order).
* zero point is the constant `8` (`nbit_zero_point(4)`; MatMulNBits rejects a `zero_points` input).
* `VecDotMatrix` (Float): `Σ_k lhs_k · ((q_k − 8) · scale_{k / block})`.
* `VecDotMatrixQuant` (Int8): LHS quantised per block (`quantize`: `scale = absmax/127`,
  `q = round(x / scale)`), per block `(col_scale · row_scale) · (Σ q_k·l_k − 8·Σ l_k)` on ISAs whose
  dot product takes an unsigned LHS (x86), `(col_scale · row_scale) · Σ (q_k − 8)·l_k` otherwise.
* `BlockQuantizedMatrixPacker::pack`: dequantises `(nibble − 8) · scale` into the f32 GEMM's packed
  B panel (rows > 1 path of MatMulNBits).

Values are elements of a commutative ring `R` (`Lean.Grind.CommRing`, core Lean); the driver
instantiates `R := Int` (the harness only sends inputs for which f32 arithmetic is exact).
-/
namespace RtenVerif.BlockQuant
open Lean.Grind

/-! ## Nibble packing (bytes and nibbles as `Nat`) -/

/-- `byte & 0x0F`. -/
def loNibble (b : Nat) : Nat := b % 16
/-- `byte >> 4` (for `byte < 256`). -/
def hiNibble (b : Nat) : Nat := b / 16
/-- `(lo & 0x0F) | (hi << 4)` truncated to `u8` (`pack_4bit_elements`). -/
def packByte (lo hi : Nat) : Nat := lo % 16 + (hi * 16) % 256

/-- Elements of a column in K order from its bytes: low nibble first. -/
def unpackBytes : List Nat → List Nat
  | [] => []
  | b :: bs => loNibble b :: hiNibble b :: unpackBytes bs

def packNibbles : List Nat → List Nat
  | lo :: hi :: rest => packByte lo hi :: packNibbles rest
  | _ => []

/-- `(block, byte within block, nibble)` holding element `k` (`block index = k / block_size`). -/
def elemPos (bs k : Nat) : Nat × Nat × Nat := (k / bs, (k % bs) / 2, k % 2)

/-- Inverse of `elemPos`. -/
def posElem (bs : Nat) (p : Nat × Nat × Nat) : Nat := p.1 * bs + 2 * p.2.1 + p.2.2

/-- Element `k` of a column read through the index map from the column's bytes
(`[k_blocks][bs / 2]` contiguous), as the reference implementations in the crate's tests do. -/
def elemAt (bs : Nat) (bytes : List Nat) (k : Nat) : Nat :=
  let p := elemPos bs k
  let b := bytes.getD (p.1 * (bs / 2) + p.2.1) 0
  if p.2.2 = 0 then loNibble b else hiNibble b

/-! ## Arithmetic over a commutative ring -/

variable {R : Type} [CommRing R]

/-- `Σ_k a_k · (w_k · (q_k − 8))`: dequantise-then-multiply with per-element scale `w_k`. -/
def dot3 : List R → List R → List R → R
  | a :: as, w :: ws, q :: qs => a * (w * (q - 8)) + dot3 as ws qs
  | _, _, _ => 0

/-- Per-element scales: each block scale repeated `bs` times (`scale index = k / bs`). -/
def expandScales (bs : Nat) (scales : List R) : List R := scales.flatMap (List.replicate bs)

/-- **Reference**: `Σ_k a_k · (scale_{k / bs} · (q_k − 8))`. -/
def refDot (bs : Nat) (scales a q : List R) : R := dot3 a (expandScales bs scales) q

/-- `Σ_k a_k · q_k`. -/
def rawDot : List R → List R → R
  | a :: as, q :: qs => a * q + rawDot as qs
  | _, _ => 0

def sumR : List R → R
  | [] => 0
  | x :: xs => x + sumR xs

/-- **Factored per-block form** `scale · (Σ a·q − 8·Σ a)` (what the Int8 kernel's unsigned-LHS
dot-product trick evaluates per block; the Float kernel dequantises element-wise instead, see
`floatKernelDot`).  Pure algebra: it is not driven by the harness.  The last block may be shorter
than `bs` here although the API cannot express that. -/
def factoredBlocks (bs : Nat) : List R → List R → List R → R
  | s :: ss, a, q =>
      s * (rawDot (a.take bs) (q.take bs) - 8 * sumR (a.take bs)) +
        factoredBlocks bs ss (a.drop bs) (q.drop bs)
  | [], _, _ => 0

/-- `Σ_k l_k · (q_k − 8)` (signed dot product after subtracting the zero point). -/
def signedDot : List R → List R → R
  | l :: ls, q :: qs => l * (q - 8) + signedDot ls qs
  | _, _ => 0

/-- **Int8 compute mode**: per block `(col_scale · row_scale) · dot`, where `dot` is
`Σ q·l − 8·Σ l` when the dot-product instruction takes the 4-bit values unsigned
(`unsignedLhs = true`, x86) and `Σ (q − 8)·l` otherwise.  `l` = quantised LHS values. -/
def int8Blocks (unsignedLhs : Bool) (bs : Nat) : List R → List R → List R → List R → R
  | cs :: css, rs :: rss, l, q =>
      (cs * rs) * (if unsignedLhs then rawDot (l.take bs) (q.take bs) - 8 * sumR (l.take bs)
                   else signedDot (l.take bs) (q.take bs)) +
        int8Blocks unsignedLhs bs css rss (l.drop bs) (q.drop bs)
  | _, _, _, _ => 0

/-- De-quantised LHS: `row_scale_{k / bs} · l_k`. -/
def scaleLhs (bs : Nat) (rowScales l : List R) : List R :=
  List.zipWith (· * ·) (expandScales bs rowScales) l

/-! ## The kernels' element-wise sums through their own scale-index arithmetic -/

/-- `Σ_k a_k · (f k · (q_k − 8))`, positions counted from `k0`. -/
def idxDot (f : Nat → R) : Nat → List R → List R → R
  | k, a :: as, q :: qs => a * (f k * (q - 8)) + idxDot f (k + 1) as qs
  | _, _, _ => 0

/-- **Float kernel** (`VecDotMatrix`): every element is dequantised with the scale the kernel's
index arithmetic selects for its position (`BlockQuantIndex.scaleIdxFloat`). -/
def floatKernelDot (epv bs nb : Nat) (scales a q : List R) : R :=
  idxDot (fun k => scales.getD (BlockQuantIndex.scaleIdxFloat epv bs nb k) 0) 0 a q

/-- `Σ_k (f k · g k) · (l_k · (q_k − 8))`. -/
def idxDot2 (f g : Nat → R) : Nat → List R → List R → R
  | k, l :: ls, q :: qs => (f k * g k) * (l * (q - 8)) + idxDot2 f g (k + 1) ls qs
  | _, _, _ => 0

/-- **Int8 kernel** (`VecDotMatrixQuant`): each integer product `l_k·(q_k − 8)` is multiplied by
`col_scale·row_scale` of the block index the kernel's lane/tail arithmetic selects
(`BlockQuantIndex.scaleIdxInt8`). -/
def int8KernelDot (epv bs nb : Nat) (cs rs l q : List R) : R :=
  idxDot2 (fun k => cs.getD (BlockQuantIndex.scaleIdxInt8 epv bs nb k) 0)
    (fun k => rs.getD (BlockQuantIndex.scaleIdxInt8 epv bs nb k) 0) 0 l q

/-! ## Checked variants: `none` unless there is exactly one scale per (possibly partial) block -/

/-- Number of blocks covering `len` elements (`len.div_ceil(bs)`). -/
def numBlocks (bs len : Nat) : Nat := (len + bs - 1) / bs

def refDotChecked (bs : Nat) (scales a q : List R) : Option R :=
  if a.length = q.length ∧ scales.length = numBlocks bs a.length then some (refDot bs scales a q)
  else none

def factoredBlocksChecked (bs : Nat) (scales a q : List R) : Option R :=
  if a.length = q.length ∧ scales.length = numBlocks bs a.length then
    some (factoredBlocks bs scales a q)
  else none

def int8BlocksChecked (unsignedLhs : Bool) (bs : Nat) (cs rs l q : List R) : Option R :=
  if l.length = q.length ∧ cs.length = numBlocks bs l.length ∧ rs.length = cs.length then
    some (int8Blocks unsignedLhs bs cs rs l q)
  else none

/-! ## LHS quantisation on exactly representable inputs (driver only)

`quantize` computes `inv = 127 / absmax`, `q = round(x · inv)`, `scale = 1 / inv` in f32.  The
driver only answers when this is exact: `absmax = 127 · s` with every `x` a multiple of `s`
(then `q = x / s`, `scale = s`), or the block is all zero (`q = 0`, `scale = 0`). -/

def absMax (xs : List Int) : Nat := xs.foldl (fun m x => max m x.natAbs) 0

/-- `(quantised values, scale)` of one block, `none` outside the exact domain. -/
def quantizeBlockExact (xs : List Int) : Option (List Int × Int) :=
  let am := absMax xs
  if am = 0 then some (xs.map (fun _ => 0), 0)
  else if am % 127 ≠ 0 then none
  else
    let s : Int := (am / 127 : Nat)
    if xs.all (fun x => x % s == 0) then some (xs.map (· / s), s) else none

def quantizeExact (bs : Nat) : Nat → List Int → Option (List Int × List Int)
  | 0, _ => some ([], [])
  | fuel + 1, xs =>
      if xs.isEmpty then some ([], [])
      else do
        let (q, s) ← quantizeBlockExact (xs.take bs)
        let (qs, ss) ← quantizeExact bs fuel (xs.drop bs)
        pure (q ++ qs, s :: ss)

/-! ## Signed 4-bit weights (MatMulNBits layout `[N, k_blocks, block_size / 2]`, zero point 8) -/

/-- Stored nibble of a signed 4-bit weight `w ∈ [−8, 7]` (`w + zero_point`). -/
def nibbleOfWeight (w : Int) : Nat := (w + 8).toNat

/-- Pack a column of signed weights, two per byte, even element in the low nibble
(`pack_4bit_elements`). -/
def packWeights (ws : List Int) : List Nat := packNibbles (ws.map nibbleOfWeight)

/-- Dequantised integer weights of a column read back from its bytes (before scaling). -/
def unpackWeights (bytes : List Nat) : List Int := (unpackBytes bytes).map fun (q : Nat) => (q : Int) - 8

/-! ## LHS quantisation (`quantize`), abstractly

`quantize` stores, per block, `scale = absmax/127` and `q_k = round(x_k / scale)`.  With integers in
any common unit and `A = absmax > 0`: `q_k` is a nearest integer to `127·X_k / A`. -/

/-- `q` is a nearest integer to `127·X / A`. -/
def NearestQ (A X q : Int) : Prop := 2 * (q * A - 127 * X) ≤ A ∧ -A ≤ 2 * (q * A - 127 * X)

/-! ## Error bound of the Int8 mode (integers: inputs in any common unit) -/

/-- `Σ_k r_k · |w_k · (q_k − 8)|`. -/
def absBoundN : List Nat → List Int → List Int → Nat
  | r :: rs, w :: ws, q :: qs => r * (w * (q - 8)).natAbs + absBoundN rs ws qs
  | _, _, _ => 0

/-- Element-wise `2·|e_k| ≤ r_k` (the de-quantisation error of element `k` is at most half the row
scale of its block). -/
inductive HalfStep : List Int → List Nat → Prop
  | nil : HalfStep [] []
  | cons {e : Int} {r : Nat} {es : List Int} {rs : List Nat} :
      2 * e.natAbs ≤ r → HalfStep es rs → HalfStep (e :: es) (r :: rs)

/-! ## `BlockQuantizedMatrix::new` / `batched_gemm_uninit` argument checks -/

inductive Err where
  | unsupportedElementSize | unsupportedBlockSize | scalesShapeMismatch
  | outputSizeMismatch | kSizeMismatch | quantBitsNotSupported
  deriving DecidableEq, Repr

def isPow2 (n : Nat) : Bool := n != 0 && (Nat.log2 n |> (2 ^ ·)) == n

/-- `BlockQuantizedMatrix::new(quant (N, k_blocks, block_bytes), scales, bits)`. -/
def checkNew (blockBytes bits : Nat) : Except Err Nat :=
  if bits != 4 && bits != 8 then .error .unsupportedElementSize
  else
    let blockSize := blockBytes * (8 / bits)
    if !isPow2 blockSize || blockSize < 16 then .error .unsupportedBlockSize
    else .ok blockSize

/-- `BlockQuantizedMatrix::new` including the scales tensor: quant `(n, kBlocks, blockBytes)`, scales
`(sn, snb)` must have one scale per block (`scalesShapeMismatch` otherwise; check added by the fix
recorded in `findings/C37.json`). -/
def checkNewScales (n kBlocks blockBytes bits sn snb : Nat) : Except Err Nat :=
  match checkNew blockBytes bits with
  | .error e => .error e
  | .ok bs => if sn != n || snb != kBlocks then .error .scalesShapeMismatch else .ok bs

/-- Argument checks of `BlockQuantizedGemm::batched_gemm_uninit`, in the code's order. -/
def checkGemm (outLen batch m lhsK n kBlocks blockBytes bits : Nat) : Except Err Unit :=
  let rows := kBlocks * ((blockBytes * 8) / bits)
  if outLen != n * m * batch then .error .outputSizeMismatch
  else if lhsK != rows then .error .kSizeMismatch
  else if bits != 4 then .error .quantBitsNotSupported
  else .ok ()

end RtenVerif.BlockQuant
