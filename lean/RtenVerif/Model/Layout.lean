import RtenVerif.Model.Overlap
import RtenVerif.Model.NArr

/-
Model of the layout transformations of `rten-tensor` (`layout.rs`, `slice_range.rs`, the
view plumbing of `tensor.rs`) for dynamic-rank views (`DynLayout`, `TensorView`).

A view is `(base, len, dims)`: the storage window of the view starts `base` elements into
the backing buffer and is `len` elements long (`ViewData { ptr, len }`); `dims` is the list of
`(size, stride)` pairs.  Every transformation is written as the code computes it and returns
`Except Err _` on the code's error paths (`Err.err` = `Result::Err`, `Err.panic` = panic /
failed assertion).  Ideal arithmetic (`Nat`/`Int`), see DESIGN §3.
-/
namespace RtenVerif.Layout
open RtenVerif.Overlap (offset isContiguous mayOverlap)
open RtenVerif.Arr

abbrev Dims := List (Nat × Nat)

def sizes (d : Dims) : List Nat := d.map Prod.fst
def strides (d : Dims) : List Nat := d.map Prod.snd

/-- `Layout::len`. -/
def numelD (d : Dims) : Nat := numel (sizes d)

/-- `Layout::min_data_len`. -/
def minDataLen (d : Dims) : Nat :=
  if (sizes d).any (· == 0) then 0
  else (d.map (fun p => (p.1 - 1) * p.2)).sum + 1

/-- `DynLayout::contiguous_shape_and_strides`. -/
def contigDims : List Nat → Dims
  | [] => []
  | n :: ns => (n, numel ns) :: contigDims ns

structure View where
  base : Nat
  len : Nat
  dims : Dims
  deriving Repr, DecidableEq

/-- `self.data.slice(start..stop)` followed by installing `dims`:
`assert_storage_range_valid` panics unless both ends are `≤ len`; `Range::len` saturates. -/
def View.window (v : View) (start stop : Nat) (dims : Dims) : Except Err View :=
  if start ≤ v.len ∧ stop ≤ v.len then .ok ⟨v.base + start, stop - start, dims⟩
  else .error .panic

/-! ## permute / transpose / move_axis -/

/-- `is_valid_permutation`. -/
def isValidPermutation (ndim : Nat) (p : List Nat) : Bool :=
  p.length == ndim && (List.range ndim).all (fun d => (p.filter (· == d)).length == 1)

/-- `permute_iter`: sizes and strides looked up per entry (`getD`: the callers have
validated the entries). -/
def permuteIter (d : Dims) (p : List Nat) : Dims := p.map (fun i => d.getD i (0, 0))

def permuted (v : View) (p : List Nat) : Except Err View :=
  if isValidPermutation v.dims.length p then .ok { v with dims := permuteIter v.dims p }
  else .error .panic

def transposed (v : View) : View :=
  { v with dims := permuteIter v.dims (List.range v.dims.length).reverse }

/-- `DynLayout::move_axis`: remove size and stride at `from`, re-insert at `to`. -/
def moveAxis (v : View) (src dst : Nat) : Except Err View :=
  if src < v.dims.length ∧ dst < v.dims.length then
    .ok { v with dims := (v.dims.eraseIdx src).insertIdx dst (v.dims.getD src (0, 0)) }
  else .error .panic

/-! ## SliceRange / IndexRange (`slice_range.rs`) -/

structure SliceRange where
  start : Int
  stop : Option Int
  step : Int
  deriving Repr, DecidableEq

def offsetFromStart (i : Int) (n : Nat) : Int := if i ≥ 0 then i else (n : Int) + i
/-- `-(index + 1)` since fix `b98f268` (was `-index - 1`, which overflows for `isize::MIN`). -/
def offsetFromEnd (i : Int) (n : Nat) : Int := if i ≥ 0 then (n : Int) - 1 - i else -(i + 1)

/-- `isize::clamp` (callers guarantee `lo ≤ hi`). -/
def clampI (x lo hi : Int) : Int := if x < lo then lo else if x > hi then hi else x

namespace SliceRange

def clamp (r : SliceRange) (n : Nat) : SliceRange :=
  let len : Int := n
  let (lo, hi) := if r.step > 0 then (-len, len) else (-len - 1, len - 1)
  ⟨clampI r.start lo hi, r.stop.map (clampI · lo hi), r.step⟩

/-- `resolve`: `some (start, end)` or `none` if out of bounds. -/
def resolve (r : SliceRange) (n : Nat) : Option (Nat × Nat) :=
  let len : Int := n
  let (s, e) :=
    if r.step > 0 then
      (offsetFromStart r.start n, (r.stop.map (offsetFromStart · n)).getD len)
    else
      (offsetFromEnd r.start n, (r.stop.map (offsetFromEnd · n)).getD len)
  if s ≥ 0 ∧ s ≤ len ∧ e ≥ 0 ∧ e ≤ len then
    some (s.toNat, (max e s).toNat)
  else none

/-- `resolve_clamped` = `clamp(..).resolve(..).unwrap()`; `none` would be a panic. -/
def resolveClamped (r : SliceRange) (n : Nat) : Option (Nat × Nat) := (r.clamp n).resolve n

/-- `SliceRange::steps`. -/
def steps (r : SliceRange) (n : Nat) : Nat :=
  let c := r.clamp n
  let startIdx := offsetFromStart c.start n
  let endIdx := (c.stop.map (offsetFromStart · n)).getD (if r.step > 0 then (n : Int) else -1)
  if (c.step > 0 ∧ endIdx ≤ startIdx) ∨ (c.step < 0 ∧ endIdx ≥ startIdx) then 0
  else
    let s := if c.step > 0 then 1 + Int.tdiv (endIdx - startIdx - 1) c.step
             else 1 + Int.tdiv (startIdx - endIdx - 1) (-c.step)
    (max s 0).toNat

end SliceRange

/-- `IndexRange { start: usize, end: isize, step: isize }`. -/
structure IndexRange where
  start : Nat
  stop : Int
  step : Int
  deriving Repr, DecidableEq

namespace IndexRange

/-- `IndexRange::steps` (`div_ceil` of the clamped distance by `|step|`). -/
def steps (r : IndexRange) : Nat :=
  let len := if r.step > 0 then (max (r.stop - r.start) 0).natAbs else (min (r.stop - r.start) 0).natAbs
  (len + r.step.natAbs - 1) / r.step.natAbs

/-- The indices the iterator yields: `start, start+step, …` (`steps` of them). -/
def toList (r : IndexRange) : List Nat :=
  (List.range r.steps).map (fun (j : Nat) => ((r.start : Int) + (j : Int) * r.step).toNat)

end IndexRange

/-- `SliceRange::index_range`.  With a negative step and a non-empty resolved range the start
index is `dim_size - 1 - resolved.start` in `usize` (an underflow there would be a panic:
overflow check, or `IndexRange::new`'s `assert!(start <= isize::MAX)` after wrapping; the T3
theorems show this branch is unreachable).  An empty resolved range yields the empty
`IndexRange::new(0, 0, step)` (fix `6e0e117`). -/
def SliceRange.indexRange (r : SliceRange) (n : Nat) : Except Err IndexRange :=
  match r.resolveClamped n with
  | none => .error .panic
  | some (s, e) =>
    if r.step > 0 then .ok ⟨s, max (e : Int) (-1), r.step⟩
    else if s = e then .ok ⟨0, 0, r.step⟩
    else if n < 1 + s then .error .panic
    else .ok ⟨n - 1 - s, max ((n : Int) - 1 - e) (-1), r.step⟩

/-- `index_range` before fix `6e0e117` (kept as a witness of the defect): no special case for an
empty resolved range, so `dim_size - 1 - resolved.start` underflows when the start lies before
the first element or the axis is empty. -/
def SliceRange.indexRangeOld (r : SliceRange) (n : Nat) : Except Err IndexRange :=
  match r.resolveClamped n with
  | none => .error .panic
  | some (s, e) =>
    if r.step > 0 then .ok ⟨s, max (e : Int) (-1), r.step⟩
    else if n < 1 + s then .error .panic
    else .ok ⟨n - 1 - s, max ((n : Int) - 1 - e) (-1), r.step⟩

/-! ## slice_layout / slice_dyn -/

inductive SliceItem
  | index (i : Int)
  | range (r : SliceRange)
  deriving Repr, DecidableEq

/-- The reference's view of a slice item. -/
def toRefItem : SliceItem → NArr.Item
  | .index i => .index i
  | .range r => .range r.start r.stop r.step

/-- `SliceItem::index_range`. -/
def SliceItem.indexRange (it : SliceItem) (n : Nat) : Except Err IndexRange :=
  match it with
  | .range r => r.indexRange n
  | .index i => (SliceRange.mk i (some (i + 1)) 1).indexRange n

/-- One iteration of the `slice_layout` loop for a dimension with an item:
`(offset_adjust, new (size, stride) if the dimension is kept)`. -/
def sliceDim (size stride : Nat) (it : SliceItem) : Except Err (Nat × Option (Nat × Nat)) :=
  match it with
  | .index idx =>
    let pos := if idx ≥ 0 then idx else idx + size
    if pos < 0 ∨ pos ≥ size then .error .err
    else .ok (stride * pos.toNat, none)
  | .range r =>
    match r.resolve size with
    | none => .error .err
    | some (s, e) =>
      if r.step < 0 then .error .err   -- `usize::try_from(step)` fails
      else
        let step := r.step.toNat
        if step = 1 then .ok (stride * s, some (e - s, stride * step))
        else
          match r.indexRange size with
          | .error x => .error x
          | .ok ir => .ok (stride * s, some (ir.steps, stride * step))

/-- The `slice_layout` loop: accumulated offset and output dims. -/
def sliceLoop : Dims → List SliceItem → Except Err (Nat × Dims)
  | [], _ => .ok (0, [])
  | (size, stride) :: ds, [] => do
    let (off, out) ← sliceLoop ds []
    pure (off, (size, stride) :: out)
  | (size, stride) :: ds, it :: its => do
    let (adj, keep) ← sliceDim size stride it
    let (off, out) ← sliceLoop ds its
    pure (adj + off, match keep with | some p => p :: out | none => out)

/-- `slice_layout`: the offset is reset to 0 when the result is empty. -/
def sliceLayout (d : Dims) (items : List SliceItem) : Except Err (Nat × Dims) := do
  let (off, out) ← sliceLoop d items
  pure (if (sizes out).any (· == 0) then 0 else off, out)

/-- `DynLayout::slice_dyn` + `TensorBase::try_slice`. -/
def trySlice (v : View) (items : List SliceItem) : Except Err View :=
  if v.dims.length < items.length then .error .err
  else
    match sliceLayout v.dims items with
    | .error e => .error e
    | .ok (off, out) => v.window off (off + minDataLen out) out

/-! ## slice_axis / index_axis / split -/

/-- `resize_dim`. -/
def resizeDim (d : Dims) (axis size : Nat) : Dims :=
  match d[axis]? with
  | some p => d.set axis (size, p.2)
  | none => d

/-- `MutLayout::slice_axis` + `TensorBase::slice_axis` (`unwrap` ⇒ panic on error). -/
def sliceAxis (v : View) (axis start stop : Nat) : Except Err View :=
  if axis ≥ v.dims.length then .error .panic
  else if stop < start ∨ stop > (v.dims.getD axis (0, 0)).1 then .error .panic
  else
    let out := resizeDim v.dims axis (stop - start)
    if numelD out = 0 then v.window 0 0 out
    else
      let so := start * (out.getD axis (0, 0)).2
      v.window so (so + minDataLen out) out

/-- `MutLayout::index_axis` + `TensorBase::index_axis`. -/
def indexAxis (v : View) (axis index : Nat) : Except Err View :=
  if axis < v.dims.length ∧ index < (v.dims.getD axis (0, 0)).1 then
    let out := v.dims.eraseIdx axis
    if numelD out = 0 then v.window 0 0 out
    else
      let so := (v.dims.getD axis (0, 0)).2 * index
      v.window so (so + minDataLen out) out
  else .error .panic

/-- `DynLayout::split` + `TensorBase::split_at`: the left (`right = false`) or right view. -/
def splitAt (v : View) (axis mid : Nat) (right : Bool) : Except Err View :=
  if axis < v.dims.length ∧ mid ≤ (v.dims.getD axis (0, 0)).1 then
    let n := (v.dims.getD axis (0, 0)).1
    let l := resizeDim v.dims axis mid
    let r := resizeDim v.dims axis (n - mid)
    let midOff := mid * (v.dims.getD axis (0, 0)).2
    let endOff := minDataLen v.dims
    -- both storage slices are taken before either view is built
    if ¬ (minDataLen l ≤ v.len) then .error .panic
    else
      let rr := if numelD r = 0 then (endOff, endOff) else (midOff, endOff)
      if ¬ (rr.1 ≤ v.len ∧ rr.2 ≤ v.len) then .error .panic
      else if right then .ok ⟨v.base + rr.1, rr.2 - rr.1, r⟩
      else .ok ⟨v.base, minDataLen l, l⟩
  else .error .panic

/-! ## broadcast -/

/-- `Layout::can_broadcast_to`. -/
def canBroadcastTo (d : Dims) (target : List Nat) : Bool :=
  if d.length > target.length then false
  else (List.zip (sizes d) (target.drop (target.length - d.length))).all (fun (a, b) => a == b || a == 1)

/-- `broadcast_strides`. -/
def broadcastStrides (d : Dims) (target : List Nat) : List Nat :=
  let pad := target.length - d.length
  List.replicate pad 0 ++
    List.zipWith (fun (p : Nat × Nat) t => if p.1 == 1 && decide (t > 1) then 0 else p.2) d (target.drop pad)

/-- `DynLayout::broadcast` + `try_broadcast` (storage window unchanged). -/
def broadcast (v : View) (target : List Nat) : Except Err View :=
  if canBroadcastTo v.dims target then
    .ok { v with dims := List.zip target (broadcastStrides v.dims target) }
  else .error .err

/-! ## insert_axis / remove_axis / squeezed / merge_axes -/

/-- `max_by_key(|(stride, _)| stride)`: the *last* maximal element. -/
def maxByStride : Dims → Option (Nat × Nat)
  | [] => none
  | p :: ps =>
    match maxByStride ps with
    | none => some p
    | some q => if q.2 ≥ p.2 then some q else some p

/-- `DynLayout::insert_axis`: `SmallVec::insert` panics for `index > ndim` (second insert). -/
def insertAxis (v : View) (index : Nat) : Except Err View :=
  if index ≤ v.dims.length then
    let (sz, st) := (maxByStride v.dims).getD (1, 1)
    .ok { v with dims := v.dims.insertIdx index (1, st * sz) }
  else .error .panic

/-- `ResizeLayout::remove_axis`: panics unless the axis exists and has size 1. -/
def removeAxis (v : View) (index : Nat) : Except Err View :=
  if index < v.dims.length ∧ (v.dims.getD index (0, 0)).1 = 1 then
    .ok { v with dims := v.dims.eraseIdx index }
  else .error .panic

/-- `DynLayout::squeezed` (the view keeps the whole storage window). -/
def squeezed (v : View) : View := { v with dims := v.dims.filter (fun p => p.1 != 1) }

/-- The `merge_axes` loop, run over the dimensions from the innermost outwards; `acc` is the
`merged` vector with its *last pushed* entry (the outermost so far) at the head, i.e. `acc`
is already the final `merged.reverse()`. -/
def mergeStep (acc : Dims) (outer : Nat × Nat) : Dims :=
  match acc with
  | [] => [outer]
  | (isz, ist) :: rest =>
    if outer.1 = 1 ∨ outer.2 = ist * isz then (isz * outer.1, ist) :: rest
    else outer :: (isz, ist) :: rest

/-- `merge_axes(shape, strides)`. -/
def mergeAxes (d : Dims) : Dims := d.reverse.foldl mergeStep []

def mergedAxes (v : View) : View := { v with dims := mergeAxes v.dims }

/-! ## Owned tensors: storage + view -/

/-- A tensor or view together with the buffer it reads. -/
structure TState where
  store : List Nat
  view : View
  deriving Repr, DecidableEq

/-- The array a view denotes over a storage function. -/
def denote {α : Type} (v : View) (s : Nat → α) : NArr α :=
  NArr.ofFn (sizes v.dims) (fun idx => s (v.base + offset v.dims idx))

def TState.arr (t : TState) : NArr Nat := denote t.view (fun i => t.store.getD i 0)

/-- A freshly allocated contiguous tensor holding `A`. -/
def TState.ofArr (A : NArr Nat) : TState :=
  ⟨A.data, ⟨0, A.data.length, contigDims A.shape⟩⟩

/-- `to_contiguous`: borrow (window cut to `min_data_len`) when already contiguous, else copy. -/
def toContiguous (t : TState) : TState :=
  if isContiguous t.view.dims then
    { t with view := { t.view with len := minDataLen t.view.dims } }
  else TState.ofArr t.arr

/-- `reshaped`: a view when contiguous and the element count matches, a copy when not
contiguous, a panic when the element count differs. -/
def reshaped (t : TState) (shape : List Nat) : Except Err TState :=
  if numel shape ≠ numelD t.view.dims then .error .panic
  else if isContiguous t.view.dims then
    .ok { t with view := { t.view with dims := contigDims shape } }
  else .ok ⟨t.arr.data, ⟨0, t.arr.data.length, contigDims shape⟩⟩

/-- Per-axis index lists enumerated by `copy_range_into_slice` (every axis of the source;
axes without an item use the full range).  Too many items panic. -/
def copyRanges : Dims → List SliceItem → Except Err (List (List Nat))
  | [], [] => .ok []
  | [], _ :: _ => .error .panic
  | (size, _) :: ds, [] => do
    let rest ← copyRanges ds []
    pure (List.range size :: rest)
  | (size, _) :: ds, it :: its => do
    let ir ← it.indexRange size
    let rest ← copyRanges ds its
    pure (ir.toList :: rest)

/-- `sliced_shape` of `slice_copy_in`: one entry per *range item*, followed by the full size of
every axis that has no item.  An index item must be in range (asserted up front). -/
def slicedShape : Dims → List SliceItem → Except Err (List Nat)
  | d, [] => .ok (sizes d)
  | [], _ :: _ => .error .panic
  | (size, _) :: ds, it :: its => do
    let rest ← slicedShape ds its
    match it with
    | .index i =>
      let pos := if i ≥ 0 then i else i + size
      if pos ≥ 0 ∧ pos < size then pure rest else .error .panic
    | .range r => do
      let ir ← r.indexRange size
      pure (ir.steps :: rest)

/-- `slice_copy` (any rank): the view slice copied if `try_slice` succeeds; otherwise the
stepped index ranges of every axis are enumerated into a buffer of `∏ sliced_shape` elements.
`copy_range_into_slice_inner` panics unless that buffer is filled exactly: for ≤ 4 axes by
`assert_eq!(dest.len(), sliced_len)`, for more axes (since fix `2a7721f`, which also made the
recursive branch split the buffer by the *sliced* sub-tensor length) by `split_at_mut` /
`assert!(dest.is_empty())` around the recursion. -/
def sliceCopy (t : TState) (items : List SliceItem) : Except Err TState :=
  match trySlice t.view items with
  | .ok v => .ok (TState.ofArr (denote v (fun i => t.store.getD i 0)))
  | .error _ => do
    let shp ← slicedShape t.view.dims items
    let lists ← copyRanges t.view.dims items
    if numel shp ≠ numel (lists.map List.length) then .error .panic
    else pure (TState.ofArr ⟨shp, (NArr.gather (lists.map Sel.take) t.arr).data⟩)

/-! ### `slice_copy` before the fixes `64c556f` and `bb4fae9` (kept as a witness of the defects) -/

/-- Pre-fix `sliced_shape`: range items only, index items unchecked, unsliced axes forgotten. -/
def slicedShapeOld : Dims → List SliceItem → Except Err (List Nat)
  | _, [] => .ok []
  | [], _ :: _ => .error .panic
  | (size, _) :: ds, it :: its => do
    let rest ← slicedShapeOld ds its
    match it with
    | .index _ => pure rest
    | .range r => do
      let ir ← r.indexRange size
      pure (ir.steps :: rest)

def sliceCopyOld (t : TState) (items : List SliceItem) : Except Err TState :=
  match trySlice t.view items with
  | .ok v => .ok (TState.ofArr (denote v (fun i => t.store.getD i 0)))
  | .error _ => do
    let shp ← slicedShapeOld t.view.dims items
    let lists ← copyRanges t.view.dims items
    if numel shp ≠ numel (lists.map List.length) then .error .panic
    else pure (TState.ofArr ⟨shp, (NArr.gather (lists.map Sel.take) t.arr).data⟩)

/-! ## Owned tensors with spare capacity: `append`, `clip_dim` -/

/-- The storage window of the current view, as the `Vec` of a new owned tensor built with
`from_data_with_strides` (overlap is refused; too short a buffer too). -/
def materialize (t : TState) : Except Err TState :=
  let win := (t.store.drop t.view.base).take t.view.len
  if mayOverlap t.view.dims then .error .err
  else if minDataLen t.view.dims > win.length then .error .err
  else .ok ⟨win, ⟨0, win.length, t.view.dims⟩⟩

/-- Elements of `other` (shape `oshape`, element at `idx` given by `g`) written at their
offsets: `slice_axis_mut(axis, old..new).copy_from(other)`. -/
def writeAll (store : List Nat) (start : Nat) (d : Dims) (oshape : List Nat)
    (g : List Nat → Nat) : List Nat :=
  (idxs oshape).foldl (fun st idx => st.set (start + offset d idx) (g idx)) store

/-- `TensorBase::append` on a tensor whose `Vec` has capacity `max cap len`
(`axis ≥ ndim` panics before any mutation since fix `90df0e8`, after the shape check).  Since fix `0049079`
`expanded_layout` computes the new length with `checked_min_data_len`; in the ideal (`Nat`)
arithmetic of this model that is `minDataLen`. -/
def appendOp (t : TState) (axis cap : Nat) (oshape : List Nat) : Except Err TState := do
  let m ← materialize t
  let d := m.view.dims
  let g : List Nat → Nat := fun idx => 1000 + (idxs oshape).idxOf idx
  let shapeMatch := d.length == oshape.length &&
    (List.range d.length).all (fun k => k == axis || (sizes d).getD k 0 == oshape.getD k 0)
  if !shapeMatch then .error .err
  else
    if axis ≥ d.length then .error .panic
    else
      let capacity := max cap m.store.length
      let oldSize := (sizes d).getD axis 0
      let newSize := oldSize + oshape.getD axis 0
      let nd := resizeDim d axis newSize
      let newLen := minDataLen nd
      if newLen > capacity ∨ mayOverlap nd then .error .err
      else if isContiguous nd ∧ m.store.length + numel oshape = newLen then
        let st := m.store ++ (idxs oshape).map g
        pure ⟨st, ⟨0, st.length, nd⟩⟩
      else
        let fill := g ((idxs oshape).headD [])
        let st1 := if m.store.length < newLen then
          m.store ++ List.replicate (newLen - m.store.length) fill else m.store
        let sd := resizeDim nd axis (newSize - oldSize)
        let start := if numelD sd = 0 then 0 else oldSize * (strides nd).getD axis 0
        let st := writeAll st1 start sd oshape g
        pure ⟨st, ⟨0, st.length, nd⟩⟩

/-- `TensorBase::clip_dim` (`axis ≥ ndim` panics before any mutation since fix `90df0e8`). -/
def clipDim (t : TState) (axis start stop : Nat) : Except Err TState := do
  let m ← materialize t
  let d := m.view.dims
  if axis ≥ d.length then .error .panic
  else if ¬ (start ≤ stop) ∨ ¬ (stop ≤ (sizes d).getD axis 0) then .error .panic
  else
    let nd := resizeDim d axis (stop - start)
    let (a, b) := if numelD nd = 0 then (0, 0) else
      (start * (strides nd).getD axis 0, start * (strides nd).getD axis 0 + minDataLen nd)
    if b > m.store.length then .error .panic
    else
      let st := (m.store.drop a).take (b - a)
      pure ⟨st, ⟨0, st.length, nd⟩⟩

end RtenVerif.Layout
