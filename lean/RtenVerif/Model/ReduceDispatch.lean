/-
C14: the `reduce` helper of src/ops/reduce.rs for reductions over the innermost axes — the case
where two code paths compete: the "contiguous chunks" fast path (`input.data().chunks(slice_len)`)
and the general path (lanes / permuted inner slices, each packed in row-major order).

Views are (base, (size, stride) list) over abstract storage; the input's dims are `O ++ I`
(outer, kept axes ++ inner, reduced axes).  Core Lean + import-free models.
-/
import RtenVerif.Model.Layout
import RtenVerif.Model.Iter

namespace RtenVerif.Layout
open RtenVerif.Overlap
open RtenVerif.Iter (rowMajor)

/-- `slice::chunks(n)` (fuel = an upper bound on the length). -/
def chunks {α : Type} (n : Nat) : Nat → List α → List (List α)
  | 0, _ => []
  | _ + 1, [] => []
  | fuel + 1, x :: xs => (x :: xs).take n :: chunks n fuel ((x :: xs).drop n)

/-- `reduced_inner_dims` as coded: `resolved_axes` (sorted ascending, deduplicated) must satisfy
`axes[i] == ndim - 1 - i` for every position `i`.  Because the axes are ascending this holds only
for a single axis `ndim - 1` (or no axes): for two or more innermost axes the check fails and
the contiguous-chunks fast path is not taken (a missed optimisation, not a correctness issue). -/
def reducedInnerDims (ndim : Nat) (axes : List Nat) : Option Nat :=
  if (List.zip (List.range axes.length) axes).all (fun p => p.2 + 1 + p.1 == ndim) then some axes.length
  else none

/-- General path / specification: one output per outer index (row-major over the kept axes), the
kernel applied to the inner slice read in row-major order through the strides. -/
def reduceSlices {α β : Type} (kernel : List α → β) (O I : Dims) (base : Nat) (s : Nat → α) : List β :=
  (rowMajor O).map (fun o => kernel ((rowMajor I).map (fun i => s (base + (o + i)))))

/-- `reduce` for innermost reduced axes as coded: rank 0 → the item; empty input → the kernel's
identity for every output; contiguous input → chunks of the data slice; otherwise the general
path. -/
def reduceInnerOp {α β : Type} (kernel : List α → β) (O I : Dims) (base : Nat) (s : Nat → α) : List β :=
  let d := O ++ I
  let n := RtenVerif.Arr.numel (sizes d)
  if d.length = 0 then [kernel [s base]]
  else if n = 0 then List.replicate (RtenVerif.Arr.numel (sizes O)) (kernel [])
  else if isContiguous d then
    (chunks (RtenVerif.Arr.numel (sizes I)) n ((List.range n).map (fun i => s (base + i)))).map kernel
  else reduceSlices kernel O I base s

end RtenVerif.Layout
