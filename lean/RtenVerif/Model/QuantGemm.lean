/-!
# Model of the `u8 × i8 → i32` GEMM of `rten-gemm` (property C17)

Import-free, executable.  All values are ideal `Int`s; `wrap32` is applied at the very end
(release builds wrap, SIMD lanes always wrap).

Anchors (all in `/repo/rten-gemm/src`):
* `packing/int8.rs` `pack_a` / `pack_b`: A is packed into `[K/4, MR, 4]` micro-tiles followed by
  `MR` row sums and `MR` zero points, B into `[K/4, NR, 4]` followed by column sums and zero points;
  a short last K-tile is padded with zeros.
* `kernels/simd_generic.rs` `simd_int8_gemm`: for each K-tile a 4-wide dot product per output
  (`Int8DotProduct::dot_product`), then `simd_int8_gemm_epilogue`:
  `tmp += depth * b_zero * a_zero; tmp -= a_sum * b_zero + b_sum * a_zero`.
* `kernels/x86_64.rs`: `dot_product` is `vpmaddubsw` + `vpmaddwd(·,1)` + `vpaddd` on AVX2 and on
  AVX-512 without VNNI (`may_saturate() = true`): the two adjacent `u8·i8` products of each pair are
  added with **signed 16-bit saturation**, the two pair sums are then added exactly in 32 bits.
  With AVX-512 VNNI it is `vpdpbusd` (exact).
* `kernels/generic.rs`: the scalar kernel accumulates `(a − za)·(b − zb)` directly.
* `lib.rs` `gemm_impl`: K is cut into depth blocks of `kc = min(1024, K)`; every block is packed and
  corrected on its own and accumulated into the output (`beta = 1` after the first block);
  `gemv` (M = 1, nothing prepacked) cuts K into chunks of 8 or 512 and applies the same correction
  per chunk.
* `prepack.rs`: `prepack_a`/`prepack_b` call `pack_*_block(.., quant = None)`, so prepacked panels
  carry zero points 0 in their metadata.  Since the fix recorded in `findings/C17.json` the SIMD
  kernels take the zero points of a tile from the `a_quant`/`b_quant` arguments whenever the caller
  supplies them (`packing::int8::tile_{a,b}_zero_points`), like the generic kernel always did; the
  metadata is only the fallback.  Row/column sums always come from the panel.
-/
namespace RtenVerif.QuantGemm

/-- `Σ_k a_k·b_k`. -/
def dot : List Int → List Int → Int
  | a :: as, b :: bs => a * b + dot as bs
  | _, _ => 0

/-- `Σ_k x_k` (row sum of A / column sum of B computed while packing). -/
def sum : List Int → Int
  | [] => 0
  | x :: xs => x + sum xs

/-- The mathematically correct entry: `Σ_k (a_k − za)(b_k − zb)` — also literally what the generic
kernel accumulates. -/
def dotZ (za zb : Int) : List Int → List Int → Int
  | a :: as, b :: bs => (a - za) * (b - zb) + dotZ za zb as bs
  | _, _ => 0

/-- Signed saturation to 16 bits (`vpmaddubsw`). -/
def sat16 (x : Int) : Int :=
  if x < -32768 then -32768 else if x > 32767 then 32767 else x

/-- The sum of one adjacent pair of `u8·i8` products as the dot-product instruction forms it. -/
def pairSum (sat : Bool) (a0 b0 a1 b1 : Int) : Int :=
  if sat then sat16 (a0 * b0 + a1 * b1) else a0 * b0 + a1 * b1

/-- One 4-wide dot product step (one i32 lane of `Int8DotProduct::dot_product`, before the
accumulator is added). -/
def dot4 (sat : Bool) (a0 a1 a2 a3 b0 b1 b2 b3 : Int) : Int :=
  pairSum sat a0 b0 a1 b1 + pairSum sat a2 b2 a3 b3

/-- Accumulation over packed K-tiles of 4 with a zero padded last tile. -/
def dotTiles (sat : Bool) : List Int → List Int → Int
  | a0 :: a1 :: a2 :: a3 :: as, b0 :: b1 :: b2 :: b3 :: bs =>
      dot4 sat a0 a1 a2 a3 b0 b1 b2 b3 + dotTiles sat as bs
  | [a0, a1, a2], [b0, b1, b2] => dot4 sat a0 a1 a2 0 b0 b1 b2 0
  | [a0, a1], [b0, b1] => dot4 sat a0 a1 0 0 b0 b1 0 0
  | [a0], [b0] => dot4 sat a0 0 0 0 b0 0 0 0
  | _, _ => 0

/-- One output element of one depth block as `simd_int8_gemm` + epilogue compute it:
accumulated tile dot products, `+ depth·zb·za`, `− (rowsum·zb + colsum·za)`. -/
def entryBlock (sat : Bool) (za zb : Int) (a b : List Int) : Int :=
  dotTiles sat a b + (a.length : Int) * zb * za - (sum a * zb + sum b * za)

/-- Depth blocking: consecutive chunks of `kc` elements, each handled by `entryBlock`, summed.
`fuel` bounds the number of chunks (`a.length` always suffices when `kc > 0`). -/
def entryBlocks (sat : Bool) (kc : Nat) (za zb : Int) : Nat → List Int → List Int → Int
  | 0, _, _ => 0
  | fuel + 1, a, b =>
      if a.isEmpty then 0
      else entryBlock sat za zb (a.take kc) (b.take kc) +
           entryBlocks sat kc za zb fuel (a.drop kc) (b.drop kc)

/-- Output element computed by a SIMD kernel with depth block size `kc`. -/
def entrySimd (sat : Bool) (kc : Nat) (za zb : Int) (a b : List Int) : Int :=
  entryBlocks sat kc za zb a.length a b

/-! ### Vector-matrix path (`gemv`, M = 1 and nothing prepacked)

`lib.rs::gemv` cuts the columns into blocks of `cb = max(⌈N / threads⌉, 128)` and K into chunks of
512 (B has unit row stride) or 8; every chunk is handled by `simd_int8_gemv` and accumulated:
* B with unit row stride (`simd_int8_gemv_transposed`): per column, K-tiles of one SIMD vector
  (`lanes` = 32 bytes AVX2, 64 AVX-512) go through the dot-product instruction, the rest is scalar;
* B with unit column stride: columns are taken `lanes` at a time; for those, K-tiles of 4 go through
  the dot-product instruction and the K tail is a plain i32 multiply-add; the remaining columns of
  the block are scalar;
* otherwise (`simd_int8_gemv_fallback`) everything is scalar.
Column sums use `dot(1, b)` (never saturates); the correction is the same as in the epilogue. -/

/-- Dot product of one K chunk on the gemv path: the first `⌊len/tile⌋·tile` elements go through the
4-wide dot-product instruction (pair saturation when `sat`), the rest is exact. `tile = 0`: all
scalar. -/
def gemvDot (sat : Bool) (tile : Nat) (a b : List Int) : Int :=
  dotTiles sat (a.take (a.length / tile * tile)) (b.take (a.length / tile * tile)) +
    dot (a.drop (a.length / tile * tile)) (b.drop (a.length / tile * tile))

/-- One chunk: `depth·za·zb + acc − rowsum·zb − colsum·za`. -/
def entryGemvBlock (sat : Bool) (tile : Nat) (za zb : Int) (a b : List Int) : Int :=
  (a.length : Int) * za * zb + gemvDot sat tile a b - sum a * zb - sum b * za

def entryGemvBlocks (sat : Bool) (tile kc : Nat) (za zb : Int) : Nat → List Int → List Int → Int
  | 0, _, _ => 0
  | fuel + 1, a, b =>
      if a.isEmpty then 0
      else entryGemvBlock sat tile za zb (a.take kc) (b.take kc) +
           entryGemvBlocks sat tile kc za zb fuel (a.drop kc) (b.drop kc)

def entryGemv (sat : Bool) (tile kc : Nat) (za zb : Int) (a b : List Int) : Int :=
  entryGemvBlocks sat tile kc za zb a.length a b

/-- Stride class of B on the gemv path. -/
inductive BKind where
  | unitRowStride | unitColStride | general
  deriving DecidableEq, Repr

/-- K-tile size that goes through the dot-product instruction for output column `j`. -/
def gemvTile (kind : BKind) (lanes cb n j : Nat) : Nat :=
  match kind with
  | .unitRowStride => lanes
  | .general => 0
  | .unitColStride =>
      let blockStart := (j / cb) * cb
      let blockLen := min cb (n - blockStart)
      if j - blockStart < (blockLen / lanes) * lanes then 4 else 0

/-- Two's complement wrap to 32 bits. -/
def wrap32 (x : Int) : Int := (x + 2147483648) % 4294967296 - 2147483648

/-- Index into the caller's zero-point slice that `pack_a` (resp. `pack_b`) stores for row `r` of
panel `p` of a block (`mr` = panel height): the global position inside the block. -/
def panelZeroPointIdx (mr p r : Nat) : Nat := p * mr + r

/-- The indexing of *full* panels before the fix recorded in `findings/C17.json`
(`zp[r]` instead of `zp[row_tile * MR + r]`): every full panel re-used the zero points of panel 0. -/
def panelZeroPointIdxOld (_mr _p r : Nat) : Nat := r

/-! ## Whole-matrix reference used by the driver -/

inductive Kern where
  | generic | simd
  deriving DecidableEq, Repr

structure Request where
  kern : Kern
  /-- kernel's `may_saturate()` -/
  sat : Bool
  /-- depth block size (`kc`, or the gemv chunk size) -/
  kc : Nat
  /-- the vector-matrix fast path is taken (M = 1, nothing prepacked) -/
  gemv : Bool
  /-- stride class of B, SIMD width in bytes, column block size (gemv path only) -/
  bKind : BKind
  lanes : Nat
  cb : Nat
  /-- A / B prepacked (`GemmInput*::Packed`); does not influence the result -/
  preA : Bool
  preB : Bool
  m : Nat
  n : Nat
  k : Nat
  za : Option (List Int)
  zb : Option (List Int)
  c0 : Option (List Int)
  a : List Int
  b : List Int

def rowOf (k : Nat) (a : List Int) (i : Nat) : List Int := (a.drop (i * k)).take k

/-- Column `j` of a row-major `K × n` matrix. -/
def colOf (n : Nat) : Nat → List Int → Nat → List Int
  | 0, _, _ => []
  | k + 1, b, j => (b.getD j 0) :: colOf n k (b.drop n) j

/-- Zero point applied for a row/column: the caller's value (0 when no quantisation parameters are
passed), independent of the kernel and of prepacking. -/
def effZero (z : Option (List Int)) (i : Nat) : Int :=
  match z with
  | none => 0
  | some l => l.getD i 0

/-- What the SIMD kernels used **before** the fix: zero points were read only from the panel
metadata, which holds 0 for prepacked panels. -/
def effZeroOld (kern : Kern) (pre : Bool) (z : Option (List Int)) (i : Nat) : Int :=
  match z with
  | none => 0
  | some l => if kern = .simd ∧ pre then 0 else l.getD i 0

def entry (r : Request) (i j : Nat) : Int :=
  let a := rowOf r.k r.a i
  let b := colOf r.n r.k r.b j
  let za := effZero r.za i
  let zb := effZero r.zb j
  let v := match r.kern with
    | .generic => dotZ za zb a b
    | .simd =>
      if r.gemv then entryGemv r.sat (gemvTile r.bKind r.lanes r.cb r.n j) r.kc za zb a b
      else entrySimd r.sat r.kc za zb a b
  let c := match r.c0 with
    | none => 0
    | some l => l.getD (i * r.n + j) 0
  wrap32 (v + c)

def gemm (r : Request) : List Int :=
  (List.range r.m).flatMap fun i => (List.range r.n).map fun j => entry r i j

/-! ## Argument checks of `gemm_impl` (`lib.rs`), in the code's order -/

inductive GemmErr where
  | kSizeMismatch | wrongQuantParamSize | outputSizeMismatch
  deriving DecidableEq, Repr

/-- `a.cols() != b.rows()` → `KSizeMismatch`; zero-point vectors must have one entry per row of A /
column of B → `WrongQuantParamSize`; the output slice must hold `rows·cols` elements →
`OutputSizeMismatch` (no bias is used by the int8 operators). -/
def checkGemmArgs (aRows aCols bRows bCols : Nat) (zaLen zbLen : Option Nat) (outLen : Nat) :
    Except GemmErr Unit :=
  if aCols != bRows then .error .kSizeMismatch
  else if zaLen.any (· != aRows) then .error .wrongQuantParamSize
  else if zbLen.any (· != bCols) then .error .wrongQuantParamSize
  else if outLen != aRows * bCols then .error .outputSizeMismatch
  else .ok ()

/-- A request whose tensors have the sizes its dimensions announce (what `gemm_impl` accepts). -/
structure Request.WF (r : Request) : Prop where
  a_len : r.a.length = r.m * r.k
  b_len : r.b.length = r.k * r.n
  za_len : ∀ l, r.za = some l → l.length = r.m
  zb_len : ∀ l, r.zb = some l → l.length = r.n
  c0_len : ∀ l, r.c0 = some l → l.length = r.m * r.n

/-- `gemm` with the argument checks: `KSizeMismatch` when A or B does not hold `m·k` resp. `k·n`
elements (the real API carries the shapes in the matrix views; here they are list lengths),
`WrongQuantParamSize` for zero-point vectors of the wrong length, `OutputSizeMismatch` when the
output buffer (and the initial output `c0`, if any) does not hold `m·n` elements.  Never defaults:
`.ok l` implies `Request.WF` (`gemmChecked_ok`). -/
def gemmChecked (r : Request) (outLen : Nat) : Except GemmErr (List Int) :=
  if r.a.length != r.m * r.k || r.b.length != r.k * r.n then .error .kSizeMismatch
  else
    match checkGemmArgs r.m r.k r.k r.n (r.za.map (·.length)) (r.zb.map (·.length)) outLen with
    | .error e => .error e
    | .ok () =>
      if (r.c0.map (·.length)).any (· != r.m * r.n) then .error .outputSizeMismatch
      else .ok (gemm r)

/-- Inputs are in the reduced range documented by `ReducedRangeRng`: all `a ∈ [0,127]` or all
`b ∈ [−64,63]`. -/
def inReducedRange (a b : List Int) : Bool :=
  a.all (fun x => decide (0 ≤ x ∧ x ≤ 127)) || b.all (fun x => decide (-64 ≤ x ∧ x ≤ 63))

end RtenVerif.QuantGemm
