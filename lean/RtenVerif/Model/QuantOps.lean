import RtenVerif.Model.QuantGemm

/-!
# Model of the quantized operator wrappers of `rten` (property C17, operator level)

Core Lean only (imports just the GEMM model).  Anchors in `/repo/src/ops`:

* `matmul.rs::matmul_integer` (MatMulInteger): zero points are `None` / scalar / vector
  (`zero_point_to_vec`), the LHS is converted to `u8` and the RHS to `i8` by `ShiftCast`
  (`x ^ 0x80`, i.e. ±128) **together with their zero points**, then `u8 × i8 → i32` GEMM.
  If the LHS is `i8` and the default kernel `may_saturate()` (x64 without VNNI) the LHS is instead
  shifted by `−min(0, min value)` and the zero points by the same amount, truncated with `as u8`
  (`shift_cast_gemm_lhs_to_u8`).
* `conv.rs::conv_integer` (ConvInteger): the *kernel* is the GEMM LHS (→ `u8`), the image is the RHS
  (→ `i8`, scalar zero point); general case = `im2col` + GEMM, where out-of-image taps are packed as
  `padValue` (`rten-gemm/src/im2col.rs::pack_block_int8`); 1×1 unpadded = plain GEMM; depthwise =
  direct loops that skip out-of-image taps.
* `quantize.rs`: `QuantizeLinear` `y = sat(round_ties_even(x · (1/scale)) + zp)`,
  `DequantizeLinear` `(q − zp) · scale`, `DynamicQuantizeLinear` (ONNX reference formulas, `u8`).

Floats never enter the model: tensors handed to the quantize operators are integers `X` in units of
`2^e`, and the f32 scale is either a parameter (`scale = 2^e`) or the exact rational `R / 255`.
-/
namespace RtenVerif.QuantOps
open RtenVerif.QuantGemm

inductive Dt where
  | u8 | i8
  deriving DecidableEq, Repr

/-- Amount added by `ShiftCast` to the GEMM LHS type `u8`. -/
def lhsShift : Dt → Int
  | .u8 => 0
  | .i8 => 128

/-- Amount added by `ShiftCast` to the GEMM RHS type `i8`. -/
def rhsShift : Dt → Int
  | .i8 => 0
  | .u8 => -128

/-- `ShiftCast` to the GEMM LHS type `u8`. -/
def lhsToU8 (d : Dt) (x : Int) : Int := x + lhsShift d

/-- `ShiftCast` to the GEMM RHS type `i8`. -/
def rhsToI8 (d : Dt) (x : Int) : Int := x + rhsShift d

/-- Bit-level form of the casts on a byte `v < 256` holding the two's complement pattern. -/
def xor80 (v : Nat) : Nat := v ^^^ 128

/-- One MatMulInteger output element as the wrapper computes it: operands and zero points are shift
cast, then the `u8 × i8` GEMM reference is applied. -/
def mmiEntry (da db : Dt) (za zb : Int) (a b : List Int) : Int :=
  dotZ (lhsToU8 da za) (rhsToI8 db zb) (a.map (lhsToU8 da)) (b.map (rhsToI8 db))

/-- The `may_saturate` variant for an `i8` LHS: the shift is `−min(0, min of the WHOLE LHS tensor)`
(`matmul.rs`: `tensor.iter().fold(0, min)`); the zero point is truncated to `u8` (`as u8`). -/
def minShift (lhsTensor : List Int) : Int := - (lhsTensor.foldl min 0)

/-- One output element on that path; `lhsTensor` is the whole LHS tensor, `a` one of its rows. -/
def mmiEntryMinShift (lhsTensor : List Int) (za zb : Int) (a b : List Int) : Int :=
  dotZ ((za + minShift lhsTensor) % 256) zb (a.map (· + minShift lhsTensor)) b

/-- Zero point of row/column `i`: absent → 0, scalar → broadcast, vector → element `i`. -/
inductive ZeroPoint where
  | none | scalar (v : Int) | vec (l : List Int)

def ZeroPoint.at : ZeroPoint → Nat → Int
  | .none, _ => 0
  | .scalar v, _ => v
  | .vec l, i => l.getD i 0

/-- MatMulInteger on `[batch, m, k] × [k, n]` (or batched `[batch, k, n]`), row-major. -/
def matMulInteger (da db : Dt) (batch m k n : Nat) (bBatched : Bool) (za zb : ZeroPoint)
    (a b : List Int) : List Int :=
  (List.range batch).flatMap fun bi =>
    let am := (a.drop (bi * m * k)).take (m * k)
    let bm := if bBatched then (b.drop (bi * k * n)).take (k * n) else b
    (List.range m).flatMap fun i =>
      (List.range n).map fun j =>
        wrap32 (mmiEntry da db (za.at i) (zb.at j) (rowOf k am i) (colOf n k bm j))

/-! ## ConvInteger -/

structure Conv where
  n : Nat
  c : Nat
  h : Nat
  w : Nat
  o : Nat
  kh : Nat
  kw : Nat
  groups : Nat
  padT : Nat
  padL : Nat
  padB : Nat
  padR : Nat
  sy : Nat
  sx : Nat
  dy : Nat
  dx : Nat

def Conv.outH (p : Conv) : Nat := (p.h + p.padT + p.padB - (p.dy * (p.kh - 1) + 1)) / p.sy + 1
def Conv.outW (p : Conv) : Nat := (p.w + p.padL + p.padR - (p.dx * (p.kw - 1) + 1)) / p.sx + 1

/-- One filter tap: the weight, the image value (0 when outside the image) and whether the tap lies
inside the image. -/
structure Tap where
  wt : Int
  x : Int
  valid : Bool

/-- Taps of output element `(img, oc, oy, ox)` in the order `(in channel, ky, kx)` of the im2col
rows.  `x` and `wt` are the row-major NCHW / OIHW tensors. -/
def taps (p : Conv) (x wt : List Int) (img oc oy ox : Nat) : List Tap :=
  let cg := p.c / p.groups
  let og := p.o / p.groups
  let g := oc / og
  (List.range cg).flatMap fun ic =>
    (List.range p.kh).flatMap fun ky =>
      (List.range p.kw).map fun kx =>
        let iy := oy * p.sy + ky * p.dy
        let ix := ox * p.sx + kx * p.dx
        let valid := decide (p.padT ≤ iy ∧ iy < p.h + p.padT ∧ p.padL ≤ ix ∧ ix < p.w + p.padL)
        let chan := g * cg + ic
        let xi := ((img * p.c + chan) * p.h + (iy - p.padT)) * p.w + (ix - p.padL)
        let wi := ((oc * cg + ic) * p.kh + ky) * p.kw + kx
        { wt := wt.getD wi 0, x := if valid then x.getD xi 0 else 0, valid }

/-- **Definition** (ONNX / the crate's `reference_conv`): only taps inside the image contribute
`(w − wz)(x − xz)`; padding represents the real value 0, i.e. the quantized value `xz`. -/
def convDef (wz xz : Int) : List Tap → Int
  | [] => 0
  | t :: ts => (if t.valid then (t.wt - wz) * (t.x - xz) else 0) + convDef wz xz ts

/-- **im2col + GEMM as coded**: every tap becomes a GEMM element; out-of-image taps are packed as
`padValue`.  The kernel is shift cast to `u8` (GEMM LHS), the image to `i8` (RHS). -/
def convGemm (dw dx : Dt) (padValue : Int) (wz xz : Int) (ts : List Tap) : Int :=
  dotZ (lhsToU8 dw wz) (rhsToI8 dx xz)
    (ts.map fun t => lhsToU8 dw t.wt)
    (ts.map fun t => if t.valid then rhsToI8 dx t.x else padValue)

/-- Value packed for out-of-image taps by `pack_block_int8` (since the fix recorded in
`findings/C17.json`, `C17-convinteger-padding`): the (shift cast) input zero point. -/
def padFixed (dx : Dt) (xz : Int) : Int := rhsToI8 dx xz

/-- … and before that fix: the constant 0 of the packed `i8` domain. -/
def padOld (_dx : Dt) (_xz : Int) : Int := 0

def convInteger (dw dx : Dt) (pad : Dt → Int → Int) (p : Conv) (wz : ZeroPoint) (xz : Int)
    (x wt : List Int) : List Int :=
  (List.range p.n).flatMap fun img =>
    (List.range p.o).flatMap fun oc =>
      (List.range p.outH).flatMap fun oy =>
        (List.range p.outW).map fun ox =>
          wrap32 (convGemm dw dx (pad dx xz) (wz.at oc) xz (taps p x wt img oc oy ox))

/-! ## QuantizeLinear / DequantizeLinear / DynamicQuantizeLinear -/

/-- `round_ties_even (num / den)` for `den > 0`. -/
def roundHalfEven (num : Int) (den : Int) : Int :=
  let q := num / den          -- floor (Int.div rounds toward −∞ for positive den: `Int.ediv`)
  let r := num % den          -- 0 ≤ r < den
  if 2 * r < den then q
  else if 2 * r > den then q + 1
  else if q % 2 = 0 then q else q + 1

def satTo (dt : Dt) (x : Int) : Int :=
  match dt with
  | .u8 => max 0 (min 255 x)
  | .i8 => max (-128) (min 127 x)

/-- `QuantizeLinear` with `scale = sNum / sDen` on input `x` (same units): the code computes
`round_ties_even(x · (1/scale)) + zp` in f32 and saturates; exact when `1/scale` and the product are
exactly representable (the harness uses powers of two). -/
def quantizeLinear (dt : Dt) (sNum sDen : Int) (zp : Int) (x : Int) : Int :=
  satTo dt (roundHalfEven (x * sDen) sNum + zp)

/-- `DequantizeLinear`: `(q − zp) · scale`, returned in units of `scale`. -/
def dequantizeUnits (zp q : Int) : Int := q - zp

structure DynQuant where
  /-- numerator of `scale = range / 255` (same units as the input) -/
  range : Int
  zeroPoint : Int
  y : List Int

/-- `DynamicQuantizeLinear` on integer inputs (any common unit), exact rational arithmetic:
`min' = min(min x, 0)`, `max' = max(max x, 0)`, `scale = (max' − min')/255`,
`zp = sat(round(clamp(0 − min'/scale)))`, `y = QuantizeLinear(x, scale, zp)`. -/
def dynamicQuantize (xs : List Int) : DynQuant :=
  let mn := xs.foldl min 0
  let mx := xs.foldl max 0
  let r := mx - mn
  if r = 0 then { range := 0, zeroPoint := 0, y := xs.map fun _ => 0 }
  else
    let zp := satTo .u8 (roundHalfEven (max 0 (min (255 * r) (-(255 * mn)))) r)
    { range := r, zeroPoint := zp, y := xs.map fun x => satTo .u8 (roundHalfEven (255 * x) r + zp) }

end RtenVerif.QuantOps
