import RtenVerif.Model.Layout

/-
Loop-level model of `copy_range_into_slice` / `copy_range_into_slice_inner`
(`rten-tensor/src/copy.rs`), the copying path of `slice_copy`.

* The source view is a function from a full index to an element (`src.get_unchecked(idx)`);
  `src.slice(i0)` fixes the first coordinate.
* `ranges` are the index lists the `IndexRange` iterators yield (already resolved; empty and
  reversed lists included).
* `dest` is the output buffer (its previous contents stand for uninitialised memory).
* With exactly four ranges the code asserts `dest.len() == ∏ steps` and runs four nested loops
  with a running `dest_offset`.  With more ranges it iterates over the first one, splits
  `dest` with `split_at_mut(inner_len)` (a panic if `dest` is too short), recurses, and finally
  asserts `dest.is_empty()` (fix `2a7721f`; before it the split used the length of the full
  source sub-tensor and there was no final assertion — `copyInnerOld`).
-/
namespace RtenVerif.CopyRange
open RtenVerif.Arr

/-- Product of the lengths of the ranges (`ranges.iter().map(|r| r.steps()).product()`). -/
def prodLen (ranges : List (List Nat)) : Nat := (ranges.map List.length).foldr (· * ·) 1

/-- The four nested loops, as the list of visited indices in loop order. -/
def loop4 (r0 r1 r2 r3 : List Nat) : List (List Nat) :=
  r0.flatMap fun i0 => r1.flatMap fun i1 => r2.flatMap fun i2 => r3.map fun i3 => [i0, i1, i2, i3]

/-- `dest[dest_offset] = src[idx]; dest_offset += 1` over a list of indices. -/
def writeSeq (src : List Nat → Nat) (idxs : List (List Nat)) (dest : List Nat) (off : Nat) :
    List Nat × Nat :=
  idxs.foldl (fun (st : List Nat × Nat) idx => (st.1.set st.2 (src idx), st.2 + 1)) (dest, off)

/-- The outer loop of the recursive branch: `done` is the part of `dest` already filled,
`remaining` the tail still to be filled. -/
def outerLoop (rec : (List Nat → Nat) → List Nat → Except Err (List Nat)) (src : List Nat → Nat)
    (innerLen : Nat) : List Nat → List Nat → List Nat → Except Err (List Nat × List Nat)
  | [], done, remaining => .ok (done, remaining)
  | i0 :: is, done, remaining =>
    if innerLen > remaining.length then .error .panic       -- `split_at_mut` out of range
    else
      match rec (fun idx => src (i0 :: idx)) (remaining.take innerLen) with
      | .error e => .error e
      | .ok filled => outerLoop rec src innerLen is (done ++ filled) (remaining.drop innerLen)

/-- `copy_range_into_slice_inner` (after fix `2a7721f`). -/
def copyInner (src : List Nat → Nat) (dest : List Nat) : List (List Nat) → Except Err (List Nat)
  | [r0, r1, r2, r3] =>
    if dest.length ≠ prodLen [r0, r1, r2, r3] then .error .panic   -- assert_eq!(dest.len(), sliced_len)
    else .ok (writeSeq src (loop4 r0 r1 r2 r3) dest 0).1
  | r0 :: r1 :: r2 :: r3 :: r4 :: rest =>
    match outerLoop (fun s d => copyInner s d (r1 :: r2 :: r3 :: r4 :: rest)) src
        (prodLen (r1 :: r2 :: r3 :: r4 :: rest)) r0 [] dest with
    | .error e => .error e
    | .ok (done, remaining) =>
      if remaining.isEmpty then .ok done else .error .panic       -- assert!(dest.is_empty())
  | _ => .error .panic                                             -- assert!(ranges.len() >= 4)

/-- `copy_range_into_slice`: pad to four dims with `insert_axis(0)` / the range `[0]`. -/
def copyRangeIntoSlice (src : List Nat → Nat) (dest : List Nat) (ranges : List (List Nat)) :
    Except Err (List Nat) :=
  let pad := 4 - ranges.length
  copyInner (fun idx => src (idx.drop pad)) dest (List.replicate pad [0] ++ ranges)

/-! ### The code before fix `2a7721f` (kept as a witness of the defect) -/

def outerLoopOld (rec : (List Nat → Nat) → List Nat → Except Err (List Nat)) (src : List Nat → Nat)
    (subLen : Nat) : List Nat → List Nat → List Nat → Except Err (List Nat × List Nat)
  | [], done, remaining => .ok (done, remaining)
  | i0 :: is, done, remaining =>
    if subLen > remaining.length then .error .panic
    else
      match rec (fun idx => src (i0 :: idx)) (remaining.take subLen) with
      | .error e => .error e
      | .ok filled => outerLoopOld rec src subLen is (done ++ filled) (remaining.drop subLen)

/-- Pre-fix: `dest.split_at_mut(src_slice.len())` — the length of the *full* source sub-tensor
(`shape` = source sizes) — and no check after the loop (whatever was not written stays). -/
def copyInnerOld (src : List Nat → Nat) (dest : List Nat) :
    List Nat → List (List Nat) → Except Err (List Nat)
  | _, [r0, r1, r2, r3] =>
    if dest.length ≠ prodLen [r0, r1, r2, r3] then .error .panic
    else .ok (writeSeq src (loop4 r0 r1 r2 r3) dest 0).1
  | _ :: shape, r0 :: r1 :: r2 :: r3 :: r4 :: rest =>
    match outerLoopOld (fun s d => copyInnerOld s d shape (r1 :: r2 :: r3 :: r4 :: rest)) src
        (shape.foldr (· * ·) 1) r0 [] dest with
    | .error e => .error e
    | .ok (done, remaining) => .ok (done ++ remaining)
  | _, _ => .error .panic

end RtenVerif.CopyRange
