import RtenVerif.Model.Overlap

/-!
Model of `rten-tensor/src/iterators.rs` and `rten-tensor/src/iterators/parallel.rs`
(`IterPos`, `OffsetsBase`, `Offsets`, `LaneRanges`/`Lanes`, `InnerIterBase`/`InnerIter`,
`AxisIter`, `AxisChunks`, their `SplitIterator::split_at`s) and of `merge_axes`
(`rten-tensor/src/layout.rs`).

Ideal (`Nat`) arithmetic.  A layout is a list of `(size, stride)` pairs, outermost
dimension first (as in `Model/Overlap.lean`, whose `isContiguous`, `offset`, `indices`
are reused).  Iterators yield *storage offsets*; a sub-view item is `(shape, offsets of
its elements in row-major order)`.  Mutation is state passing; a Rust panic is `none`
from the operation that asserts.  Everything is structurally recursive so the kernel can
evaluate it (`decide`).  Core Lean only (besides `Model/Overlap`, itself import-free).
-/
namespace RtenVerif.Iter
open RtenVerif.Overlap (isContiguous offset indices)

/-! ## Layout helpers -/

/-- Number of elements: product of the sizes. -/
def total : List (Nat × Nat) → Nat
  | [] => 1
  | d :: ds => d.1 * total ds

/-- `Layout::min_data_len`. -/
def minDataLen (dims : List (Nat × Nat)) : Nat :=
  if dims.any (fun d => d.1 == 0) then 0
  else (dims.map (fun d => (d.1 - 1) * d.2)).sum + 1

/-- `Layout::is_broadcast`: non-empty and some stride is zero (whatever the size of that dim). -/
def isBroadcast (dims : List (Nat × Nat)) : Bool :=
  total dims != 0 && dims.any (fun d => d.2 == 0)

/-- The specification: storage offsets of all elements in row-major (logical) order. -/
def rowMajor (dims : List (Nat × Nat)) : List Nat :=
  (indices dims).map (offset dims)

/-- One iteration of the `merge_axes` loop.  `merged` is kept outermost-first, i.e. its
head is the entry the code reaches with `merged.last_mut()`. -/
def mergeStep (merged : List (Nat × Nat)) (d : Nat × Nat) : List (Nat × Nat) :=
  match merged with
  | [] => [d]
  | (isz, ist) :: rest =>
    if d.1 = 1 ∨ d.2 = ist * isz then (isz * d.1, ist) :: rest else d :: (isz, ist) :: rest

/-- `merge_axes(shape, strides)` (result outermost-first, as after the final `reverse`). -/
def mergeAxes (dims : List (Nat × Nat)) : List (Nat × Nat) :=
  match dims.reverse with
  | [] => []
  | d :: rest => rest.foldl mergeStep [d]

/-! ## `IterPos` -/

structure IterPos where
  remaining : Nat
  offset : Nat
  stride : Nat
  maxRemaining : Nat
  deriving Repr, DecidableEq

namespace IterPos

def fromSizeStride (size stride : Nat) : IterPos :=
  { remaining := size - 1, offset := 0, stride := stride, maxRemaining := size - 1 }

/-- `IterPos::step`: the new position and the returned flag. -/
def step (p : IterPos) : IterPos × Bool :=
  if p.remaining ≠ 0 then
    ({ p with remaining := p.remaining - 1, offset := p.offset + p.stride }, true)
  else
    ({ p with remaining := p.maxRemaining, offset := 0 }, false)

def size (p : IterPos) : Nat := p.maxRemaining + 1
def index (p : IterPos) : Nat := p.maxRemaining - p.remaining
def setIndex (p : IterPos) (i : Nat) : IterPos :=
  { p with remaining := p.maxRemaining - i, offset := i * p.stride }

end IterPos

/-- `Σ p.offset`. -/
def sumOff : List IterPos → Nat
  | [] => 0
  | p :: ps => p.offset + sumOff ps

/-! ## `OffsetsBase`

`outerRev` holds `outer_pos` innermost-first (reversed), because every loop of the code
walks the outer dimensions from the last to the first. -/
structure OffsetsBase where
  len : Nat
  innerOffset : Nat
  inner0 : IterPos
  inner1 : IterPos
  outerOffset : Nat
  outerRev : List IterPos
  deriving Repr, DecidableEq

namespace OffsetsBase

/-- All positions, innermost first: the order of `for dim in (0..self.ndim()).rev()`. -/
def allPos (s : OffsetsBase) : List IterPos := s.inner1 :: s.inner0 :: s.outerRev

/-- `OffsetsBase::new`. -/
def new (dims : List (Nat × Nat)) : OffsetsBase :=
  let merged := mergeAxes dims
  let rev := merged.reverse
  let mk : Option (Nat × Nat) → IterPos := fun o =>
    match o with
    | some d => IterPos.fromSizeStride d.1 d.2
    | none => IterPos.fromSizeStride 1 0
  { len := total merged
    innerOffset := 0
    inner1 := mk rev.head?
    inner0 := mk (rev.drop 1).head?
    outerOffset := 0
    outerRev := (rev.drop 2).map (fun d => IterPos.fromSizeStride d.1 d.2) }

/-- The loop of `step_outer_pos` over `outer_pos.iter_mut().enumerate().rev()`:
new positions and "some dimension advanced" (`!done`). -/
def stepOuterLoop : List IterPos → List IterPos × Bool
  | [] => ([], false)
  | p :: ps =>
    let (p', ok) := p.step
    if ok then (p' :: ps, true)
    else
      let (ps', adv) := stepOuterLoop ps
      (p' :: ps', adv)

/-- `step_outer_pos`. -/
def stepOuterPos (s : OffsetsBase) : OffsetsBase × Bool :=
  let (o, adv) := stepOuterLoop s.outerRev
  ({ s with outerRev := o, outerOffset := sumOff o }, adv)

/-- `Iterator::next`. -/
def next (s : OffsetsBase) : Option Nat × OffsetsBase :=
  if s.len = 0 then (none, s)
  else
    let off := s.outerOffset + s.innerOffset
    let s1 := { s with len := s.len - 1, innerOffset := s.innerOffset + s.inner1.stride }
    let (i1, ok1) := s1.inner1.step
    let s2 := { s1 with inner1 := i1 }
    if ok1 then (some off, s2)
    else
      let (i0, ok0) := s2.inner0.step
      let s3 := { s2 with inner0 := i0 }
      let s4 := if ok0 then s3 else (stepOuterPos s3).1
      (some off, { s4 with innerOffset := s4.inner0.offset })

/-- The loop of `step_by` over `for dim in (0..ndim).rev()` with the running `remaining`. -/
def addPos : List IterPos → Nat → List IterPos
  | [], _ => []
  | p :: ps, rem =>
    if rem = 0 then p :: ps
    else
      let ni := p.index + rem
      p.setIndex (ni % p.size) :: addPos ps (ni / p.size)

/-- `step_by`. -/
def stepBy (s : OffsetsBase) (n : Nat) : OffsetsBase :=
  let rem := min n s.len
  match addPos s.allPos rem with
  | i1 :: i0 :: outer =>
    { len := s.len - rem, inner1 := i1, inner0 := i0, outerRev := outer
      innerOffset := i0.offset + i1.offset, outerOffset := sumOff outer }
  | _ => s

/-- The loop of `offset_from_linear_index` (running `shape_product`). -/
def offLin : List IterPos → Nat → Nat → Nat
  | [], _, _ => 0
  | p :: ps, index, sp => (index / sp % p.size) * p.stride + offLin ps index (sp * p.size)

def offsetFromLinearIndex (s : OffsetsBase) (index : Nat) : Nat := offLin s.allPos index 1

/-- `linear_index` (added by the fix): fold over dims `0..ndim`, outermost first. -/
def linearIndex (s : OffsetsBase) : Nat :=
  s.allPos.reverse.foldl (fun acc p => acc * p.size + p.index) 0

def truncate (s : OffsetsBase) (len : Nat) : OffsetsBase := { s with len := min s.len len }

/-- `DoubleEndedIterator::next_back` (current, fixed code). -/
def nextBack (s : OffsetsBase) : Option Nat × OffsetsBase :=
  if s.len = 0 then (none, s)
  else
    let index := s.linearIndex + s.len - 1
    (some (s.offsetFromLinearIndex index), { s with len := s.len - 1 })

/-- `next_back` as it was before the fix (`index = self.len - 1`); kept for the negation
witness in `Props/C07`. -/
def nextBackV0 (s : OffsetsBase) : Option Nat × OffsetsBase :=
  if s.len = 0 then (none, s)
  else (some (s.offsetFromLinearIndex (s.len - 1)), { s with len := s.len - 1 })

/-- `SplitIterator::split_at` (`assert!(self.len >= index)`). -/
def splitAt (s : OffsetsBase) (index : Nat) : Option (OffsetsBase × OffsetsBase) :=
  if index ≤ s.len then some (s.truncate index, s.stepBy index) else none

/-! ### `fold`: the visited offsets, in call order. -/

/-- `for i1 in start..size1 { f(..); len -= 1; if len == 0 { break 'outer } }` with
`count = size1 - start`.  Returns visited offsets and the remaining `len`
(`0` = `break 'outer` taken). -/
def foldRow (base stride1 : Nat) : Nat → Nat → Nat → List Nat × Nat
  | 0, _, len => ([], len)
  | c + 1, i1, len =>
    let off := base + i1 * stride1
    if len - 1 = 0 then ([off], 0)
    else
      let (r, l) := foldRow base stride1 c (i1 + 1) (len - 1)
      (off :: r, l)

/-- `for i0 in start0..size0 { <row loop from inner1.index()>; inner1.set_index(0) }`
with `count = size0 - start0`; `idx1` is the start of the first row. -/
def foldBlock (outerOff stride0 stride1 size1 : Nat) : Nat → Nat → Nat → Nat → List Nat × Nat
  | 0, _, _, len => ([], len)
  | c + 1, i0, idx1, len =>
    let (r, l) := foldRow (outerOff + i0 * stride0) stride1 (size1 - idx1) idx1 len
    if l = 0 then (r, 0)
    else
      let (r', l') := foldBlock outerOff stride0 stride1 size1 c (i0 + 1) 0 l
      (r ++ r', l')

/-- The `'outer: loop`; `fuel` bounds the number of iterations (each visits ≥ 1 element). -/
def foldOuter (stride0 stride1 size0 size1 : Nat) :
    Nat → List IterPos → Nat → Nat → Nat → List Nat
  | 0, _, _, _, _ => []
  | fuel + 1, outer, idx0, idx1, len =>
    let (r, l) := foldBlock (sumOff outer) stride0 stride1 size1 (size0 - idx0) idx0 idx1 len
    if l = 0 then r
    else
      let (outer', adv) := stepOuterLoop outer
      if adv then r ++ foldOuter stride0 stride1 size0 size1 fuel outer' 0 0 l else r

/-- `Iterator::fold`: offsets passed to `f`, in order.  (`outer_offset` is recomputed by
`step_outer_pos` as `Σ offset`; before the first step it is the stored field, which the
invariant equates with the sum.) -/
def fold (s : OffsetsBase) : List Nat :=
  if s.len = 0 then []
  else
    let (r, l) := foldBlock s.outerOffset s.inner0.stride s.inner1.stride s.inner1.size
      (s.inner0.size - s.inner0.index) s.inner0.index s.inner1.index s.len
    if l = 0 then r
    else
      let (outer', adv) := stepOuterLoop s.outerRev
      if adv then
        r ++ foldOuter s.inner0.stride s.inner1.stride s.inner0.size s.inner1.size s.len outer' 0 0 l
      else r

end OffsetsBase

/-! ## Generic iterator interface, histories and observations -/

/-- The operations of `Iterator + DoubleEndedIterator + ExactSizeIterator + SplitIterator`
on a state type `σ` with items `ι`.  `fold`/`rev` return the items visited by
`Iterator::fold` / by draining with `next_back`. -/
structure IterOps (σ ι : Type) where
  next : σ → Option ι × σ
  nextBack : σ → Option ι × σ
  nth : σ → Nat → Option ι × σ
  len : σ → Nat
  fold : σ → List ι
  rev : σ → List ι
  splitAt : σ → Nat → Option (σ × σ)

/-- Repeated `next` (the default `Iterator::fold`/`collect`). -/
def drainFront {σ ι : Type} (next : σ → Option ι × σ) : Nat → σ → List ι
  | 0, _ => []
  | f + 1, s =>
    match next s with
    | (some x, s') => x :: drainFront next f s'
    | (none, _) => []

/-- Repeated `next_back` (`Rev<I>` driven to the end). -/
def drainBack {σ ι : Type} (nextBack : σ → Option ι × σ) : Nat → σ → List ι :=
  drainFront nextBack

/-- The default `Iterator::nth`: `advance_by(n)` = up to `n` calls of `next` (stopping at
the first `None`, in which case `nth` returns `None`), then `next`. -/
def defaultNth {σ ι : Type} (next : σ → Option ι × σ) : σ → Nat → Option ι × σ
  | s, 0 => next s
  | s, n + 1 =>
    match next s with
    | (some _, s') => defaultNth next s' n
    | (none, s') => (none, s')

/-- A consumption history (tree shaped because of `split_at`). -/
inductive Hist where
  | drop
  | fold
  | rev
  | next (h : Hist)
  | back (h : Hist)
  | len (h : Hist)
  | nth (k : Nat) (h : Hist)
  | split (k : Nat) (l r : Hist)
  deriving Repr

/-- Histories without `split_at` (for iterators that are not `SplitIterator`s). -/
def Hist.noSplit : Hist → Bool
  | .drop | .fold | .rev => true
  | .next h | .back h | .len h | .nth _ h => h.noSplit
  | .split _ _ _ => false

inductive Obs (ι : Type) where
  | item (o : Option ι)
  | len (n : Nat)
  | folded (l : List ι)
  | reved (l : List ι)
  | panic
  deriving Repr, DecidableEq

/-- Observations of running a history.  (After a panic the real program stops; the
driver truncates at the first `panic`, which is position-deterministic.) -/
def run {σ ι : Type} (ops : IterOps σ ι) : Hist → σ → List (Obs ι)
  | .drop, _ => []
  | .fold, s => [.folded (ops.fold s)]
  | .rev, s => [.reved (ops.rev s)]
  | .next h, s => .item (ops.next s).1 :: run ops h (ops.next s).2
  | .back h, s => .item (ops.nextBack s).1 :: run ops h (ops.nextBack s).2
  | .len h, s => .len (ops.len s) :: run ops h s
  | .nth k h, s => .item (ops.nth s k).1 :: run ops h (ops.nth s k).2
  | .split k l r, s =>
    match ops.splitAt s k with
    | none => [.panic]
    | some (a, b) => run ops l a ++ run ops r b

/-- The specification: a double-ended queue. -/
def listOps (ι : Type) : IterOps (List ι) ι where
  next l := (l.head?, l.tail)
  nextBack l := (l.getLast?, l.dropLast)
  nth l n := ((l.drop n).head?, l.drop (n + 1))
  len l := l.length
  fold l := l
  rev l := l.reverse
  splitAt l k := if k ≤ l.length then some (l.take k, l.drop k) else none

/-! ## `Offsets` -/

inductive Offsets where
  | range (start stop : Nat)
  | indexing (b : OffsetsBase)
  deriving Repr, DecidableEq

namespace Offsets

/-- `Offsets::new`. -/
def new (dims : List (Nat × Nat)) : Offsets :=
  if isContiguous dims then .range 0 (minDataLen dims) else .indexing (OffsetsBase.new dims)

def next : Offsets → Option Nat × Offsets
  | .range a b => if a < b then (some a, .range (a + 1) b) else (none, .range a b)
  | .indexing s => ((s.next).1, .indexing (s.next).2)

def nextBack : Offsets → Option Nat × Offsets
  | .range a b => if a < b then (some (b - 1), .range a (b - 1)) else (none, .range a b)
  | .indexing s => ((s.nextBack).1, .indexing (s.nextBack).2)

/-- `Range::nth` / `base.step_by(n); self.next()`. -/
def nth : Offsets → Nat → Option Nat × Offsets
  | .range a b, n => if a + n < b then (some (a + n), .range (a + n + 1) b) else (none, .range b b)
  | .indexing s, n => (((s.stepBy n).next).1, .indexing ((s.stepBy n).next).2)

def len : Offsets → Nat
  | .range a b => b - a
  | .indexing s => s.len

def fold : Offsets → List Nat
  | .range a b => List.range' a (b - a)
  | .indexing s => s.fold

def splitAt : Offsets → Nat → Option (Offsets × Offsets)
  | .range a b, k => if k ≤ b - a then some (.range a (a + k), .range (a + k) b) else none
  | .indexing s, k =>
    -- `assert!(index <= self.len())` in `Offsets::split_at`, then `OffsetsBase::split_at`
    if k ≤ s.len then (s.splitAt k).map (fun p => (.indexing p.1, .indexing p.2)) else none

def ops : IterOps Offsets Nat where
  next := next
  nextBack := nextBack
  nth := nth
  len := len
  fold := fold
  rev s := drainBack nextBack (len s) s
  splitAt := splitAt

end Offsets

/-- An iterator whose items are `f` of the offsets (`LaneRanges`/`Lanes`,
`InnerIterBase`/`InnerIter`): `next`, `next_back`, `len`, `fold`, `split_at` delegate to
`Offsets`; `nth` is the default one (these types do not override it). -/
def mapOps {κ : Type} (f : Nat → κ) : IterOps Offsets κ where
  next s := ((Offsets.next s).1.map f, (Offsets.next s).2)
  nextBack s := ((Offsets.nextBack s).1.map f, (Offsets.nextBack s).2)
  nth := defaultNth (fun s => ((Offsets.next s).1.map f, (Offsets.next s).2))
  len := Offsets.len
  fold s := (Offsets.fold s).map f
  rev s := drainBack (fun s => ((Offsets.nextBack s).1.map f, (Offsets.nextBack s).2)) (Offsets.len s) s
  splitAt := Offsets.splitAt

/-- A sub-view item: its shape and the storage offsets of its elements, row-major. -/
abbrev Item := List Nat × List Nat

/-! ## Lanes -/

/-- Elements of the lane starting at `start` (`lane_offsets` + the 1-D lane layout). -/
def laneItem (size stride start : Nat) : Item :=
  ([size], (List.range size).map (fun i => start + i * stride))

/-- `LaneRanges::new`: the offsets iterator over the lane starts. -/
def lanesNew (dims : List (Nat × Nat)) (dim : Nat) : Offsets :=
  if total dims = 0 then Offsets.new dims else Offsets.new (dims.eraseIdx dim)

def lanesOps (dims : List (Nat × Nat)) (dim : Nat) : IterOps Offsets Item :=
  mapOps (laneItem (dims.getD dim (0, 0)).1 (dims.getD dim (0, 0)).2)

/-- `Lanes::new` / `LanesMut::new` with their panics: `view.size(dim)` panics for an invalid
`dim`; `LanesMut::new` asserts `!view.is_broadcast()`. `none` = panic. -/
def lanesNew? (dims : List (Nat × Nat)) (dim : Nat) (mutable : Bool) : Option Offsets :=
  if dim < dims.length ∧ ¬ (mutable = true ∧ isBroadcast dims = true) then some (lanesNew dims dim)
  else none

/-! ## `Lane` / `LaneMut`: the element iterator over one lane -/

/-- `Lane { view, index, end }`; the 1-D view is `(start, size, stride)`. -/
structure LaneIt where
  start : Nat
  size : Nat
  stride : Nat
  index : Nat
  stop : Nat
  deriving Repr, DecidableEq

namespace LaneIt

/-- `lane_for_offset_range` / `LaneMut::from_storage_layout`: `index = 0`, `end = size`. -/
def new (size stride start : Nat) : LaneIt :=
  { start := start, size := size, stride := stride, index := 0, stop := size }

def next (s : LaneIt) : Option Nat × LaneIt :=
  if s.index < s.stop then (some (s.start + s.index * s.stride), { s with index := s.index + 1 })
  else (none, s)

def nextBack (s : LaneIt) : Option Nat × LaneIt :=
  if s.index < s.stop then
    (some (s.start + (s.stop - 1) * s.stride), { s with stop := s.stop - 1 })
  else (none, s)

def len (s : LaneIt) : Nat := s.stop - s.index

/-- `LaneMut::nth`: `index = index.saturating_add(n).min(end); next()` (ideal arithmetic: the
saturation at `usize::MAX` is above every `end`). -/
def nthMut (s : LaneIt) (n : Nat) : Option Nat × LaneIt :=
  next { s with index := min (s.index + n) s.stop }

/-- `Lane` (no `nth` override, not a `SplitIterator`). -/
def ops : IterOps LaneIt Nat where
  next := next
  nextBack := nextBack
  nth := defaultNth next
  len := len
  fold s := drainFront next (len s) s
  rev s := drainBack nextBack (len s) s
  splitAt _ _ := none

/-- `LaneMut` (overrides `nth`). -/
def opsMut : IterOps LaneIt Nat := { ops with nth := nthMut }

end LaneIt

/-! ## Inner views -/

/-- The inner view whose storage starts at `start`. -/
def innerItem (inner : List (Nat × Nat)) (start : Nat) : Item :=
  (inner.map (·.1), (rowMajor inner).map (· + start))

/-- `InnerIterBase::new_impl`: outer offsets (outer strides zeroed when the inner views are
empty). -/
def innerNew (dims : List (Nat × Nat)) (n : Nat) : Offsets :=
  let outer := dims.take (dims.length - n)
  let inner := dims.drop (dims.length - n)
  let outer' := if minDataLen inner = 0 then outer.map (fun d => (d.1, 0)) else outer
  Offsets.new outer'

/-- `InnerIterBase::new_impl` with its `assert!(parent_layout.ndim() >= inner_dims)`. -/
def innerNew? (dims : List (Nat × Nat)) (n : Nat) : Option Offsets :=
  if n ≤ dims.length then some (innerNew dims n) else none

def innerOps (dims : List (Nat × Nat)) (n : Nat) : IterOps Offsets Item :=
  mapOps (innerItem (dims.drop (dims.length - n)))

/-! ## Views, `AxisIter`, `AxisChunks` -/

/-- A view: offset of its storage slice in the parent's storage, and its layout. -/
structure View where
  base : Nat
  dims : List (Nat × Nat)
  deriving Repr, DecidableEq

namespace View

def size (v : View) (axis : Nat) : Nat := (v.dims.getD axis (0, 0)).1
def stride (v : View) (axis : Nat) : Nat := (v.dims.getD axis (0, 0)).2
def item (v : View) : Item := (v.dims.map (·.1), (rowMajor v.dims).map (· + v.base))

/-- `index_axis` (caller guarantees `index < size axis`). -/
def indexAxis (v : View) (axis index : Nat) : View :=
  let l := v.dims.eraseIdx axis
  { base := if total l = 0 then v.base else v.base + v.stride axis * index, dims := l }

def setSize (dims : List (Nat × Nat)) (axis n : Nat) : List (Nat × Nat) :=
  dims.modify axis (fun d => (n, d.2))

/-- `split_at(axis, mid)` → `MutLayout::split` (`assert!(mid <= size)`). -/
def splitAt (v : View) (axis mid : Nat) : Option (View × View) :=
  if axis < v.dims.length ∧ mid ≤ v.size axis then
    let l := setSize v.dims axis mid
    let r := setSize v.dims axis (v.size axis - mid)
    some ({ base := v.base, dims := l },
          { base := if total r = 0 then v.base + minDataLen v.dims else v.base + mid * v.stride axis,
            dims := r })
  else none

end View

structure AxisIter where
  view : View
  axis : Nat
  index : Nat
  stop : Nat
  deriving Repr, DecidableEq

namespace AxisIter

def new (v : View) (axis : Nat) : AxisIter := { view := v, axis := axis, index := 0, stop := v.size axis }

/-- `AxisIter::new` / `AxisIterMut::new` with their asserts (`axis < ndim`; mutable:
`!is_broadcast()`). `none` = panic. -/
def new? (v : View) (axis : Nat) (mutable : Bool) : Option AxisIter :=
  if axis < v.dims.length ∧ ¬ (mutable = true ∧ isBroadcast v.dims = true) then some (new v axis)
  else none

def next (s : AxisIter) : Option Item × AxisIter :=
  if s.index ≥ s.stop then (none, s)
  else (some (s.view.indexAxis s.axis s.index).item, { s with index := s.index + 1 })

def nextBack (s : AxisIter) : Option Item × AxisIter :=
  if s.index ≥ s.stop then (none, s)
  else (some (s.view.indexAxis s.axis (s.stop - 1)).item, { s with stop := s.stop - 1 })

def len (s : AxisIter) : Nat := s.stop - s.index

/-- `SplitIterator::split_at` (current, fixed code). -/
def splitAt (s : AxisIter) (k : Nat) : Option (AxisIter × AxisIter) :=
  if k ≤ s.len then
    let mid := s.index + k
    (s.view.splitAt s.axis mid).map fun (l, r) =>
      ({ new l s.axis with index := s.index }, { new r s.axis with stop := s.stop - mid })
  else none

/-- `split_at` before the fix: splits the whole axis at `k`, ignoring `index`/`end`. -/
def splitAtV0 (s : AxisIter) (k : Nat) : Option (AxisIter × AxisIter) :=
  (s.view.splitAt s.axis k).map fun (l, r) => (new l s.axis, new r s.axis)

def ops : IterOps AxisIter Item where
  next := next
  nextBack := nextBack
  nth := defaultNth next
  len := len
  fold s := drainFront next (len s) s
  rev s := drainBack nextBack (len s) s
  splitAt := splitAt

end AxisIter

structure AxisChunks where
  remainder : Option View
  axis : Nat
  chunk : Nat
  deriving Repr, DecidableEq

namespace AxisChunks

def nonEmpty (axis : Nat) (v : View) : Option View := if v.size axis > 0 then some v else none

/-- `AxisChunks::new` (caller guarantees `chunk > 0`, `axis < ndim`). -/
def new (v : View) (axis chunk : Nat) : AxisChunks :=
  { remainder := nonEmpty axis v, axis := axis, chunk := chunk }

/-- `AxisChunks::new` / `AxisChunksMut::new` with their panics (`chunk_size > 0`, valid axis in
`view.size(axis)`; mutable: `!is_broadcast()`). `none` = panic. -/
def new? (v : View) (axis chunk : Nat) (mutable : Bool) : Option AxisChunks :=
  if axis < v.dims.length ∧ 0 < chunk ∧ ¬ (mutable = true ∧ isBroadcast v.dims = true) then
    some (new v axis chunk)
  else none

def next (s : AxisChunks) : Option Item × AxisChunks :=
  match s.remainder with
  | none => (none, s)
  | some rem =>
    match rem.splitAt s.axis (min s.chunk (rem.size s.axis)) with
    | none => (none, { s with remainder := none })   -- unreachable: mid ≤ size
    | some (cur, rest) => (some cur.item, { s with remainder := nonEmpty s.axis rest })

/-- `last_chunk_len` (added by the fix). -/
def lastChunkLen (size chunk : Nat) : Nat := if size % chunk = 0 then chunk else size % chunk

def nextBack (s : AxisChunks) : Option Item × AxisChunks :=
  match s.remainder with
  | none => (none, s)
  | some rem =>
    match rem.splitAt s.axis (rem.size s.axis - lastChunkLen (rem.size s.axis) s.chunk) with
    | none => (none, { s with remainder := none })
    | some (prev, cur) => (some cur.item, { s with remainder := nonEmpty s.axis prev })

/-- `next_back` before the fix: always takes `min(chunk, size)` from the end. -/
def nextBackV0 (s : AxisChunks) : Option Item × AxisChunks :=
  match s.remainder with
  | none => (none, s)
  | some rem =>
    match rem.splitAt s.axis (rem.size s.axis - min s.chunk (rem.size s.axis)) with
    | none => (none, { s with remainder := none })
    | some (prev, cur) => (some cur.item, { s with remainder := nonEmpty s.axis prev })

def len (s : AxisChunks) : Nat :=
  match s.remainder with
  | none => 0
  | some rem => (rem.size s.axis + s.chunk - 1) / s.chunk

/-- `SplitIterator::split_at` (current, fixed code). -/
def splitAt (s : AxisChunks) (k : Nat) : Option (AxisChunks × AxisChunks) :=
  if k ≤ s.len then
    match s.remainder with
    | none => some ({ s with remainder := none }, { s with remainder := none })
    | some rem =>
      (rem.splitAt s.axis (min (s.chunk * k) (rem.size s.axis))).map fun (l, r) =>
        ({ s with remainder := nonEmpty s.axis l }, { s with remainder := nonEmpty s.axis r })
  else none

def ops : IterOps AxisChunks Item where
  next := next
  nextBack := nextBack
  nth := defaultNth next
  len := len
  fold s := drainFront next (len s) s
  rev s := drainBack nextBack (len s) s
  splitAt := splitAt

end AxisChunks

end RtenVerif.Iter
