import RtenVerif.Model.Graph
/-!
# Planner — a model of `src/graph/planner.rs`

`Planner::create_plan` (argument checks) → `PlanBuilder::plan` (loop over the
requested outputs) → `PlanBuilder::visit` (depth-first traversal with an active
set for cycle detection) → `PlanBuilder::sort_plan` (frontier re-ordering), over
the graph IR of `Model/Graph.lean`.  Import-free and executable; every recursion
is structural (on fuel or on a list) so `decide` evaluates it.

Modelling decisions
* `FxHashSet<NodeId>` (resolved values, active set) are lists used only through
  `contains`; insertion order is irrelevant to every observable.
* `visit` is recursive in the code.  Here it recurses on a fuel counter and
  reports `PlanError.outOfFuel` when it runs out; `createPlan` supplies
  `g.nodes.length`, and `Lemmas/PlannerFuel.lean` proves that this budget is
  never exhausted (termination of the real recursion on every finite graph,
  cyclic or not).  The `while !frontier.is_empty()` loop of `sort_plan` is
  treated the same way with budget `plan.length`.
  Since commit "fix: planner: traverse the graph with an explicit stack instead of
  recursion" the code keeps the operators being visited (with the position of their next
  dependency) in a `Vec` instead of on the call stack; the recursive presentation below is
  the same computation (one frame = one pending `visit`), and the depth bound proved for
  it bounds the length of that `Vec`.
* `RunError::PlanningError(String)` is reduced to the class of the message.
* `sortPlan` takes a flag `dedup`.  `dedup = true` is the code as it stands
  (after commit "fix: planner: never schedule an operator twice in sort_plan");
  `dedup = false` is the code before that fix, kept because the witnesses in
  `Props/C03.lean` show why the fix was needed (duplicate entries, and a
  frontier loop that never ends).
-/
namespace RtenVerif.Planner
open RtenVerif.Graph

/-- `planner::PlanOptions` (with its `Default`). -/
structure PlanOptions where
  allowMissing : Bool := false
  capturesAvailable : Bool := true
deriving Repr, DecidableEq, Inhabited

/-- Classes of `RunErrorImpl::PlanningError` messages, plus fuel exhaustion of
the model itself (proved unreachable). -/
inductive PlanError where
  | dupOutput     -- "Outputs are not unique. …"
  | badOutput     -- "Output i (…) is not a value node in the graph."
  | dupInput      -- "Inputs are not unique. …"
  | badInput      -- "Input i (…) is not a value node in the graph."
  | cycle         -- "Encountered cycle visiting dependency …"
  | missingInput  -- "Missing input … for op …"
  | noSource      -- "Source node not found for output …"
  | outOfFuel     -- model artefact; never returned with the budgets `createPlan` uses
deriving Repr, DecidableEq, Inhabited

/-- Equality of planner outcomes is decidable (so `decide` can check witnesses). -/
instance {α : Type} [DecidableEq α] : DecidableEq (Except PlanError α)
  | .ok a, .ok b => if h : a = b then isTrue (by rw [h]) else isFalse (by intro h'; cases h'; exact h rfl)
  | .error a, .error b =>
    if h : a = b then isTrue (by rw [h]) else isFalse (by intro h'; cases h'; exact h rfl)
  | .ok _, .error _ => isFalse (by intro h; cases h)
  | .error _, .ok _ => isFalse (by intro h; cases h)

/-- `first_duplicate_by(xs, ==).is_some()`, returning an element that has an
earlier… (the code returns the later copy; only `is_some` is observable through
the error class). -/
def firstDup : List Nat → Option Nat
  | [] => none
  | x :: xs => if xs.contains x then some x else firstDup xs

/-- `ResolvedValueSet::new`: supplied inputs, plus graph captures if requested
(constants are handled by `rContains`). -/
def resolvedNew (g : Graph) (inputs : List Nat) (includeCaptures : Bool) : List Nat :=
  inputs ++ (if includeCaptures then g.captures else [])

/-- `ResolvedValueSet::contains`. -/
def rContains (g : Graph) (r : List Nat) (id : Nat) : Bool :=
  r.contains id || isConstant g id

/-- Mutable state of `PlanBuilder` during the traversal + the active set. -/
structure St where
  resolved : List Nat
  plan : List (Nat × OpNode)
  active : List Nat
deriving Repr, DecidableEq, Inhabited

/-- The `for input in operator_dependencies(op_node)` loop of `visit`, with the
recursive call abstracted as `rec` (instantiated with `visit … fuel`). -/
def depsLoop (g : Graph) (opts : PlanOptions)
    (rec : Nat → OpNode → St → Except PlanError St) :
    List Nat → St → Except PlanError St
  | [], st => .ok st
  | d :: ds, st =>
    if rContains g st.resolved d then depsLoop g opts rec ds st
    else
      match getSource g d with
      | some (p, pop) =>
        if st.active.contains p then .error .cycle
        else
          match rec p pop st with
          | .ok st' => depsLoop g opts rec ds st'
          | .error e => .error e
      | none =>
        if opts.allowMissing then depsLoop g opts rec ds st else .error .missingInput

/-- `PlanBuilder::visit`. -/
def visit (g : Graph) (opts : PlanOptions) : Nat → Nat → OpNode → St → Except PlanError St
  | 0, _, _, _ => .error .outOfFuel
  | fuel + 1, opId, op, st =>
    match depsLoop g opts (visit g opts fuel) (opDeps g op)
        { st with active := opId :: st.active } with
    | .ok st1 =>
      .ok { resolved := st1.resolved ++ opOutputs op
            plan := st1.plan ++ [(opId, op)]
            active := st1.active.filter (fun a => a != opId) }
    | .error e => .error e

/-- The `for output_id in outputs` loop of `PlanBuilder::plan`. -/
def planOutputs (g : Graph) (opts : PlanOptions) (fuel : Nat) :
    List Nat → St → Except PlanError St
  | [], st => .ok st
  | o :: os, st =>
    if rContains g st.resolved o then planOutputs g opts fuel os st
    else
      match getSource g o with
      | some (p, pop) =>
        match visit g opts fuel p pop st with
        | .ok st' => planOutputs g opts fuel os st'
        | .error e => .error e
      | none =>
        if opts.allowMissing then planOutputs g opts fuel os st else .error .noSource

/-- All dependencies of `op` are in the resolved set. -/
def depsResolved (g : Graph) (r : List Nat) (op : OpNode) : Bool :=
  (opDeps g op).all (rContains g r)

/-- `dependent_ops[v]`: plan entries depending on `v`, in plan order, once per
occurrence of `v` among the entry's dependencies. -/
def dependents (g : Graph) (plan : List (Nat × OpNode)) (v : Nat) : List (Nat × OpNode) :=
  plan.flatMap (fun e => ((opDeps g e.2).filter (fun d => d == v)).map (fun _ => e))

/-- The candidate loop: push every dependent that is not yet in the frontier
(`dedup`: and not yet scheduled) and whose dependencies are all resolved. -/
def pushCandidates (g : Graph) (dedup : Bool) (r : List Nat) (emitted : List Nat) :
    List (Nat × OpNode) → List (Nat × OpNode) → List (Nat × OpNode)
  | [], fr => fr
  | c :: cs, fr =>
    if fr.any (fun e => e.1 == c.1) then pushCandidates g dedup r emitted cs fr
    else if dedup && emitted.contains c.1 then pushCandidates g dedup r emitted cs fr
    else if depsResolved g r c.2 then pushCandidates g dedup r emitted cs (fr ++ [c])
    else pushCandidates g dedup r emitted cs fr

/-- `frontier.iter().position(|op| op.in_place_inputs().is_empty()).unwrap_or(0)`. -/
def pickPos (fr : List (Nat × OpNode)) : Nat :=
  (fr.findIdx? (fun e => !e.2.inPlace)).getD 0

/-- `Vec::remove(pos)` returning the element and the remaining vector. -/
def removeAt : List (Nat × OpNode) → Nat → Option ((Nat × OpNode) × List (Nat × OpNode))
  | [], _ => none
  | e :: rest, 0 => some (e, rest)
  | e :: rest, n + 1 =>
    match removeAt rest n with
    | some (x, rest') => some (x, e :: rest')
    | none => none

/-- The `while !frontier.is_empty()` loop of `sort_plan`; `emitted` is
`output_plan`. Returns `none` when the budget is exhausted with work left. -/
def sortLoop (g : Graph) (dedup : Bool) (plan : List (Nat × OpNode)) :
    Nat → List (Nat × OpNode) → List Nat → List Nat → Option (List Nat)
  | _, [], _, emitted => some emitted
  | 0, _ :: _, _, _ => none
  | fuel + 1, fr@(_ :: _), r, emitted =>
    match removeAt fr (pickPos fr) with
    | none => none
    | some (e, fr') =>
      let emitted' := emitted ++ [e.1]
      let r' := r ++ opOutputs e.2
      let cands := (opOutputs e.2).flatMap (dependents g plan)
      sortLoop g dedup plan fuel (pushCandidates g dedup r' emitted' cands fr') r' emitted'

/-- `PlanBuilder::sort_plan` with loop budget `fuel`. -/
def sortPlanFuel (g : Graph) (dedup : Bool) (fuel : Nat) (plan : List (Nat × OpNode))
    (init : List Nat) : Option (List Nat) :=
  sortLoop g dedup plan fuel (plan.filter (fun e => depsResolved g init e.2)) init []

/-- Outcome of the depth-first phase: `PlanBuilder::plan` up to the sort. -/
def dfsPlan (g : Graph) (inputs outputs : List Nat) (opts : PlanOptions) :
    Except PlanError St :=
  planOutputs g opts g.nodes.length outputs
    { resolved := resolvedNew g inputs opts.capturesAvailable, plan := [], active := [] }

/-- `Planner::create_plan` (= `Graph::execution_plan`).
`sortFuel` is the budget for the frontier loop: `none` = `plan.length`
(sufficient when `dedup`), `some k` = explicit (used to explore `dedup = false`). -/
def createPlanWith (g : Graph) (dedup : Bool) (sortFuel : Option Nat)
    (inputs outputs : List Nat) (opts : PlanOptions) : Except PlanError (List Nat) :=
  if (firstDup outputs).isSome then .error .dupOutput
  else if !outputs.all (isValueOrConstant g) then .error .badOutput
  else if (firstDup inputs).isSome then .error .dupInput
  else if !inputs.all (isValueOrConstant g) then .error .badInput
  else
    match dfsPlan g inputs outputs opts with
    | .error e => .error e
    | .ok st =>
      if opts.allowMissing || st.plan.isEmpty then .ok (st.plan.map (fun e => e.1))
      else
        match sortPlanFuel g dedup (sortFuel.getD st.plan.length) st.plan
            (resolvedNew g inputs opts.capturesAvailable) with
        | some p => .ok p
        | none => .error .outOfFuel

/-- The code as it stands. -/
def createPlan (g : Graph) (inputs outputs : List Nat) (opts : PlanOptions := {}) :
    Except PlanError (List Nat) :=
  createPlanWith g true none inputs outputs opts

end RtenVerif.Planner
