import RtenVerif.Model.ShapeInfer

/-!
# Output-size arithmetic of convolution / pooling along one axis (C10)

`rten-shape-inference/src/ops/conv_pool.rs` `output_size` (inference, on `SymExpr`s) and
`src/ops/pooling.rs` `output_size_and_padding_for_axis` (executor, on `usize`), `Fixed` padding.
-/
namespace RtenVerif.ShapeInfer

/-- The value the inferred expression evaluates to (`SymExpr::eval`: truncating `/`, `div_ceil`),
as coded after the fixes 1c9e5a4 and the empty-input fix:
`min(ceil + 1, max(ceil, div_ceil(in + pad_start, stride)))`. -/
def poolInferSize (inp k s d ps pe : Int) (ceil : Bool) : Int :=
  let w := inp + ps + pe - d * (k - 1) - 1
  if !ceil then tdiv w s + 1
  else
    let c := cdiv w s
    let m := cdiv (inp + ps) s
    Min.min (c + 1) (Max.max c m)

/-- With the limit written `(in + pad_start - 1) / stride + 1` (before the empty-input fix). -/
def poolInferSizeTrunc (inp k s d ps pe : Int) : Int :=
  let w := inp + ps + pe - d * (k - 1) - 1
  let c := cdiv w s
  Min.min (c + 1) (Max.max c (tdiv (inp + ps - 1) s + 1))

/-- Before fix 1c9e5a4: `min(ceil + 1, (in + pad_start - 1) / stride + 1)`. -/
def poolInferSizeOld (inp k s d ps pe : Int) : Int :=
  let w := inp + ps + pe - d * (k - 1) - 1
  Min.min (cdiv w s + 1) (tdiv (inp + ps - 1) s + 1)

/-- Seeded variant C10_c: the clamp forgets the start padding. -/
def poolInferSizeSeeded (inp k s d ps pe : Int) : Int :=
  let w := inp + ps + pe - d * (k - 1) - 1
  let c := cdiv w s
  Min.min (c + 1) (Max.max c (cdiv inp s))

/-- The same rule on symbolic input size and symbolic kernel size (`convOutSym`, Fixed padding). -/
def poolInferSym (inp k : Sym) (s d ps pe : Int) (ceil : Bool) : Sym := convOutSym inp k s d (some (ps, pe)) ceil

/-- The executor: `none` = "Input too small for kernel size". -/
def poolExecSize (inp k s d ps pe : Nat) (ceil : Bool) : Option Nat :=
  let padded := inp + ps + pe
  let dk := k + (k - 1) * (d - 1)
  if padded < dk then none
  else
    let w := padded - d * (k - 1) - 1
    let out := if ceil then (w + s - 1) / s + 1 else w / s + 1
    if ceil && decide ((out - 1) * s ≥ inp + ps) then some (out - 1) else some out

end RtenVerif.ShapeInfer
