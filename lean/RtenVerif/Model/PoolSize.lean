import RtenVerif.Model.ShapeInfer

/-!
# Output-size arithmetic of convolution / pooling along one axis (C10)

`rten-shape-inference/src/ops/conv_pool.rs` `output_size` (inference, on `SymExpr`s) and
`src/ops/pooling.rs` `output_size_and_padding_for_axis` (executor, on `usize`), `Fixed` padding.
-/
namespace RtenVerif.ShapeInfer

/-- The value the inferred expression evaluates to (`SymExpr::eval`: truncating `/`, `div_ceil`),
as coded after fix 1c9e5a4: `min(ceil + 1, max(ceil, (in + pad_start - 1) / stride + 1))`. -/
def poolInferSize (inp k s d ps pe : Int) (ceil : Bool) : Int :=
  let w := inp + ps + pe - d * (k - 1) - 1
  if !ceil then tdiv w s + 1
  else
    let c := cdiv w s
    let m := tdiv (inp + ps - 1) s + 1
    Min.min (c + 1) (Max.max c m)

/-- Before the fix: `min(ceil + 1, (in + pad_start - 1) / stride + 1)`. -/
def poolInferSizeOld (inp k s d ps pe : Int) : Int :=
  let w := inp + ps + pe - d * (k - 1) - 1
  Min.min (cdiv w s + 1) (tdiv (inp + ps - 1) s + 1)

/-- Seeded variant C10_c: the clamp forgets the start padding. -/
def poolInferSizeSeeded (inp k s d ps pe : Int) : Int :=
  let w := inp + ps + pe - d * (k - 1) - 1
  let c := cdiv w s
  Min.min (c + 1) (Max.max c (tdiv (inp - 1) s + 1))

/-- The same rule on symbolic input size (kernel, stride, dilation and pads are attributes). -/
def poolInferSym (inp : Sym) (k s d ps pe : Int) (ceil : Bool) : Sym :=
  let one : Sym := .val 1
  let padded : Sym := .add (.add inp (.val ps)) (.val pe)
  let w : Sym := .sub (.sub padded (.mul (.val d) (.sub (.val k) one))) one
  if !ceil then .add (.div w (.val s)) one
  else
    let maxSize : Sym := .add (.div (.sub (.add inp (.val ps)) one) (.val s)) one
    let c : Sym := .divCeil w (.val s)
    .min (.add c one) (.max c maxSize)

/-- The executor: `none` = "Input too small for kernel size". -/
def poolExecSize (inp k s d ps pe : Nat) (ceil : Bool) : Option Nat :=
  let padded := inp + ps + pe
  let dk := k + (k - 1) * (d - 1)
  if padded < dk then none
  else
    let w := padded - d * (k - 1) - 1
    let out := if ceil then (w + s - 1) / s + 1 else w / s + 1
    if ceil && decide ((out - 1) * s ≥ inp + ps) then some (out - 1) else some out

end RtenVerif.ShapeInfer
