import RtenVerif.Model.Overlap

/-!
Model of the size / bounds arithmetic behind the safe indexing API of `rten-tensor`
(`layout.rs`, `tensor.rs`, `overlap.rs`, `storage.rs`), for property C06.

A layout is a list of `(size, stride)` pairs, outermost dimension first (as in
`Model/Overlap.lean`).  Every function exists twice:

* the **ideal** model over `Nat` (namespace `RtenVerif.TensorBounds`), in which the
  `checked_*` guards of the code are expressed through their mathematical meaning
  (`… ≤ isize::MAX`);
* the **machine** model over `UInt64` (namespace `RtenVerif.TensorBounds.M`): `usize`
  arithmetic as executed by a release build (wrap-around `*`, `+`, `-`), with
  `checked_mul` / `checked_add` / `saturating_sub` modelled by what they compute.

The constructors are those of the code *after* the `fix:` commit that added
`checked_shape_len` / `checked_min_data_len`; the constructors of the code before that
commit (no guards) are kept as `M.Old.*` for the negation witnesses of C06.T3.

Only core Lean is imported (plus the import-free `Model/Overlap.lean`), so this file
links into the `model_C06` driver.
-/
namespace RtenVerif.TensorBounds
open RtenVerif.Overlap

/-- `isize::MAX` on the 64-bit targets the harness runs on. -/
def isizeMax : Nat := 9223372036854775807

/-- `2^64`. -/
def wordSize : Nat := 18446744073709551616

/-! ## Ideal model (`Nat`) -/

/-- `shape.iter().product()`. -/
def prod : List Nat → Nat
  | [] => 1
  | s :: ss => s * prod ss

/-- `NdLayout::contiguous_strides` / `DynLayout::contiguous_shape_and_strides`:
`strides[i] = Π shape[i+1..]`. -/
def contigStrides : List Nat → List Nat
  | [] => []
  | _ :: ss => prod ss :: contigStrides ss

/-- Layout of `from_shape(shape)`. -/
def contigDims (shape : List Nat) : List (Nat × Nat) := shape.zip (contigStrides shape)

def shapeOf (dims : List (Nat × Nat)) : List Nat := dims.map (fun d => d.1)

/-- `shape.iter().any(|d| d == 0)`. -/
def hasZero (dims : List (Nat × Nat)) : Bool := dims.any (fun d => d.1 == 0)

/-- `Σ (size - 1) * stride`; `Nat` subtraction is the `saturating_sub` of
`checked_min_data_len`, and agrees with `size - 1` of `min_data_len` whenever that is
evaluated (no zero-sized dimension). -/
def maxOffset : List (Nat × Nat) → Nat
  | [] => 0
  | (size, stride) :: ds => (size - 1) * stride + maxOffset ds

/-- `Layout::min_data_len`. -/
def minDataLen (dims : List (Nat × Nat)) : Nat :=
  if hasZero dims then 0 else maxOffset dims + 1

/-- `Layout::len`. -/
def len (dims : List (Nat × Nat)) : Nat := prod (shapeOf dims)

/-- `index_valid` (`NdLayout`) / the `valid` flag of `DynLayout::offset`: same rank and every
component in range. -/
def validIdx : List (Nat × Nat) → List Nat → Bool
  | [], [] => true
  | (size, _) :: ds, i :: is => decide (i < size) && validIdx ds is
  | _, _ => false

/-- `Layout::offset`: `None` for an invalid index, else `Σ idx * stride`. -/
def offsetOf (dims : List (Nat × Nat)) (idx : List Nat) : Option Nat :=
  if validIdx dims idx then some (offset dims idx) else none

/-- Loop of `checked_shape_len`: running product of the non-zero sizes (must stay
`≤ isize::MAX`), and whether a zero size was seen. -/
def checkedShapeLenGo : List Nat → Nat → Bool → Option Nat
  | [], len, isEmpty => some (if isEmpty then 0 else len)
  | s :: ss, len, isEmpty =>
    if s = 0 then checkedShapeLenGo ss len true
    else if len * s ≤ isizeMax then checkedShapeLenGo ss (len * s) isEmpty
    else none

/-- `checked_shape_len(shape)`. -/
def checkedShapeLen (shape : List Nat) : Option Nat := checkedShapeLenGo shape 1 false

/-- `checked_min_data_len(shape, strides)`.  The code's step-wise `checked_mul` /
`checked_add` (against `2^64`) followed by `max_offset >= isize::MAX` is, on ideal
integers, the single comparison below (all terms are non-negative); the machine model
keeps the step-wise form and `Lemmas/TensorBounds.lean` proves the two equal. -/
def checkedMinDataLen (dims : List (Nat × Nat)) : Option Nat :=
  match checkedShapeLen (shapeOf dims) with
  | none => none
  | some n =>
    if maxOffset dims ≥ isizeMax then none
    else some (if n = 0 then 0 else maxOffset dims + 1)

/-- Outcome classes of the constructors. -/
inductive Err where
  | mismatch   -- `FromDataError::StorageLengthMismatch`
  | tooShort   -- `FromDataError::StorageTooShort`
  | overlap    -- `FromDataError::MayOverlap`
  | panic      -- `panic!` / failed `assert!`
  | shapeMismatch  -- `ExpandError::ShapeMismatch`
  | noCapacity     -- `ExpandError::InsufficientCapacity`
  | sliceError     -- any `SliceError`
  deriving DecidableEq, Repr

deriving instance DecidableEq for Except

def Err.toString : Err → String
  | .mismatch => "err:mismatch"
  | .tooShort => "err:short"
  | .overlap => "err:overlap"
  | .panic => "panic"
  | .shapeMismatch => "err:shape"
  | .noCapacity => "err:cap"
  | .sliceError => "err"

/-- `FromShape::from_shape` (panics for too large shapes). -/
def fromShape (shape : List Nat) : Except Err (List (Nat × Nat)) :=
  if (checkedShapeLen shape).isNone then .error .panic else .ok (contigDims shape)

/-- `TensorBase::try_from_data(shape, data)` with `dataLen = data.len()`. -/
def tryFromData (shape : List Nat) (dataLen : Nat) : Except Err (List (Nat × Nat)) :=
  if (checkedShapeLen shape).isNone then .error .mismatch
  else if minDataLen (contigDims shape) ≠ dataLen then .error .mismatch
  else .ok (contigDims shape)

/-- `TensorBase::from_data`: panics where `try_from_data` fails. -/
def fromData (shape : List Nat) (dataLen : Nat) : Except Err (List (Nat × Nat)) :=
  match tryFromData shape dataLen with
  | .ok l => .ok l
  | .error _ => .error .panic

/-- `MutLayout::from_shape_and_strides` (`disallow` = `OverlapPolicy::DisallowOverlap`). -/
def fromShapeAndStrides (dims : List (Nat × Nat)) (disallow : Bool) :
    Except Err (List (Nat × Nat)) :=
  if (checkedMinDataLen dims).isNone then .error .tooShort
  else if disallow && mayOverlap dims then .error .overlap
  else .ok dims

/-- `TensorBase::from_data_with_strides`. -/
def fromDataWithStrides (dims : List (Nat × Nat)) (dataLen : Nat) :
    Except Err (List (Nat × Nat)) :=
  match fromShapeAndStrides dims true with
  | .error e => .error e
  | .ok l => if minDataLen l > dataLen then .error .tooShort else .ok l

/-- `TensorBase::from_slice_with_strides` (immutable view, overlap allowed). -/
def fromSliceWithStrides (dims : List (Nat × Nat)) (dataLen : Nat) :
    Except Err (List (Nat × Nat)) :=
  match fromShapeAndStrides dims false with
  | .error e => .error e
  | .ok l => if minDataLen l > dataLen then .error .tooShort else .ok l

/-- `TensorBase::from_storage_and_layout(data, layout)` for an arbitrary layout value
(`resize_dim` can produce any shape); `mutable` = `S::MUTABLE`. -/
def fromStorageAndLayout (dims : List (Nat × Nat)) (dataLen : Nat) (mutable : Bool) :
    Except Err (List (Nat × Nat)) :=
  match checkedMinDataLen dims with
  | none => .error .panic
  | some m =>
    if dataLen < m then .error .panic
    else if mutable && mayOverlap dims then .error .panic
    else .ok dims

/-- Replace the size of dimension `axis`. -/
def setSize : List (Nat × Nat) → Nat → Nat → List (Nat × Nat)
  | [], _, _ => []
  | (_, stride) :: ds, 0, n => (n, stride) :: ds
  | d :: ds, axis + 1, n => d :: setSize ds axis n

def sizeAt (dims : List (Nat × Nat)) (axis : Nat) : Nat := (dims.getD axis (0, 0)).1
def strideAt (dims : List (Nat × Nat)) (axis : Nat) : Nat := (dims.getD axis (0, 0)).2

/-- One half of a split / one slice: offset range `[start, stop)` into the parent's storage
and the layout of the view. -/
structure View where
  start : Nat
  stop : Nat
  dims : List (Nat × Nat)
  deriving DecidableEq, Repr

/-- `MutLayout::split(axis, mid)`; `none` = a failed `assert!`. -/
def split (dims : List (Nat × Nat)) (axis mid : Nat) : Option (View × View) :=
  if axis < dims.length ∧ mid ≤ sizeAt dims axis then
    let left := setSize dims axis mid
    let right := setSize dims axis (sizeAt dims axis - mid)
    let midOffset := mid * strideAt dims axis
    let endOffset := minDataLen dims
    let r : View :=
      if len right = 0 then ⟨endOffset, endOffset, right⟩ else ⟨midOffset, endOffset, right⟩
    some (⟨0, minDataLen left, left⟩, r)
  else none

/-- `assert_storage_range_valid`. -/
def rangeValid (v : View) (storageLen : Nat) : Bool :=
  decide (v.start ≤ storageLen) && decide (v.stop ≤ storageLen)

/-- `TensorBase::split_at_mut` on a view whose storage has `storageLen` elements. -/
def splitAtMut (dims : List (Nat × Nat)) (storageLen axis mid : Nat) : Option (View × View) :=
  match split dims axis mid with
  | none => none
  | some (l, r) => if rangeValid l storageLen && rangeValid r storageLen then some (l, r) else none

/-- `MutLayout::slice_axis(axis, start..stop)` followed by `StorageMut::slice_mut`
(`slice_axis_mut`); `none` = panic (`unwrap` of the error / failed range assertion). -/
def sliceAxis (dims : List (Nat × Nat)) (storageLen axis start stop : Nat) : Option View :=
  if axis < dims.length ∧ start ≤ stop ∧ stop ≤ sizeAt dims axis then
    let sliced := setSize dims axis (stop - start)
    let v : View :=
      if len sliced = 0 then ⟨0, 0, sliced⟩
      else ⟨start * strideAt sliced axis, start * strideAt sliced axis + minDataLen sliced, sliced⟩
    if rangeValid v storageLen then some v else none
  else none

/-- `can_broadcast_to` for equal or larger rank targets + `broadcast_strides` + the
`checked_shape_len` guard of `BroadcastLayout::broadcast`. `none` = `ExpandError`. -/
def broadcast (dims : List (Nat × Nat)) (target : List Nat) : Option (List (Nat × Nat)) :=
  if dims.length ≤ target.length then
    let pad := target.length - dims.length
    let tail := target.drop pad
    let ok := (dims.zip tail).all (fun p => p.1.1 == p.2 || p.1.1 == 1)
    if ok && (checkedShapeLen target).isSome then
      some ((target.take pad).map (fun s => (s, 0)) ++
        (dims.zip tail).map (fun p => (p.2, if p.1.1 == 1 && decide (p.2 > 1) then 0 else p.1.2)))
    else none
  else none

/-! ### `slice` / `try_slice` / `slice_mut` with indices and step-1 ranges

`SliceRange::resolve` (positive step) followed by `slice_layout`'s `step == 1` fast path
(`new_size = resolved.end - resolved.start`), `slice_dyn` / `NdLayout::slice`
(`offset..offset + min_data_len`) and `Storage::slice(_mut)`.  Ranges with other steps go
through `index_range().steps()` and are C09's subject (`c09_slice`). -/

/-- A slice item as the caller writes it (`isize` values; `stop = none` is an open end). -/
inductive SItem where
  | index (i : Int)
  | range (start : Int) (stop : Option Int)
  deriving DecidableEq, Repr

/-- `SliceRange::offset_from_start`. -/
def offsetFromStart (i : Int) (n : Nat) : Int := if i ≥ 0 then i else (n : Int) + i

/-- `SliceRange::resolve` for a positive step.  `canon = true` is the code as it is
(`let end = end.max(start)`); `canon = false` is the variant without that line. -/
def resolve1 (canon : Bool) (start : Int) (stop : Option Int) (n : Nat) : Option (Nat × Nat) :=
  let s := offsetFromStart start n
  let e := match stop with
    | some x => offsetFromStart x n
    | none => (n : Int)
  if 0 ≤ s ∧ s ≤ (n : Int) ∧ 0 ≤ e ∧ e ≤ (n : Int) then
    some (s.toNat, if canon then (max e s).toNat else e.toNat)
  else none

/-- What `slice_layout` does with one dimension once the item is resolved. -/
inductive RItem where
  | pick (pos : Nat)      -- `SliceItem::Index`: dimension dropped, offset += stride * pos
  | span (s e : Nat)      -- resolved range `s..e` with step 1
  | keep                  -- no item for this dimension
  deriving DecidableEq, Repr

/-- Resolve one item against a dimension of `size` entries; `none` = `SliceError`. -/
def resolveItem (canon : Bool) (size : Nat) : SItem → Option RItem
  | .index i =>
    let pos := if i ≥ 0 then i else i + (size : Int)
    if pos < 0 ∨ pos ≥ (size : Int) then none else some (.pick pos.toNat)
  | .range start stop =>
    match resolve1 canon start stop size with
    | none => none
    | some (s, e) => some (.span s e)

def resolveItems (canon : Bool) : List (Nat × Nat) → List SItem → Option (List RItem)
  | _, [] => some []
  | [], _ :: _ => none        -- `TooManyDims`
  | (size, _) :: ds, it :: its =>
    match resolveItem canon size it, resolveItems canon ds its with
    | some r, some rs => some (r :: rs)
    | _, _ => none

/-- The `slice_layout` loop on resolved items: `(offset, output dims)`. -/
def sliceLoopR : List (Nat × Nat) → List RItem → Nat × List (Nat × Nat)
  | [], _ => (0, [])
  | ds, [] => (0, ds)
  | (size, stride) :: ds, it :: its =>
    let r := sliceLoopR ds its
    match it with
    | .pick p => (stride * p + r.1, r.2)
    | .span s e => (stride * s + r.1, (e - s, stride) :: r.2)
    | .keep => (r.1, (size, stride) :: r.2)

/-- `slice_dyn` + `Storage::slice`: offset reset for empty results, range
`offset..offset + min_data_len`, `assert_storage_range_valid`; `none` = panic. -/
def trySliceR (dims : List (Nat × Nat)) (n : Nat) (items : List RItem) : Option View :=
  let r := sliceLoopR dims items
  let off := if hasZero r.2 then 0 else r.1
  if rangeValid ⟨off, off + minDataLen r.2, r.2⟩ n then some ⟨off, off + minDataLen r.2, r.2⟩
  else none

/-- `try_slice` / `try_slice_mut` with indices and step-1 ranges. -/
def trySlice (canon : Bool) (dims : List (Nat × Nat)) (n : Nat) (items : List SItem) :
    Except Err View :=
  match resolveItems canon dims items with
  | none => .error .sliceError
  | some rs =>
    match trySliceR dims n rs with
    | none => .error .panic
    | some v => .ok v

/-- `Layout::is_broadcast`: non-empty and some stride is zero (the mutable iterators
`LanesMut`, `AxisIterMut`, `AxisChunksMut` assert its negation). -/
def isBroadcast (dims : List (Nat × Nat)) : Bool :=
  len dims != 0 && dims.any (fun d => d.2 == 0)

/-! ### Growing / shrinking owned tensors (`has_capacity`, `append`, `clip_dim`) -/

/-- `TensorBase::<Vec<T>, L>::expanded_layout(axis, new_size)` (after the fix: the required
length is computed by `checked_min_data_len`). `capacity` = `Vec::capacity`. -/
def expandedLayout (dims : List (Nat × Nat)) (capacity axis newSize : Nat) :
    Option (List (Nat × Nat)) :=
  match checkedMinDataLen (setSize dims axis newSize) with
  | none => none
  | some m =>
    if m ≤ capacity ∧ mayOverlap (setSize dims axis newSize) = false then
      some (setSize dims axis newSize)
    else none

/-- `has_capacity(axis, new_size)` for `axis < ndim`. -/
def hasCapacity (dims : List (Nat × Nat)) (capacity axis newSize : Nat) : Bool :=
  (expandedLayout dims capacity axis newSize).isSome

/-- The `shape_match` test of `append`. -/
def shapeMatch (a b : List (Nat × Nat)) (axis : Nat) : Bool :=
  a.length == b.length &&
    (List.range a.length).all (fun d => d == axis || sizeAt a d == sizeAt b d)

/-- An owned tensor: layout, `data.len()`, `data.capacity()`. -/
structure Owned where
  dims : List (Nat × Nat)
  dataLen : Nat
  cap : Nat
  deriving DecidableEq, Repr

/-- `append(axis, other)`: layout and storage length afterwards (the storage is grown to the
new `min_data_len` by `set_len` / `resize` when it is shorter). `axis ≥ ndim` with matching
shapes panics in `size(axis)` for both layout kinds (for `DynLayout` since fix `90df0e8`). -/
def append (t : Owned) (axis : Nat) (other : List (Nat × Nat)) : Except Err Owned :=
  if !shapeMatch t.dims other axis then .error .shapeMismatch
  else if t.dims.length ≤ axis then .error .panic
  else
    match expandedLayout t.dims t.cap axis (sizeAt t.dims axis + sizeAt other axis) with
    | none => .error .noCapacity
    | some nl => .ok ⟨nl, max t.dataLen (minDataLen nl), t.cap⟩

/-- `clip_dim(dim, start..stop)`: `none` = panic (failed assert / `copy_within` out of range). -/
def clipDim (t : Owned) (dim start stop : Nat) : Option Owned :=
  if dim < t.dims.length ∧ start ≤ stop ∧ stop ≤ sizeAt t.dims dim then
    let nl := setSize t.dims dim (stop - start)
    let rangeStart := if len nl = 0 then 0 else start * strideAt nl dim
    let rangeLen := if len nl = 0 then 0 else minDataLen nl
    if rangeStart + rangeLen ≤ t.dataLen then some ⟨nl, min t.dataLen rangeLen, t.cap⟩ else none
  else none

/-! ### In-place layout edits (`DynLayout: ResizeLayout`, `move_axis`, `size` / `stride`)

Semantics of the code after fix `90df0e8`: every axis argument is checked against the rank
before anything is written, so a failing call (`none` = panic) leaves the layout unchanged. -/

/-- `Layout::size(dim)` / `Layout::stride(dim)`: panic for `dim ≥ ndim`. -/
def sizeOf? (dims : List (Nat × Nat)) (dim : Nat) : Option Nat :=
  if dim < dims.length then some (sizeAt dims dim) else none
def strideOf? (dims : List (Nat × Nat)) (dim : Nat) : Option Nat :=
  if dim < dims.length then some (strideAt dims dim) else none

/-- `remove_axis(index)`: the axis must exist and have size 1. -/
def removeAxis (dims : List (Nat × Nat)) (index : Nat) : Option (List (Nat × Nat)) :=
  if index < dims.length ∧ sizeAt dims index = 1 then some (dims.eraseIdx index) else none

/-- `max_by_key(|(stride, _)| stride)`: the *last* dimension with the largest stride. -/
def maxByStride : List (Nat × Nat) → Option (Nat × Nat)
  | [] => none
  | d :: ds =>
    match maxByStride ds with
    | none => some d
    | some m => if d.2 > m.2 then some d else some m

def insertAt {α : Type} : List α → Nat → α → List α
  | l, 0, a => a :: l
  | [], _ + 1, a => [a]
  | x :: xs, n + 1, a => x :: insertAt xs n a

/-- `insert_axis(index)`: a size-1 axis whose stride is `max_stride * size_of_that_dim`
(`1` for a scalar). -/
def insertAxis (dims : List (Nat × Nat)) (index : Nat) : Option (List (Nat × Nat)) :=
  if index ≤ dims.length then
    let st := match maxByStride dims with
      | none => 1
      | some m => m.2 * m.1
    some (insertAt dims index (1, st))
  else none

/-- `move_axis(from, to)`. -/
def moveAxis (dims : List (Nat × Nat)) (src dst : Nat) : Option (List (Nat × Nat)) :=
  if src < dims.length ∧ dst < dims.length then
    some (insertAt (dims.eraseIdx src) dst (dims.getD src (0, 0)))
  else none

/-! ### Chains of view operations and programs on owned tensors -/

/-- A view somewhere inside a root storage: absolute offset of its storage, the length of its
storage (`Range::len` of the range it was cut with), and its layout. -/
structure AView where
  base : Nat
  len : Nat
  dims : List (Nat × Nat)
  deriving DecidableEq, Repr

inductive ViewOp where
  | slice (items : List SItem)
  | sliceAxis (axis start stop : Nat)
  | splitLeft (axis mid : Nat)
  | splitRight (axis mid : Nat)
  | broadcast (target : List Nat)     -- immutable views only (`broadcast` returns `ViewData`)
  deriving DecidableEq, Repr

def AView.sub (v : AView) (w : View) : AView := ⟨v.base + w.start, w.stop - w.start, w.dims⟩

/-- One view-producing call on a view; `none` = error or panic (no new view). -/
def applyView (mutable : Bool) (v : AView) : ViewOp → Option AView
  | .slice items =>
    match trySlice true v.dims v.len items with
    | .ok w => some (v.sub w)
    | .error _ => none
  | .sliceAxis axis s e => (sliceAxis v.dims v.len axis s e).map v.sub
  | .splitLeft axis mid => (splitAtMut v.dims v.len axis mid).map (fun p => v.sub p.1)
  | .splitRight axis mid => (splitAtMut v.dims v.len axis mid).map (fun p => v.sub p.2)
  | .broadcast target =>
    if mutable then none else (broadcast v.dims target).map (fun b => ⟨v.base, v.len, b⟩)

/-- Any sequence of view-producing calls, each applied to the result of the previous one. -/
def runViews (mutable : Bool) : AView → List ViewOp → Option AView
  | v, [] => some v
  | v, op :: ops =>
    match applyView mutable v op with
    | none => none
    | some w => runViews mutable w ops

/-- In-place `Tensor::reshape(shape)` after fix `d75b8c9`: the new layout is computed (and
the element counts compared) before the storage is touched; `none` = panic, tensor unchanged.
A non-contiguous tensor is first copied into a fresh `Vec` of exactly `len` elements. -/
def reshape (t : Owned) (shape : List Nat) : Option Owned :=
  if (checkedShapeLen shape).isNone then none            -- `from_shape` panics
  else if prod shape ≠ len t.dims then none              -- `ReshapeError::LengthMismatch`
  else if isContiguous t.dims then some ⟨contigDims shape, t.dataLen, t.cap⟩
  else some ⟨contigDims shape, len t.dims, len t.dims⟩

/-- `make_contiguous()`. -/
def makeContiguous (t : Owned) : Owned :=
  if isContiguous t.dims then t
  else ⟨contigDims (shapeOf t.dims), len t.dims, len t.dims⟩

inductive OwnedOp where
  | clip (dim start stop : Nat)
  | append (axis : Nat) (other : List (Nat × Nat))
  | reshape (shape : List Nat)
  | makeContiguous
  deriving DecidableEq, Repr

/-- One mutating call on an owned tensor; a failing call (error or panic) leaves the tensor
as it was — which for `DynLayout` holds only since fix `90df0e8`. -/
def stepOwned (t : Owned) : OwnedOp → Owned
  | .clip dim s e => (clipDim t dim s e).getD t
  | .append axis other =>
    match append t axis other with
    | .ok t' => t'
    | .error _ => t
  | .reshape shape => (reshape t shape).getD t
  | .makeContiguous => makeContiguous t

/-- `reshape` before fix `d75b8c9`: a non-contiguous tensor is copied into a `len`-element
`Vec` *before* the shape is validated; on a mismatch the call panics and leaves the new
storage with the old layout. Returns the state and whether the call panicked. -/
def reshapeOld (t : Owned) (shape : List Nat) : Owned × Bool :=
  let t1 : Owned := if isContiguous t.dims then t else ⟨t.dims, len t.dims, len t.dims⟩
  if (checkedShapeLen shape).isNone ∨ prod shape ≠ len t.dims then (t1, true)
  else (⟨contigDims shape, t1.dataLen, t1.cap⟩, false)

/-! ### `DynLayout` before fix `90df0e8`: one array `shape ++ strides`, indexed unchecked

Kept as a witness: `size(dim)` / `resize_dim(dim, _)` with `ndim ≤ dim < 2·ndim` read / write a
stride; the panic comes after the write and leaves the modified layout behind. -/
namespace OldDyn

def ndim (a : List Nat) : Nat := a.length / 2
def shape (a : List Nat) : List Nat := a.take (ndim a)
def strides (a : List Nat) : List Nat := a.drop (ndim a)
/-- The `(size, stride)` pairs `offset()` zips together. -/
def dims (a : List Nat) : List (Nat × Nat) := (shape a).zip (strides a)

/-- `clip_dim(dim, start..stop)` on the array: layout afterwards and whether the call
panicked (the data movement is omitted). -/
def clipDim (a : List Nat) (dim start stop : Nat) : List Nat × Bool :=
  if start ≤ stop then
    match a[dim]? with                      -- `self.size(dim)`
    | none => (a, true)
    | some sz =>
      if stop ≤ sz then
        let a' := a.set dim (stop - start)  -- `resize_dim`
        if prod (shape a') = 0 then (a', false)
        else
          match a'[ndim a' + dim]? with     -- `self.layout.stride(dim)`
          | none => (a', true)
          | some _ => (a', false)
      else (a, true)
  else (a, true)

/-- `remove_axis(index)` on the array. -/
def removeAxis (a : List Nat) (index : Nat) : List Nat × Bool :=
  match a[index]? with                      -- `self.size(index) == 1`
  | none => (a, true)
  | some sz =>
    if sz ≠ 1 then (a, true)
    else
      let a1 := a.eraseIdx index            -- `shape_and_strides.remove(index)`
      if ndim a1 + index < a1.length then (a1.eraseIdx (ndim a1 + index), false)
      else (a1, true)                       -- second `remove` panics

end OldDyn

/-! ## Machine model (`UInt64`, wrap-around) -/
namespace M

abbrev U := UInt64

def toN (dims : List (U × U)) : List (Nat × Nat) := dims.map (fun d => (d.1.toNat, d.2.toNat))
def toNs (xs : List U) : List Nat := xs.map (fun x => x.toNat)

/-- `iter().product()` on `usize` in a release build.  (The iterator folds from the left;
wrap-around multiplication is associative and commutative, so the value is the same.) -/
def prod : List U → U
  | [] => 1
  | s :: ss => s * prod ss

def contigStrides : List U → List U
  | [] => []
  | _ :: ss => prod ss :: contigStrides ss

def contigDims (shape : List U) : List (U × U) := shape.zip (contigStrides shape)

def shapeOf (dims : List (U × U)) : List U := dims.map (fun d => d.1)

def hasZero (dims : List (U × U)) : Bool := dims.any (fun d => d.1 == 0)

/-- `Σ (size - 1) * stride` with wrapping `-`, `*`, `+` (as in `min_data_len`). -/
def maxOffset : List (U × U) → U
  | [] => 0
  | (size, stride) :: ds => (size - 1) * stride + maxOffset ds

def minDataLen (dims : List (U × U)) : U :=
  if hasZero dims then 0 else maxOffset dims + 1

def len (dims : List (U × U)) : U := prod (shapeOf dims)

/-- Wrapping `Σ idx * stride` (`offset_unchecked`). -/
def offset : List (U × U) → List U → U
  | (_, stride) :: ds, i :: is => i * stride + offset ds is
  | _, _ => 0

def validIdx : List (U × U) → List U → Bool
  | [], [] => true
  | (size, _) :: ds, i :: is => decide (i < size) && validIdx ds is
  | _, _ => false

/-- `NdLayout::offset` (validate, then compute) and, in a release build, `DynLayout::offset`
(compute while validating). -/
def offsetOf (dims : List (U × U)) (idx : List U) : Option U :=
  if validIdx dims idx then some (offset dims idx) else none

/-- `DynLayout::offset` in a build with overflow checks: the products and sums are evaluated
for *every* component before `valid` is consulted, so an out-of-range component can raise an
arithmetic-overflow panic.  `none` = panic, `some none` = `None`, `some (some o)` = `Some(o)`. -/
def dynOffsetTrap : List (U × U) → List U → Bool → U → Option (Option U)
  | (size, stride) :: ds, i :: is, valid, acc =>
    if i.toNat * stride.toNat < wordSize ∧ acc.toNat + (i * stride).toNat < wordSize then
      dynOffsetTrap ds is (valid && decide (i < size)) (acc + i * stride)
    else none
  | _, _, valid, acc => some (if valid then some acc else none)

def checkedShapeLenGo : List U → U → Bool → Option U
  | [], len, isEmpty => some (if isEmpty then 0 else len)
  | s :: ss, len, isEmpty =>
    if s = 0 then checkedShapeLenGo ss len true
    else if len.toNat * s.toNat < wordSize ∧ (len * s).toNat ≤ isizeMax then
      checkedShapeLenGo ss (len * s) isEmpty
    else none

def checkedShapeLen (shape : List U) : Option U := checkedShapeLenGo shape 1 false

/-- The `checked_mul` / `checked_add` loop of `checked_min_data_len`. -/
def checkedMaxOffset : List (U × U) → U → Option U
  | [], acc => some acc
  | (size, stride) :: ds, acc =>
    let sm1 : U := if size = 0 then 0 else size - 1
    if sm1.toNat * stride.toNat < wordSize ∧ acc.toNat + (sm1 * stride).toNat < wordSize then
      checkedMaxOffset ds (acc + sm1 * stride)
    else none

def checkedMinDataLen (dims : List (U × U)) : Option U :=
  match checkedShapeLen (shapeOf dims) with
  | none => none
  | some n =>
    match checkedMaxOffset dims 0 with
    | none => none
    | some mo =>
      if mo.toNat ≥ isizeMax then none else some (if n = 0 then 0 else mo + 1)

/-! ### `overlap.rs` on machine integers -/

def contigStep (acc : Option U) (d : U × U) : Option U :=
  match acc with
  | none => none
  | some product =>
    if d.1 = 1 then some product
    else if d.2 ≠ product then none
    else some (product * d.1)

def contigR : List (U × U) → Option U
  | [] => some 1
  | d :: ds => contigStep (contigR ds) d

/-- `is_contiguous` (loop runs innermost dimension first). -/
def isContiguous (dims : List (U × U)) : Bool := (contigR dims).isSome

def pairLe (a b : U × U) : Bool := a.1 < b.1 || (a.1 == b.1 && a.2 ≤ b.2)

def stepsOver : U → List (U × U) → Option U
  | m, [] => some m
  | m, (stride, size) :: rest =>
    if stride ≤ m then none else stepsOver (m + (size - 1) * stride) rest

def sortedStrideShape (dims : List (U × U)) : List (U × U) :=
  isort pairLe ((dims.filter (fun d => d.1 != 1)).map (fun d => (d.2, d.1)))

/-- `may_have_internal_overlap` with wrapping arithmetic. -/
def mayOverlap (dims : List (U × U)) : Bool :=
  if dims.any (fun d => d.1 == 0) then false
  else if isContiguous dims then false
  else (stepsOver 0 (sortedStrideShape dims)).isNone

/-! ### Constructors (fixed code) -/

def fromShape (shape : List U) : Except Err (List (U × U)) :=
  if (checkedShapeLen shape).isNone then .error .panic else .ok (contigDims shape)

def tryFromData (shape : List U) (dataLen : U) : Except Err (List (U × U)) :=
  if (checkedShapeLen shape).isNone then .error .mismatch
  else if minDataLen (contigDims shape) ≠ dataLen then .error .mismatch
  else .ok (contigDims shape)

def fromData (shape : List U) (dataLen : U) : Except Err (List (U × U)) :=
  match tryFromData shape dataLen with
  | .ok l => .ok l
  | .error _ => .error .panic

def fromShapeAndStrides (dims : List (U × U)) (disallow : Bool) : Except Err (List (U × U)) :=
  if (checkedMinDataLen dims).isNone then .error .tooShort
  else if disallow && mayOverlap dims then .error .overlap
  else .ok dims

def fromDataWithStrides (dims : List (U × U)) (dataLen : U) : Except Err (List (U × U)) :=
  match fromShapeAndStrides dims true with
  | .error e => .error e
  | .ok l => if minDataLen l > dataLen then .error .tooShort else .ok l

def fromSliceWithStrides (dims : List (U × U)) (dataLen : U) : Except Err (List (U × U)) :=
  match fromShapeAndStrides dims false with
  | .error e => .error e
  | .ok l => if minDataLen l > dataLen then .error .tooShort else .ok l

def fromStorageAndLayout (dims : List (U × U)) (dataLen : U) (mutable : Bool) :
    Except Err (List (U × U)) :=
  match checkedMinDataLen dims with
  | none => .error .panic
  | some m =>
    if dataLen < m then .error .panic
    else if mutable && mayOverlap dims then .error .panic
    else .ok dims

def setSize : List (U × U) → Nat → U → List (U × U)
  | [], _, _ => []
  | (_, stride) :: ds, 0, n => (n, stride) :: ds
  | d :: ds, axis + 1, n => d :: setSize ds axis n

/-- `expanded_layout` (fixed code). -/
def expandedLayout (dims : List (U × U)) (capacity : U) (axis : Nat) (newSize : U) :
    Option (List (U × U)) :=
  match checkedMinDataLen (setSize dims axis newSize) with
  | none => none
  | some m =>
    if m ≤ capacity ∧ mayOverlap (setSize dims axis newSize) = false then
      some (setSize dims axis newSize)
    else none

/-! ### `slice_layout` fast path on machine integers -/

inductive RItem where
  | pick (pos : U)
  | span (s e : U)
  | keep
  deriving DecidableEq, Repr

def RItem.toN : RItem → TensorBounds.RItem
  | .pick p => .pick p.toNat
  | .span s e => .span s.toNat e.toNat
  | .keep => .keep

/-- A machine view: storage range `start..stop` as computed (possibly reversed) and dims.
`Range::len()` of a reversed range is 0. -/
structure View where
  start : U
  stop : U
  dims : List (U × U)
  deriving DecidableEq, Repr

def View.storageLen (v : View) : U := if v.start ≤ v.stop then v.stop - v.start else 0

def sliceLoopR : List (U × U) → List RItem → U × List (U × U)
  | [], _ => (0, [])
  | ds, [] => (0, ds)
  | (size, stride) :: ds, it :: its =>
    let r := sliceLoopR ds its
    match it with
    | .pick p => (stride * p + r.1, r.2)
    | .span s e => (stride * s + r.1, (e - s, stride * 1) :: r.2)
    | .keep => (r.1, (size, stride) :: r.2)

def trySliceR (dims : List (U × U)) (n : U) (items : List RItem) : Option View :=
  let r := sliceLoopR dims items
  let off := if hasZero r.2 then 0 else r.1
  if off ≤ n ∧ off + minDataLen r.2 ≤ n then some ⟨off, off + minDataLen r.2, r.2⟩ else none

/-! ### Constructors of the code before the fix (no overflow guards) -/
namespace Old

/-- `expanded_layout` before the second fix: wrap-around `min_data_len`. -/
def expandedLayout (dims : List (U × U)) (capacity : U) (axis : Nat) (newSize : U) :
    Option (List (U × U)) :=
  if minDataLen (setSize dims axis newSize) ≤ capacity ∧
      mayOverlap (setSize dims axis newSize) = false then
    some (setSize dims axis newSize)
  else none

def tryFromData (shape : List U) (dataLen : U) : Except Err (List (U × U)) :=
  if minDataLen (contigDims shape) ≠ dataLen then .error .mismatch
  else .ok (contigDims shape)

def fromShapeAndStrides (dims : List (U × U)) (disallow : Bool) : Except Err (List (U × U)) :=
  if disallow && mayOverlap dims then .error .overlap else .ok dims

def fromDataWithStrides (dims : List (U × U)) (dataLen : U) : Except Err (List (U × U)) :=
  match fromShapeAndStrides dims true with
  | .error e => .error e
  | .ok l => if minDataLen l > dataLen then .error .tooShort else .ok l

def fromStorageAndLayout (dims : List (U × U)) (dataLen : U) (mutable : Bool) :
    Except Err (List (U × U)) :=
  if dataLen < minDataLen dims then .error .panic
  else if mutable && mayOverlap dims then .error .panic
  else .ok dims

end Old
end M

end RtenVerif.TensorBounds
