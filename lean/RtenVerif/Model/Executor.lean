import RtenVerif.Model.Graph
/-!
# Executor — a model of `Graph::run_plan` (src/graph.rs)

State machine over an abstract value domain `V` (opaque tokens; the only thing the
executor ever inspects is `len`).  Import-free apart from the graph IR, executable,
every recursion structural, so `decide` evaluates it.

## What is modelled (in the order of the code)

* owned inputs are moved into `temp_values`, borrowed ones stay in `inputs_by_id`;
* `NodeRefCount`: `u8` counters, `inc` saturates at 255, a counter equal to 255 is
  *sticky* (`dec` leaves it and reports 255), `dec` of 0 reports `None`; counting runs
  over `operator_dependencies` (inputs with repetitions, then captures that are not
  inputs) of every plan entry — **only for `Node::Value` ids** — plus one per requested
  output (any node kind);
* in-place candidates: the declared `in_place_inputs()` positions, or for commutative
  operators the present input with the largest `len` in `temp_values` (0 if absent;
  `Iterator::max_by_key` ⇒ the *last* maximum);
* `run_in_place` ⇔ candidates non-empty ∧ every candidate has count 1 and is in
  `temp_values` or is a takeable capture (∧ not reference mode of the hook);
* `take_value`; by-value capture extraction for subgraph operators;
* operator input collection: constant / borrowed input → `temp_values` → capture →
  panic "Invalid plan did not produce input value";
* the operator call is abstract (`Ops.run`, `Ops.runInPlace`);
* output storage (`temp_values.extend`), post-step decrement + release to the pool
  (only with `RTEN_USE_POOL`), final output collection (constant / input → capture →
  `temp_values.remove(..).expect(..)`).

`Run.fixed` selects the code as it stands (`true`) or as it was before the commit
"fix: run_plan: values supplied as inputs take precedence …" (`false`, kept for the
negation witnesses in `Props/C02.lean`): the fixed code never stores an operator output
under an id that was supplied as an input and never moves an owned input supplied for a
constant node into `temp_values`.

Not modelled: timing/profiling, `OutputMask`, prepacked weights (a prepacked weight is a
function of a constant, i.e. part of `Ops.run`), the out-of-bounds panic of
`NodeRefCount` for ids `≥ next_node_id`, the buffer pool's contents (release only
removes the value from `temp_values`).
-/
namespace RtenVerif.Executor
open RtenVerif.Graph

/-- Point update of a total map.  (`noinline`: keeps the compiled driver from floating the
new value's computation under the closure, which made lookups exponential.) -/
@[noinline] def upd {β : Type} (f : Nat → β) (k : Nat) (b : β) : Nat → β := fun x => if x = k then b else f x

/-! ## `NodeRefCount` (u8) -/

/-- `inc`: `saturating_add(1)` on a `u8`. -/
def rcInc (c : Nat) : Nat := if c < 255 then c + 1 else 255

/-- The counter stored after `dec`. -/
def rcDecCount (c : Nat) : Nat := if c = 255 then 255 else c - 1

/-- The value returned by `dec`. -/
def rcDecRet (c : Nat) : Option Nat :=
  if c = 255 then some 255 else if c = 0 then none else some (c - 1)

/-! ## Abstract operators -/

/-- The operator table consulted by `run_plan`, indexed by operator node id. -/
structure Ops (V : Type) where
  /-- `Value::len`. -/
  len : V → Nat
  /-- `operator().in_place_inputs()` in ascending order. -/
  inPlaceIdx : Nat → List Nat
  /-- `operator().as_subgraph_op().is_some()`. -/
  isSubgraph : Nat → Bool
  /-- `Operator::run` (`SubgraphOperator::run_subgraph` for subgraph operators): inputs by
  position (`none` = omitted) and the values its subgraphs see for the captured
  dependencies; `none` = the operator returned an error. -/
  run : Nat → List (Option V) → List (Option V) → Option (List V)
  /-- `Operator::run_in_place`: the taken `(pos, value)`s and the remaining inputs with
  `none` at the taken positions. -/
  runInPlace : Nat → List (Nat × V) → List (Option V) → Option (List V)

/-- Everything that is fixed during one `run_plan` call. -/
structure Run (V : Type) where
  g : Graph
  /-- `constant.as_view()` for constant nodes. -/
  consts : Nat → V
  /-- inputs passed as views (`inputs_by_id`). -/
  borrowed : Nat → Option V
  /-- inputs passed as owned values. -/
  owned : Nat → Option V
  /-- `env_flag("RTEN_USE_POOL", true)`. -/
  usePool : Bool := true
  /-- reference mode of the verification hook. -/
  neverInPlace : Bool := false
  /-- `true`: the code as it stands; `false`: before the `fix:` commit (see header). -/
  fixed : Bool := true

/-- Is `id` supplied as an input (owned or borrowed)? -/
def Run.isInput {V : Type} (r : Run V) (id : Nat) : Bool :=
  (r.borrowed id).isSome || (r.owned id).isSome

/-- Mutable state of `run_plan`. -/
structure St (V : Type) where
  /-- `temp_values`. -/
  temps : Nat → Option V
  /-- `temp_value_refcount`. -/
  rc : Nat → Nat
  /-- The capture environment as seen through the names of this graph's nodes:
  `get_input` and `can_take_input` (`none` once taken or if not found). -/
  caps : Nat → Option (V × Bool)

/-- Outcome classes of `run_plan` other than success. -/
inductive Err where
  | planErr            -- `PlanningError("operator node not found")`
  | opErr (op : Nat)   -- operator error / too few outputs
  | panicAt (op : Nat) -- `panic!("Invalid plan did not produce …")`, `expect("input is available")`, not a value/constant
  | panicOut           -- `expect("missing output value")` or not a value/constant
deriving Repr, DecidableEq, Inhabited

instance {α : Type} [DecidableEq α] : DecidableEq (Except Err α)
  | .ok a, .ok b => if h : a = b then isTrue (by rw [h]) else isFalse (by intro h'; cases h'; exact h rfl)
  | .error a, .error b =>
    if h : a = b then isTrue (by rw [h]) else isFalse (by intro h'; cases h'; exact h rfl)
  | .ok _, .error _ => isFalse (by intro h; cases h)
  | .error _, .ok _ => isFalse (by intro h; cases h)

/-- `matches!(nodes.get(id), Some(Node::Value(_)))`. -/
def isValue (g : Graph) (id : Nat) : Bool :=
  match getNode g id with
  | some .value => true
  | _ => false

/-- Result of `get_value_from_constant_or_input`. -/
inductive Look (V : Type) where
  | found (v : V)
  | missing
  | bad  -- `panic!("node {} is not a value or constant")`

/-- `get_value_from_constant_or_input`. -/
def constOrInput {V : Type} (r : Run V) (id : Nat) : Look V :=
  match getNode r.g id with
  | some .constant => .found (r.consts id)
  | some .value =>
    match r.borrowed id with
    | some v => .found v
    | none => .missing
  | _ => .bad

/-- Captured dependencies of an operator: the part of `operator_dependencies` after the inputs. -/
def capDeps (g : Graph) (op : OpNode) : List Nat :=
  op.captureIds.filter (fun c => decide (c < g.nodes.length) && !op.inputs.contains (some c))

theorem opDeps_eq (g : Graph) (op : OpNode) : opDeps g op = opInputs op ++ capDeps g op := rfl

/-! ## Reference counting -/

/-- Count the `Node::Value` dependencies in `ds`. -/
def incDeps (g : Graph) (rc : Nat → Nat) : List Nat → Nat → Nat
  | [] => rc
  | d :: ds => incDeps g (if isValue g d then upd rc d (rcInc (rc d)) else rc) ds

/-- The counting loop over the plan; `none` = "operator node not found". -/
def incPlan (g : Graph) : (Nat → Nat) → List Nat → Option (Nat → Nat)
  | rc, [] => some rc
  | rc, i :: is =>
    match getOp g i with
    | some op => incPlan g (incDeps g rc (opDeps g op)) is
    | none => none

/-- `for node_id in outputs { inc }` (no node-kind filter). -/
def incOuts (rc : Nat → Nat) : List Nat → Nat → Nat
  | [] => rc
  | o :: os => incOuts (upd rc o (rcInc (rc o))) os

/-- The counting phase, as a specification over bare functions. -/
def initRcSpec (g : Graph) (plan outs : List Nat) : Option (Nat → Nat) :=
  match incPlan g (fun _ => 0) plan with
  | some rc => some (incOuts rc outs)
  | none => none

/-- A counter table in a box.  The functions above return `Nat → Nat`, which the compiler
turns into closures that re-run the whole loop on every lookup; the boxed versions below
compute the same tables (`Lemmas/ExecutorRc.lean`: `initRc_spec`) with one pass. -/
structure RcBox where
  f : Nat → Nat

def incDepsB (g : Graph) : RcBox → List Nat → RcBox
  | b, [] => b
  | b, d :: ds => incDepsB g (if isValue g d then ⟨upd b.f d (rcInc (b.f d))⟩ else b) ds

def incPlanB (g : Graph) : RcBox → List Nat → Option RcBox
  | b, [] => some b
  | b, i :: is =>
    match getOp g i with
    | some op => incPlanB g (incDepsB g b (opDeps g op)) is
    | none => none

def incOutsB : RcBox → List Nat → RcBox
  | b, [] => b
  | b, o :: os => incOutsB ⟨upd b.f o (rcInc (b.f o))⟩ os

/-- The initial reference counts. -/
def initRc (g : Graph) (plan outs : List Nat) : Option (Nat → Nat) :=
  match incPlanB g ⟨fun _ => 0⟩ plan with
  | some b => some (incOutsB b outs).f
  | none => none

/-! ## In-place candidates and taking values -/

/-- `input_ids().iter().enumerate().filter_map(|(pos, id)| id.map(|id| (pos, id)))`. -/
def enumSome : List (Option Nat) → Nat → List (Nat × Nat)
  | [], _ => []
  | none :: r, i => enumSome r (i + 1)
  | some x :: r, i => (i, x) :: enumSome r (i + 1)

/-- `Iterator::max_by_key`: the last element with the maximal key. -/
def maxByKeyLast {α : Type} (key : α → Nat) (xs : List α) : Option α :=
  xs.foldl (fun acc x =>
    match acc with
    | none => some x
    | some m => if key m ≤ key x then some x else some m) none

/-- `in_place_candidates`. -/
def candidates {V : Type} (ops : Ops V) (opId : Nat) (op : OpNode) (temps : Nat → Option V) :
    List (Nat × Nat) :=
  if (ops.inPlaceIdx opId).isEmpty then []
  else if op.commutative then
    match maxByKeyLast (fun (c : Nat × Nat) => match temps c.2 with
        | some v => ops.len v
        | none => 0) (enumSome op.inputs 0) with
    | some c => [c]
    | none => []
  else
    (ops.inPlaceIdx opId).filterMap (fun pos =>
      match op.inputs[pos]? with
      | some (some id) => some (pos, id)
      | _ => none)

/-- `c.can_take_input(name)` through the id. -/
def capTakeable {V : Type} (st : St V) (id : Nat) : Bool :=
  match st.caps id with
  | some (_, true) => true
  | _ => false

/-- The per-candidate condition of `run_in_place`. -/
def canTake {V : Type} (r : Run V) (st : St V) (id : Nat) : Bool :=
  st.rc id == 1 && ((st.temps id).isSome || (r.g.captures.contains id && capTakeable st id))

/-- `take_value`. -/
def takeValue {V : Type} (r : Run V) (st : St V) (id : Nat) : St V × Option V :=
  if st.rc id = 1 then
    match st.temps id with
    | some v => ({ st with temps := upd st.temps id none }, some v)
    | none =>
      if r.g.captures.contains id then
        match st.caps id with
        | some (v, true) => ({ st with caps := upd st.caps id none }, some v)
        | _ => (st, none)
      else (st, none)
  else (st, none)

/-- Take every in-place candidate; `none` = `expect("input is available")` failed. -/
def takeAll {V : Type} (r : Run V) : St V → List (Nat × Nat) → Option (St V × List (Nat × V))
  | st, [] => some (st, [])
  | st, (pos, id) :: cs =>
    match takeValue r st id with
    | (st1, some v) =>
      match takeAll r st1 cs with
      | some (st2, tk) => some (st2, (pos, v) :: tk)
      | none => none
    | (_, none) => none

/-- By-value capture extraction (`by_value_captures`), in dependency order. -/
def takeByValue {V : Type} (r : Run V) : St V → List Nat → St V × List (Nat × V)
  | st, [] => (st, [])
  | st, d :: ds =>
    match takeValue r st d with
    | (st1, some v) =>
      let (st2, bv) := takeByValue r st1 ds
      (st2, (d, v) :: bv)
    | (st1, none) => takeByValue r st1 ds

/-! ## Operator inputs -/

/-- One entry of the `op_inputs` loop; `none` = panic. -/
def lookupInput {V : Type} (r : Run V) (st : St V) (id : Nat) : Option V :=
  match constOrInput r id with
  | .found v => some v
  | .bad => none
  | .missing =>
    match st.temps id with
    | some v => some v
    | none =>
      match st.caps id with
      | some (v, _) => some v
      | none => none

/-- The `op_inputs` loop: `none` placeholders at taken positions and for omitted inputs;
outer `none` = panic. -/
def collectInputs {V : Type} (r : Run V) (st : St V) (takenPos : List Nat) :
    List (Option Nat) → Nat → Option (List (Option V))
  | [], _ => some []
  | oid :: rest, pos =>
    if takenPos.contains pos then
      (collectInputs r st takenPos rest (pos + 1)).map (fun l => none :: l)
    else
      match oid with
      | none => (collectInputs r st takenPos rest (pos + 1)).map (fun l => none :: l)
      | some id =>
        match lookupInput r st id with
        | none => none
        | some v => (collectInputs r st takenPos rest (pos + 1)).map (fun l => some v :: l)

/-- What the capture environment built for a subgraph operator yields for dependency `d`
(`CaptureEnv::get_input` through this graph, then the parent environment). -/
def capView {V : Type} (r : Run V) (st : St V) (byVal : List (Nat × V)) (d : Nat) : Option V :=
  if r.g.captures.contains d then (st.caps d).map (fun p => p.1)
  else
    match getNode r.g d with
    | some .constant => some (r.consts d)
    | some .value =>
      match st.temps d with
      | some v => some v
      | none =>
        match byVal.lookup d with
        | some v => some v
        | none => r.borrowed d
    | _ => none

/-! ## Output storage, release, final collection -/

/-- `temp_values.extend(output_ids.zip(outputs).filter_map(..))`; the fixed code skips ids
that were supplied as inputs.  Returns the new map and the ids stored, in order. -/
def storeOutputs {V : Type} (r : Run V) (temps : Nat → Option V) :
    List (Option Nat) → List V → (Nat → Option V) × List Nat
  | [], _ => (temps, [])
  | _, [] => (temps, [])
  | none :: ids, _ :: vs => storeOutputs r temps ids vs
  | some id :: ids, v :: vs =>
    if r.fixed && r.isInput id then storeOutputs r temps ids vs
    else
      let (t, s) := storeOutputs r (upd temps id (some v)) ids vs
      (t, id :: s)

/-- The post-step loop over `operator_dependencies`: decrement, release on zero. -/
def releaseLoop {V : Type} (r : Run V) : St V → List Nat → St V × List Nat
  | st, [] => (st, [])
  | st, d :: ds =>
    let ret := rcDecRet (st.rc d)
    let st1 : St V := { st with rc := upd st.rc d (rcDecCount (st.rc d)) }
    if ret = some 0 && r.usePool then
      match st1.temps d with
      | some _ =>
        let (st2, rel) := releaseLoop r { st1 with temps := upd st1.temps d none } ds
        (st2, d :: rel)
      | none => releaseLoop r st1 ds
    else releaseLoop r st1 ds

/-- What the trace hook records for one completed step. -/
structure StepTrace where
  op : Nat
  rip : Bool
  taken : List (Nat × Nat)
  byVal : List Nat
  stored : List Nat
  released : List Nat
deriving Repr, DecidableEq, Inhabited

/-- One iteration of the `for (step, &op_node_id) in plan` loop. -/
def step {V : Type} (ops : Ops V) (r : Run V) (st : St V) (opId : Nat) :
    Except Err (St V × StepTrace) :=
  match getOp r.g opId with
  | none => .error .planErr
  | some op =>
    let cands := candidates ops opId op st.temps
    let rip := !cands.isEmpty && cands.all (fun c => canTake r st c.2) && !r.neverInPlace
    match (if rip then takeAll r st cands else some (st, [])) with
    | none => .error (.panicAt opId)
    | some (st1, taken) =>
      let (st2, byVal) :=
        if ops.isSubgraph opId then takeByValue r st1 (capDeps r.g op) else (st1, [])
      match collectInputs r st2 (taken.map (fun t => t.1)) op.inputs 0 with
      | none => .error (.panicAt opId)
      | some ins =>
        let result :=
          if !taken.isEmpty then ops.runInPlace opId taken ins
          else if ops.isSubgraph opId then
            ops.run opId ins ((capDeps r.g op).map (capView r st2 byVal))
          else ops.run opId ins []
        match result with
        | none => .error (.opErr opId)
        | some outs =>
          if outs.length < op.outputs.length then .error (.opErr opId)
          else
            let (temps3, stored) := storeOutputs r st2.temps op.outputs outs
            let (st4, released) := releaseLoop r { st2 with temps := temps3 } (opDeps r.g op)
            .ok (st4, { op := opId, rip := rip
                        taken := (cands.zip taken).map (fun ct => (ct.1.1, ct.1.2))
                        byVal := byVal.map (fun p => p.1), stored := stored, released := released })

/-- The plan loop.  Returns the completed steps' trace together with the outcome. -/
def runSteps {V : Type} (ops : Ops V) (r : Run V) : St V → List Nat → Except Err (St V) × List StepTrace
  | st, [] => (.ok st, [])
  | st, i :: is =>
    match step ops r st i with
    | .error e => (.error e, [])
    | .ok (st1, tr) =>
      let (res, trs) := runSteps ops r st1 is
      (res, tr :: trs)

/-- Final output collection: values, and per output whether it was removed from
`temp_values` (`true`) or copied from a constant / input / capture (`false`).
On `panicOut` the second component lists the outputs reached (the failing one included
when the panic is the `expect`). -/
def collectOutputs {V : Type} (r : Run V) : St V → List Nat → Except Err (List V) × List (Nat × Bool)
  | _, [] => (.ok [], [])
  | st, o :: os =>
    match constOrInput r o with
    | .found v =>
      let (res, tr) := collectOutputs r st os
      (res.map (fun vs => v :: vs), (o, false) :: tr)
    | .bad => (.error .panicOut, [])
    | .missing =>
      match st.caps o with
      | some (v, _) =>
        let (res, tr) := collectOutputs r st os
        (res.map (fun vs => v :: vs), (o, false) :: tr)
      | none =>
        match st.temps o with
        | some v =>
          let (res, tr) := collectOutputs r { st with temps := upd st.temps o none } os
          (res.map (fun vs => v :: vs), (o, true) :: tr)
        | none => (.error .panicOut, [(o, true)])

/-- Initial `temp_values`: the owned inputs (the fixed code leaves an owned input that was
supplied for a constant node in `inputs`). -/
def initTemps {V : Type} (r : Run V) : Nat → Option V :=
  fun id => if r.fixed && isConstant r.g id then none else r.owned id

/-- Everything observable about one `run_plan` call. -/
structure Result (V : Type) where
  outcome : Except Err (List V)
  steps : List StepTrace
  outs : List (Nat × Bool)

/-- `Graph::run_plan`. -/
def runPlan {V : Type} (ops : Ops V) (r : Run V) (caps0 : Nat → Option (V × Bool))
    (plan outs : List Nat) : Result V :=
  match initRc r.g plan outs with
  | none => { outcome := .error .planErr, steps := [], outs := [] }
  | some rc =>
    match runSteps ops r { temps := initTemps r, rc := rc, caps := caps0 } plan with
    | (.error e, trs) => { outcome := .error e, steps := trs, outs := [] }
    | (.ok st, trs) =>
      let (res, otr) := collectOutputs r st outs
      { outcome := res, steps := trs, outs := otr }

/-! ## The strategy-free reference evaluation -/

/-- Naive lookup of a value: constant, else supplied input (owned or borrowed alike), else
the value an operator produced, else the capture environment. -/
def naiveLook {V : Type} (r : Run V) (caps0 : Nat → Option (V × Bool)) (E : Nat → Option V)
    (id : Nat) : Option V :=
  match getNode r.g id with
  | some .constant => some (r.consts id)
  | some .value =>
    match r.borrowed id with
    | some v => some v
    | none =>
      match r.owned id with
      | some v => some v
      | none =>
        match E id with
        | some v => some v
        | none => (caps0 id).map (fun p => p.1)
  | _ => none

/-- Look up operator inputs (`none` entries are omitted inputs); outer `none` = a value is missing. -/
def naiveInputs {V : Type} (look : Nat → Option V) : List (Option Nat) → Option (List (Option V))
  | [] => some []
  | none :: rest => (naiveInputs look rest).map (fun l => none :: l)
  | some id :: rest =>
    match look id with
    | none => none
    | some v => (naiveInputs look rest).map (fun l => some v :: l)

/-- Store all outputs (no filtering: lookups prefer inputs anyway). -/
def naiveStore {V : Type} (E : Nat → Option V) : List (Option Nat) → List V → (Nat → Option V)
  | [], _ => E
  | _, [] => E
  | none :: ids, _ :: vs => naiveStore E ids vs
  | some id :: ids, v :: vs => naiveStore (upd E id (some v)) ids vs

/-- Evaluate one operator with `Operator::run` on fresh copies of its inputs. -/
def naiveStep {V : Type} (ops : Ops V) (r : Run V) (caps0 : Nat → Option (V × Bool))
    (E : Nat → Option V) (opId : Nat) : Except Err (Nat → Option V) :=
  match getOp r.g opId with
  | none => .error .planErr
  | some op =>
    match naiveInputs (naiveLook r caps0 E) op.inputs with
    | none => .error (.panicAt opId)
    | some ins =>
      let cs := if ops.isSubgraph opId then (capDeps r.g op).map (naiveLook r caps0 E) else []
      match ops.run opId ins cs with
      | none => .error (.opErr opId)
      | some outs =>
        if outs.length < op.outputs.length then .error (.opErr opId)
        else .ok (naiveStore E op.outputs outs)

def naiveSteps {V : Type} (ops : Ops V) (r : Run V) (caps0 : Nat → Option (V × Bool)) :
    (Nat → Option V) → List Nat → Except Err (Nat → Option V)
  | E, [] => .ok E
  | E, i :: is =>
    match naiveStep ops r caps0 E i with
    | .error e => .error e
    | .ok E1 => naiveSteps ops r caps0 E1 is

def naiveOutputs {V : Type} (look : Nat → Option V) : List Nat → Except Err (List V)
  | [] => .ok []
  | o :: os =>
    match look o with
    | none => .error .panicOut
    | some v => (naiveOutputs look os).map (fun vs => v :: vs)

/-- `evalNaive`: run the plan's operators in order, each on fresh copies, and read the
requested outputs. -/
def evalNaive {V : Type} (ops : Ops V) (r : Run V) (caps0 : Nat → Option (V × Bool))
    (plan outs : List Nat) : Except Err (List V) :=
  match naiveSteps ops r caps0 (fun _ => none) plan with
  | .error e => .error e
  | .ok E => naiveOutputs (naiveLook r caps0 E) outs

end RtenVerif.Executor
