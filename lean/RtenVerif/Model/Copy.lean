import RtenVerif.Model.Layout

/-
Model of `copy_blocked` (`rten-tensor/src/copy.rs`): the blocked/tiled copy of a strided matrix
into a contiguous one, used by `copy_into_slice` (and through it `to_vec`, `to_tensor`,
`to_contiguous`, copying `reshaped`, `copy_from`) when the innermost source stride is a multiple
of 16 and ≥ 32.  The model lists the element writes in the order the loop nest performs them
(64×64 blocks, 4×4 tiles, narrow and short edge tiles) and replays them on the output buffer.
Chunk arithmetic of `range_chunks` / `range_chunks_exact` is written out with `/` and `%`.
-/
namespace RtenVerif.Copy

/-- `lo, lo+1, …, lo+len-1`. -/
def span (lo len : Nat) : List Nat := (List.range len).map (lo + ·)

/-- `range_chunks(0..n, 64)` as `(start, len)` pairs. -/
def blocks (n : Nat) : List (Nat × Nat) :=
  (List.range ((n + 63) / 64)).map (fun b => (64 * b, min 64 (n - 64 * b)))

/-- Starts of the full tiles of `range_chunks_exact(start..start+len, 4)`. -/
def tileStarts (start len : Nat) : List Nat := (List.range (len / 4)).map (fun t => start + 4 * t)

/-- One element write: destination `(row, col)` and whether it happens inside a full 4×4 tile
(where the transposing kernel may be used). -/
structure W where
  r : Nat
  c : Nat
  fullTile : Bool
  deriving Repr, DecidableEq

/-- All writes of `copy_blocked` for a `rows × cols` matrix, in program order. -/
def blockedWrites (rows cols : Nat) : List W :=
  (blocks rows).flatMap fun rb =>
    (blocks cols).flatMap fun cb =>
      ((tileStarts rb.1 rb.2).flatMap fun rt =>
        -- full height and width tiles
        ((tileStarts cb.1 cb.2).flatMap fun ct =>
          (span rt 4).flatMap fun r => (span ct 4).map fun c => W.mk r c true) ++
        -- full height, narrow edge tiles (`col_tiles.remainder()`)
        ((span rt 4).flatMap fun r =>
          (span (cb.1 + 4 * (cb.2 / 4)) (cb.2 % 4)).map fun c => W.mk r c false)) ++
      -- short edge tiles (`row_tiles.remainder()`)
      ((span (rb.1 + 4 * (rb.2 / 4)) (rb.2 % 4)).flatMap fun r =>
        (span cb.1 cb.2).map fun c => W.mk r c false)

/-- Storage offset the write reads from: the transposing kernel (`transpose_tile`) addresses the
source as `col * col_stride + row`, i.e. it assumes a row stride of 1; everything else uses
`get_unchecked([row, col])`. -/
def readOff (transpose : Bool) (rs cs : Nat) (w : W) : Nat :=
  if transpose && w.fullTile then w.c * cs + w.r else w.r * rs + w.c * cs

/-- `let transpose = src.row_stride() == 1 && dest.col_stride() == 1` (the destination is
contiguous, so its column stride is 1). -/
def useTranspose (rs : Nat) : Bool := rs == 1

/-- The output buffer after all writes (`dest[row * cols + col] = src[read offset]`). -/
def copyBlocked (rows cols rs cs : Nat) (src : Nat → Nat) : List Nat :=
  (blockedWrites rows cols).foldl
    (fun st w => st.set (w.r * cols + w.c) (src (readOff (useTranspose rs) rs cs w)))
    (List.replicate (rows * cols) 0)

end RtenVerif.Copy
