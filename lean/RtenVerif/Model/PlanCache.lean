import RtenVerif.Model.Graph
import RtenVerif.Model.Planner
/-!
# The request path of `Graph::run` / `Graph::partial_run` (src/graph.rs) and the plan cache

`validate_inputs` → `get_cached_plan` (`CachedPlan::matches`, else `create_plan` and
replace; src/graph/planner.rs) → `run_plan`, reduced to *which ids hold a value*:
the four `panic!`/`expect`/indexing sites of `run_plan` that depend on the request
(and not on operator kernels) are outcomes of the model.

Import-free apart from the graph IR and the planner model of C03 (read-only).

## What is modelled
* `ValueNode::dtype()/shape()` as a side table (`VMeta`, indexed by node id);
  a supplied `ValueOrView` as `InVal` (dtype code, sequence?, shape, owned vs view).
* `validate_inputs`: ids that are not `Node::Value` (constants, operators, ids that
  are not in the graph) are **skipped**; dtype is compared when declared; sequences skip
  the shape check; rank; every `Dimension::Fixed` dim; first failure wins, in list order.
* `CachedPlan::new` sorts both id lists (`Vec::sort`; insertion sort here so that
  `decide` evaluates it).  `CachedPlan::matches` exists in two versions:
  - `Ver.orig` — the code before the fix: `len == len && all(binary_search)`; on a sorted
    vector `binary_search(x).is_ok()` is membership (`contains` here);
  - `Ver.fixed` — the code as it stands: the sorted request equals the cached list.
* `get_cached_plan`: one atomic step under the mutex.  On a miss `create_plan` runs with
  `allow_missing_inputs = false`, `captures_available = is_subgraph`; an error leaves the
  cache untouched (`?` returns before the assignment).
* `run_plan` with `captures = None` (top-level `run`/`partial_run`):
  owned inputs move to `temp_values`, views to `inputs_by_id`; `NodeRefCount`
  (`Vec<u8>` of length `next_node_id`, saturating and sticky at 255; an id outside it is an
  index panic); the per-operator input lookup (`get_value_from_constant_or_input`, then
  `temp_values`); operator outputs inserted; dependencies decremented and removed at 0;
  the final output collection (`temp_values.remove(..).expect("missing output value")`).
  Operators themselves are a parameter: `opsOk = false` means some kernel reports an
  error (⇒ `Err(OperatorError)`), the model then stops at the first operator.
* `Planner::prune_plan` (for `partial_run`).

## Not modelled
In-place execution (`take_value`): a value is taken only when its count is 1, i.e. at its
last use, and the taken *position* is not looked up, so it does not change which lookups
succeed; `expect("input is available")` is guarded by the `run_in_place` test right above
it.  Subgraph runs (`run_subgraph`, captures), profiling, thread pools, tensor data.
-/
namespace RtenVerif.PlanCache
open RtenVerif.Graph RtenVerif.Planner

/-- Declared metadata of a value node (`None` = not declared; a `none` dim is symbolic). -/
structure VMeta where
  dtype : Option Nat := none
  shape : Option (List (Option Nat)) := none
deriving Repr, DecidableEq, Inhabited

/-- What the request path sees of one supplied `ValueOrView`. -/
structure InVal where
  /-- code of `value.dtype()` (`ValueType`, so a sequence of f32 ≠ tensor of f32) -/
  dtype : Nat
  /-- `ValueView::Sequence(_)` -/
  seq : Bool := false
  shape : List Nat := []
  /-- `ValueOrView::Value(_)` (moved into `temp_values`) vs `ValueOrView::View(_)` -/
  owned : Bool := false
deriving Repr, DecidableEq, Inhabited

/-- A loaded model as far as the request path is concerned. -/
structure Mdl where
  g : Graph
  /-- metadata by node id (entries of non-value ids are never read) -/
  vmeta : List VMeta := []
deriving Repr, Inhabited

/-! ## `validate_inputs` -/

/-- `expected_shape.iter().zip(shape.iter())`: every fixed dim equals the actual one. -/
def dimsOk : List (Option Nat) → List Nat → Bool
  | some e :: es, s :: ss => e == s && dimsOk es ss
  | none :: es, _ :: ss => dimsOk es ss
  | _, _ => true

/-- One iteration of the loop in `validate_inputs`; `true` = no error. -/
def validateOne (m : Mdl) (id : Nat) (v : InVal) : Bool :=
  match getNode m.g id with
  | some .value =>
    let vm := m.vmeta.getD id {}
    (match vm.dtype with
      | some d => d == v.dtype
      | none => true) &&
    (v.seq ||
      match vm.shape with
      | none => true
      | some es => es.length == v.shape.length && dimsOk es v.shape)
  | _ => true

/-- `Graph::validate_inputs(..).is_ok()`. -/
def validateInputs (m : Mdl) (ins : List (Nat × InVal)) : Bool :=
  ins.all (fun p => validateOne m p.1 p.2)

/-! ## `CachedPlan` -/

def insertSorted (x : Nat) : List Nat → List Nat
  | [] => [x]
  | y :: ys => if x ≤ y then x :: y :: ys else y :: insertSorted x ys

/-- `Vec::sort` on ids. -/
def sortIds : List Nat → List Nat
  | [] => []
  | x :: xs => insertSorted x (sortIds xs)

structure CachedPlan where
  inputs : List Nat
  outputs : List Nat
  plan : List Nat
deriving Repr, DecidableEq, Inhabited

/-- `CachedPlan::new`. -/
def CachedPlan.new (ins outs plan : List Nat) : CachedPlan :=
  { inputs := sortIds ins, outputs := sortIds outs, plan := plan }

/-- Which `CachedPlan::matches`. -/
inductive Ver where
  | orig
  | fixed
deriving Repr, DecidableEq, Inhabited

/-- `matches` before the fix: same length and every requested id occurs in the cached list. -/
def matchesOrig (c : CachedPlan) (ins outs : List Nat) : Bool :=
  (ins.length == c.inputs.length && ins.all (fun i => c.inputs.contains i)) &&
  (outs.length == c.outputs.length && outs.all (fun o => c.outputs.contains o))

/-- `matches` as it stands: the sorted request lists equal the cached lists. -/
def matchesFixed (c : CachedPlan) (ins outs : List Nat) : Bool :=
  (ins.length == c.inputs.length && sortIds ins == c.inputs) &&
  (outs.length == c.outputs.length && sortIds outs == c.outputs)

def CachedPlan.matches (v : Ver) (c : CachedPlan) (ins outs : List Nat) : Bool :=
  match v with
  | .orig => matchesOrig c ins outs
  | .fixed => matchesFixed c ins outs

/-- The `PlanOptions` used by `get_cached_plan`. -/
def cacheOpts (isSub : Bool) : PlanOptions := { allowMissing := false, capturesAvailable := isSub }

/-- `Graph::get_cached_plan` as one atomic step: result and new cache content. -/
def getCachedPlan (v : Ver) (g : Graph) (isSub : Bool) (cache : Option CachedPlan)
    (ins outs : List Nat) : Except PlanError (List Nat) × Option CachedPlan :=
  let miss : Except PlanError (List Nat) × Option CachedPlan :=
    match createPlan g ins outs (cacheOpts isSub) with
    | .ok p => (.ok p, some (CachedPlan.new ins outs p))
    | .error e => (.error e, cache)
  match cache with
  | some c => if c.matches v ins outs then (.ok c.plan, cache) else miss
  | none => miss

/-! ## `run_plan`, availability only -/

/-- The request-dependent panic sites of `run_plan`. -/
inductive Site where
  /-- `panic!("node {} is not a value or constant")` -/
  | notValueOrConstant
  /-- `panic!("Invalid plan did not produce input value …")` -/
  | missingInput
  /-- `.expect("missing output value")` -/
  | missingOutput
  /-- `self.rc[id.as_usize()]` out of bounds in `NodeRefCount` -/
  | refcountIndex
deriving Repr, DecidableEq, Inhabited

/-- Observable outcome class of a call. -/
inductive Outcome where
  | ok
  /-- `partial_run` success with the returned leaf ids -/
  | okIds (ids : List Nat)
  | errInvalidInput
  | errPlan (e : PlanError)
  /-- `PlanningError("operator node not found")` from `run_plan` -/
  | errOpNotFound
  /-- an operator kernel returned an error -/
  | errOp
  | panic (s : Site)
deriving Repr, DecidableEq, Inhabited

def Outcome.isErr : Outcome → Bool
  | .errInvalidInput | .errPlan _ | .errOpNotFound | .errOp => true
  | _ => false

def Outcome.isPanic : Outcome → Bool
  | .panic _ => true
  | _ => false

/-- `NodeRefCount::inc` (`none` = index panic). -/
def rcInc (rc : List Nat) (id : Nat) : Option (List Nat) :=
  match rc[id]? with
  | some c => some (rc.set id (if c < 255 then c + 1 else 255))
  | none => none

/-- `NodeRefCount::dec`: new table and returned count (`none` = index panic). -/
def rcDec (rc : List Nat) (id : Nat) : Option (List Nat × Option Nat) :=
  match rc[id]? with
  | none => none
  | some c =>
    if c == 255 then some (rc, some 255)
    else if c == 0 then some (rc, none)
    else some (rc.set id (c - 1), some (c - 1))

/-- The refcount loop over one operator's dependencies (only `Node::Value` ids count). -/
def rcIncDeps (g : Graph) : List Nat → List Nat → Option (List Nat)
  | [], rc => some rc
  | d :: ds, rc =>
    match getNode g d with
    | some .value =>
      match rcInc rc d with
      | some rc' => rcIncDeps g ds rc'
      | none => none
    | _ => rcIncDeps g ds rc

/-- Result of the refcount set-up. -/
inductive RcInit where
  | ok (rc : List Nat)
  | opNotFound
  | indexPanic
deriving Repr, DecidableEq, Inhabited

def rcInitPlan (g : Graph) : List Nat → List Nat → RcInit
  | [], rc => .ok rc
  | i :: is, rc =>
    match getOp g i with
    | none => .opNotFound
    | some op =>
      match rcIncDeps g (opDeps g op) rc with
      | some rc' => rcInitPlan g is rc'
      | none => .indexPanic

def rcIncOuts : List Nat → List Nat → Option (List Nat)
  | [], rc => some rc
  | o :: os, rc =>
    match rcInc rc o with
    | some rc' => rcIncOuts os rc'
    | none => none

/-- Execution state: keys of `temp_values`, refcounts. -/
structure RSt where
  temp : List Nat
  rc : List Nat
deriving Repr, DecidableEq, Inhabited

/-- Input lookup for one operator (`for (pos, node_id) in op_node.input_ids()`). -/
def lookupInputs (g : Graph) (views temp : List Nat) : List Nat → Option Site
  | [] => none
  | d :: ds =>
    match getNode g d with
    | some .constant => lookupInputs g views temp ds
    | some .value =>
      if views.contains d || temp.contains d then lookupInputs g views temp ds
      else some .missingInput
    | _ => some .notValueOrConstant

/-- "Remove temporary values that are no longer needed". -/
def decDeps : List Nat → RSt → Option RSt
  | [], st => some st
  | d :: ds, st =>
    match rcDec st.rc d with
    | none => none
    | some (rc', r) =>
      decDeps ds { temp := if r == some 0 then st.temp.erase d else st.temp, rc := rc' }

/-- `temp_values.extend(outputs)` (keys only, no duplicates kept). -/
def addTemps (temp : List Nat) : List Nat → List Nat
  | [] => temp
  | o :: os => addTemps (if temp.contains o then temp else temp ++ [o]) os

/-- The `for (step, &op_node_id) in plan` loop. -/
def execLoop (g : Graph) (views : List Nat) (opsOk : Bool) : List Nat → RSt → Except Outcome RSt
  | [], st => .ok st
  | i :: is, st =>
    match getOp g i with
    | none => .error .errOpNotFound
    | some op =>
      match lookupInputs g views st.temp (opInputs op) with
      | some s => .error (.panic s)
      | none =>
        if !opsOk then .error .errOp
        else
          match decDeps (opDeps g op) { st with temp := addTemps st.temp (opOutputs op) } with
          | none => .error (.panic .refcountIndex)
          | some st' => execLoop g views opsOk is st'

/-- "Return the requested outputs". -/
def collectOutputs (g : Graph) (views : List Nat) : List Nat → List Nat → Option Site
  | [], _ => none
  | o :: os, temp =>
    match getNode g o with
    | some .constant => collectOutputs g views os temp
    | some .value =>
      if views.contains o then collectOutputs g views os temp
      else if temp.contains o then collectOutputs g views os (temp.erase o)
      else some .missingOutput
    | _ => some .notValueOrConstant

/-- `Graph::run_plan` with `captures = None`. -/
def runPlan (g : Graph) (opsOk : Bool) (inputs : List (Nat × InVal)) (plan outs : List Nat) : Outcome :=
  let temp0 := addTemps [] ((inputs.filter (fun p => p.2.owned)).map (·.1))
  let views := (inputs.filter (fun p => !p.2.owned)).map (·.1)
  match rcInitPlan g plan (List.replicate g.nodes.length 0) with
  | .opNotFound => .errOpNotFound
  | .indexPanic => .panic .refcountIndex
  | .ok rc1 =>
    match rcIncOuts outs rc1 with
    | none => .panic .refcountIndex
    | some rc2 =>
      match execLoop g views opsOk plan { temp := temp0, rc := rc2 } with
      | .error o => o
      | .ok st =>
        match collectOutputs g views outs st.temp with
        | some s => .panic s
        | none => .ok

/-! ## `Graph::run` -/

/-- `Graph::run` (= `Model::run`, `run_n`, `run_one`): outcome class and new cache. -/
def run (v : Ver) (m : Mdl) (opsOk : Bool) (cache : Option CachedPlan)
    (inputs : List (Nat × InVal)) (outs : List Nat) : Outcome × Option CachedPlan :=
  if !validateInputs m inputs then (.errInvalidInput, cache)
  else
    match getCachedPlan v m.g false cache (inputs.map (·.1)) outs with
    | (.error e, c') => (.errPlan e, c')
    | (.ok plan, c') => (runPlan m.g opsOk inputs plan outs, c')

/-! ## `Planner::prune_plan` and `Graph::partial_run` -/

structure PruneSt where
  resolved : List Nat
  pruned : List Nat
  cand : List Nat
  prunedResolved : List Nat
deriving Repr, DecidableEq, Inhabited

/-- `op_node.capture_names().any(|name| graph.get_node_id(name).is_none())` (commit c276359):
an operator whose subgraphs capture a name that does not resolve in this graph is pruned.
IR convention: a capture id outside the node table stands for "name not found". -/
def hasUnresolvedCaptures (g : Graph) (op : OpNode) : Bool :=
  op.captureIds.any (fun c => !decide (c < g.nodes.length))

def pruneLoop (g : Graph) : List Nat → PruneSt → PruneSt
  | [], st => st
  | i :: is, st =>
    match getOp g i with
    | none => pruneLoop g is st
    | some op =>
      let deps := opDeps g op
      if !op.deterministic || !deps.all (rContains g st.resolved) || hasUnresolvedCaptures g op then
        pruneLoop g is
          { st with prunedResolved := st.prunedResolved ++ deps.filter (rContains g st.resolved) }
      else
        pruneLoop g is
          { st with resolved := st.resolved ++ opOutputs op
                    pruned := st.pruned ++ [i]
                    cand := addTemps st.cand (opOutputs op) }

/-- `Planner::prune_plan`: `(pruned_plan, new_outputs)`.  `candidate_outputs` lists an id once
(`candidate_ids.insert`, commit 7d33f36; before it a value both supplied and produced by a kept
operator was listed twice and `partial_run` panicked with "missing output value"). -/
def prunePlan (g : Graph) (plan ins outs : List Nat) : List Nat × List Nat :=
  let st := pruneLoop g plan { resolved := ins, pruned := [], cand := ins, prunedResolved := [] }
  (st.pruned, st.cand.filter (fun o => outs.contains o || st.prunedResolved.contains o))

/-- `Graph::partial_run` (never touches the plan cache). -/
def partialRun (m : Mdl) (opsOk : Bool) (inputs : List (Nat × InVal)) (outs : List Nat) : Outcome :=
  if !validateInputs m inputs then .errInvalidInput
  else
    let ids := inputs.map (·.1)
    match createPlan m.g ids outs { allowMissing := true, capturesAvailable := false } with
    | .error e => .errPlan e
    | .ok plan =>
      let (pruned, newOuts) := prunePlan m.g plan ids outs
      match runPlan m.g opsOk inputs pruned newOuts with
      | .ok => .okIds newOuts
      | o => o

/-! ## Histories -/

/-- A `run` request: supplied inputs and requested outputs. -/
structure Req where
  inputs : List (Nat × InVal)
  outs : List Nat
deriving Repr, DecidableEq, Inhabited

def Req.ids (r : Req) : List Nat := r.inputs.map (·.1)

/-- Cache content after a sequence of `run` calls (outcomes discarded). -/
def cacheAfter (v : Ver) (m : Mdl) (opsOk : Bool) : List Req → Option CachedPlan → Option CachedPlan
  | [], c => c
  | r :: rs, c => cacheAfter v m opsOk rs (run v m opsOk c r.inputs r.outs).2


/-! ## Concurrent calls on one model (C22)

A call is a little program of atomic steps:
* `run`: `validate_inputs` (no shared state) and then the critical section
  `[lock; matches-or-replan; unlock]` — one step, because everything between `lock()` and the
  end of `get_cached_plan` happens under the mutex and nothing in it waits for another thread
  (`create_plan` touches no lock and terminates, C03.T1); then `run_plan` with the call's *own*
  `Arc<CachedPlan>`, `BufferPool`, refcounts and value map — a second step that reads no shared
  mutable state;
* `partial_run`: plans and runs without touching the cache — one step.
A schedule is any list of thread indices; each occurrence lets that thread take its next step. -/

/-- One concurrent call with its own arguments (`opsOk`: what the kernels do on *its* values). -/
structure Call where
  isPartial : Bool := false
  req : Req
  opsOk : Bool := true
deriving Repr, DecidableEq, Inhabited

/-- Where a thread is. -/
inductive Pc where
  | start
  /-- left the critical section holding `Arc<plan>` -/
  | planned (plan : List Nat)
  | done (o : Outcome)
deriving Repr, DecidableEq, Inhabited

/-- Shared state (the plan cache) + one program counter per call. -/
structure Sys where
  cache : Option CachedPlan
  pcs : List Pc
deriving Repr, DecidableEq, Inhabited

/-- One atomic step of call `k` at `pc` with the shared cache `c`: new pc and new cache. -/
def stepCall (v : Ver) (m : Mdl) (k : Call) (pc : Pc) (c : Option CachedPlan) : Pc × Option CachedPlan :=
  match pc with
  | .done o => (.done o, c)
  | .planned plan => (.done (runPlan m.g k.opsOk k.req.inputs plan k.req.outs), c)
  | .start =>
    if k.isPartial then (.done (partialRun m k.opsOk k.req.inputs k.req.outs), c)
    else if !validateInputs m k.req.inputs then (.done .errInvalidInput, c)
    else
      match getCachedPlan v m.g false c k.req.ids k.req.outs with
      | (.error e, c') => (.done (.errPlan e), c')
      | (.ok plan, c') => (.planned plan, c')

/-- Thread `i` takes a step (indices without a call are ignored). -/
def stepSys (v : Ver) (m : Mdl) (calls : List Call) (s : Sys) (i : Nat) : Sys :=
  match calls[i]?, s.pcs[i]? with
  | some k, some pc =>
    let r := stepCall v m k pc s.cache
    { cache := r.2, pcs := s.pcs.set i r.1 }
  | _, _ => s

/-- Run a schedule. -/
def execSched (v : Ver) (m : Mdl) (calls : List Call) : List Nat → Sys → Sys
  | [], s => s
  | i :: is, s => execSched v m calls is (stepSys v m calls s i)

/-- All threads at `start`. -/
def initSys (c : Option CachedPlan) (calls : List Call) : Sys :=
  { cache := c, pcs := calls.map (fun _ => .start) }

/-- The call made alone (its two steps back to back) from cache content `c`. -/
def runAlone (v : Ver) (m : Mdl) (k : Call) (c : Option CachedPlan) : Outcome :=
  if k.isPartial then partialRun m k.opsOk k.req.inputs k.req.outs
  else (run v m k.opsOk c k.req.inputs k.req.outs).1

/-! ## A family of plan caches: the top-level graph and the graphs of `If` / `Loop` bodies

Every `Graph` owns a `cached_plan` mutex.  The graph of an `If` branch or a `Loop` body is
shared by all concurrent runs of the model; `run_subgraph` takes *its* mutex with
`is_subgraph = true`.  Index 0 is the top-level graph (`is_subgraph = false`), every other index
a subgraph.  Each critical section is atomic, so whatever the threads do between them, the
shared state evolves along a list of lock events. -/

/-- One critical section: which graph's cache, requested inputs and outputs. -/
structure LockEv where
  gi : Nat
  ins : List Nat
  outs : List Nat
deriving Repr, DecidableEq, Inhabited

def isSubOf (gi : Nat) : Bool := gi != 0

/-- `get_cached_plan` on graph `e.gi` of the family: result (`none` = no such graph) and caches. -/
def lockStep (graphs : List Graph) (caches : List (Option CachedPlan)) (e : LockEv) :
    Option (Except PlanError (List Nat)) × List (Option CachedPlan) :=
  match graphs[e.gi]?, caches[e.gi]? with
  | some g, some c =>
    let r := getCachedPlan .fixed g (isSubOf e.gi) c e.ins e.outs
    (some r.1, caches.set e.gi r.2)
  | _, _ => (none, caches)

/-- Caches after a sequence of critical sections (in lock order). -/
def cachesAfter (graphs : List Graph) : List LockEv → List (Option CachedPlan) → List (Option CachedPlan)
  | [], cs => cs
  | e :: es, cs => cachesAfter graphs es (lockStep graphs cs e).2

/-- Was event `e` a cache hit in state `cs`? -/
def lockHit (caches : List (Option CachedPlan)) (e : LockEv) : Bool :=
  match caches[e.gi]? with
  | some (some c) => c.matches .fixed e.ins e.outs
  | _ => false

/-- Hit/miss letters of a sequence of critical sections. -/
def lockTrace (graphs : List Graph) : List LockEv → List (Option CachedPlan) → List Char
  | [], _ => []
  | e :: es, cs => (if lockHit cs e then 'h' else 'm') :: lockTrace graphs es (lockStep graphs cs e).2

/-! ## Executable versions of the graph hypotheses of the theorems

(`Lemmas/PlanCacheExec.lean` proves them sound; the harness evaluates the same predicates on
the real `Graph` and the driver on the IR read back from it.) -/

/-- All operator nodes with their ids. -/
def opNodes (g : Graph) : List (Nat × OpNode) :=
  (List.range g.nodes.length).filterMap (fun i => (getOp g i).map (fun op => (i, op)))

def isValueB (g : Graph) (v : Nat) : Bool :=
  match getNode g v with
  | some .value => true
  | _ => false

/-- operator inputs are value or constant nodes -/
def wfgB (g : Graph) : Bool := (opNodes g).all (fun e => (opInputs e.2).all (isValueOrConstant g))
/-- operator outputs are value or constant nodes -/
def wfgoB (g : Graph) : Bool := (opNodes g).all (fun e => (opOutputs e.2).all (isValueOrConstant g))
/-- operator outputs are value nodes (`Executor.WF.outsValue`) -/
def outsValueB (g : Graph) : Bool := (opNodes g).all (fun e => (opOutputs e.2).all (isValueB g))
/-- every operator is the registered source of each of its outputs (`UniqueProducer`) -/
def uniqueProducerB (g : Graph) : Bool :=
  (opNodes g).all (fun e => (opOutputs e.2).all (fun v => sourceOf g v == some e.1))

end RtenVerif.PlanCache
