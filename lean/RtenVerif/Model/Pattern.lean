/-!
# C01 — pattern language and matcher of `src/optimize/pattern_matcher.rs` (import-free model)

`Pat` mirrors `PatternKind`; `matchPat` mirrors `Pattern::test_impl` / `OpPattern::matches`
(associative+commutative chain flattening with multiset matching, then the strict commutative
matcher, then positional matching), with the symbol map threaded functionally (the code's
`transaction`s are exactly "keep the extended map on success, the old one on failure").
Float constants are compared exactly as rationals `m · 2^e` decoded from the f32 bit patterns
(`|x − v| ≤ tol`; the f32 subtraction the code performs is exact for operands within a factor
of two of each other, and every other case is far from the tolerance).
-/
namespace RtenVerif.Pattern

/-- Graph view the matcher needs. Value/constant/operator ids share one id space. -/
structure OpNode where
  oid : Nat
  ty : String
  ins : List (Option Nat)
  outs : List Nat
deriving Repr, DecidableEq

structure ConstInfo where
  id : Nat
  dtype : String            -- "f", "i", "u8", "i8"
  shape : List Nat
  bits : List Nat           -- f32 bit patterns (dtype = "f") — empty when elided
  ints : List Int           -- integer values otherwise
deriving Repr, DecidableEq

structure GView where
  ops : List OpNode
  consts : List ConstInfo
  /-- ids of (non-constant) value nodes -/
  values : List Nat
deriving Repr

def GView.opById (g : GView) (oid : Nat) : Option OpNode := g.ops.find? (·.oid == oid)
/-- `Graph::get_source_node` -/
def GView.source (g : GView) (v : Nat) : Option OpNode := g.ops.find? (fun o => o.outs.contains v)
def GView.const? (g : GView) (v : Nat) : Option ConstInfo := g.consts.find? (·.id == v)

def commutative (ty : String) : Bool := ["Add", "Mul", "And", "Or", "Xor", "Equal", "AddSoftmax"].contains ty
def associative (ty : String) : Bool := ["Add", "Mul"].contains ty

/-! ## exact f32 decoding -/

/-- value of a finite f32 = `m * 2^e`; `none` for inf / NaN. -/
def f32Rat (bits : Nat) : Option (Int × Int) :=
  let sign : Int := if bits / 2147483648 % 2 == 1 then -1 else 1
  let ex := bits / 8388608 % 256
  let man := bits % 8388608
  if ex == 255 then none
  else if ex == 0 then some (sign * man, -149)
  else some (sign * (man + 8388608), (ex : Int) - 150)

/-- `|a − b| ≤ t` for `a = ma·2^ea` etc. -/
def absDiffLe (a b t : Int × Int) : Bool :=
  let e := min a.2 (min b.2 t.2)
  let sc (x : Int × Int) : Int := x.1 * (2 : Int) ^ (x.2 - e).toNat
  (sc a - sc b).natAbs ≤ (sc t).natAbs

/-- round-to-nearest-even of the rational `num/den` (`den > 0`) to an f32 bit pattern (normal range;
subnormals / overflow are not needed for the scale factors this is used for) -/
def roundF32 (num den : Int) : Nat :=
  if num == 0 || den ≤ 0 then 0
  else
    let sign : Nat := if num < 0 then 2147483648 else 0
    let n := num.natAbs
    let d := den.natAbs
    -- exponent e with 2^23 ≤ n / (d·2^e) < 2^24
    let e0 : Int := (n.log2 : Int) - (d.log2 : Int) - 23
    let quo (e : Int) : Nat := if e ≥ 0 then n / (d * 2 ^ e.toNat) else (n * 2 ^ (-e).toNat) / d
    let e : Int := if quo e0 ≥ 16777216 then e0 + 1 else if quo e0 < 8388608 then e0 - 1 else e0
    -- mantissa and remainder (scaled so that the division is exact in ℕ)
    let nn : Nat := if e ≥ 0 then n else n * 2 ^ (-e).toNat
    let dd : Nat := if e ≥ 0 then d * 2 ^ e.toNat else d
    let m := nn / dd
    let r := nn % dd
    let m := if 2 * r > dd || (2 * r == dd && m % 2 == 1) then m + 1 else m
    let (m, e) := if m ≥ 16777216 then (m / 2, e + 1) else (m, e)
    sign + ((e + 150).toNat) * 8388608 + (m - 8388608)

/-- f32 multiplication / reciprocal on bit patterns (finite, normal operands) -/
def mulF32 (a b : Nat) : Nat :=
  match f32Rat a, f32Rat b with
  | some (ma, ea), some (mb, eb) =>
    let e := ea + eb
    if e ≥ 0 then roundF32 (ma * mb * (2 : Int) ^ e.toNat) 1 else roundF32 (ma * mb) ((2 : Int) ^ (-e).toNat)
  | _, _ => 0

def recipF32 (a : Nat) : Nat :=
  match f32Rat a with
  | some (m, e) =>
    let s : Int := if m < 0 then -1 else 1
    if e ≥ 0 then roundF32 s (m.natAbs * (2 : Int) ^ e.toNat) else roundF32 (s * (2 : Int) ^ (-e).toNat) m.natAbs
  | none => 0

/-- 1e-4 as f32 -/
def tolBits : Nat := 953267991

/-- `ConstantPattern::matches`: float constant with exactly one element (any rank!). -/
def constMatches (c : ConstInfo) (valBits : Nat) (exact : Bool) : Bool :=
  c.dtype == "f" && c.shape.foldl (· * ·) 1 == 1 &&
    match c.bits with
    | [b] =>
      match f32Rat b, f32Rat valBits, f32Rat (if exact then 0 else tolBits) with
      | some x, some v, some t => absDiffLe x v t
      | _, _, _ => false
    | _ => false

/-! ## patterns -/

inductive Pat where
  | op (name : String) (ins : List Pat) (key : Option String)
  | const (bits : Nat) (exact : Bool)
  | sym (name : String) (isConst : Bool)
  | anyOf (ps : List Pat)
deriving Repr, Inhabited

abbrev Syms := List (String × Nat)

def Syms.find (s : Syms) (n : String) : Option Nat := (s.find? (·.1 == n)).map (·.2)

/-- `flatten_associative_pattern_impl` -/
def flattenPat (opName : String) : Nat → Pat → List Pat
  | 0, p => [p]
  | fuel + 1, p =>
    match p with
    | .op name [a, b] none => if name == opName then flattenPat opName fuel a ++ flattenPat opName fuel b else [p]
    | _ => [p]

/-- `flatten_associative_graph_impl` -/
def flattenGraph (g : GView) (opName : String) : Nat → Nat → List Nat
  | 0, v => [v]
  | fuel + 1, v =>
    match g.source v with
    | some o =>
      if o.ty == opName then
        match o.ins with
        | [some l, some r] => flattenGraph g opName fuel l ++ flattenGraph g opName fuel r
        | _ => [v]
      else [v]
    | none => [v]

/-- positional matching of all inputs (`zip … all`) -/
def matchZip (f : Pat → Nat → Syms → Option Syms) : List Pat → List (Option Nat) → Syms → Option Syms
  | [], [], s => some s
  | p :: ps, some i :: is, s => (f p i s).bind (matchZip f ps is)
  | _, _, _ => none

/-- `match_pattern_set_recursive`: each pattern to a distinct node, any permutation, first found. -/
def matchSet (f : Pat → Nat → Syms → Option Syms) : List Pat → List (Nat × Nat) → List Nat → Syms → Option Syms
  | [], _, _, s => some s
  | p :: rest, nodes, used, s =>
    nodes.findSome? fun (idx, node) =>
      if used.contains idx then none
      else (f p node s).bind fun s' => matchSet f rest nodes (idx :: used) s'

/-- named operator patterns: the key is appended (the code allows re-binding; `find` returns the
first binding). `strictKeys` models the fixed matcher: a re-bound key must be the same operator. -/
def bindKey (strictKeys : Bool) (key : Option String) (oid : Nat) (s : Syms) : Option Syms :=
  match key with
  | none => some s
  | some k =>
    match s.find k with
    | some prev => if strictKeys then (if prev == oid then some s else none) else some (s ++ [(k, oid)])
    | none => some (s ++ [(k, oid)])

def isConstPat : Pat → Bool
  | .const _ _ => true
  | _ => false

/-- `operator_constants_preserve_rank`: no single-element constant input of `o` has more dimensions
than every other input of `o` is known to have (`rank` = known rank of a value / constant). -/
def opConstsPreserveRank (g : GView) (rank : Nat → Option Nat) (o : OpNode) : Bool :=
  let idx := (List.range o.ins.length).zip o.ins
  idx.all fun (i, id) =>
    match id.bind g.const? with
    | some c =>
      if c.shape.foldl (· * ·) 1 == 1 && c.shape.length > 0 then
        idx.any fun (j, other) => j != i && (match other.bind rank with | some r => r ≥ c.shape.length | none => false)
      else true
    | none => true

/-- the operators of an associative chain: `o` and, transitively, the producers of its inputs that
have the same type and two present inputs (the operators `flattenGraph` descends through) -/
def chainOps (g : GView) (name : String) : Nat → OpNode → List OpNode
  | 0, o => [o]
  | fuel + 1, o =>
    o :: (o.ins.filterMap id).flatMap fun v =>
      match g.source v with
      | some so =>
        if so.ty == name then
          match so.ins with
          | [some _, some _] => chainOps g name fuel so
          | _ => []
        else []
      | none => []

/-- `constants_preserve_rank` of the fixed matcher (commits 962ab02 + chain fix): if the operand
patterns — flattened, for an associative+commutative operator — contain a constant pattern, the
operator and every inner operator of its chain must pass `opConstsPreserveRank`. -/
def constsPreserveRank (g : GView) (rank : Nat → Option Nat) (name : String) (pins : List Pat) (o : OpNode) : Bool :=
  let isChain := associative o.ty && commutative o.ty && pins.length == 2
  let pats := if isChain then pins.flatMap (flattenPat name 32) else pins
  if !pats.any isConstPat then true
  else if !isChain then opConstsPreserveRank g rank o
  else (chainOps g name 32 o).all (opConstsPreserveRank g rank)

structure MatchCfg where
  strictKeys : Bool
  rankGuard : Bool
  rank : Nat → Option Nat

/-- the associative + commutative chain matcher of `OpPattern::matches` (first attempt) -/
def chainMatch (g : GView) (recur : Pat → Nat → Syms → Option Syms) (name : String) (pins : List Pat)
    (o : OpNode) (s : Syms) : Option Syms :=
  if associative o.ty && commutative o.ty && pins.length == 2 then
    if (pins.flatMap (flattenPat name 32)).length ≥ 3 then
      match o.ins with
      | [some a, some b] =>
        if (pins.flatMap (flattenPat name 32)).length == (flattenGraph g name 32 a ++ flattenGraph g name 32 b).length then
          matchSet recur (pins.flatMap (flattenPat name 32))
            ((List.range (flattenGraph g name 32 a ++ flattenGraph g name 32 b).length).zip
              (flattenGraph g name 32 a ++ flattenGraph g name 32 b)) [] s
        else none
      | _ => none
    else none
  else none

/-- the strict commutative matcher, then positional matching -/
def strictMatch (recur : Pat → Nat → Syms → Option Syms) (pins : List Pat) (o : OpNode) (s : Syms) : Option Syms :=
  match commutative o.ty, pins, o.ins with
  | true, [pa, pb], [some ia, some ib] =>
    match (recur pa ia s).bind (recur pb ib) with
    | some s' => some s'
    | none => (recur pb ia s).bind (recur pa ib)
  | _, _, _ => matchZip recur pins o.ins s

/-- `OpPattern::matches` -/
def opMatches (g : GView) (cfg : MatchCfg) (recur : Pat → Nat → Syms → Option Syms) (name : String)
    (pins : List Pat) (o : OpNode) (s : Syms) : Option Syms :=
  if o.ty != name then none
  else if pins.length != o.ins.length then none
  else
    match (match chainMatch g recur name pins o s with
           | some s' => some s'
           | none => strictMatch recur pins o s) with
    | some s' => if cfg.rankGuard && !constsPreserveRank g cfg.rank name pins o then none else some s'
    | none => none

/-- `Pattern::test_impl` (value / constant / operator node `v`). -/
def matchPat (g : GView) (cfg : MatchCfg) : Nat → Pat → Nat → Syms → Option Syms
  | 0, _, _, _ => none
  | fuel + 1, p, v, s =>
    match p with
    | .op name pins key =>
      match g.opById v with
      | some o => (opMatches g cfg (matchPat g cfg fuel) name pins o s).bind (bindKey cfg.strictKeys key o.oid)
      | none =>
        if g.values.contains v then
          match g.source v with
          | some o => (opMatches g cfg (matchPat g cfg fuel) name pins o s).bind (bindKey cfg.strictKeys key o.oid)
          | none => none
        else none
    | .const bits exact =>
      match g.const? v with
      | some c => if constMatches c bits exact then some s else none
      | none => none
    | .sym name isConst =>
      if !((g.const? v).isSome || g.values.contains v) then none
      else if isConst && !(g.const? v).isSome then none
      else
        match s.find name with
        | some r => if r == v then some s else none
        | none => some (s ++ [(name, v)])
    | .anyOf ps => ps.findSome? fun q => matchPat g cfg fuel q v s

end RtenVerif.Pattern
