/-
Model of `rten-text/src/normalizers.rs`: `Bert`, `Replace`, `Unicode` (NFC/NFD/NFKC/NFKD),
`Sequence`, each returning `(normalized, offset_map)`.

* Text is a `List Char` (Unicode scalar values, like Rust's `char`), so every text the model
  builds is valid UTF-8 *by construction*; byte positions are recovered with `usize`
  (`char::len_utf8`) / `blen` (`str::len`).
* The Unicode tables the code takes from `std` / `unicode-normalization` /
  `unicode_categories` are PARAMETERS (`Uni`): nothing below depends on what they return.
* The regex engine of `Replace` is a parameter too: a `Replace` stage carries the list of
  matches `(start, end)` (byte offsets) that `find_iter` yields on the text the stage receives.
* `Option` results: `none` = no `(normalized, offsets)` is reported: the Rust code returns a regex
  runtime error (`Norm.replaceErr`, see `hasRegexErr`) or panics (string slicing off a char boundary / out of
  range, which the regex crate's contract excludes) or a match has `start > end`, which no
  `Range` produced by the regex crate has.

Import-free (core Lean only) so that it links into the `model_C30` driver.
-/
namespace RtenVerif.Normalizer

/-- `char::len_utf8`. -/
def usize (c : Char) : Nat :=
  if c.toNat < 0x80 then 1 else if c.toNat < 0x800 then 2 else if c.toNat < 0x10000 then 3 else 4

/-- `str::len` (bytes). -/
def blen : List Char → Nat
  | [] => 0
  | c :: cs => usize c + blen cs

/-- `str::is_char_boundary(p)`: `p` is the start of a char or the end of the text. -/
def isBoundary : List Char → Nat → Bool
  | _, 0 => true
  | [], _ + 1 => false
  | c :: cs, p + 1 => if p + 1 < usize c then false else isBoundary cs (p + 1 - usize c)

/-- `str::char_indices`, starting at byte offset `start`. -/
def charIndices : List Char → Nat → List (Nat × Char)
  | [], _ => []
  | c :: cs, start => (start, c) :: charIndices cs (start + usize c)

/-- The Unicode functions the normalizers call, as parameters. -/
structure Uni where
  /-- `char::to_lowercase` -/
  lower : Char → List Char
  /-- `unicode_normalization::char::decompose_canonical` (sequence of emitted chars) -/
  decompCanon : Char → List Char
  /-- `unicode_normalization::char::decompose_compatible` -/
  decompCompat : Char → List Char
  /-- `UnicodeCategories::is_mark_nonspacing` -/
  isMn : Char → Bool
  /-- `unicode_normalization::char::compose` -/
  compose : Char → Char → Option Char

/-- A work buffer of normalized chars, each with the *source byte offset* it is attributed to,
turned into `(normalized, byte_offsets)`: every char contributes `len_utf8` copies of its
offset (`UnicodeBuf::into_string_with_byte_offsets`; the inner loop of `Bert::normalize`). -/
def expand (buf : List (Char × Nat)) : List Char × List Nat :=
  (buf.map (·.1), buf.flatMap fun p => List.replicate (usize p.1) p.2)

/-! ### `Bert` -/

/-- `CharNormalizer`: `set_char`, then optional `strip_accents`, then optional `lower_case`. -/
def bertChar (u : Uni) (lower strip : Bool) (c : Char) : List Char :=
  let n := [c]
  let n := if strip then (n.flatMap u.decompCanon).filter (fun d => !u.isMn d) else n
  if lower then n.flatMap u.lower else n

/-- `Bert::normalize`. The no-op configuration returns the identity byte map `0..len`. -/
def bert (u : Uni) (lower strip : Bool) (src : List Char) : List Char × List Nat :=
  if !lower && !strip then (src, List.range' 0 (blen src))
  else expand ((charIndices src 0).flatMap fun oc => (bertChar u lower strip oc.2).map (·, oc.1))

/-! ### `Unicode` -/

inductive Form | nfc | nfd | nfkc | nfkd
  deriving DecidableEq, Repr

/-- `UnicodeBuf::push_compose`; the buffer is kept most-recent-first. -/
def pushCompose (u : Uni) (rb : List (Char × Nat)) (c : Char) (off : Nat) : List (Char × Nat) :=
  match rb with
  | [] => [(c, off)]
  | (p, po) :: rest =>
    match u.compose p c with
    | some x => (x, po) :: rest
    | none => (c, off) :: (p, po) :: rest

/-- Body of the `for (offset, ch) in text.char_indices()` loop of `Unicode::normalize`. -/
def unicodeStep (u : Uni) (f : Form) (rb : List (Char × Nat)) (oc : Nat × Char) : List (Char × Nat) :=
  match f with
  | .nfc => pushCompose u rb oc.2 oc.1
  | .nfd => (u.decompCanon oc.2).foldl (fun rb d => (d, oc.1) :: rb) rb
  | .nfkc => (u.decompCompat oc.2).foldl (fun rb d => pushCompose u rb d oc.1) rb
  | .nfkd => (u.decompCompat oc.2).foldl (fun rb d => (d, oc.1) :: rb) rb

/-- `Unicode::normalize`. -/
def unicode (u : Uni) (f : Form) (src : List Char) : List Char × List Nat :=
  expand ((charIndices src 0).foldl (unicodeStep u f) []).reverse

/-! ### `Replace` -/

/-- `&t[p..]`; `none` = panic (not a char boundary / out of range). -/
def dropBytes : List Char → Nat → Option (List Char)
  | t, 0 => some t
  | [], _ + 1 => none
  | c :: cs, p + 1 => if p + 1 < usize c then none else dropBytes cs (p + 1 - usize c)

/-- `&t[..n]`; `none` = panic. -/
def takeBytes : List Char → Nat → Option (List Char)
  | _, 0 => some []
  | [], _ + 1 => none
  | c :: cs, p + 1 =>
    if p + 1 < usize c then none else (takeBytes cs (p + 1 - usize c)).map (c :: ·)

/-- `&t[a..b]`; `none` = panic. -/
def slice (t : List Char) (a b : Nat) : Option (List Char) :=
  if a ≤ b then (dropBytes t a).bind (takeBytes · (b - a)) else none

/-- The loop of `Replace::normalize` from `last_match_end = last` on, over the remaining
matches, followed by the tail copy.  Returns what is appended to `normalized` / `offsets`. -/
def replaceFrom (src content : List Char) : List (Nat × Nat) → Nat → Option (List Char × List Nat)
  | [], last =>
    (slice src last (blen src)).map fun tail => (tail, List.range' last (blen src - last))
  | (s, e) :: ms, last =>
    if s ≤ e then
      (slice src last s).bind fun before =>
        (replaceFrom src content ms e).map fun rest =>
          (before ++ content ++ rest.1,
           List.range' last (s - last) ++ List.replicate (blen content) s ++ rest.2)
    else none

/-- `Replace::normalize` with the regex matches as parameter. -/
def replace (src content : List Char) (ms : List (Nat × Nat)) : Option (List Char × List Nat) :=
  replaceFrom src content ms 0

/-! ### `Sequence` and the normalizer tree -/

/-- A normalizer configuration (`Box<dyn Normalizer>`). -/
inductive Norm
  | bert (lower strip : Bool)
  | unicode (f : Form)
  /-- `Replace` with replacement `content`; `ms` = regex matches on the text this stage receives. -/
  | replace (content : List Char) (ms : List (Nat × Nat))
  /-- `Replace` whose `find_iter` yields a runtime `Err` (fancy-regex backtrack limit) on the text
  this stage receives: `normalize` returns `Err(NormalizeError::RegexError)` through `?`, and so
  does every enclosing `Sequence`. No `(normalized, offsets)` is reported. -/
  | replaceErr
  | seq (stages : List Norm)

/-- One round of the `Sequence::normalize` loop: look every offset of the stage's map up in the
accumulated map.  `offsets.get(o)…unwrap_or(text.len())`: a stage may legitimately report the
offset `normalized.len()` (an empty regex match at the end of its input), which denotes the end
of the source text. -/
def composeMap (srcLen : Nat) (offs next : List Nat) : List Nat :=
  next.map fun o => offs.getD o srcLen

mutual
/-- `Normalizer::normalize`. -/
def run (u : Uni) : Norm → List Char → Option (List Char × List Nat)
  | .bert l s, t => some (bert u l s t)
  | .unicode f, t => some (unicode u f t)
  | .replace c ms, t => replace t c ms
  | .replaceErr, _ => none
  | .seq ns, t => runSeq u ns (blen t) (t, List.range' 0 (blen t))

/-- The loop of `Sequence::normalize` with state `(normalized, offsets)`. -/
def runSeq (u : Uni) : List Norm → Nat → List Char × List Nat → Option (List Char × List Nat)
  | [], _, st => some st
  | n :: ns, srcLen, st =>
    match run u n st.1 with
    | none => none
    | some r => runSeq u ns srcLen (r.1, composeMap srcLen st.2 r.2)
end

mutual
/-- The tree contains a `Replace` stage whose regex fails at run time.  (Such a run reports
`Err`, not a panic; the two are only distinguished here, `run` gives `none` for both.) -/
def hasRegexErr : Norm → Bool
  | .replaceErr => true
  | .seq ns => anyRegexErr ns
  | _ => false
def anyRegexErr : List Norm → Bool
  | [] => false
  | n :: ns => hasRegexErr n || anyRegexErr ns
end

/-! ### Predicates of the property (decidable, used by theorems and witnesses) -/

/-- T2: non-decreasing. -/
def nonDecreasing : List Nat → Bool
  | a :: b :: rest => a ≤ b && nonDecreasing (b :: rest)
  | _ => true

/-- T3: the offset at every *char boundary* position of `norm` is a char boundary of `src`. -/
def boundaryOK (src norm : List Char) (offs : List Nat) : Bool :=
  (List.range offs.length).all fun p => !isBoundary norm p || isBoundary src (offs.getD p 0)

/-- The literal reading: the offset at *every* byte position is a char boundary of `src`. -/
def allBoundaries (src : List Char) (offs : List Nat) : Bool :=
  offs.all (isBoundary src)

end RtenVerif.Normalizer
