/-!
# Model of `src/buffer_pool.rs` (C23)

Executable, import-free model of `Buffer`, `BufferPool::{alloc, add}`, `PoolRef::drop`,
`ExtractBuffer for Vec<T>` and of the way several threads interleave on one pool.

* An element type `T` is its `(size_of, align_of)` pair (`Ty`).
* `Layout::array::<T>(n)` is `layoutArray` (the real size limit `isize::MAX + 1 - align`).
* A `Vec<T>` owned by somebody is a `VecH` (allocation id, reported capacity, `T`).
* A type-erased `Buffer` is a `Buf` (allocation id, capacity in elements, the stored
  `layout` as `(lsize, lalign)`, and `dty`, the type `T` baked into `drop: release::<T>`).
* Every fresh allocation (`Vec::with_capacity`) gets the next allocation id and logs its layout in
  `allocs`; every de-allocation (drop of a `Vec`, `Buffer::release`) is logged in `freed` with
  the layout it passes to the allocator.  These two lists are the ownership ledger.
* A public operation is cut into its atomic steps: the non-critical prefix (size check, counter,
  `Buffer::from_vec`), the critical section under `buffers: Mutex<Vec<Buffer>>`, and the
  non-critical suffix (fallback allocation after the mutex was released).  A thread that is between
  two steps of one call has a `Pending` entry.  A schedule is a list of `Op`s, each tagged with the
  thread that performs it; `run` folds `step` over it.

`usize` is `Nat`, except for the one product the code computes with wrapping release arithmetic
(`capacity * size_of::<T>()` in the small-request bypass), which is taken modulo `2^64`.
-/
namespace RtenVerif.Pool

/-- `usize::MAX` on the 64-bit targets the harness runs on. -/
def usizeMax : Nat := 18446744073709551615

/-- `isize::MAX + 1`. -/
def isizeLim : Nat := 9223372036854775808

/-- An element type: `size_of::<T>()`, `align_of::<T>()`. -/
structure Ty where
  size : Nat
  align : Nat
deriving DecidableEq, Repr

/-- `std::alloc::Layout::array::<T>(n)`: `Err` (here `none`) when `n * size` exceeds
`isize::MAX + 1 - align`; otherwise `(n * size, align)`. -/
def layoutArray (t : Ty) (n : Nat) : Option (Nat × Nat) :=
  if t.size ≠ 0 ∧ n > (isizeLim - t.align) / t.size then none else some (n * t.size, t.align)

/-- `Vec::<T>::capacity()` of a vec whose raw capacity is `n` (`usize::MAX` for zero-sized `T`). -/
def vecCap (t : Ty) (n : Nat) : Nat := if t.size = 0 then usizeMax else n

/-- A `Vec<ty>` with reported capacity `cap` that owns allocation `id`. -/
structure VecH where
  id : Nat
  cap : Nat
  ty : Ty
deriving DecidableEq, Repr

/-- `struct Buffer { ptr, capacity, layout, drop }`. -/
structure Buf where
  id : Nat
  cap : Nat
  lsize : Nat
  lalign : Nat
  dty : Ty
deriving DecidableEq, Repr

/-- Layout handed to the allocator when a `Vec<T>` of capacity `cap` is dropped. -/
def VecH.freeLayout (v : VecH) : Nat × Nat := (v.cap * v.ty.size, v.ty.align)

/-- Layout handed to the allocator by `Buffer::release::<dty>` (`Drop for Buffer`). -/
def Buf.freeLayout (b : Buf) : Nat × Nat := (b.cap * b.dty.size, b.dty.align)

/-- `Vec::with_capacity(cap)`: `none` is the "capacity overflow" panic; otherwise the reported
capacity and the layout of the new allocation.  (Running out of memory is not modelled.) -/
def withCapacity (t : Ty) (cap : Nat) : Option (Nat × (Nat × Nat)) :=
  match layoutArray t cap with
  | none => none
  | some l => some (vecCap t cap, l)

/-- `Buffer::from_vec`: `Layout::array::<T>(vec.capacity()).unwrap()`; `none` = the unwrap panics. -/
def fromVec (v : VecH) : Option Buf :=
  match layoutArray v.ty v.cap with
  | none => none
  | some l => some { id := v.id, cap := v.cap, lsize := l.1, lalign := l.2, dty := v.ty }

/-- `Buffer::layout_match::<T>`. -/
def layoutMatch (b : Buf) (t : Ty) : Bool :=
  match layoutArray t b.cap with
  | some l => l == (b.lsize, b.lalign)
  | none => false

/-- `Buffer::can_fit::<T>(capacity)`. -/
def canFit (b : Buf) (t : Ty) (cap : Nat) : Bool :=
  layoutMatch b t && decide (cap ≤ b.cap)

/-- `Buffer::into_vec::<T>`. -/
def intoVec (b : Buf) (t : Ty) : Option VecH :=
  if layoutMatch b t then some { id := b.id, cap := vecCap t b.cap, ty := t } else none

/-- One iteration of the `fold` in `BufferPool::alloc`. -/
def bestFitStep (t : Ty) (cap : Nat) (acc : Option (Nat × Nat)) (i : Nat) (b : Buf) :
    Option (Nat × Nat) :=
  if !canFit b t cap then acc
  else
    match acc with
    | some (bi, bsz) => if b.cap ≥ bsz then some (bi, bsz) else some (i, b.cap)
    | none => some (i, b.cap)

/-- `buffers.iter().enumerate().fold(None, …)` starting at index `i` with accumulator `acc`. -/
def bestFitGo (t : Ty) (cap : Nat) : Nat → Option (Nat × Nat) → List Buf → Option (Nat × Nat)
  | _, acc, [] => acc
  | i, acc, b :: bs => bestFitGo t cap (i + 1) (bestFitStep t cap acc i b) bs

/-- The best-fit search of `BufferPool::alloc`: `(index, capacity)` of the chosen buffer. -/
def bestFit (pool : List Buf) (t : Ty) (cap : Nat) : Option (Nat × Nat) :=
  bestFitGo t cap 0 none pool

/-- `Vec::remove(i)` returning the element and the remaining vector (`none` = index panic). -/
def removeAt : Nat → List α → Option (α × List α)
  | _, [] => none
  | 0, a :: l => some (a, l)
  | i + 1, a :: l =>
    match removeAt i l with
    | none => none
    | some (b, r) => some (b, a :: r)

/-- Remove the first element satisfying `p`. -/
def extractFirst (p : α → Bool) : List α → Option (α × List α)
  | [] => none
  | a :: l =>
    if p a then some (a, l)
    else
      match extractFirst p l with
      | none => none
      | some (b, r) => some (b, a :: r)

/-- Where a thread is inside a call that spans several atomic steps. -/
inductive Pending where
  /-- `alloc::<t>(cap)`: the request passed the small-size bypass test and was counted;
  next step takes the mutex. -/
  | wantLock (slot : Nat) (t : Ty) (cap : Nat)
  /-- `alloc::<t>(cap)`: nothing in the pool fitted and the mutex was released; next step is
  `Vec::with_capacity(cap)`. -/
  | fallback (slot : Nat) (t : Ty) (cap : Nat)
  /-- `add`: the `Buffer` was built and is large enough; next step pushes it under the mutex. -/
  | wantPush (b : Buf)
deriving DecidableEq, Repr

/-- Ledger entry for a live holder: thread `tid` holds, in its variable `slot`, the vec `v`
obtained by asking for `alloc::<reqTy>(reqCap)`. -/
structure Held where
  tid : Nat
  slot : Nat
  reqTy : Ty
  reqCap : Nat
  v : VecH
deriving DecidableEq, Repr

structure State where
  /-- `BufferPool::min_size`. -/
  minSize : Nat
  /-- `BufferPool::buffers` (only touched by the critical steps). -/
  pool : List Buf
  /-- Vecs currently owned by a holder. -/
  held : List Held
  /-- Threads that are in the middle of a call. -/
  pend : List (Nat × Pending)
  /-- Layout of allocation number `id` (position in the list), in allocation order. -/
  allocs : List (Nat × Nat)
  /-- De-allocation calls: allocation id and the layout passed to the allocator. -/
  freed : List (Nat × (Nat × Nat))
  allocCount : Nat
  hitCount : Nat
deriving Repr

/-- `BufferPool::new().with_min_size(m)`. -/
def init (m : Nat) : State :=
  { minSize := m, pool := [], held := [], pend := [], allocs := [], freed := [],
    allocCount := 0, hitCount := 0 }

/-- Atomic steps, tagged with the performing thread `t`. -/
inductive Op where
  /-- First step of `pool.alloc::<ty>(cap)`, result to be stored in `slot`. -/
  | allocStart (t slot : Nat) (ty : Ty) (cap : Nat)
  /-- Critical section of `alloc`. -/
  | allocLock (t : Nat)
  /-- `Vec::with_capacity` after a pool miss. -/
  | allocFallback (t : Nat)
  /-- First step of `pool.add(vec)` for the vec in `slot` (`Buffer::from_vec`, size test). -/
  | addStart (t slot : Nat)
  /-- Critical section of `add`. -/
  | addPush (t : Nat)
  /-- The holder drops its vec without returning it. -/
  | dropVec (t slot : Nat)
  /-- `Drop for PoolRef<Vec<T>>` (`extract_buffer` then `add`). -/
  | poolRefDrop (t slot : Nat)
  /-- The pool itself is dropped (only when no thread is inside a call). -/
  | dropPool
deriving DecidableEq, Repr

/-- What the performing thread observes. `bytes` is the size of the buffer's layout. -/
inductive Ev where
  | pend
  | bypass (id cap bytes : Nat)
  | hit (id cap bytes : Nat)
  | miss
  | fresh (id cap bytes : Nat)
  | panic
  | rejected (id bytes : Nat)
  | pushed
  | freed (id bytes : Nat)
  | noBuffer (id bytes : Nat)
  | poolDropped (n : Nat)
deriving DecidableEq, Repr

def pendOf (s : State) (t : Nat) : Option Pending :=
  (s.pend.find? (fun e => e.1 == t)).map (·.2)

/-- A fresh allocation for `alloc::<ty>(cap)` lands in the ledger of thread `t`. -/
def freshAlloc (s : State) (t slot : Nat) (ty : Ty) (cap : Nat) (c : Nat) (l : Nat × Nat) : State :=
  { s with
    allocs := s.allocs ++ [l],
    held := s.held ++
      [{ tid := t, slot := slot, reqTy := ty, reqCap := cap,
         v := { id := s.allocs.length, cap := c, ty := ty } }] }

/-- Body of `BufferPool::add(vec)` up to (excluding) the critical section; `heldRest` is the
holder ledger without the vec being returned. -/
def startAdd (s : State) (t : Nat) (v : VecH) (heldRest : List Held) : State × Ev :=
  match fromVec v with
  | none =>
    -- `.unwrap()` panics while the vec is still owned: it is dropped during unwinding.
    ({ s with held := heldRest, freed := s.freed ++ [(v.id, v.freeLayout)] }, .panic)
  | some b =>
    if b.lsize ≥ s.minSize then
      ({ s with held := heldRest, pend := s.pend ++ [(t, .wantPush b)] }, .pend)
    else
      -- too small: `buf` goes out of scope, `Drop for Buffer` releases it.
      ({ s with held := heldRest, freed := s.freed ++ [(b.id, b.freeLayout)] },
        .rejected b.id b.lsize)

/-- One atomic step. `none`: the step is not enabled (the thread is not at that point, the slot
is not held by it, or `cap` is not a `usize`). A Rust panic is the event `Ev.panic`. -/
def step (s : State) : Op → Option (State × Ev)
  | .allocStart t slot ty cap =>
    if cap > usizeMax then none
    else
      match pendOf s t with
      | some _ => none
      | none =>
        -- `if capacity * size_of::<T>() < self.min_size` (wrapping in release builds)
        if (cap * ty.size) % (usizeMax + 1) < s.minSize then
          match withCapacity ty cap with
          | none => some (s, .panic)
          | some (c, l) => some (freshAlloc s t slot ty cap c l, .bypass s.allocs.length c l.1)
        else
          some ({ s with allocCount := s.allocCount + 1,
                         pend := s.pend ++ [(t, .wantLock slot ty cap)] }, .pend)
  | .allocLock t =>
    match extractFirst (fun e => e.1 == t) s.pend with
    | some ((_, .wantLock slot ty cap), rest) =>
      match bestFit s.pool ty cap with
      | none => some ({ s with pend := rest ++ [(t, .fallback slot ty cap)] }, .miss)
      | some (i, _) =>
        match removeAt i s.pool with
        | none =>
          -- `buffers.remove(best_fit)` out of range
          some ({ s with pend := rest, hitCount := s.hitCount + 1 }, .panic)
        | some (b, pool') =>
          match intoVec b ty with
          | none =>
            -- `.expect("alignment should match")`: the buffer was consumed by `into_vec`
            -- and dropped there.
            some ({ s with pool := pool', pend := rest, hitCount := s.hitCount + 1,
                           freed := s.freed ++ [(b.id, b.freeLayout)] }, .panic)
          | some v =>
            some ({ s with pool := pool', pend := rest, hitCount := s.hitCount + 1,
                           held := s.held ++
                             [{ tid := t, slot := slot, reqTy := ty, reqCap := cap, v := v }] },
                  .hit v.id v.cap (v.cap * ty.size))
    | _ => none
  | .allocFallback t =>
    match extractFirst (fun e => e.1 == t) s.pend with
    | some ((_, .fallback slot ty cap), rest) =>
      match withCapacity ty cap with
      | none => some ({ s with pend := rest }, .panic)
      | some (c, l) =>
        some (freshAlloc { s with pend := rest } t slot ty cap c l, .fresh s.allocs.length c l.1)
    | _ => none
  | .addStart t slot =>
    match pendOf s t with
    | some _ => none
    | none =>
      match extractFirst (fun h => h.tid == t && h.slot == slot) s.held with
      | none => none
      | some (h, rest) => some (startAdd s t h.v rest)
  | .addPush t =>
    match extractFirst (fun e => e.1 == t) s.pend with
    | some ((_, .wantPush b), rest) =>
      some ({ s with pool := s.pool ++ [b], pend := rest }, .pushed)
    | _ => none
  | .dropVec t slot =>
    match extractFirst (fun h => h.tid == t && h.slot == slot) s.held with
    | none => none
    | some (h, rest) =>
      some ({ s with held := rest, freed := s.freed ++ [(h.v.id, h.v.freeLayout)] },
            .freed h.v.id (h.v.cap * h.v.ty.size))
  | .poolRefDrop t slot =>
    match pendOf s t with
    | some _ => none
    | none =>
      match extractFirst (fun h => h.tid == t && h.slot == slot) s.held with
      | none => none
      | some (h, rest) =>
        -- `ExtractBuffer for Vec<T>`: `if self.capacity() > 0 { Some(self.into()) } else { None }`
        if h.v.cap > 0 then some (startAdd s t h.v rest)
        else
          some ({ s with held := rest, freed := s.freed ++ [(h.v.id, h.v.freeLayout)] },
                .noBuffer h.v.id (h.v.cap * h.v.ty.size))
  | .dropPool =>
    match s.pend with
    | [] =>
      some ({ s with pool := [], freed := s.freed ++ s.pool.map (fun b => (b.id, b.freeLayout)) },
            .poolDropped s.pool.length)
    | _ :: _ => none

/-- Run a schedule; `none` if some step was not enabled. -/
def run (s : State) : List Op → Option State
  | [] => some s
  | op :: ops =>
    match step s op with
    | none => none
    | some (s', _) => run s' ops

/-- Like `run`, also collecting the observed events. -/
def runEv (s : State) : List Op → Option (State × List Ev)
  | [] => some (s, [])
  | op :: ops =>
    match step s op with
    | none => none
    | some (s', e) =>
      match runEv s' ops with
      | none => none
      | some (s'', es) => some (s'', e :: es)

end RtenVerif.Pool
