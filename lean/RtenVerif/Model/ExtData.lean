/-
Model of `src/model/external_data.rs` (allow-list predicate, `PathBuf::push`, the range
checks of `FileLoader::read`, `MmapLoader::load`, `MemLoader::load`) and of the parts of
Rust's `std::path` (Unix flavour) the predicate depends on: `Path::components`,
`Path::file_name`, `Path::extension`, and of `str::parse::<u64>` used by
`external_data_location` in `src/model/onnx_loader.rs`.

Paths are byte strings.  A byte is a `Nat` (every theorem quantifies over all `List Nat`,
which contains all byte strings; the driver only feeds values < 256).  Relevant bytes:
`47 = '/'`, `46 = '.'`.  Import-free so it links into the `model_C21` driver.
-/
namespace RtenVerif.ExtData

/-! ## `std::path::Path::components` (Unix: no prefixes, separator is `/` only) -/

/-- `std::path::Component` on Unix (`Prefix` never occurs). -/
inductive Comp where
  | root
  | cur
  | parent
  | normal (name : List Nat)
  deriving DecidableEq, Repr

/-- Split at every `/`.  Always returns at least one (possibly empty) segment. -/
def splitSlash : List Nat → List (List Nat)
  | [] => [[]]
  | c :: cs =>
    if c = 47 then [] :: splitSlash cs
    else match splitSlash cs with
      | [] => [[c]]
      | h :: t => (c :: h) :: t

/-- `Components::parse_single_component` (non-verbatim): empty and `.` segments are
dropped, `..` is `ParentDir`, anything else is `Normal`. -/
def classify (seg : List Nat) : Option Comp :=
  if seg = [] then none
  else if seg = [46] then none
  else if seg = [46, 46] then some .parent
  else some (.normal seg)

/-- The `State::Body` part of the components iterator. -/
def body (s : List Nat) : List Comp := (splitSlash s).filterMap classify

/-- `Path::components().collect()`:
* a leading `/` gives `RootDir` (`has_physical_root`), one byte is consumed;
* otherwise a path that is exactly `.` or starts with `./` gives a leading `CurDir`
  (`include_cur_dir`), one byte is consumed;
* the rest is `body`. -/
def components (s : List Nat) : List Comp :=
  match s with
  | [] => []
  | c :: rest =>
    if c = 47 then .root :: body rest
    else if c = 46 then
      match rest with
      | [] => [.cur]
      | d :: rest' => if d = 47 then .cur :: body rest' else body s
    else body s

/-- `Path::file_name`: the last component if it is `Normal`. -/
def fileName (s : List Nat) : Option (List Nat) :=
  match (components s).getLast? with
  | some (.normal n) => some n
  | _ => none

/-- Split at the last `.`: `some (before, after)`, or `none` if there is no dot
(`rsplitn(2, '.')`). -/
def rsplitDot : List Nat → Option (List Nat × List Nat)
  | [] => none
  | c :: cs =>
    match rsplitDot cs with
    | some (b, a) => some (c :: b, a)
    | none => if c = 46 then some ([], cs) else none

/-- `rsplit_file_at_dot(name).before.and(after)`: the extension of a file name. -/
def extOfName (n : List Nat) : Option (List Nat) :=
  if n = [46, 46] then none
  else match rsplitDot n with
    | none => none
    | some (b, a) => if b = [] then none else some a

/-- `Path::extension`. -/
def extension (s : List Nat) : Option (List Nat) := (fileName s).bind extOfName

/-- `"data"` -/
def strData : List Nat := [100, 97, 116, 97]
/-- `"onnx_data"` -/
def strOnnxData : List Nat := [111, 110, 110, 120, 95, 100, 97, 116, 97]

/-- `l.starts_with(p)` -/
def startsWith : List Nat → List Nat → Bool
  | _, [] => true
  | [], _ :: _ => false
  | x :: xs, p :: ps => x == p && startsWith xs ps

/-- The extension rule of the allow-list. -/
def extOk (e : List Nat) : Bool := startsWith e strData || startsWith e strOnnxData

/-- `is_allowed_external_data_path`, statement by statement: first component must be
`Normal`, there must be no second component, and the extension must start with `data`
or `onnx_data`.  (`ext.to_str()` never fails here: `location` is a `String` and the
extension is cut at an ASCII byte.) -/
def allowed (p : List Nat) : Bool :=
  match components p with
  | .normal _ :: more =>
    if more.isEmpty then
      match extension p with
      | some e => extOk e
      | none => false
    else false
  | _ => false

/-! ## `PathBuf::push` (Unix) and lexical resolution -/

/-- `PathBuf::push(path)`: an absolute `path` replaces the buffer; otherwise a separator
is added unless the buffer is empty or already ends with one. -/
def push (buf p : List Nat) : List Nat :=
  if p.head? = some 47 then p
  else if buf ≠ [] ∧ buf.getLast? ≠ some 47 then buf ++ 47 :: p
  else buf ++ p

/-- One step of purely lexical path resolution on a stack of components. -/
def resStep (stk : List Comp) : Comp → List Comp
  | .root => [.root]
  | .cur => stk
  | .parent =>
    match stk.getLast? with
    | some (.normal _) => stk.dropLast
    | some .root => stk
    | _ => stk ++ [.parent]
  | .normal n => stk ++ [.normal n]

/-- Lexical resolution (what the OS path walk does in the absence of symlinks). -/
def lexResolve (cs : List Comp) : List Comp := cs.foldl resStep []

/-! ## Range checks of the three loaders -/

def U64_MAX : Nat := 18446744073709551615
def I64_MAX : Nat := 9223372036854775807
/-- `isize::MAX` on the 64-bit targets the harness runs on. -/
def ISIZE_MAX : Nat := 9223372036854775807

/-- Error classes of `ExternalDataErrorKind` (payloads kept for `TooShort`). -/
inductive LoadErr where
  | invalidLength
  | io
  | notFound
  | disallowed
  | tooShort (required actual : Nat)
  deriving DecidableEq, Repr

/-- `u64::saturating_add`. -/
def satAdd (a b : Nat) : Nat := if a + b > U64_MAX then U64_MAX else a + b

/-- `MemLoader::load` after the path lookup: `end = offset.saturating_add(length)`;
reject if `end > len`; byte range `offset .. end`. -/
def memRange (off len flen : Nat) : Except LoadErr (Nat × Nat) :=
  let e := satAdd off len
  if e > flen then .error (.tooShort e flen) else .ok (off, e)

/-- `MmapLoader::load`: same check, but the range end is recomputed as
`offset as usize + length as usize` (wrapping in release builds). -/
def mmapRange (off len flen : Nat) : Except LoadErr (Nat × Nat) :=
  let e := satAdd off len
  if e > flen then .error (.tooShort e flen) else .ok (off, (off + len) % (U64_MAX + 1))

/-- `DataSlice::data()`: `&storage[start..end]`; `none` = the slice index panics. -/
def sliceOf (data : List Nat) (r : Nat × Nat) : Option (List Nat) :=
  if r.1 ≤ r.2 ∧ r.2 ≤ data.length then some ((data.drop r.1).take (r.2 - r.1)) else none

/-- `read_fill(file, buf[..k])` at file position `pos`, modelled atomically: as many of
the next `k` bytes as the file has. -/
def readFill (file : List Nat) (pos k : Nat) : List Nat := (file.drop pos).take k

/-- One `read(2)` call with `avail` bytes left in the file and a `want`-byte buffer: the OS
may return any count between 1 and `min want avail` (short read), and 0 only at end of
file or for an empty buffer.  `hint` is the adversary's choice. -/
def osRead (avail want hint : Nat) : Nat :=
  if min want avail = 0 then 0 else max 1 (min hint (min want avail))

/-- The retry loop of `read_fill`: number of bytes placed in a `k`-byte buffer when the
file has `avail` bytes after the current position.  `hint t` drives the short reads. -/
def readFillCount (avail k : Nat) (hint : Nat → Nat) : (fuel total : Nat) → Nat
  | 0, total => total
  | fuel + 1, total =>
    let n := osRead (avail - total) (k - total) (hint total)
    let total' := total + n
    if n = 0 ∨ total' = k then total' else readFillCount avail k hint fuel total'

/-- The chunked read loop of `FileLoader::read` with chunk size `C` (`TMP_SIZE`). -/
def readLoop (C : Nat) (file : List Nat) : (fuel pos remaining : Nat) → List Nat → List Nat
  | 0, _, _, buf => buf
  | fuel + 1, pos, remaining, buf =>
    let chunk := readFill file pos (min remaining C)
    let remaining' := remaining - chunk.length
    let buf' := buf ++ chunk
    if chunk.length < C ∨ remaining' = 0 then buf'
    else readLoop C file fuel (pos + chunk.length) remaining' buf'

/-- `TMP_SIZE` -/
def TMP_SIZE : Nat := 8192

/-- `FileLoader::read` after the file has been opened.  `precheck` selects whether the
file length is compared with `offset.saturating_add(length)` before the buffer is
allocated (the code after the C21 fix does; the original code did not).
`length > isize::MAX` → `InvalidLength`; `seek(Start(offset))` fails with `EINVAL` for
offsets above `i64::MAX` (OS behaviour); then the chunked loop and the exact-length
check. -/
def fileReadWith (precheck : Bool) (C : Nat) (file : List Nat) (off len : Nat) :
    Except LoadErr (List Nat) :=
  if len > ISIZE_MAX then .error .invalidLength
  else if precheck && decide (satAdd off len > file.length) then
    .error (.tooShort (satAdd off len) file.length)
  else if off > I64_MAX then .error .io
  else
    let buf := readLoop C file (len / C + 1) off len []
    if buf.length ≠ len then .error (.tooShort len buf.length) else .ok buf

/-- The code as it stands in the tree. -/
def fileRead (file : List Nat) (off len : Nat) : Except LoadErr (List Nat) :=
  fileReadWith true TMP_SIZE file off len

/-! ## `str::parse::<u64>` (decimal, optional leading `+`) -/

def parseDigits : List Nat → Nat → Option Nat
  | [], acc => some acc
  | c :: cs, acc =>
    if 48 ≤ c ∧ c ≤ 57 then
      let acc' := acc * 10 + (c - 48)
      if acc' > U64_MAX then none else parseDigits cs acc'
    else none

def parseU64 (s : List Nat) : Option Nat :=
  match s with
  | [] => none
  | c :: rest =>
    if c = 43 then (if rest = [] then none else parseDigits rest 0)
    else parseDigits s 0

/-! ## The per-loader file cache -/

/-- The per-loader cache of `FileLoader` / `MmapLoader`: a `HashMap<PathBuf, _>`.  `PathBuf`'s
`Eq`/`Hash` compare *component lists*, so the key is `components location`. -/
abbrev Cache := List (List Comp × List Nat)

def cacheFind : Cache → List Comp → Option (List Nat)
  | [], _ => none
  | (k', f) :: r, k => if k' = k then some f else cacheFind r k

/-- `get_or_open_file` / `get_or_open_mmap`: allow-list, cache lookup by `PathBuf` key,
otherwise `File::open(dir.push(location))` (`openf`, `none` = the OS refuses) and insert. -/
def getOrOpen (cache : Cache) (openf : List Nat → Option (List Nat)) (loc : List Nat) :
    Except LoadErr (List Nat × Cache) :=
  if !allowed loc then .error .disallowed
  else match cacheFind cache (components loc) with
    | some f => .ok (f, cache)
    | none =>
      match openf loc with
      | none => .error .notFound
      | some f => .ok (f, (components loc, f) :: cache)

/-! ## The whole external-data path -/

/-- The three `DataLoader` implementations. -/
inductive Loader where
  | file | mmap | mem
  deriving DecidableEq, Repr

/-- Errors of the whole external-data path (`external_data_location` + `DataLoader::load`). -/
inductive ExtErr where
  | badOffset
  | badLength
  | load (e : LoadErr)
  deriving DecidableEq, Repr

/-- `external_data_location` followed by `DataLoader::load`.

`lookup` stands for the environment: for `MemLoader` it is the map passed to
`ModelOptions::external_data` (keyed by the raw location string); for the file and mmap
loaders it is "`File::open(dir.push(location))` and the file's content" — by T1 that path
is `dir/name`.  `none` = no such entry / `open` fails. -/
def loadExternal (ld : Loader) (lookup : List Nat → Option (List Nat))
    (loc offS lenS : List Nat) : Except ExtErr (List Nat) :=
  match parseU64 offS with
  | none => .error .badOffset
  | some off =>
    match parseU64 lenS with
    | none => .error .badLength
    | some len =>
      -- `FileLoader::read` checks the length before it looks at the path
      if ld = .file ∧ len > ISIZE_MAX then .error (.load .invalidLength)
      else if !allowed loc then .error (.load .disallowed)
      else match lookup loc with
        | none => .error (.load .notFound)
        | some file =>
          match ld with
          | .file =>
            match fileRead file off len with
            | .ok bs => .ok bs
            | .error e => .error (.load e)
          | .mmap =>
            match mmapRange off len file.length with
            | .error e => .error (.load e)
            | .ok r => match sliceOf file r with
              | some bs => .ok bs
              | none => .error (.load .io)   -- would be a panic in `DataSlice::data`; unreachable (T3)
          | .mem =>
            match memRange off len file.length with
            | .error e => .error (.load e)
            | .ok r => match sliceOf file r with
              | some bs => .ok bs
              | none => .error (.load .io)

end RtenVerif.ExtData
