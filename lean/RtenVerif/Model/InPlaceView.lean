/-
C13: `binary_op_in_place` on a *view-based* owned operand (non-contiguous owned tensors,
tensors with spare capacity): the owned tensor is a view (base, (size, stride) list) of its
storage; the operation overwrites storage slots.

* fast path (`apply_fast`): `b.data()` is a slice, `fast_broadcast_cycles_repeats(b.shape, a.shape)`
  succeeds and `a.data_mut()` is a slice — positions `base, base+1, …` get
  `f a[i] (cycles/repeats of b)[i]`;
* general path (`inner_iter_mut::<4>` + `apply_indexed`): `b` is broadcast to `a`'s shape
  (`broadcast_strides`) and the slots at `a`'s own offsets, visited in row-major index order, get
  `f a[idx] b[idx]`.
-/
import RtenVerif.Model.BinaryDispatch

namespace RtenVerif.Layout
open RtenVerif.Overlap RtenVerif.FastBroadcast RtenVerif.InPlace
open RtenVerif.Iter (rowMajor)

/-- Sequential in-place writes: slot `o` becomes `f (current slot o) y`, for each `(o, y)` in order. -/
def writeLoop {α β : Type} (f : α → β → α) : List (Nat × β) → (Nat → α) → (Nat → α)
  | [], s => s
  | (o, y) :: rest, s => writeLoop f rest (fun i => if i = o then f (s o) y else s i)

/-- `binary_op_in_place(a.view_mut(), b, f)`: the storage after the call. -/
def binaryOpInPlaceView {α β : Type} (f : α → β → α) (a : View) (sa : Nat → α) (b : View) (sb : Nat → β) :
    Nat → α :=
  let fast : Option (List (Nat × β)) :=
    match viewData b sb with
    | some bd =>
      match fastBroadcast (sizes b.dims) (sizes a.dims) with
      | .some c r =>
        if isContiguous a.dims then
          some (List.zip ((List.range (RtenVerif.Arr.numel (sizes a.dims))).map (a.base + ·)) (cycleRepeat c r bd))
        else none
      | _ => none
    | none => none
  match fast with
  | some ws => writeLoop f ws sa
  | none =>
    writeLoop f (List.zip ((rowMajor a.dims).map (a.base + ·)) (bcastViewElems b (sizes a.dims) sb)) sa

end RtenVerif.Layout
