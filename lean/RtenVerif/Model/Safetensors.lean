import RtenVerif.Model.Npy

/-!
# Model of the first-party logic of `rten-serialize/src/safetensors.rs`

The `safetensors` crate (JSON header, offset validation) is external; what this file models is
what rten's wrapper itself computes:

* `SafeElement::DTYPE` and `data_type_from_safetensors` (the dtype maps);
* `SafeElement::to_le_bytes(view)`: the contiguous fast path `cast_slice(view.data())` versus the
  `view.iter()` path, on an explicit strided view (storage + shape + strides);
* `SafeElement::from_le_bytes(bytes)`: `chunks_exact(size).map(from_le_bytes)`, `b != 0` for bool;
* `Tensor::try_from_data`'s acceptance test (`checked_shape_len` of rten-tensor), to show the
  error of the final `try_from_data` in `npy::read_typed` is unreachable.

Elements are bit patterns (`Nat`), bytes are `Nat`s, as in `Model/Npy.lean`. Imports only that model.
-/
namespace RtenVerif.Npy

/-- `safetensors::Dtype` (crate version 0.8). -/
inductive StDtype where
  | BOOL | F4 | F6_E2M3 | F6_E3M2 | U8 | I8 | F8_E5M2 | F8_E4M3 | F8_E8M0 | F8_E4M3FNUZ | F8_E5M2FNUZ
  | I16 | U16 | F16 | BF16 | I32 | U32 | F32 | C64 | F64 | I64 | U64
  deriving DecidableEq, Repr

def StDtype.all : List StDtype :=
  [.BOOL, .F4, .F6_E2M3, .F6_E3M2, .U8, .I8, .F8_E5M2, .F8_E4M3, .F8_E8M0, .F8_E4M3FNUZ, .F8_E5M2FNUZ,
   .I16, .U16, .F16, .BF16, .I32, .U32, .F32, .C64, .F64, .I64, .U64]

def StDtype.name : StDtype → String
  | .BOOL => "BOOL" | .F4 => "F4" | .F6_E2M3 => "F6_E2M3" | .F6_E3M2 => "F6_E3M2" | .U8 => "U8"
  | .I8 => "I8" | .F8_E5M2 => "F8_E5M2" | .F8_E4M3 => "F8_E4M3" | .F8_E8M0 => "F8_E8M0"
  | .F8_E4M3FNUZ => "F8_E4M3FNUZ" | .F8_E5M2FNUZ => "F8_E5M2FNUZ" | .I16 => "I16" | .U16 => "U16"
  | .F16 => "F16" | .BF16 => "BF16" | .I32 => "I32" | .U32 => "U32" | .F32 => "F32" | .C64 => "C64"
  | .F64 => "F64" | .I64 => "I64" | .U64 => "U64"

/-- `<T as SafeElement>::DTYPE`. -/
def stDtypeOf : DataType → StDtype
  | .bool => .BOOL | .i8 => .I8 | .i16 => .I16 | .i32 => .I32 | .i64 => .I64
  | .u8 => .U8 | .u16 => .U16 | .u32 => .U32 | .u64 => .U64 | .f32 => .F32 | .f64 => .F64

/-- `data_type_from_safetensors`. -/
def dataTypeFromSafetensors : StDtype → Option DataType
  | .BOOL => some .bool | .I8 => some .i8 | .I16 => some .i16 | .I32 => some .i32 | .I64 => some .i64
  | .U8 => some .u8 | .U16 => some .u16 | .U32 => some .u32 | .U64 => some .u64
  | .F32 => some .f32 | .F64 => some .f64
  | _ => none

/-! ## strided views -/

/-- A tensor view: element storage (bit patterns), shape, strides (in elements). -/
structure SView where
  storage : List Nat
  shape : List Nat
  strides : List Nat
  deriving Repr

/-- Storage offset of a multi-index. -/
def viewOffset : List Nat → List Nat → Nat
  | s :: ss, i :: is => i * s + viewOffset ss is
  | _, _ => 0

/-- `is_contiguous(shape, strides)` (rten-tensor `overlap.rs`): the loop runs innermost first with
a running `product`; size-1 dimensions are skipped. `some product` = still contiguous. -/
def contigFrom : List Nat → List Nat → Option Nat
  | d :: ds, s :: ss =>
    match contigFrom ds ss with
    | none => none
    | some p => if d = 1 then some p else if s ≠ p then none else some (p * d)
  | _, _ => some 1

def isContig (shape strides : List Nat) : Bool := (contigFrom shape strides).isSome

/-- `Σ (size - 1) * stride`. -/
def maxOffset : List Nat → List Nat → Nat
  | d :: ds, s :: ss => (d - 1) * s + maxOffset ds ss
  | _, _ => 0

/-- `Layout::min_data_len`. -/
def minDataLen (shape strides : List Nat) : Nat :=
  if shape.any (· == 0) then 0 else maxOffset shape strides + 1

/-- Elements in logical (row-major) order, as `view.iter()` yields them (iteration order is C07). -/
def viewIter (v : SView) : List Nat :=
  (List.range (prod v.shape)).map (fun i => v.storage.getD (viewOffset v.strides (unravel v.shape i)) 0)

/-- `view.data()`: `Some(storage[0..min_data_len])` iff the layout is contiguous. -/
def viewData (v : SView) : Option (List Nat) :=
  if isContig v.shape v.strides then some (v.storage.take (minDataLen v.shape v.strides)) else none

/-- `SafeElement::to_le_bytes(view)`: borrow + `cast_slice` when `view.data()` is `Some` (little-
endian target: the in-memory bytes are the LE bytes; `bool` is one byte 0/1), otherwise
`view.iter().flat_map(to_le_bytes)` (`to_vec` + `cast_vec` for bool). -/
def stToLeBytes (dt : DataType) (v : SView) : List Nat :=
  match viewData v with
  | some data => (data.map (encodeElem dt)).flatten
  | none => ((viewIter v).map (encodeElem dt)).flatten

/-- The slow path alone (what the bytes must be for any layout). -/
def stToLeBytesIter (dt : DataType) (v : SView) : List Nat :=
  ((viewIter v).map (encodeElem dt)).flatten

/-- `SafeElement::from_le_bytes(bytes)`: `chunks_exact(size)` drops a trailing partial chunk;
`bool` is `b != 0` per byte. -/
def stFromLeBytes (dt : DataType) (bytes : List Nat) : List Nat :=
  (chunks dt.itemSize (bytes.length / dt.itemSize) bytes).map (decodeElem dt)

/-! ## `Tensor::try_from_data` (rten-tensor) -/

/-- `checked_shape_len`: product of the non-zero dims, each partial product `≤ isize::MAX`;
`0` if some dim is zero. -/
def checkedShapeLenGo : List Nat → Nat → Bool → Option Nat
  | [], len, e => some (if e then 0 else len)
  | d :: ds, len, e =>
    if d = 0 then checkedShapeLenGo ds len true
    else if len * d < isizeLimit then checkedShapeLenGo ds (len * d) e else none

def checkedShapeLen (shape : List Nat) : Option Nat := checkedShapeLenGo shape 1 false

/-- `Tensor::try_from_data(shape, data)` succeeds iff the shape is not too large and the
contiguous layout's `min_data_len` (= the shape's element count) equals `data.len()`. -/
def tryFromDataOk (shape : List Nat) (dataLen : Nat) : Bool :=
  match checkedShapeLen shape with
  | none => false
  | some n => n == dataLen

end RtenVerif.Npy
