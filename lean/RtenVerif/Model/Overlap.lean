/-
Model of `rten-tensor/src/overlap.rs` (`is_contiguous`, `may_have_internal_overlap`).

Ideal (`Nat`) arithmetic.  A layout is a list of `(size, stride)` pairs, outermost
dimension first (the code zips `shape` with `strides`; callers always pass
equally long arrays).  Import-free so it links into the `rtenmodel` driver.
-/
namespace RtenVerif.Overlap

/-- One step of the `is_contiguous` loop, run over the dimensions innermost first.
`none` = `return false`, `some p` = the running `product`. -/
def contigStep (acc : Option Nat) (d : Nat × Nat) : Option Nat :=
  match acc with
  | none => none
  | some product =>
    if d.1 = 1 then some product
    else if d.2 ≠ product then none
    else some (product * d.1)

/-- `is_contiguous(shape, strides)`; `dims` is `zip shape strides`. -/
def isContiguous (dims : List (Nat × Nat)) : Bool :=
  (dims.reverse.foldl contigStep (some 1)).isSome

/-- Lexicographic `≤` on `(stride, size)` pairs: the order `sort_unstable` uses on
`(usize, usize)` tuples. -/
def pairLe (a b : Nat × Nat) : Bool :=
  a.1 < b.1 || (a.1 == b.1 && a.2 ≤ b.2)

/-- The "steps over" loop: `some max_offset` if no dimension overlaps the span of
the earlier ones, `none` when the code returns `true` (may overlap).
Entries are `(stride, size)`. -/
def stepsOver : Nat → List (Nat × Nat) → Option Nat
  | m, [] => some m
  | m, (stride, size) :: rest =>
    if stride ≤ m then none else stepsOver (m + (size - 1) * stride) rest

/-- Insert into a list sorted by `le` (structural, so the kernel can evaluate it). -/
def insertBy {α : Type} (le : α → α → Bool) (x : α) : List α → List α
  | [] => [x]
  | y :: ys => if le x y then x :: y :: ys else y :: insertBy le x ys

/-- Insertion sort.  `sort_unstable` on `(usize, usize)` tuples sorts by a total order in
which equal keys are identical values, so any correct sort gives the same list. -/
def isort {α : Type} (le : α → α → Bool) : List α → List α
  | [] => []
  | x :: xs => insertBy le x (isort le xs)

/-- `(stride, size)` pairs of the dimensions whose size is not 1, sorted. -/
def sortedStrideShape (dims : List (Nat × Nat)) : List (Nat × Nat) :=
  isort pairLe ((dims.filter (fun d => d.1 != 1)).map (fun d => (d.2, d.1)))

/-- `may_have_internal_overlap(shape, strides)`. -/
def mayOverlap (dims : List (Nat × Nat)) : Bool :=
  if dims.any (fun d => d.1 == 0) then false
  else if isContiguous dims then false
  else (stepsOver 0 (sortedStrideShape dims)).isNone

/-- Offset of an index vector: `Σ idx_k * stride_k` (`dims` zipped with `idx`). -/
def offset : List (Nat × Nat) → List Nat → Nat
  | (_, stride) :: ds, i :: is => i * stride + offset ds is
  | _, _ => 0

/-- All valid indices of a shape, in row-major order. -/
def indices : List (Nat × Nat) → List (List Nat)
  | [] => [[]]
  | (size, _) :: ds => (List.range size).flatMap (fun i => (indices ds).map (fun is => i :: is))

/-- Brute-force injectivity of `offset` on all valid indices (used by the driver as an
independent oracle; exponential, only for small shapes). -/
def bruteInjective (dims : List (Nat × Nat)) : Bool :=
  let offs := (indices dims).map (offset dims)
  offs.length == offs.eraseDups.length

end RtenVerif.Overlap
