/-
C14: `copy_blocked` (rten-tensor/src/copy.rs) — the tiled transpose-friendly 2-D copy behind
`copy_into_slice` / `to_contiguous` / `to_tensor` for non-contiguous sources.

`range_chunks` / `range_chunks_exact` (rten-base/src/iter/range.rs) are modelled as lists of
`(start, end)` sub-ranges; the copy is modelled as the *list of (row, col) visits* in the order
of the code's loop nest, each visit writing `dest[row, col] := src[row, col]` (the transposing
tile kernel writes the same index set: it reads `src` column-wise into a register tile and
writes `dest` row-wise).  The destination is the contiguous `rows × cols` slice.
Import-free.
-/
namespace RtenVerif.BlockedCopy

/-- `range_chunks(s..e, c)`: consecutive sub-ranges of length `c`, the last one shorter. -/
def rangeChunks (c : Nat) : Nat → Nat → Nat → List (Nat × Nat)
  | 0, _, _ => []
  | fuel + 1, s, e => if s < e then (s, min (s + c) e) :: rangeChunks c fuel (min (s + c) e) e else []

/-- `range_chunks_exact(s..e, c)`: full chunks, and the remainder range. -/
def rangeChunksExact (c : Nat) : Nat → Nat → Nat → List (Nat × Nat) × (Nat × Nat)
  | 0, s, e => ([], (s, e))
  | fuel + 1, s, e =>
    if e - s ≥ c then
      let r := rangeChunksExact c fuel (s + c) e
      ((s, s + c) :: r.1, r.2)
    else ([], (s, e))

def rangeList (p : Nat × Nat) : List Nat := (List.range (p.2 - p.1)).map (p.1 + ·)

/-- Visits of one (row block, col block) pair. -/
def blockVisits (T : Nat) (rb cb : Nat × Nat) : List (Nat × Nat) :=
  let rt := rangeChunksExact T (rb.2 - rb.1) rb.1 rb.2
  (rt.1.flatMap fun rtile =>
    let ct := rangeChunksExact T (cb.2 - cb.1) cb.1 cb.2
    -- full tiles
    (ct.1.flatMap fun ctile =>
      (List.range T).flatMap fun y => (List.range T).map fun x => (rtile.1 + y, ctile.1 + x)) ++
    -- full height, narrow edge
    ((List.range T).flatMap fun y => (rangeList ct.2).map fun x => (rtile.1 + y, x))) ++
  -- short edge rows
  ((rangeList rt.2).flatMap fun y => (rangeList cb).map fun x => (y, x))

/-- All visits of `copy_blocked` for a `rows × cols` matrix, block size `B`, tile size `T`. -/
def blockedVisits (rows cols B T : Nat) : List (Nat × Nat) :=
  (rangeChunks B rows 0 rows).flatMap fun rb =>
    (rangeChunks B cols 0 cols).flatMap fun cb => blockVisits T rb cb

/-- The copy: every visit writes `src row col` to slot `row * cols + col` of the destination. -/
def blockedCopy {α : Type} (rows cols B T : Nat) (src : Nat → Nat → α) (dest0 : List α) : List α :=
  (blockedVisits rows cols B T).foldl (fun d v => d.set (v.1 * cols + v.2) (src v.1 v.2)) dest0

end RtenVerif.BlockedCopy
