import RtenVerif.Model.Ctc

/-!
Carriers used by the C39 driver besides `natOps` (core Lean only):

* `V` / `vOps`: an exact `Nat` weight paired with a hash of the expression that produced it.
  The hash is a *robustness shadow*: it never influences a comparison of the decoder
  (`gt`, `argGt`, `sortGe`, `isZero` look at `val` only) and `V.val` is a homomorphism from
  `vOps` to `natOps` (`Lemmas/CtcHom.lean`), so the driver's answers are exactly the answers
  of the `natOps` model that T3 / F / S4 are about.
* `NN` / `nanOps`: `Nat` weights plus one NaN element, with the comparison semantics of
  `cmp_nan_greater` (arg-max); used for the greedy decoder on matrices containing NaN.
-/
namespace RtenVerif.Ctc

/-- Exact value with an expression hash. -/
structure V where
  val : Nat
  h : UInt64

def mix (tag a b : UInt64) : UInt64 :=
  let x := (a ^^^ (b * 0x9E3779B97F4A7C15) ^^^ (tag * 0xD6E8FEB86659FD93)) * 0xBF58476D1CE4E5B9
  (x ^^^ (x >>> 29)) * 0x94D049BB133111EB + 0x2545F4914F6CDD1D

def vZero : V := ⟨0, 0⟩
def vOne : V := ⟨1, 0x1111⟩
def leaf (w : Nat) : V := if w = 0 then vZero else ⟨w, mix 7 (UInt64.ofNat w) 3⟩

/-- `log_sum_exp` ignores `-inf` operands exactly; `0. + x = x` exactly (the `one` shortcut
is only taken for the genuine `vOne`: value 1 *and* its hash). -/
def vOps : Ops V where
  zero := vZero
  one := vOne
  add a b := if a.val = 0 then b else if b.val = 0 then a else ⟨a.val + b.val, mix 1 a.h b.h⟩
  mul a b :=
    if a.val = 0 ∨ b.val = 0 then vZero
    else if a.val = 1 ∧ a.h = vOne.h then b else if b.val = 1 ∧ b.h = vOne.h then a
    else ⟨a.val * b.val, mix 2 a.h b.h⟩
  gt a b := decide (b.val < a.val)
  argGt a b := decide (b.val < a.val)
  sortGe a b := decide (b.val ≤ a.val)
  isZero a := a.val == 0

/-- `Nat` weights plus NaN (`none`). -/
abbrev NN := Option Nat

/-- Arithmetic and `cmp_nan_greater` on weights-or-NaN: NaN is absorbing for `+` (log space)
and `log_sum_exp`; `cmp_nan_greater(a, b) == Greater` iff `a` is NaN, or both are numbers and
`a > b`.  (`gt`, `sortGe`, `isZero` as for `f32`: comparisons with NaN are false; the sort
places NaN by `total_cmp`, whose result depends on the NaN's sign bit — not modelled, the
beam decoder is not driven through this carrier.) -/
def nanOps : Ops NN where
  zero := some 0
  one := some 1
  add a b := match a, b with | some x, some y => some (x + y) | _, _ => none
  mul a b := match a, b with | some x, some y => some (x * y) | _, _ => none
  gt a b := match a, b with | some x, some y => decide (y < x) | _, _ => false
  argGt a b := match a, b with
    | some x, some y => decide (y < x)
    | none, _ => true
    | some _, none => false
  sortGe a b := match a, b with | some x, some y => decide (y ≤ x) | _, _ => true
  isZero a := a == some 0

end RtenVerif.Ctc
