/-!
# Model of `rten-shape-inference/src/sym_expr.rs` (property C11)

Executable, import-free model of `SymExpr`: `eval`, `range`, `is_positive`,
`PartialEq` (equality modulo commutativity, symbols compared by name),
`canonicalize`, `simplify_canonical`, `remove_common_factors`, `gcd`, `div_ceil`,
`Debug` printing.

Modelling decisions
* The eight binary constructors are one constructor `bin (o : Op)`; every `match` arm of
  the Rust code is kept, keyed by `o`.
* Symbol names are `Nat` ids; the harness names symbol `k` `"s<k>"` with `k ≤ 9`, so the
  byte-wise `str::cmp` used by `cmp_values_first` is `<` on ids.  `Symbol.synthetic` is
  not observable by any modelled function and is dropped.
* `i32` arithmetic is a parameter (`Arith`): `ideal` (unbounded `Int`), `checked`
  (a result outside `i32` is a panic — the debug / `overflow-checks` build) and `wrap`
  (two's complement wrap-around of `+ - * unary-`, panic for `MIN / -1` — the release
  build).  A panic is the value `none` / `EvalErr.panic`.
* `canonicalize` re-enters itself on a freshly built term in the `Sub` arm, so the model
  is fuel-recursive (`canonF`); `canonicalize e` supplies `3 * size e + 3`.  All soundness
  theorems hold for every fuel value; adequacy of the fuel is part of the correspondence
  check (an exhausted fuel returns the term unchanged, which the comparison with the real
  output would expose).
* `Vec::sort_by` (stable) with the total preorder `cmp_values_first` is modelled as a
  stable insertion sort.
-/
namespace RtenVerif.Sym

inductive Op where
  | add | sub | mul | div | divCeil | max | min | broadcast
  deriving DecidableEq, Repr

inductive SymExpr where
  | value (x : Int)
  | var (name : Nat) (positive : Bool)
  | neg (a : SymExpr)
  | bin (o : Op) (a b : SymExpr)
  deriving DecidableEq, Repr

def I32MIN : Int := -2147483648
def I32MAX : Int := 2147483647

def inI32 (x : Int) : Bool := decide (I32MIN ≤ x) && decide (x ≤ I32MAX)

/-- Two's complement reduction into `i32`. -/
def wrap32 (x : Int) : Int := (x + 2147483648) % 4294967296 - 2147483648

/-- Machine arithmetic: how the result of `+ - * unary-` (`norm`) and of `/`, `div_ceil`
(`normDiv`) is delivered; `none` is a panic. -/
structure Arith where
  norm : Int → Option Int
  normDiv : Int → Option Int

def chk (x : Int) : Option Int := if inI32 x then some x else none

def Arith.ideal : Arith := ⟨some, some⟩
def Arith.checked : Arith := ⟨chk, chk⟩
def Arith.wrap : Arith := ⟨fun x => some (wrap32 x), chk⟩

/-- `div_ceil(lhs, rhs)` exactly as written in the code (`d`, `r`, sign correction);
`rhs ≠ 0` at every call site. -/
def divCeilI (x y : Int) : Int :=
  let d := Int.tdiv x y
  let r := Int.tmod x y
  -- `1 + ((lhs ^ rhs) >> 31)`: 1 when the signs agree, 0 when they differ
  let correction : Int := if decide (x < 0) = decide (y < 0) then 1 else 0
  if r ≠ 0 then d + correction else d

/-- `gcd(a, b)`: Euclid on `unsigned_abs`, `None` when the result exceeds `i32::MAX`. -/
def gcdI (a b : Int) : Option Int :=
  let g : Int := (Nat.gcd a.natAbs b.natAbs : Nat)
  if g ≤ I32MAX then some g else none

/-! ## eval -/

inductive EvalErr where
  | missingSymbol | divisionByZero | panic
  deriving DecidableEq, Repr

instance : DecidableEq (Except EvalErr Int) := fun a b =>
  match a, b with
  | .ok x, .ok y => if h : x = y then isTrue (by rw [h]) else isFalse (fun h' => by cases h'; exact h rfl)
  | .error x, .error y =>
    if h : x = y then isTrue (by rw [h]) else isFalse (fun h' => by cases h'; exact h rfl)
  | .ok _, .error _ => isFalse (fun h => by cases h)
  | .error _, .ok _ => isFalse (fun h => by cases h)

abbrev Env := Nat → Option Int

def lift (r : Option Int) : Except EvalErr Int :=
  match r with
  | some v => .ok v
  | none => .error .panic

/-- `Broadcast` in `eval`: a size of 1 takes the other size (including 0), else `max`. -/
def bcastI (x y : Int) : Int := if x = 1 then y else if y = 1 then x else if x ≤ y then y else x

def evalOp (A : Arith) : Op → Int → Int → Except EvalErr Int
  | .add, x, y => lift (A.norm (x + y))
  | .sub, x, y => lift (A.norm (x - y))
  | .mul, x, y => lift (A.norm (x * y))
  | .div, x, y => if y = 0 then .error .divisionByZero else lift (A.normDiv (Int.tdiv x y))
  | .divCeil, x, y => if y = 0 then .error .divisionByZero else lift (A.normDiv (divCeilI x y))
  | .max, x, y => .ok (if x ≤ y then y else x)
  | .min, x, y => .ok (if x ≤ y then x else y)
  | .broadcast, x, y => .ok (bcastI x y)

def eval (A : Arith) (σ : Env) : SymExpr → Except EvalErr Int
  | .value x => .ok x
  | .var n _ =>
    match σ n with
    | some v => .ok v
    | none => .error .missingSymbol
  | .neg e =>
    match eval A σ e with
    | .ok x => lift (A.norm (-x))
    | .error er => .error er
  | .bin o a b =>
    match eval A σ a with
    | .error er => .error er
    | .ok x =>
      match eval A σ b with
      | .error er => .error er
      | .ok y => evalOp A o x y

/-! ## range / is_positive -/

def isPositive : SymExpr → Bool
  | .value x => decide (0 ≤ x)
  | .var _ p => p
  | .neg _ => false
  | .bin .sub _ _ => false
  | .bin .max a b => isPositive a || isPositive b
  | .bin .broadcast _ _ => true
  | .bin _ a b => isPositive a && isPositive b   -- Add, Mul, Div, DivCeil, Min

def imin (x y : Int) : Int := if x ≤ y then x else y
def imax (x y : Int) : Int := if x ≤ y then y else x

/-- `i32::saturating_*`: clamp the exact result into `i32`. -/
def sat (x : Int) : Int := if x < I32MIN then I32MIN else if I32MAX < x then I32MAX else x

def range : SymExpr → Int × Int
  | .value x => (x, x)
  | .var _ p => if p then (0, I32MAX) else (I32MIN, I32MAX)
  | .neg x =>
    let r := range x
    (sat (-r.2), sat (-r.1))
  | .bin .sub _ _ => (I32MIN, I32MAX)
  | .bin .broadcast a b =>
    let ra := range a
    let rb := range b
    (imax (imin ra.1 rb.1) 0, imax (imax ra.2 rb.2) 0)
  | .bin .add a b =>
    let ra := range a
    let rb := range b
    (sat (ra.1 + rb.1), sat (ra.2 + rb.2))
  | .bin .mul a b =>
    let ra := range a
    let rb := range b
    if 0 ≤ ra.1 ∧ 0 ≤ rb.1 then (sat (ra.1 * rb.1), sat (ra.2 * rb.2)) else (I32MIN, I32MAX)
  | .bin .div a b | .bin .divCeil a b =>
    let ra := range a
    let rb := range b
    if 0 ≤ rb.1 then (imin ra.1 0, imax ra.2 0)
    else (imin ra.1 (sat (-ra.2)), imax ra.2 (sat (-ra.1)))
  | .bin .max a b | .bin .min a b =>
    let ra := range a
    let rb := range b
    (imin ra.1 rb.1, imax ra.2 rb.2)

/-! ## PartialEq -/

def Op.comm : Op → Bool
  | .add | .mul | .max | .min | .broadcast => true
  | .sub | .div | .divCeil => false

/-- `impl PartialEq for SymExpr`. -/
def beq : SymExpr → SymExpr → Bool
  | .value x, .value y => x == y
  | .var n _, .var m _ => n == m
  | .neg a, .neg b => beq a b
  | .bin o a b, .bin o' c d =>
    o == o' &&
      (if o.comm then (beq a c && beq b d) || (beq a d && beq b c)
       else beq a c && beq b d)
  | _, _ => false

/-! ## canonicalize -/

def isValue : SymExpr → Bool
  | .value _ => true
  | _ => false

/-- `SymExpr::name`. -/
def name : SymExpr → Option Nat
  | .value _ => none
  | .var n _ => some n
  | .neg x => name x
  | .bin _ _ _ => none

/-- `cmp_values_first a b == Ordering::Less`. -/
def cmpLt (a b : SymExpr) : Bool :=
  match isValue a, isValue b with
  | true, false => true
  | false, true => false
  | _, _ =>
    match name a, name b with
    | some x, some y => decide (x < y)
    | some _, none => true
    | none, some _ => false
    | none, none => false

/-- Stable insertion: `x` (which preceded every element of the sorted `ys`) goes in front
of the first element that is not strictly less than it. -/
def insertS (x : SymExpr) : List SymExpr → List SymExpr
  | [] => [x]
  | y :: ys => if cmpLt y x then y :: insertS x ys else x :: y :: ys

def isort : List SymExpr → List SymExpr
  | [] => []
  | x :: xs => insertS x (isort xs)

/-- The operand collection of `collect_terms`, before the leaves are canonicalised. -/
def flatten (o : Op) : SymExpr → List SymExpr
  | .bin o' a b => if o' = o then flatten o a ++ flatten o b else [.bin o' a b]
  | e => [e]

/-- `remove_adjacent_equal_terms`. -/
def removeAdjEq : List SymExpr → List SymExpr
  | [] => []
  | a :: t =>
    match t with
    | [] => [a]
    | b :: _ => if beq a b then removeAdjEq t else a :: removeAdjEq t

/-- `is_negation_of`. -/
def isNegOf (x y : SymExpr) : Bool :=
  (match y with
   | .neg y' => beq x y'
   | _ => false) ||
  (match x with
   | .neg x' => beq x' y
   | _ => false)

/-- `remove_adjacent_opposite_terms` (fuel = list length; each step consumes ≥ 1 element). -/
def removeAdjOppF : Nat → List SymExpr → List SymExpr
  | 0, l => l
  | n + 1, a :: b :: rest =>
    if isNegOf a b then removeAdjOppF n rest else a :: removeAdjOppF n (b :: rest)
  | _ + 1, l => l

def removeAdjOpp (l : List SymExpr) : List SymExpr := removeAdjOppF l.length l

/-- `terms.into_iter().reduce(f).unwrap_or(default)` with `f = |acc, x| Bin(o, acc, x)`. -/
def reduceOp (o : Op) (dflt : SymExpr) : List SymExpr → SymExpr
  | [] => dflt
  | t :: ts => ts.foldl (fun acc x => .bin o acc x) t

def size : SymExpr → Nat
  | .value _ => 1
  | .var _ _ => 1
  | .neg a => 1 + size a
  | .bin _ a b => 1 + size a + size b

def canonF : Nat → SymExpr → SymExpr
  | 0, e => e
  | _ + 1, .value x => .value x
  | _ + 1, .var n p => .var n p
  | n + 1, .neg e =>
    match canonF n e with
    | .value x => if x ≠ I32MIN then .value (-x) else .neg (.value x)
    | e' => .neg e'
  | n + 1, .bin .mul a b =>
    reduceOp .mul (.value 1) (isort ((flatten .mul (.bin .mul a b)).map (canonF n)))
  | n + 1, .bin .add a b =>
    reduceOp .add (.value 0) (removeAdjOpp (isort ((flatten .add (.bin .add a b)).map (canonF n))))
  | n + 1, .bin .max a b =>
    reduceOp .max (.value I32MIN) (removeAdjEq (isort ((flatten .max (.bin .max a b)).map (canonF n))))
  | n + 1, .bin .min a b =>
    reduceOp .min (.value I32MAX) (removeAdjEq (isort ((flatten .min (.bin .min a b)).map (canonF n))))
  | n + 1, .bin .broadcast a b =>
    reduceOp .broadcast (.value 1)
      (removeAdjEq (isort ((flatten .broadcast (.bin .broadcast a b)).map (canonF n))))
  | n + 1, .bin .sub a b => canonF n (.bin .add (canonF n a) (.neg (canonF n b)))
  | n + 1, .bin .div a b => .bin .div (canonF n a) (canonF n b)
  | n + 1, .bin .divCeil a b => .bin .divCeil (canonF n a) (canonF n b)

def canonicalize (e : SymExpr) : SymExpr := canonF (3 * size e + 3) e

/-! ## remove_common_factors -/

/-- Remove the first element `t` with `beq x t`; `none` when there is none
(`position` + `remove`). -/
def removeFirst (x : SymExpr) : List SymExpr → Option (List SymExpr)
  | [] => none
  | t :: ts =>
    if beq x t then some ts
    else
      match removeFirst x ts with
      | some ts' => some (t :: ts')
      | none => none

/-- The cancellation loop. -/
def cancel : List SymExpr → List SymExpr → List SymExpr × List SymExpr
  | [], rt => ([], rt)
  | t :: lt, rt =>
    match removeFirst t rt with
    | some rt' => cancel lt rt'
    | none => let p := cancel lt rt; (t :: p.1, p.2)

/-- `const_term`: the first `Value` of the list. -/
def firstVal : List SymExpr → Option Int
  | [] => none
  | .value x :: _ => some x
  | _ :: ts => firstVal ts

/-- Replace the first `Value` of the list. -/
def setFirstVal (v : Int) : List SymExpr → List SymExpr
  | [] => []
  | .value _ :: ts => .value v :: ts
  | t :: ts => t :: setFirstVal v ts

def rcf (l r : SymExpr) : SymExpr × SymExpr :=
  let p := cancel (flatten .mul l) (flatten .mul r)
  let q : List SymExpr × List SymExpr :=
    match firstVal p.1, firstVal p.2 with
    | some lc, some rc =>
      match gcdI lc rc with
      | some g =>
        if 1 < g ∧ rc ≠ 0 then (setFirstVal (Int.tdiv lc g) p.1, setFirstVal (Int.tdiv rc g) p.2)
        else p
      | none => p
    | _, _ => p
  (reduceOp .mul (.value 1) q.1, reduceOp .mul (.value 1) q.2)

/-! ## simplify_canonical -/

def isVal (e : SymExpr) (k : Int) : Bool :=
  match e with
  | .value x => x == k
  | _ => false

def mkVal (r : Option Int) : Option SymExpr :=
  match r with
  | some v => some (.value v)
  | none => none

def stepAdd (A : Arith) (l r : SymExpr) : Option SymExpr :=
  if isVal l 0 then some r
  else if isVal r 0 then some l
  else
    match l, r with
    | .value x, .value y => mkVal (A.norm (x + y))
    | l, .neg r' => if beq l r' then some (.value 0) else some (.bin .add l (.neg r'))
    | l, r => some (.bin .add l r)

def stepSub (A : Arith) (l r : SymExpr) : Option SymExpr :=
  if isVal r 0 then some l
  else
    match l, r with
    | .value x, .value y => mkVal (A.norm (x - y))
    | l, r => if beq l r then some (.value 0) else some (.bin .sub l r)

def stepMul (A : Arith) (l r : SymExpr) : Option SymExpr :=
  if isVal l 1 then some r
  else if isVal r 1 then some l
  else
    match l, r with
    | .value x, .value y => mkVal (A.norm (x * y))
    | l, r => some (.bin .mul l r)

/-- The arms of the `Div` case after `remove_common_factors`. -/
def stepDiv (A : Arith) (l r : SymExpr) : Option SymExpr :=
  if isVal r 1 then some l
  else
    match l, r with
    | .value x, .value y =>
      if y ≠ 0 then mkVal (A.normDiv (Int.tdiv x y)) else some (.bin .div (.value x) (.value y))
    | .bin .div l' c1, c2 =>
      match c1, c2 with
      | .value v1, .value v2 =>
        if v1 ≠ 0 ∧ v2 ≠ 0 then
          match chk (v1 * v2) with                        -- `checked_mul`
          | some v => some (.bin .div l' (.value v))
          | none => some (.bin .div (.bin .div l' (.value v1)) (.value v2))
        else some (.bin .div l' (.bin .mul (.value v1) (.value v2)))
      | c1, c2 => some (.bin .div l' (.bin .mul c1 c2))
    | l, r => some (.bin .div l r)

def stepDivCeil (A : Arith) (l r : SymExpr) : Option SymExpr :=
  if isVal r 1 then some l
  else
    match l, r with
    | .value x, .value y =>
      if y ≠ 0 then mkVal (A.normDiv (divCeilI x y))
      else if x = y then some (.value 1)           -- `lhs == rhs` arm (only `0.div_ceil(0)`)
      else some (.bin .divCeil (.value x) (.value y))
    | l, r =>
      if beq l r then some (.value 1)
      else
        match l with
        | .bin .divCeil l' c1 =>
          match c1, r with
          | .value v1, .value v2 =>
            if 0 < v1 ∧ 0 < v2 then
              match chk (v1 * v2) with                    -- `checked_mul`
              | some v => some (.bin .divCeil l' (.value v))
              | none => some (.bin .divCeil (.bin .divCeil l' (.value v1)) (.value v2))
            else some (.bin .divCeil l' (.bin .mul (.value v1) (.value v2)))
          | c1, c2 => some (.bin .divCeil l' (.bin .mul c1 c2))
        | l => some (.bin .divCeil l r)

def stepMax (l r : SymExpr) : Option SymExpr :=
  if beq l r then some l
  else
    match l, r with
    | .value x, .value y => some (.value (if x ≤ y then y else x))
    | l, r => some (.bin .max l r)

def stepMin (l r : SymExpr) : Option SymExpr :=
  if beq l r then some l
  else
    match l, r with
    | .value x, .value y => some (.value (if x ≤ y then x else y))
    | l, r => some (.bin .min l r)

/-- The seven arms of the `Broadcast` case, in order. -/
def stepBroadcast (l r : SymExpr) : Option SymExpr :=
  match l, r with
  | .value x, .value y =>
    if x = y then some (.value x)          -- arm 1
    else if x = 1 then some (.value y)     -- arm 2
    else if y = 1 then some (.value x)     -- arm 3
    else some (.value x)                   -- arm 4 (x ≠ 1)
  | .value x, r => if x = 1 then some r else some (.value x)      -- arms 2, 4
  | l, .value y => if y = 1 then some l else some (.value y)      -- arms 3, 5
  | l, r => if beq l r then some l else some (.bin .broadcast l r) -- arms 6, 7

def stepBin (A : Arith) (o : Op) (l r : SymExpr) : Option SymExpr :=
  match o with
  | .add => stepAdd A l r
  | .sub => stepSub A l r
  | .mul => stepMul A l r
  | .div => let p := rcf l r; stepDiv A p.1 p.2
  | .divCeil => stepDivCeil A l r
  | .max => stepMax l r
  | .min => stepMin l r
  | .broadcast => stepBroadcast l r

def stepNeg (A : Arith) (e : SymExpr) : Option SymExpr :=
  match e with
  | .value x => mkVal (A.norm (-x))
  | .neg inner => some inner
  | e => some (.neg e)

/-- `simplify_canonical`; `none` = arithmetic panic while folding constants. -/
def simpC (A : Arith) : SymExpr → Option SymExpr
  | .value x => some (.value x)
  | .var n p => some (.var n p)
  | .neg e =>
    match simpC A e with
    | some e' => stepNeg A e'
    | none => none
  | .bin o a b =>
    match simpC A a with
    | none => none
    | some l =>
      match simpC A b with
      | none => none
      | some r => stepBin A o l r

/-- `SymExpr::simplify`. -/
def simplify (A : Arith) (e : SymExpr) : Option SymExpr := simpC A (canonicalize e)

/-! ## Debug printing -/

def Op.prec : Op → Nat
  | .max | .min | .broadcast => 4
  | .div | .divCeil => 3
  | .mul => 2
  | .add => 1
  | .sub => 0

def prec : SymExpr → Nat
  | .value _ | .var _ _ => 4
  | .neg _ => 0
  | .bin o _ _ => o.prec

def dbg : SymExpr → String
  | .value x => toString x
  | .var n p => "\"s" ++ toString n ++ "\"" ++ (if p then "u" else "i")
  | .neg a => "-" ++ dbg a
  | .bin o a b =>
    let par (c : SymExpr) (s : String) : String := if prec c < o.prec then "(" ++ s ++ ")" else s
    let infx (sym : String) : String := par a (dbg a) ++ " " ++ sym ++ " " ++ par b (dbg b)
    let call (f : String) : String := f ++ "(" ++ dbg a ++ ", " ++ dbg b ++ ")"
    match o with
    | .add => infx "+"
    | .sub => infx "-"
    | .mul => infx "*"
    | .div => infx "/"
    | .divCeil => call "ceil_div"
    | .max => call "max"
    | .min => call "min"
    | .broadcast => call "broadcast"

end RtenVerif.Sym
