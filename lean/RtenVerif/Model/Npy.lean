/-!
# Model of `rten-serialize/src/npy.rs` (+ `npy/dtype.rs`, name handling of `npz.rs`)

Byte-level model.  A byte is a `Nat` (the driver only feeds values `< 256`; the parser model is
total on every `List Nat`).  A parser takes the *remaining input* and returns the value together
with the new remaining input, mirroring `HeaderParser { bytes, pos }` (`rest = bytes[pos..]`).

Loops of the Rust code (`loop { … }` in `parse_header` / `parse_shape`) are modelled with fuel;
`Err.fuel` is a model-only error that `Lemmas/Npy.lean` proves unreachable.

Import-free (core Lean only) so that it links into the native driver `model_C34`.
-/
namespace RtenVerif.Npy

/-- Error classes (the harness maps `io::Error` kind + message onto these names). -/
inductive Err where
  | expect (c : Nat)      -- "expected `c` in npy header"
  | unterminated          -- "unterminated string in npy header"
  | badBool               -- "expected `True` or `False` in npy header"
  | noInt                 -- "expected integer in npy header"
  | intRange              -- "integer in npy header is out of range"
  | badKey                -- "unexpected npy header key"
  | badDescr              -- "invalid npy dtype"
  | missingDescr | missingFortran | missingShape
  | magic                 -- "not an npy file"
  | version               -- "unsupported npy version"
  | eof                   -- `read_exact` hit the end of the input (UnexpectedEof)
  | utf8                  -- "npy header is not valid UTF-8"
  | unsupported           -- "unsupported npy dtype"
  | countOverflow         -- "array element count overflows"
  | bytesOverflow         -- "array size in bytes overflows"
  | truncated             -- "array data is truncated"
  | headerTooLarge        -- writer: "npy header is too large to encode"
  | fuel                  -- model only: loop ran out of fuel (proved unreachable)
  deriving DecidableEq, Repr

def Err.name : Err → String
  | .expect c => "expect-" ++ toString c
  | .unterminated => "unterminated"
  | .badBool => "bool"
  | .noInt => "no-int"
  | .intRange => "int-range"
  | .badKey => "key"
  | .badDescr => "descr"
  | .missingDescr => "missing-descr"
  | .missingFortran => "missing-fortran"
  | .missingShape => "missing-shape"
  | .magic => "magic"
  | .version => "version"
  | .eof => "eof"
  | .utf8 => "utf8"
  | .unsupported => "unsupported"
  | .countOverflow => "count-overflow"
  | .bytesOverflow => "bytes-overflow"
  | .truncated => "truncated"
  | .headerTooLarge => "header-too-large"
  | .fuel => "MODEL-OUT-OF-FUEL"

/-- `usize::MAX + 1` on the 64-bit targets the harness runs on. -/
def usizeLimit : Nat := 2 ^ 64

/-! ## Element types (`npy/dtype.rs`, `value.rs`) -/

inductive DataType where
  | bool | i8 | i16 | i32 | i64 | u8 | u16 | u32 | u64 | f32 | f64
  deriving DecidableEq, Repr

def DataType.all : List DataType :=
  [.bool, .i8, .i16, .i32, .i64, .u8, .u16, .u32, .u64, .f32, .f64]

/-- `Element::ITEM_SIZE`. -/
def DataType.itemSize : DataType → Nat
  | .bool | .i8 | .u8 => 1
  | .i16 | .u16 => 2
  | .i32 | .u32 | .f32 => 4
  | .i64 | .u64 | .f64 => 8

/-- Type-kind character of `ElementKind::as_char` (`b`,`i`,`u`,`f`). -/
def DataType.kind : DataType → Nat
  | .bool => 98
  | .i8 | .i16 | .i32 | .i64 => 105
  | .u8 | .u16 | .u32 | .u64 => 117
  | .f32 | .f64 => 102

/-- `Element::DESCR`: `|` for one-byte types, `<` otherwise, kind char, size digit. -/
def DataType.descr (dt : DataType) : List Nat :=
  [if dt.itemSize = 1 then 124 else 60, dt.kind, 48 + dt.itemSize]

def DataType.name : DataType → String
  | .bool => "bool" | .i8 => "i8" | .i16 => "i16" | .i32 => "i32" | .i64 => "i64"
  | .u8 => "u8" | .u16 => "u16" | .u32 => "u32" | .u64 => "u64" | .f32 => "f32" | .f64 => "f64"

/-- Parsed `descr` (`struct DType`). -/
structure DType where
  bigEndian : Bool
  kind : Nat
  itemSize : Nat
  deriving DecidableEq, Repr

/-- `data_type_from_dtype`. -/
def dataTypeOf (d : DType) : Option DataType :=
  if d.kind = 98 then (if d.itemSize = 1 then some .bool else none)
  else if d.kind = 105 then
    (if d.itemSize = 1 then some .i8 else if d.itemSize = 2 then some .i16
     else if d.itemSize = 4 then some .i32 else if d.itemSize = 8 then some .i64 else none)
  else if d.kind = 117 then
    (if d.itemSize = 1 then some .u8 else if d.itemSize = 2 then some .u16
     else if d.itemSize = 4 then some .u32 else if d.itemSize = 8 then some .u64 else none)
  else if d.kind = 102 then
    (if d.itemSize = 4 then some .f32 else if d.itemSize = 8 then some .f64 else none)
  else none

/-! ## Decimal printing (`usize::to_string`) and parsing (`str::parse::<usize>`) -/

def isDigit (b : Nat) : Bool := 48 ≤ b && b ≤ 57

/-- Decimal digits, least significant first, as ASCII bytes. `fuel > n` always suffices. -/
def decRev : Nat → Nat → List Nat
  | 0, _ => []
  | f + 1, n => (48 + n % 10) :: (if n / 10 = 0 then [] else decRev f (n / 10))

/-- `usize::to_string`. -/
def natDigits (n : Nat) : List Nat := (decRev (n + 1) n).reverse

/-- Value of a most-significant-first digit string. -/
def digitsVal (ds : List Nat) : Nat := ds.foldl (fun a d => 10 * a + (d - 48)) 0

/-- Longest prefix of ASCII digits and the rest. -/
def spanDigits : List Nat → List Nat × List Nat
  | [] => ([], [])
  | b :: rest =>
    if isDigit b then
      let r := spanDigits rest
      (b :: r.1, r.2)
    else ([], b :: rest)

/-! ## `HeaderParser` -/

/-- `u8::is_ascii_whitespace`: space, `\t`, `\n`, form feed, `\r` (not vertical tab). -/
def isWs (b : Nat) : Bool := b = 32 || b = 9 || b = 10 || b = 12 || b = 13

/-- `skip_whitespace`. -/
def skipWs : List Nat → List Nat
  | [] => []
  | b :: rest => if isWs b then skipWs rest else b :: rest

/-- `consume(byte)` used as "optional": the rest after dropping `c` if it is next. -/
def consumeOpt (c : Nat) : List Nat → List Nat
  | [] => []
  | b :: rest => if b = c then rest else b :: rest

/-- `expect(byte)`. -/
def expect (c : Nat) : List Nat → Except Err (List Nat)
  | [] => .error (.expect c)
  | b :: rest => if b = c then .ok rest else .error (.expect c)

/-- Body of the `while let Some(byte) = self.peek()` loop of `parse_string`: the bytes up to
the next `'` and the input after it. -/
def scanQuote : List Nat → Option (List Nat × List Nat)
  | [] => none
  | b :: rest =>
    if b = 39 then some ([], rest)
    else match scanQuote rest with
      | some (s, r) => some (b :: s, r)
      | none => none

/-- `parse_string`. (The inner `from_utf8` of the Rust code cannot fail: the header was already
validated as UTF-8 and the slice is delimited by ASCII quotes.) -/
def parseString (inp : List Nat) : Except Err (List Nat × List Nat) :=
  match expect 39 inp with
  | .error e => .error e
  | .ok r =>
    match scanQuote r with
    | some x => .ok x
    | none => .error .unterminated

def startsWith : List Nat → List Nat → Bool
  | _, [] => true
  | [], _ :: _ => false
  | a :: as, b :: bs => a = b && startsWith as bs

def bTrue : List Nat := [84, 114, 117, 101]          -- "True"
def bFalse : List Nat := [70, 97, 108, 115, 101]     -- "False"

/-- `parse_bool`. -/
def parseBool (inp : List Nat) : Except Err (Bool × List Nat) :=
  if startsWith inp bTrue then .ok (true, inp.drop 4)
  else if startsWith inp bFalse then .ok (false, inp.drop 5)
  else .error .badBool

/-- `parse_usize`: a non-empty run of ASCII digits, value must fit `usize`. -/
def parseUsize (inp : List Nat) : Except Err (Nat × List Nat) :=
  let r := spanDigits inp
  if r.1.isEmpty then .error .noInt
  else if digitsVal r.1 < usizeLimit then .ok (digitsVal r.1, r.2)
  else .error .intRange

/-- Loop of `parse_shape` (after the opening parenthesis). -/
def shapeLoop : Nat → List Nat → Except Err (List Nat × List Nat)
  | 0, _ => .error .fuel
  | f + 1, inp =>
    let s := skipWs inp
    if s.head? = some 41 then .ok ([], s.tail)
    else match parseUsize s with
      | .error e => .error e
      | .ok (v, r) =>
        match shapeLoop f (consumeOpt 44 (skipWs r)) with
        | .error e => .error e
        | .ok (vs, r') => .ok (v :: vs, r')

/-- `parse_shape`. -/
def parseShape (inp : List Nat) : Except Err (List Nat × List Nat) :=
  match expect 40 inp with
  | .error e => .error e
  | .ok r => shapeLoop (r.length + 1) r

/-- `str::parse::<usize>` as used by `parse_descr` on `descr[2..]`: optional leading `+`,
then a non-empty run of digits covering the whole string, value must fit `usize`. -/
def parseUsizeStr (s : List Nat) : Option Nat :=
  let ds := match s with
    | 43 :: rest => rest
    | _ => s
  if ds.isEmpty then none
  else if ds.all isDigit then
    (if digitsVal ds < usizeLimit then some (digitsVal ds) else none)
  else none

/-- Byte-order character. `=` is native order: little-endian on the supported targets. -/
def orderOf (c : Nat) : Option Bool :=
  if c = 62 then some true            -- '>'
  else if c = 61 then some false      -- '='
  else if c = 60 || c = 124 then some false   -- '<' '|'
  else none

/-- `ElementKind::from_char`. -/
def kindOk (c : Nat) : Bool := c = 98 || c = 105 || c = 117 || c = 102

/-- `parse_descr`. -/
def parseDescr (s : List Nat) : Except Err DType :=
  match s with
  | c0 :: c1 :: rest =>
    match orderOf c0 with
    | none => .error .badDescr
    | some be =>
      if kindOk c1 then
        match parseUsizeStr rest with
        | some n => .ok ⟨be, c1, n⟩
        | none => .error .badDescr
      else .error .badDescr
  | _ => .error .badDescr

def kDescr : List Nat := [100, 101, 115, 99, 114]                                   -- "descr"
def kFortran : List Nat := [102, 111, 114, 116, 114, 97, 110, 95, 111, 114, 100, 101, 114] -- "fortran_order"
def kShape : List Nat := [115, 104, 97, 112, 101]                                   -- "shape"

/-- The three `Option` locals of `parse_header`. -/
structure Fields where
  descr : Option DType := none
  fortran : Option Bool := none
  shape : Option (List Nat) := none
  deriving DecidableEq, Repr

/-- The `match key.as_str()` of `parse_header`. -/
def parseValue (key : List Nat) (r : List Nat) (fs : Fields) : Except Err (Fields × List Nat) :=
  if key = kDescr then
    match parseString r with
    | .error e => .error e
    | .ok (d, r') =>
      match parseDescr d with
      | .error e => .error e
      | .ok dt => .ok ({ fs with descr := some dt }, r')
  else if key = kFortran then
    match parseBool r with
    | .error e => .error e
    | .ok (b, r') => .ok ({ fs with fortran := some b }, r')
  else if key = kShape then
    match parseShape r with
    | .error e => .error e
    | .ok (sh, r') => .ok ({ fs with shape := some sh }, r')
  else .error .badKey

/-- The `loop` of `parse_header`. -/
def dictLoop : Nat → List Nat → Fields → Except Err (Fields × List Nat)
  | 0, _, _ => .error .fuel
  | f + 1, inp, fs =>
    let s := skipWs inp
    if s.head? = some 125 then .ok (fs, s.tail)
    else match parseString s with
      | .error e => .error e
      | .ok (key, r) =>
        match expect 58 (skipWs r) with
        | .error e => .error e
        | .ok r1 =>
          match parseValue key (skipWs r1) fs with
          | .error e => .error e
          | .ok (fs', r2) => dictLoop f (consumeOpt 44 (skipWs r2)) fs'

/-- Parsed header (`struct Header`). -/
structure Header where
  dtype : DType
  fortran : Bool
  shape : List Nat
  deriving DecidableEq, Repr

/-- `parse_header`; also returns what is left after the closing brace (ignored by the code). -/
def parseHeaderRest (inp : List Nat) : Except Err (Header × List Nat) :=
  match expect 123 (skipWs inp) with
  | .error e => .error e
  | .ok r =>
    match dictLoop (r.length + 1) r {} with
    | .error e => .error e
    | .ok (fs, rest) =>
      match fs.descr with
      | none => .error .missingDescr
      | some d =>
        match fs.fortran with
        | none => .error .missingFortran
        | some fo =>
          match fs.shape with
          | none => .error .missingShape
          | some sh => .ok (⟨d, fo, sh⟩, rest)

def parseHeader (inp : List Nat) : Except Err Header :=
  match parseHeaderRest inp with
  | .error e => .error e
  | .ok (h, _) => .ok h

/-! ## UTF-8 validation (`std::str::from_utf8`, modelled from the Unicode definition) -/

def isCont (b : Nat) : Bool := 128 ≤ b && b ≤ 191

def validUtf8 : List Nat → Bool
  | [] => true
  | b0 :: rest =>
    if b0 < 128 then validUtf8 rest
    else match rest with
      | b1 :: rest1 =>
        if 194 ≤ b0 && b0 ≤ 223 then isCont b1 && validUtf8 rest1
        else match rest1 with
          | b2 :: rest2 =>
            if 224 ≤ b0 && b0 ≤ 239 then
              (if b0 = 224 then (160 ≤ b1 && b1 ≤ 191)
               else if b0 = 237 then (128 ≤ b1 && b1 ≤ 159)
               else isCont b1) && isCont b2 && validUtf8 rest2
            else match rest2 with
              | b3 :: rest3 =>
                if 240 ≤ b0 && b0 ≤ 244 then
                  (if b0 = 240 then (144 ≤ b1 && b1 ≤ 191)
                   else if b0 = 244 then (128 ≤ b1 && b1 ≤ 143)
                   else isCont b1) && isCont b2 && isCont b3 && validUtf8 rest3
                else false
              | [] => false
          | [] => false
      | [] => false

/-! ## `read_header` -/

def magicBytes : List Nat := [147, 78, 85, 77, 80, 89]   -- b"\x93NUMPY"

/-- `read_exact` of `n` bytes from the remaining input. -/
def readExact (n : Nat) (inp : List Nat) : Except Err (List Nat × List Nat) :=
  if n ≤ inp.length then .ok (inp.take n, inp.drop n) else .error .eof

/-- Little-endian value of a byte list (`uN::from_le_bytes`). -/
def fromLE : List Nat → Nat
  | [] => 0
  | b :: rest => b + 256 * fromLE rest

/-- `w` little-endian bytes of `x` (`uN::to_le_bytes`, `w = N/8`). -/
def toLE : Nat → Nat → List Nat
  | 0, _ => []
  | w + 1, x => x % 256 :: toLE w (x / 256)

/-- `read_header`: returns the header and the remaining input (the array data). -/
def readHeader (file : List Nat) : Except Err (Header × List Nat) :=
  match readExact 6 file with
  | .error e => .error e
  | .ok (m, r0) =>
    if m ≠ magicBytes then .error .magic else
    match readExact 2 r0 with
    | .error e => .error e
    | .ok (ver, r1) =>
      let major := ver.headD 0
      let lenBytes := if major = 1 then some 2 else if major = 2 || major = 3 then some 4 else none
      match lenBytes with
      | none => .error .version
      | some k =>
        match readExact k r1 with
        | .error e => .error e
        | .ok (lb, r2) =>
          match readExact (fromLE lb) r2 with
          | .error e => .error e
          | .ok (hdr, data) =>
            if validUtf8 hdr then
              match parseHeader hdr with
              | .error e => .error e
              | .ok h => .ok (h, data)
            else .error .utf8

/-! ## `build_header` -/

/-- `dims.join(", ")`. -/
def joinDims : List Nat → List Nat
  | [] => []
  | [d] => natDigits d
  | d :: ds => natDigits d ++ 44 :: 32 :: joinDims ds

/-- Tuple body: joined dims plus the trailing comma of a 1-tuple. -/
def dimsText (shape : List Nat) : List Nat :=
  joinDims shape ++ (if shape.length = 1 then [44] else [])

/-- `{'descr': '` -/
def pre1 : List Nat := [123, 39, 100, 101, 115, 99, 114, 39, 58, 32, 39]
/-- `', 'fortran_order': False, 'shape': (` -/
def pre2 : List Nat :=
  [39, 44, 32, 39, 102, 111, 114, 116, 114, 97, 110, 95, 111, 114, 100, 101, 114, 39, 58, 32,
   70, 97, 108, 115, 101, 44, 32, 39, 115, 104, 97, 112, 101, 39, 58, 32, 40]
/-- `), }` -/
def post : List Nat := [41, 44, 32, 125]

/-- The `format!` of `build_header`. -/
def dictText (dt : DataType) (shape : List Nat) : List Nat :=
  pre1 ++ dt.descr ++ pre2 ++ dimsText shape ++ post

def headerAlign : Nat := 64

/-- `usize::next_multiple_of`. -/
def nextMultipleOf (n a : Nat) : Nat := if n % a = 0 then n else n + (a - n % a)

/-- Number of pad spaces. -/
def padLen (dictLen : Nat) : Nat :=
  let unpadded := 10 + dictLen + 1
  nextMultipleOf unpadded headerAlign - unpadded

/-- The padded dictionary (spaces + `\n`). -/
def paddedDict (dt : DataType) (shape : List Nat) : List Nat :=
  let d := dictText dt shape
  d ++ List.replicate (padLen d.length) 32 ++ [10]

/-- `build_header::<T>(shape)`. -/
def buildHeader (dt : DataType) (shape : List Nat) : Except Err (List Nat) :=
  let d := paddedDict dt shape
  if d.length ≤ 65535 then
    .ok (magicBytes ++ [1, 0] ++ toLE 2 d.length ++ d)
  else .error .headerTooLarge

/-! ## Elements, `write_typed`, `read_typed` -/

/-- `Element::to_le_bytes` on the element's bit pattern (`bool as u8` is 0/1). -/
def encodeElem (dt : DataType) (x : Nat) : List Nat := toLE dt.itemSize x

/-- `Element::from_le_bytes` on an `ITEM_SIZE` chunk; `bool` is `bytes[0] != 0`. -/
def decodeElem (dt : DataType) (chunk : List Nat) : Nat :=
  match dt with
  | .bool => if chunk.headD 0 ≠ 0 then 1 else 0
  | _ => fromLE chunk

/-- `chunks_exact(w)` with fuel (= number of chunks). -/
def chunks (w : Nat) : Nat → List Nat → List (List Nat)
  | 0, _ => []
  | n + 1, l => l.take w :: chunks w n (l.drop w)

/-- Product of a dimension list (`shape.iter().product()`). -/
def prod : List Nat → Nat
  | [] => 1
  | d :: ds => d * prod ds

/-- `isize::MAX + 1`: tensors are limited to `isize::MAX` elements. -/
def isizeLimit : Nat := 2 ^ 63

/-- `try_fold(1, |acc, d| acc.checked_mul(d).filter(|n| n <= isize::MAX))` over a dimension list. -/
def checkedProd : List Nat → Nat → Option Nat
  | [], acc => some acc
  | d :: ds, acc => if acc * d < isizeLimit then checkedProd ds (acc * d) else none

/-- Mixed-radix digits of `i` for `shape` (row-major: last dimension fastest). -/
def unravel : List Nat → Nat → List Nat
  | [], _ => []
  | d :: ds, i => (i / prod ds) % d :: unravel ds (i % prod ds)

/-- Fortran-order offset of a multi-index: first dimension fastest. -/
def fortranOffset : List Nat → List Nat → Nat
  | d :: ds, i :: is => i + d * fortranOffset ds is
  | _, _ => 0

/-- `fortran_order_to_row_major`. -/
def fortranToRowMajor (shape : List Nat) (vals : List Nat) : List Nat :=
  if shape.length < 2 then vals
  else (List.range vals.length).map (fun i => vals.getD (fortranOffset shape (unravel shape i)) 0)

structure Array where
  dtype : DataType
  shape : List Nat
  vals : List Nat
  deriving DecidableEq, Repr

/-- `read_typed` on the bytes that follow the header. -/
def readTyped (h : Header) (dt : DataType) (data : List Nat) : Except Err Array :=
  -- size guard: the product of the non-zero dims must not exceed `isize::MAX` (so neither the
  -- element count nor any stride can overflow, and `Tensor::try_from_data` accepts the shape)
  match checkedProd (h.shape.map (fun d => max d 1)) 1 with
  | none => .error .countOverflow
  | some _ =>
    let n := prod h.shape
    let nBytes := n * dt.itemSize
    if usizeLimit ≤ nBytes then .error .bytesOverflow
    else if data.length < nBytes then .error .truncated
    else
      let cs := chunks dt.itemSize n (data.take nBytes)
      let cs := if h.dtype.bigEndian && 1 < dt.itemSize then cs.map List.reverse else cs
      let vals := cs.map (decodeElem dt)
      let vals := if h.fortran then fortranToRowMajor h.shape vals else vals
      .ok ⟨dt, h.shape, vals⟩

/-- `npy::read`. -/
def read (file : List Nat) : Except Err Array :=
  match readHeader file with
  | .error e => .error e
  | .ok (h, data) =>
    match dataTypeOf h.dtype with
    | none => .error .unsupported
    | some dt => readTyped h dt data

/-- `npy::write` of elements given in logical (row-major) order as bit patterns. -/
def write (a : Array) : Except Err (List Nat) :=
  match buildHeader a.dtype a.shape with
  | .error e => .error e
  | .ok h => .ok (h ++ (a.vals.map (encodeElem a.dtype)).flatten)

/-! ## `npz.rs`: entry names -/

def npySuffix : List Nat := [46, 110, 112, 121]   -- ".npy"

/-- `str::strip_suffix(".npy")`. -/
def stripNpy (name : List Nat) : Option (List Nat) :=
  if 4 ≤ name.length ∧ name.drop (name.length - 4) = npySuffix
  then some (name.take (name.length - 4)) else none

/-- `npz_file_name`. `none` = InvalidInput "NPZ array name must not be empty". -/
def npzFileName (name : List Nat) : Option (List Nat) :=
  let base := (stripNpy name).getD name
  if base.isEmpty then none else some (base ++ npySuffix)

/-- Key under which `npz::read` returns an archive entry (entries not ending in `.npy` are
skipped). -/
def npzKey (entry : List Nat) : Option (List Nat) := stripNpy entry

end RtenVerif.Npy
