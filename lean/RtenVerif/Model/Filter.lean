/-
Model of `rten-generate/src/filter.rs` (`TopK`/`SimdTopK`, `TopP`, `Sort`,
`token_id_filter`, `Temperature`, `Chain`) and of the part of
`rten-generate/src/logits.rs` they use (`Logits` = parallel vectors of scores and
token ids, here a list of `Item`s).

Scores are **f32 bit patterns** (`Nat < 2^32`).  No float arithmetic happens in the
model:
* `f32::total_cmp` is reconstructed as comparison of the integer `tkey bits`;
* the IEEE comparison `a > b` used by the top-K update guard (scalar `>` and the SIMD
  `ops.gt` lane test) is `fgt`: false if either side is NaN, `-0.0 == +0.0`;
* the cumulative sum of `TopP` lives in `Ext`: an exact integer (every finite f32 is an
  integer multiple of 2^-149; the harness only compares inputs whose finite f32 partial sums
  are exact, so the integer sum *is* the f32 sum), or `+inf`, `-inf`, `NaN` with the IEEE
  rules for `+` and `<` — so ±inf / NaN scores are modelled, not defaulted.

A Rust panic is `none`.  Import-free so it links into the `model_C31` driver.
-/
namespace RtenVerif.Filter

/-! ## f32 order on bit patterns -/

/-- Magnitude bits (exponent and mantissa). -/
def mag (b : Nat) : Nat := b % 2 ^ 31

/-- NaN: exponent all ones, mantissa non-zero (either sign). -/
def isNaN (b : Nat) : Bool := decide (0x7f800000 < mag b)

/-- `f32::total_cmp` key: `a.total_cmp(b) = compare (tkey a) (tkey b)`.
Non-negative patterns map to themselves, patterns with the sign bit set to
`-1 - magnitude` (this is the value of `bits ^ ((bits >> 31) as u32 >> 1)` read as `i32`). -/
def tkey (b : Nat) : Int := if b < 2 ^ 31 then (b : Int) else (2 ^ 31 : Int) - 1 - (b : Int)

/-- Numeric key: sign × magnitude.  For non-NaN patterns `nkey a < nkey b` iff `a < b` as
IEEE numbers (`-0.0` and `+0.0` both map to 0). -/
def nkey (b : Nat) : Int := if b < 2 ^ 31 then (b : Int) else (2 ^ 31 : Int) - (b : Int)

/-- IEEE `a > b` on f32 (ordered, quiet): false when either operand is NaN. -/
def fgt (a b : Nat) : Bool := !isNaN a && !isNaN b && decide (nkey b < nkey a)

/-- Exact value of a finite pattern as a multiple of 2^-149; `none` for ±inf / NaN. -/
def scaled (b : Nat) : Option Int :=
  let m := mag b
  let e := m / 2 ^ 23
  let f := m % 2 ^ 23
  if e = 255 then none
  else
    let v : Nat := if e = 0 then f else (2 ^ 23 + f) * 2 ^ (e - 1)
    some (if b < 2 ^ 31 then (v : Int) else -(v : Int))

/-- Value of an f32 as far as the `TopP` running sum needs it: an exact finite value
(× 2^149) or one of the IEEE specials. -/
inductive Ext where
  | fin (v : Int)
  | pinf
  | ninf
  | nan
deriving DecidableEq, Repr

/-- f32 `a + b` on `Ext`.  finite + finite is taken exact (no rounding, no overflow — the
harness asserts this per compared case); everything else is IEEE: NaN is absorbing,
`inf + -inf = NaN`, an infinity absorbs finite values. -/
def Ext.add : Ext → Ext → Ext
  | .fin a, .fin b => .fin (a + b)
  | .nan, _ => .nan
  | _, .nan => .nan
  | .pinf, .ninf => .nan
  | .ninf, .pinf => .nan
  | .pinf, _ => .pinf
  | _, .pinf => .pinf
  | .ninf, _ => .ninf
  | _, .ninf => .ninf

/-- f32 `cum < thr` for a threshold that is finite (`some t`, × 2^149) or `+inf` (`none`):
false whenever `cum` is NaN or `+inf`. -/
def Ext.lt (c : Ext) (thr : Option Int) : Bool :=
  match c, thr with
  | .fin a, some t => decide (a < t)
  | .fin _, none => true
  | .ninf, _ => true
  | .pinf, _ => false
  | .nan, _ => false

/-- The `Ext` value of a bit pattern. -/
def extOf (b : Nat) : Ext :=
  match scaled b with
  | some v => .fin v
  | none => if isNaN b then .nan else if b < 2 ^ 31 then .pinf else .ninf

/-! ## Generic algorithms over an element type with a total-order key `key`, the float
`>` test `gt` and a value `val` in `Ext` -/

section Generic
variable {α : Type} (key : α → Int) (gt : α → α → Bool) (val : α → Ext)

/-- Insert `x` before the first element whose key is `≤ key x` (descending, `x` first among
equals). -/
def insDesc (x : α) : List α → List α
  | [] => [x]
  | y :: ys => if key x < key y then y :: insDesc x ys else x :: y :: ys

/-- Stable sort, descending by `key`: `v.sort_by(|a, b| a.total_cmp(b).reverse())`.
(`sort_by` is stable, so the result is unique; insertion sort evaluates in the kernel.) -/
def sortDesc : List α → List α
  | [] => []
  | x :: xs => insDesc key x (sortDesc xs)

/-- `update_topk`: if `logit > kth_logit`, overwrite the last entry and re-sort.
`kth_logit` always equals the score of `topk.last()`.  (`topk` is non-empty whenever the
code reaches this closure — see `updateTopK_length` and `topK`.) -/
def updateTopK (topk : List α) (x : α) : List α :=
  match topk.getLast? with
  | none => topk
  | some kth => if gt x kth then sortDesc key (topk.dropLast ++ [x]) else topk

/-- Scalar loop: every remaining candidate goes through `update_topk` in order. -/
def seqLoop (topk rest : List α) : List α := rest.foldl (updateTopK key gt) topk

/-- The SIMD lane test `mask_ops.any(ops.gt(logits_vec, kth_logit_vec))`. -/
def anyGt (topk chunk : List α) : Bool :=
  match topk.getLast? with
  | none => false
  | some kth => chunk.any (fun x => gt x kth)

/-- The vectorised loop: full chunks of `lanes` candidates are skipped when no lane exceeds
the current k-th value, otherwise every lane goes through `update_topk`; the tail
(`< lanes` candidates) is always processed element-wise.  `fuel ≥ rest.length`. -/
def chunkLoop (lanes : Nat) : Nat → List α → List α → List α
  | 0, topk, _ => topk
  | fuel + 1, topk, rest =>
    if rest.length < lanes then seqLoop key gt topk rest
    else
      let chunk := rest.take lanes
      let topk' := if anyGt gt topk chunk then seqLoop key gt topk chunk else topk
      chunkLoop lanes fuel topk' (rest.drop lanes)

/-- `TopK::filter` + `SimdTopK::eval`.  `clamp = true` is the current code
(`let k = k.min(logits.len())`, commit `fix: TopK filter no longer panics …`),
`clamp = false` the code before that commit.  `none` = panic
(`topk.last().unwrap()` on an empty list or the slice `indices[k..]` with `k > len`). -/
def topK (clamp : Bool) (lanes k : Nat) (xs : List α) : Option (List α) :=
  if xs.isEmpty then some xs
  else
    let k := if clamp then min k xs.length else k
    let topk := sortDesc key (xs.take k)
    if k = 0 ∨ xs.length = k then some topk
    else if topk.isEmpty then none          -- `topk.last().unwrap()`
    else if xs.length < k then none         -- `&indices[k..]`
    else some (chunkLoop key gt lanes (xs.length - k) topk (xs.drop k))

/-- Scalar specification of the same computation (no chunking, no panic points);
`topK_eq_seq` proves the vectorised code computes exactly this. -/
def topKSeq (k : Nat) (xs : List α) : List α :=
  if k = 0 ∨ xs.length ≤ k then sortDesc key (xs.take k)
  else seqLoop key gt (sortDesc key (xs.take k)) (xs.drop k)

/-- The `while cum_prob < threshold && k < pairs.len()` loop of `TopP`. -/
def takeUntil (thr : Option Int) : Ext → List α → List α
  | _, [] => []
  | cum, x :: xs => if cum.lt thr then x :: takeUntil thr (cum.add (val x)) xs else []

/-- `TopP::filter` with `normalize = false`: `isOne` is `cumulative_prob == 1.0`
(input returned unchanged), `thr` is `max(cumulative_prob, f32::MIN_POSITIVE)`. -/
def topP (isOne : Bool) (thr : Option Int) (xs : List α) : List α :=
  if isOne then xs else takeUntil val thr (.fin 0) (sortDesc key xs)

/-- `Chain::filter`: `filters.iter().fold(logits, |l, f| f.filter(l, prev))`, with panics
(`none`) propagating. -/
def chain {β : Type} (fs : List (β → Option β)) (x : β) : Option β :=
  fs.foldlM (fun acc f => f acc) x

end Generic

/-! ## Instantiation at f32 logits -/

/-- One candidate of a `Logits` value: token id and score bit pattern. -/
structure Item where
  id : Nat
  bits : Nat
deriving DecidableEq, Repr

def Item.key (a : Item) : Int := tkey a.bits
def Item.nkey (a : Item) : Int := RtenVerif.Filter.nkey a.bits
def Item.gt (a b : Item) : Bool := fgt a.bits b.bits
def Item.isNaN (a : Item) : Bool := RtenVerif.Filter.isNaN a.bits
/-- Value of the score as seen by the `TopP` running sum (finite exact, ±inf or NaN). -/
def Item.val (a : Item) : Ext := extOf a.bits

/-- `f32::MIN_POSITIVE` (2^-126) as a multiple of 2^-149. -/
def minPositive : Int := 2 ^ 23

/-- Bit pattern of `1.0f32`. -/
def oneBits : Nat := 0x3f800000

/-- Multiply a score by `2^(-j)` (what `Temperature::new(2^j)` does: `x *= 1.0 / t`), exact
cases only: zeros and infinities are unchanged, a normal number whose result is normal has
its exponent field shifted; `none` when the result is not described (NaN, subnormal,
over/underflow). -/
def scaleBits (j : Int) (b : Nat) : Option Nat :=
  let m := mag b
  let e : Int := ((m / 2 ^ 23 : Nat) : Int)
  if m = 0 ∨ m = 0x7f800000 then some b
  else if e = 255 ∨ e = 0 then none
  else if 1 ≤ e - j ∧ e - j ≤ 254 then some (((b : Int) - j * 2 ^ 23).toNat)
  else none

/-- `assert!(temperature >= 0.)` in `Temperature::new`: fails for NaN and for negative values
(`-0.0 >= 0.` holds). -/
def tempValid (t : Nat) : Bool := !isNaN t && (decide (t < 2 ^ 31) || mag t == 0)

/-- `some j` when the temperature is the power of two `2^j` with `1/t` normal as well. -/
def tempExp (t : Nat) : Option Int :=
  if t < 2 ^ 31 ∧ t % 2 ^ 23 = 0 ∧ 1 ≤ t / 2 ^ 23 ∧ t / 2 ^ 23 ≤ 253 then
    some (((t / 2 ^ 23 : Nat) : Int) - 127)
  else none

/-- The f32 product `x * (1.0 / t)` on bit patterns where the model describes it exactly
(`t` a power of two, `x` scaling without rounding); `none` elsewhere. -/
def mulExact (t b : Nat) : Option Nat :=
  match tempExp t with
  | some j => scaleBits j b
  | none => none

/-- Filter descriptions the harness can request. -/
inductive Spec where
  /-- `TopK::new(k)` -/
  | topK (k : Nat)
  /-- `TopP::new(p).normalize(false)`, `p` given by its bit pattern (any pattern) -/
  | topP (pbits : Nat)
  /-- `Sort::new()` -/
  | sort
  /-- `token_id_filter(|id| id % m == r)` -/
  | idMod (m r : Nat)
  /-- `token_id_filter(|id| id >= c)` -/
  | idGe (c : Nat)
  /-- `Temperature::new(t)`, `t` given by its bit pattern (any pattern) -/
  | temp (tbits : Nat)
deriving Repr

/-- Threshold of `TopP`: `cumulative_prob.max(f32::MIN_POSITIVE)` (× 2^149; `none` = `+inf`).
`f32::max` ignores a NaN operand, so NaN, negative and `-inf` all give `MIN_POSITIVE`. -/
def topPThr (pbits : Nat) : Option Int :=
  if isNaN pbits then some minPositive
  else match scaled pbits with
    | some v => some (max v minPositive)
    | none => if pbits < 2 ^ 31 then none else some minPositive

/-- Is the request one on which the driver's stand-in for f32 multiplication (`mulExact`) is
exact?  Only `temp` needs this (`t = 1.0` returns early, an invalid `t` panics before any
arithmetic); everything else, including ±inf / NaN scores and thresholds, is modelled for all
inputs.  Outside it the driver answers `skip`. -/
def inDomain : Spec → List Item → Bool
  | .temp t, xs =>
    !tempValid t || t == oneBits || xs.all (fun a => (mulExact t a.bits).isSome)
  | _, _ => true

/-- Apply one filter (`none` = panic).  `mul t b` is the bit pattern of the f32 product
`f32::from_bits(b) * (1.0 / f32::from_bits(t))`; theorems hold for every `mul`, the driver
instantiates it where it is exact.  The `Temperature::new` assertion fires when the filter is
*constructed* (e.g. in `Chain::temperature`); since nothing else in a chain can panic and
filters have no side effects, "panics at this step" has the same observable outcome. -/
def applySpec (mul : Nat → Nat → Nat) (clamp : Bool) (lanes : Nat) :
    Spec → List Item → Option (List Item)
  | .topK k, xs => topK Item.key Item.gt clamp lanes k xs
  | .topP pbits, xs => some (topP Item.key Item.val (pbits == oneBits) (topPThr pbits) xs)
  | .sort, xs => some (sortDesc Item.key xs)
  | .idMod m r, xs => some (xs.filter (fun a => a.id % m == r))
  | .idGe c, xs => some (xs.filter (fun a => decide (c ≤ a.id)))
  | .temp t, xs =>
    if !tempValid t then none
    else if t == oneBits then some xs
    else some (xs.map (fun a => Item.mk a.id (mul t a.bits)))

/-- `Chain` of the described filters. -/
def chainSpec (mul : Nat → Nat → Nat) (clamp : Bool) (lanes : Nat) (fs : List Spec)
    (xs : List Item) : Option (List Item) :=
  chain (fs.map (applySpec mul clamp lanes)) xs

/-- The driver's multiplication: exact where `mulExact` answers (never consulted elsewhere,
see `inDomain`). -/
def mulDriver (t b : Nat) : Nat := (mulExact t b).getD b

/-- Driver helper: run a chain step by step; outer `none` = some step left the model's exact
domain (`skip`), inner `none` = panic.  `c31_runChain_eq` relates it to `chainSpec`. -/
def runChain (clamp : Bool) (lanes : Nat) : List Spec → List Item → Option (Option (List Item))
  | [], xs => some (some xs)
  | f :: fs, xs =>
    if inDomain f xs then
      match applySpec mulDriver clamp lanes f xs with
      | none => some none
      | some ys => runChain clamp lanes fs ys
    else none

end RtenVerif.Filter
