/-
Model of `rten-generate/src/filter.rs` (`TopK`/`SimdTopK`, `TopP`, `Sort`,
`token_id_filter`, `Temperature`, `Chain`) and of the part of
`rten-generate/src/logits.rs` they use (`Logits` = parallel vectors of scores and
token ids, here a list of `Item`s).

Scores are **f32 bit patterns** (`Nat < 2^32`).  No float arithmetic happens in the
model:
* `f32::total_cmp` is reconstructed as comparison of the integer `tkey bits`;
* the IEEE comparison `a > b` used by the top-K update guard (scalar `>` and the SIMD
  `ops.gt` lane test) is `fgt`: false if either side is NaN, `-0.0 == +0.0`;
* the cumulative sum of `TopP` is a sum of exact integers `val` (every finite f32 is an
  integer multiple of 2^-149; the harness only sends inputs whose f32 partial sums are
  exact, so the integer sum *is* the f32 sum).

A Rust panic is `none`.  Import-free so it links into the `model_C31` driver.
-/
namespace RtenVerif.Filter

/-! ## f32 order on bit patterns -/

/-- Magnitude bits (exponent and mantissa). -/
def mag (b : Nat) : Nat := b % 2 ^ 31

/-- NaN: exponent all ones, mantissa non-zero (either sign). -/
def isNaN (b : Nat) : Bool := decide (0x7f800000 < mag b)

/-- `f32::total_cmp` key: `a.total_cmp(b) = compare (tkey a) (tkey b)`.
Non-negative patterns map to themselves, patterns with the sign bit set to
`-1 - magnitude` (this is the value of `bits ^ ((bits >> 31) as u32 >> 1)` read as `i32`). -/
def tkey (b : Nat) : Int := if b < 2 ^ 31 then (b : Int) else (2 ^ 31 : Int) - 1 - (b : Int)

/-- Numeric key: sign × magnitude.  For non-NaN patterns `nkey a < nkey b` iff `a < b` as
IEEE numbers (`-0.0` and `+0.0` both map to 0). -/
def nkey (b : Nat) : Int := if b < 2 ^ 31 then (b : Int) else (2 ^ 31 : Int) - (b : Int)

/-- IEEE `a > b` on f32 (ordered, quiet): false when either operand is NaN. -/
def fgt (a b : Nat) : Bool := !isNaN a && !isNaN b && decide (nkey b < nkey a)

/-- Exact value of a finite pattern as a multiple of 2^-149; `none` for ±inf / NaN. -/
def scaled (b : Nat) : Option Int :=
  let m := mag b
  let e := m / 2 ^ 23
  let f := m % 2 ^ 23
  if e = 255 then none
  else
    let v : Nat := if e = 0 then f else (2 ^ 23 + f) * 2 ^ (e - 1)
    some (if b < 2 ^ 31 then (v : Int) else -(v : Int))

/-! ## Generic algorithms over an element type with a total-order key `key`, the float
`>` test `gt` and an exact value `val` -/

section Generic
variable {α : Type} (key : α → Int) (gt : α → α → Bool) (val : α → Int)

/-- Insert `x` before the first element whose key is `≤ key x` (descending, `x` first among
equals). -/
def insDesc (x : α) : List α → List α
  | [] => [x]
  | y :: ys => if key x < key y then y :: insDesc x ys else x :: y :: ys

/-- Stable sort, descending by `key`: `v.sort_by(|a, b| a.total_cmp(b).reverse())`.
(`sort_by` is stable, so the result is unique; insertion sort evaluates in the kernel.) -/
def sortDesc : List α → List α
  | [] => []
  | x :: xs => insDesc key x (sortDesc xs)

/-- `update_topk`: if `logit > kth_logit`, overwrite the last entry and re-sort.
`kth_logit` always equals the score of `topk.last()`.  (`topk` is non-empty whenever the
code reaches this closure — see `updateTopK_length` and `topK`.) -/
def updateTopK (topk : List α) (x : α) : List α :=
  match topk.getLast? with
  | none => topk
  | some kth => if gt x kth then sortDesc key (topk.dropLast ++ [x]) else topk

/-- Scalar loop: every remaining candidate goes through `update_topk` in order. -/
def seqLoop (topk rest : List α) : List α := rest.foldl (updateTopK key gt) topk

/-- The SIMD lane test `mask_ops.any(ops.gt(logits_vec, kth_logit_vec))`. -/
def anyGt (topk chunk : List α) : Bool :=
  match topk.getLast? with
  | none => false
  | some kth => chunk.any (fun x => gt x kth)

/-- The vectorised loop: full chunks of `lanes` candidates are skipped when no lane exceeds
the current k-th value, otherwise every lane goes through `update_topk`; the tail
(`< lanes` candidates) is always processed element-wise.  `fuel ≥ rest.length`. -/
def chunkLoop (lanes : Nat) : Nat → List α → List α → List α
  | 0, topk, _ => topk
  | fuel + 1, topk, rest =>
    if rest.length < lanes then seqLoop key gt topk rest
    else
      let chunk := rest.take lanes
      let topk' := if anyGt gt topk chunk then seqLoop key gt topk chunk else topk
      chunkLoop lanes fuel topk' (rest.drop lanes)

/-- `TopK::filter` + `SimdTopK::eval`.  `clamp = true` is the current code
(`let k = k.min(logits.len())`, commit `fix: TopK filter no longer panics …`),
`clamp = false` the code before that commit.  `none` = panic
(`topk.last().unwrap()` on an empty list or the slice `indices[k..]` with `k > len`). -/
def topK (clamp : Bool) (lanes k : Nat) (xs : List α) : Option (List α) :=
  if xs.isEmpty then some xs
  else
    let k := if clamp then min k xs.length else k
    let topk := sortDesc key (xs.take k)
    if k = 0 ∨ xs.length = k then some topk
    else if topk.isEmpty then none          -- `topk.last().unwrap()`
    else if xs.length < k then none         -- `&indices[k..]`
    else some (chunkLoop key gt lanes (xs.length - k) topk (xs.drop k))

/-- Scalar specification of the same computation (no chunking, no panic points);
`topK_eq_seq` proves the vectorised code computes exactly this. -/
def topKSeq (k : Nat) (xs : List α) : List α :=
  if k = 0 ∨ xs.length ≤ k then sortDesc key (xs.take k)
  else seqLoop key gt (sortDesc key (xs.take k)) (xs.drop k)

/-- The `while cum_prob < threshold && k < pairs.len()` loop of `TopP`. -/
def takeUntil (thr : Int) : Int → List α → List α
  | _, [] => []
  | cum, x :: xs => if cum < thr then x :: takeUntil thr (cum + val x) xs else []

/-- `TopP::filter` with `normalize = false`: `isOne` is `cumulative_prob == 1.0`
(input returned unchanged), `thr` is `max(cumulative_prob, f32::MIN_POSITIVE)`. -/
def topP (isOne : Bool) (thr : Int) (xs : List α) : List α :=
  if isOne then xs else takeUntil val thr 0 (sortDesc key xs)

/-- `Chain::filter`: `filters.iter().fold(logits, |l, f| f.filter(l, prev))`, with panics
(`none`) propagating. -/
def chain {β : Type} (fs : List (β → Option β)) (x : β) : Option β :=
  fs.foldlM (fun acc f => f acc) x

end Generic

/-! ## Instantiation at f32 logits -/

/-- One candidate of a `Logits` value: token id and score bit pattern. -/
structure Item where
  id : Nat
  bits : Nat
deriving DecidableEq, Repr

def Item.key (a : Item) : Int := tkey a.bits
def Item.nkey (a : Item) : Int := RtenVerif.Filter.nkey a.bits
def Item.gt (a b : Item) : Bool := fgt a.bits b.bits
def Item.isNaN (a : Item) : Bool := RtenVerif.Filter.isNaN a.bits
/-- Exact value × 2^149 (0 for non-finite scores; the driver does not answer for those). -/
def Item.val (a : Item) : Int := (scaled a.bits).getD 0

/-- `f32::MIN_POSITIVE` (2^-126) as a multiple of 2^-149. -/
def minPositive : Int := 2 ^ 23

/-- Bit pattern of `1.0f32`. -/
def oneBits : Nat := 0x3f800000

/-- Multiply a score by `2^(-j)` (what `Temperature::new(2^j)` does: `x *= 1.0 / t`), exact
cases only: zeros and infinities are unchanged, a normal number whose result is normal has
its exponent field shifted; `none` when the model declines (NaN, subnormal, over/underflow). -/
def scaleBits (j : Int) (b : Nat) : Option Nat :=
  let m := mag b
  let e : Int := ((m / 2 ^ 23 : Nat) : Int)
  if m = 0 ∨ m = 0x7f800000 then some b
  else if e = 255 ∨ e = 0 then none
  else if 1 ≤ e - j ∧ e - j ≤ 254 then some (((b : Int) - j * 2 ^ 23).toNat)
  else none

/-- Filter descriptions the harness can request. -/
inductive Spec where
  /-- `TopK::new(k)` -/
  | topK (k : Nat)
  /-- `TopP::new(p).normalize(false)`, `p` given by its bit pattern -/
  | topP (pbits : Nat)
  /-- `Sort::new()` -/
  | sort
  /-- `token_id_filter(|id| id % m == r)` -/
  | idMod (m r : Nat)
  /-- `token_id_filter(|id| id >= c)` -/
  | idGe (c : Nat)
  /-- `Temperature::new(2^j)` -/
  | temp (j : Int)
deriving Repr

/-- Threshold of `TopP` for a finite `p`: `max(p, MIN_POSITIVE)`, scaled. -/
def topPThr (pbits : Nat) : Int := max ((scaled pbits).getD 0) minPositive

/-- Is the request inside the exact domain of the model?  (`topP`: finite `p` and finite
scores; `temp`: every score scales exactly.)  Outside it the driver answers `skip`. -/
def inDomain : Spec → List Item → Bool
  | .topP pbits, xs => (scaled pbits).isSome && xs.all (fun a => (scaled a.bits).isSome)
  | .temp j, xs => j == 0 || xs.all (fun a => (scaleBits j a.bits).isSome)
  | _, _ => true

/-- Apply one filter (`none` = panic). -/
def applySpec (clamp : Bool) (lanes : Nat) : Spec → List Item → Option (List Item)
  | .topK k, xs => topK Item.key Item.gt clamp lanes k xs
  | .topP pbits, xs => some (topP Item.key Item.val (pbits == oneBits) (topPThr pbits) xs)
  | .sort, xs => some (sortDesc Item.key xs)
  | .idMod m r, xs => some (xs.filter (fun a => a.id % m == r))
  | .idGe c, xs => some (xs.filter (fun a => decide (c ≤ a.id)))
  | .temp j, xs =>
    if j = 0 then some xs
    else some (xs.map (fun a => Item.mk a.id ((scaleBits j a.bits).getD a.bits)))

/-- `Chain` of the described filters. -/
def chainSpec (clamp : Bool) (lanes : Nat) (fs : List Spec) (xs : List Item) : Option (List Item) :=
  chain (fs.map (applySpec clamp lanes)) xs

/-- Driver helper: run a chain step by step; outer `none` = some step left the model's exact
domain (`skip`), inner `none` = panic.  `runChain_eq` relates it to `chainSpec`. -/
def runChain (clamp : Bool) (lanes : Nat) : List Spec → List Item → Option (Option (List Item))
  | [], xs => some (some xs)
  | f :: fs, xs =>
    if inDomain f xs then
      match applySpec clamp lanes f xs with
      | none => some none
      | some ys => runChain clamp lanes fs ys
    else none

end RtenVerif.Filter
