/-!
# Model of the rten-onnx protobuf decoder (C38)

Import-free executable model of `rten-onnx/src/protobuf/{varint,value,field}.rs` (as of the commits
`fix: validate protobuf field lengths against the input size` and
`fix: limit nesting depth of embedded protobuf messages`) and of the schema-driven
message decoders of `rten-onnx/src/onnx.rs` (`impl DecodeMessage for …`, interpreted from the
generated table `RtenVerif.Generated.OnnxSchema.schema`).

Machine integers: reader positions, limits and lengths are `UInt64` (the code's `u64`; `usize` is
identified with `u64`, i.e. a 64-bit target).  Every `u64` addition the code performs is modelled by
`addU`, which yields the pseudo-outcome `Err.wrap` when the mathematical sum does not fit in 64 bits
(the situation in which a release build wraps and a checked build panics).  Theorem T3 shows `wrap`
is unreachable.  Loops are fuelled; `Err.fuel` is the pseudo-outcome "fuel exhausted", shown
unreachable by T1 (termination).
-/
namespace RtenVerif.Protobuf

abbrev Bytes := Array UInt8

/-- Outcome classes. The first seven are `rten_onnx::protobuf::ErrorKind`s that the decoders of
`onnx.rs` can produce; `wrap` and `fuel` are model-only pseudo-outcomes (see module doc). -/
inductive Err where
  | eof | invalidVarint | io | typeMismatch | invalidWireType | invalidUtf8 | tooDeep
  | wrap | fuel
  deriving DecidableEq, Repr

instance : ToString Err where
  toString
    | .eof => "Eof" | .invalidVarint => "InvalidVarint" | .io => "IoError"
    | .typeMismatch => "FieldTypeMismatch" | .invalidWireType => "InvalidWireType"
    | .invalidUtf8 => "InvalidUtf8" | .tooDeep => "NestingTooDeep" | .wrap => "WRAP" | .fuel => "FUEL"

/-! ## Machine arithmetic -/

/-- `a + b` on `u64` where overflow is an observable failure. -/
def addU (a b : UInt64) : Except Err UInt64 :=
  if a.toNat + b.toNat < UInt64.size then .ok (a + b) else .error .wrap

/-- `u64::saturating_sub`. -/
def satSub (a b : UInt64) : UInt64 := if b ≤ a then a - b else 0

/-- `u64::saturating_add`. -/
def satAdd (a b : UInt64) : UInt64 :=
  if a.toNat + b.toNat < UInt64.size then a + b else UInt64.ofNat (UInt64.size - 1)

def minU (a b : UInt64) : UInt64 := if a ≤ b then a else b

/-- Input length as `u64` (`Cursor` buffer length / file size). -/
def sizeU (d : Bytes) : UInt64 := UInt64.ofNat d.size

/-! ## `read_varint` (varint.rs)

The reader sees the input as a byte stream; `fill_buf`/`consume` chunking is abstracted to "look at
the byte at the current position".  `k` counts the bytes that may still be read (`MAX_VARINT_LEN -
index`); when ten continuation bytes have been consumed the loop `break`s with `InvalidVarint`
(fixed code: `index >= MAX_VARINT_LEN`). -/

inductive VarRes where
  | ok (v : UInt64) (pos : UInt64)
  /-- `Eof`: the stream ended; `pos` is the position the reader was left at. -/
  | eof (pos : UInt64)
  | invalid
  deriving DecidableEq, Repr

def readVarintAux (d : Bytes) : Nat → Nat → UInt64 → UInt64 → VarRes
  | 0, _, _, _ => .invalid
  | k + 1, index, value, pos =>
    match d[pos.toNat]? with
    | none => .eof pos
    | some b =>
      let value := value ||| ((b &&& 0x7f).toUInt64 <<< (UInt64.ofNat (index * 7)))
      if b ≤ 0x7f then
        if index + 1 = 10 ∧ b > 0x01 then .invalid else .ok value (pos + 1)
      else readVarintAux d k (index + 1) value (pos + 1)

def readVarint (d : Bytes) (pos : UInt64) : VarRes := readVarintAux d 10 0 0 pos

/-! ## `ValueReader` (value.rs): state = position; the total length is known -/

/-- `ValueReader::remaining`: `self.len.saturating_sub(position)`. -/
def vrRemaining (d : Bytes) (pos : UInt64) : UInt64 := satSub (sizeU d) pos

/-- `read_exact` of `n` bytes on the underlying cursor: new position, or `UnexpectedEof`. -/
def vrReadExact (d : Bytes) (pos n : UInt64) : Except Err UInt64 :=
  if n ≤ vrRemaining d pos then addU pos n else .error .io

/-- `ValueReader::read_bytes`: length check, then `vec![0; len]` (the allocation), then `read_exact`. -/
def vrReadBytes (d : Bytes) (pos len : UInt64) : Except Err UInt64 :=
  if len ≤ vrRemaining d pos then vrReadExact d pos len else .error .eof

/-- `ValueReader::skip`: length check, `i64::try_from(len)`, `seek_relative`. -/
def vrSkip (d : Bytes) (pos len : UInt64) : Except Err UInt64 :=
  if len ≤ vrRemaining d pos then
    if len.toNat < 2 ^ 63 then addU pos len else .error .eof
  else .error .eof

/-- Little-endian value of the `n ≤ 8` bytes at `pos` (missing bytes read as 0; callers only use it
after a successful `read_exact`). -/
def leBytes (d : Bytes) (pos : Nat) : Nat → UInt64
  | 0 => 0
  | n + 1 => (d[pos]?.getD 0).toUInt64 ||| (leBytes d (pos + 1) n <<< 8)

/-! ## `LimitReader` (value.rs): state = (position, end) -/

/-- `LimitReader::remaining`: `self.end.saturating_sub(position)`. -/
def lrRemaining (pos end_ : UInt64) : UInt64 := satSub end_ pos

/-- `LimitReader::check_has_bytes`. -/
def lrCheck (pos end_ len : UInt64) : Bool := len ≤ lrRemaining pos end_

/-- `LimitReader::new(inner, len)`: `end = position.saturating_add(min(len, inner.remaining()))`.

NOTE (known-length assumption): `vrRemaining` models a `ValueReader` whose constructor determined
the stream length (`stream_len`: seek to `End(0)` and back) — always the case for `Cursor` buffers
and regular files.  If that seek fails the real reader falls back to `len = u64::MAX`, `remaining()`
is then ≈ `u64::MAX` and this clamp does nothing: the decoder still terminates (reads hit the real
end of stream, skips are `i64::try_from`-checked so they only move forward), but T2/T3 — which rest on
`end ≤ |d|` — are not claimed for that fallback path.  It is outside this model. -/
def lrNew (d : Bytes) (pos len : UInt64) : UInt64 := satAdd pos (minU len (vrRemaining d pos))

/-- `LimitReader::sub_limit(len)`: checked, then `end = position + len`. -/
def lrSub (pos end_ len : UInt64) : Except Err UInt64 :=
  if lrCheck pos end_ len then addU pos len else .error .eof

/-- `LimitReader::read_varint`: one byte must be available; a varint that leaves the reader beyond
`end` is `InvalidVarint` (whatever the inner result was). -/
def lrReadVarint (d : Bytes) (pos end_ : UInt64) : VarRes :=
  if lrCheck pos end_ 1 then
    match readVarint d pos with
    | .ok v p => if p > end_ then .invalid else .ok v p
    | .eof p => if p > end_ then .invalid else .eof p
    | .invalid => .invalid
  else .eof pos

/-- `LimitReader::read_i32` / `read_i64` (`n` = 4 / 8): new position. -/
def lrReadFixed (d : Bytes) (pos end_ n : UInt64) : Except Err UInt64 :=
  if lrCheck pos end_ n then vrReadExact d pos n else .error .eof

def lrReadBytes (d : Bytes) (pos end_ len : UInt64) : Except Err UInt64 :=
  if lrCheck pos end_ len then vrReadBytes d pos len else .error .eof

def lrSkip (d : Bytes) (pos end_ len : UInt64) : Except Err UInt64 :=
  if lrCheck pos end_ len then vrSkip d pos len else .error .eof

/-! ## `Fields::next` (field.rs) -/

inductive FieldValue where
  | varint (v : UInt64) | i64 (v : UInt64) | len (l : UInt64) | sgroup | egroup | i32 (v : UInt64)
  deriving DecidableEq, Repr

inductive Next where
  /-- `Ok(None)`: end of the message; reader left at `pos`. -/
  | done (pos : UInt64)
  | err (e : Err)
  /-- `Ok(Some(field))`: field number, value, reader position, end of the field's sub-reader. -/
  | field (num : UInt64) (fv : FieldValue) (pos fend : UInt64)
  deriving DecidableEq, Repr

/-- The value part of `Fields::next`: (value, position, `len`). -/
def readValue (d : Bytes) (wt : UInt64) (p1 end_ : UInt64) : Except Err (FieldValue × UInt64 × UInt64) :=
  if wt = 0 then
    match lrReadVarint d p1 end_ with
    | .ok v p2 => .ok (.varint v, p2, 0)
    | .eof _ => .error .eof
    | .invalid => .error .invalidVarint
  else if wt = 1 then
    match lrReadFixed d p1 end_ 8 with
    | .ok p2 => .ok (.i64 (leBytes d p1.toNat 8), p2, 0)
    | .error e => .error e
  else if wt = 2 then
    match lrReadVarint d p1 end_ with
    | .ok v p2 => .ok (.len v, p2, v)
    | .eof _ => .error .eof
    | .invalid => .error .invalidVarint
  else if wt = 3 then .ok (.sgroup, p1, 0)
  else if wt = 4 then .ok (.egroup, p1, 0)
  else if wt = 5 then
    match lrReadFixed d p1 end_ 4 with
    | .ok p2 => .ok (.i32 (leBytes d p1.toNat 4), p2, 0)
    | .error e => .error e
  else .error .invalidWireType

def nextField (d : Bytes) (pos end_ : UInt64) : Next :=
  match lrReadVarint d pos end_ with
  | .eof p => .done p
  | .invalid => .err .invalidVarint
  | .ok tag p1 =>
    match readValue d (tag &&& 7) p1 end_ with
    | .error e => .err e
    | .ok (fv, p2, len) =>
      match lrSub p2 end_ len with
      | .ok fend => .field (tag >>> 3) fv p2 fend
      | .error e => .err e

/-! ## Schema and decoded values -/

/-- What a `match field.number()` arm of a `decode_fields` implementation does with the field. -/
inductive Kind where
  | str | bytes | f32 | int64 | int32
  | msg (id : Nat)
  | packedF32 | packedF64 | packedI32 | packedI64 | packedU64
  /-- `field.skip()` with a side effect recorded in the message (SlimModelProto.graph). -/
  | flag
  /-- the `_ => field.skip()?` arm. -/
  | skip
  deriving DecidableEq, Repr

structure FieldSpec where
  kind : Kind
  /-- `push` (true) versus `= Some(..)` (false); only used by the digest. -/
  repeated : Bool
  deriving DecidableEq, Repr

/-- message id ↦ list of (field number, spec). -/
abbrev Schema := List (List (UInt64 × FieldSpec))

def lookupIn : List (UInt64 × FieldSpec) → UInt64 → FieldSpec
  | [], _ => ⟨.skip, false⟩
  | (n, s) :: rest, num => if n = num then s else lookupIn rest num

def Schema.lookup (S : Schema) (m : Nat) (num : UInt64) : FieldSpec :=
  lookupIn (S.getD m []) num

inductive Val where
  | num (bits : UInt64)
  /-- string / bytes of the given length (one allocation of that size). -/
  | blob (len : UInt64)
  | nums (xs : List UInt64)
  | msg (fields : List (UInt64 × Val))
  | flag

/-! ## UTF-8 validation (`String::from_utf8`) -/

def isCont (b : UInt8) : Bool := 0x80 ≤ b && b ≤ 0xBF

def validUtf8 : List UInt8 → Bool
  | [] => true
  | b0 :: rest =>
    if b0 < 0x80 then validUtf8 rest
    else if 0xC2 ≤ b0 && b0 ≤ 0xDF then
      match rest with
      | b1 :: r => isCont b1 && validUtf8 r
      | _ => false
    else if 0xE0 ≤ b0 && b0 ≤ 0xEF then
      match rest with
      | b1 :: b2 :: r =>
        (if b0 = 0xE0 then 0xA0 ≤ b1 && b1 ≤ 0xBF
         else if b0 = 0xED then 0x80 ≤ b1 && b1 ≤ 0x9F
         else isCont b1) && isCont b2 && validUtf8 r
      | _ => false
    else if 0xF0 ≤ b0 && b0 ≤ 0xF4 then
      match rest with
      | b1 :: b2 :: b3 :: r =>
        (if b0 = 0xF0 then 0x90 ≤ b1 && b1 ≤ 0xBF
         else if b0 = 0xF4 then 0x80 ≤ b1 && b1 ≤ 0x8F
         else isCont b1) && isCont b2 && isCont b3 && validUtf8 r
      | _ => false
    else false

/-! ## Field consumption (`Field::{read_*, get_*, skip, read_repeated_*}`) -/

/-- `v as i32` widened back to 64 bits (sign-extended), the canonical form used by the digest. -/
def signExt32 (v : UInt64) : UInt64 :=
  let w := v &&& 0xFFFFFFFF
  if w ≥ 0x80000000 then w ||| 0xFFFFFFFF00000000 else w

/-- Packed varint iterator: reads until the sub-reader reports `Eof`. -/
def packedVarints (d : Bytes) (conv : UInt64 → UInt64) :
    Nat → UInt64 → UInt64 → List UInt64 → Except Err (List UInt64 × UInt64)
  | 0, _, _, _ => .error .fuel
  | k + 1, pos, end_, acc =>
    match lrReadVarint d pos end_ with
    | .ok v p => packedVarints d conv k p end_ (conv v :: acc)
    | .eof p => .ok (acc.reverse, p)
    | .invalid => .error .invalidVarint

/-- Packed fixed-width iterator (`n` = 4 or 8). -/
def packedFixed (d : Bytes) (n : UInt64) :
    Nat → UInt64 → UInt64 → List UInt64 → Except Err (List UInt64 × UInt64)
  | 0, _, _, _ => .error .fuel
  | k + 1, pos, end_, acc =>
    match lrReadFixed d pos end_ n with
    | .ok p => packedFixed d n k p end_ (leBytes d pos.toNat n.toNat :: acc)
    | .error .eof => .ok (acc.reverse, pos)
    | .error e => .error e

def skipField (d : Bytes) (fv : FieldValue) (p fend : UInt64) : Except Err UInt64 :=
  match fv with
  | .len l => lrSkip d p fend l
  | _ => .ok p

/-- `read_string` (`utf8 = true`) / `read_bytes`: bounds check, allocation of `l` bytes, `read_exact`,
then UTF-8 validation for strings. -/
def consumeBlob (d : Bytes) (utf8 : Bool) (p fend l : UInt64) : Except Err (Option Val × UInt64) :=
  match lrReadBytes d p fend l with
  | .ok p2 =>
    if !utf8 || validUtf8 (d.extract p.toNat p2.toNat).toList then .ok (some (.blob l), p2)
    else .error .invalidUtf8
  | .error e => .error e

/-- Packed branch of `read_repeated_*`: `self.reader.sub_limit(len)?`, then run the iterator `loop`
(`packedVarints` / `packedFixed`) from `p` to the new end. -/
def consumePacked (loop : UInt64 → UInt64 → Except Err (List UInt64 × UInt64)) (p fend l : UInt64) :
    Except Err (Option Val × UInt64) :=
  match lrSub p fend l with
  | .ok e2 =>
    match loop p e2 with
    | .ok (xs, p2) => .ok (some (.nums xs), p2)
    | .error e => .error e
  | .error e => .error e

/-- `field.skip()?`, recording `v`. -/
def consumeSkip (d : Bytes) (v : Option Val) (fv : FieldValue) (p fend : UInt64) :
    Except Err (Option Val × UInt64) :=
  match skipField d fv p fend with
  | .ok p2 => .ok (v, p2)
  | .error e => .error e

/-- Everything a non-message arm does with a field whose sub-reader is `(p, fend)`.
Returns the decoded value (if recorded) and the new position. -/
def consumeField (d : Bytes) (fuel : Nat) (k : Kind) (fv : FieldValue) (p fend : UInt64) :
    Except Err (Option Val × UInt64) :=
  match k with
  | .str =>
    match fv with
    | .len l => consumeBlob d true p fend l
    | _ => .error .typeMismatch
  | .bytes =>
    match fv with
    | .len l => consumeBlob d false p fend l
    | _ => .error .typeMismatch
  | .f32 =>
    match fv with
    | .i32 v => .ok (some (.num v), p)
    | _ => .error .typeMismatch
  | .int64 =>
    match fv with
    | .varint v => .ok (some (.num v), p)
    | _ => .error .typeMismatch
  | .int32 =>
    match fv with
    | .varint v => .ok (some (.num (signExt32 v)), p)
    | _ => .error .typeMismatch
  | .packedI32 =>
    match fv with
    | .varint v => .ok (some (.nums [signExt32 v]), p)
    | .len l => consumePacked (fun a b => packedVarints d signExt32 fuel a b []) p fend l
    | _ => .error .typeMismatch
  | .packedI64 =>
    match fv with
    | .varint v => .ok (some (.nums [v]), p)
    | .len l => consumePacked (fun a b => packedVarints d id fuel a b []) p fend l
    | _ => .error .typeMismatch
  | .packedU64 =>
    match fv with
    | .varint v => .ok (some (.nums [v]), p)
    | .len l => consumePacked (fun a b => packedVarints d id fuel a b []) p fend l
    | _ => .error .typeMismatch
  | .packedF32 =>
    match fv with
    | .i32 v => .ok (some (.nums [v]), p)
    | .len l => consumePacked (fun a b => packedFixed d 4 fuel a b []) p fend l
    | _ => .error .typeMismatch
  | .packedF64 =>
    match fv with
    | .i64 v => .ok (some (.nums [v]), p)
    | .len l => consumePacked (fun a b => packedFixed d 8 fuel a b []) p fend l
    | _ => .error .typeMismatch
  | .flag => consumeSkip d (some .flag) fv p fend
  | .skip => consumeSkip d none fv p fend
  | .msg _ => .error .typeMismatch

/-! ## Message decoding (`DecodeMessage::decode_fields`, `decode_field`) -/

def pushVal (acc : List (UInt64 × Val)) (num : UInt64) : Option Val → List (UInt64 × Val)
  | some v => (num, v) :: acc
  | none => acc

/-- `MAX_MESSAGE_DEPTH` (field.rs). -/
def maxDepth : Nat := 100

/-- The `while let Some(field) = fields.next()? { match field.number() {…} }` loop of message `m`
(nesting depth `depth`, 0 = top level) over the sub-reader `(pos, end_)`. One unit of fuel per loop
iteration / nested message. Arguments: fuel, depth, message id, position, end, accumulator. -/
def decodeFields (S : Schema) (d : Bytes) :
    Nat → Nat → Nat → UInt64 → UInt64 → List (UInt64 × Val) → Except Err (List (UInt64 × Val) × UInt64)
  | 0, _, _, _, _, _ => .error .fuel
  | fuel + 1, depth, m, pos, end_, acc =>
    match nextField d pos end_ with
    | .done p => .ok (acc.reverse, p)
    | .err e => .error e
    | .field num fv p fend =>
      match (S.lookup m num).kind with
      | .msg child =>
        match fv with
        | .len l =>
          -- `Field::read_message`: depth check, then `self.reader.sub_limit(len)`
          if depth ≥ maxDepth then .error .tooDeep else
          match lrSub p fend l with
          | .error e => .error e
          | .ok cend =>
            match decodeFields S d fuel (depth + 1) child p cend [] with
            | .error e => .error e
            | .ok (sub, p2) => decodeFields S d fuel depth m p2 end_ ((num, .msg sub) :: acc)
        | _ => .error .typeMismatch
      | k =>
        match consumeField d fuel k fv p fend with
        | .error e => .error e
        | .ok (v, p2) => decodeFields S d fuel depth m p2 end_ (pushVal acc num v)

/-- `DecodeMessage::decode(ValueReader::from_buf(d))` for message `root`:
`Fields::new` = `LimitReader::new(reader, u64::MAX)` at position 0; fuel `|d| + 1`. -/
def parse (S : Schema) (d : Bytes) (root : Nat) : Except Err (List (UInt64 × Val) × UInt64) :=
  decodeFields S d (d.size + 1) 0 root 0 (lrNew d 0 (UInt64.ofNat (UInt64.size - 1))) []

/-! ## Cost semantics (work counter)

The work the decoder does, in the unit the `cfg(rten_verif)` hook `rten_onnx::verif::DECODE_STEPS`
counts on the real code: one step per primitive `LimitReader` read (`read_varint`, `read_i32`,
`read_i64` — tag, scalar value, length prefix, packed element, including the failing read that ends
a message or a packed run) plus one step per byte of a `string`/`bytes` buffer that is allocated and
filled.  (`skip` is a constant-time seek and costs nothing beyond its header reads.) -/

/-- Reads made for the value part of `Fields::next` (wire types 0, 1, 2, 5 read something). -/
def readValueN (wt : UInt64) : Nat := if wt = 0 ∨ wt = 1 ∨ wt = 2 ∨ wt = 5 then 1 else 0

/-- Reads made by one `Fields::next` call. -/
def nextFieldN (d : Bytes) (pos end_ : UInt64) : Nat :=
  match lrReadVarint d pos end_ with
  | .ok tag _ => 1 + readValueN (tag &&& 7)
  | _ => 1

/-- Reads made by the packed varint iterator (same recursion as `packedVarints`). -/
def packedVarintsN (d : Bytes) : Nat → UInt64 → UInt64 → Nat
  | 0, _, _ => 0
  | k + 1, pos, end_ =>
    match lrReadVarint d pos end_ with
    | .ok _ p => 1 + packedVarintsN d k p end_
    | _ => 1

/-- Reads made by the packed fixed-width iterator (same recursion as `packedFixed`). -/
def packedFixedN (d : Bytes) (n : UInt64) : Nat → UInt64 → UInt64 → Nat
  | 0, _, _ => 0
  | k + 1, pos, end_ =>
    match lrReadFixed d pos end_ n with
    | .ok p => 1 + packedFixedN d n k p end_
    | .error _ => 1

/-- Work done by a non-message arm on the field body (`consumeField`). -/
def consumeSteps (d : Bytes) (fuel : Nat) (k : Kind) (fv : FieldValue) (p fend : UInt64) : Nat :=
  match fv with
  | .len l =>
    match k with
    | .str | .bytes =>
      match lrReadBytes d p fend l with
      | .ok _ => l.toNat
      | .error _ => 0
    | .packedI32 | .packedI64 | .packedU64 =>
      match lrSub p fend l with
      | .ok e2 => packedVarintsN d fuel p e2
      | .error _ => 0
    | .packedF32 =>
      match lrSub p fend l with
      | .ok e2 => packedFixedN d 4 fuel p e2
      | .error _ => 0
    | .packedF64 =>
      match lrSub p fend l with
      | .ok e2 => packedFixedN d 8 fuel p e2
      | .error _ => 0
    | _ => 0
  | _ => 0

/-- Result of an instrumented run: the decoder's result, the work counter, and the largest nesting
depth of any `decodeFields` invocation in the run's call tree. -/
structure Counted where
  res : Except Err (List (UInt64 × Val) × UInt64)
  steps : Nat
  deepest : Nat

/-- `decodeFields` instrumented with the work counter and the deepest nesting level reached.
`c38_counted_refines` shows `.res` is exactly `decodeFields`. -/
def decodeFieldsS (S : Schema) (d : Bytes) :
    Nat → Nat → Nat → UInt64 → UInt64 → List (UInt64 × Val) → Counted
  | 0, depth, _, _, _, _ => ⟨.error .fuel, 0, depth⟩
  | fuel + 1, depth, m, pos, end_, acc =>
    let n0 := nextFieldN d pos end_
    match nextField d pos end_ with
    | .done p => ⟨.ok (acc.reverse, p), n0, depth⟩
    | .err e => ⟨.error e, n0, depth⟩
    | .field num fv p fend =>
      match (S.lookup m num).kind with
      | .msg child =>
        match fv with
        | .len l =>
          if depth ≥ maxDepth then ⟨.error .tooDeep, n0, depth⟩ else
          match lrSub p fend l with
          | .error e => ⟨.error e, n0, depth⟩
          | .ok cend =>
            let c1 := decodeFieldsS S d fuel (depth + 1) child p cend []
            match c1.res with
            | .error e => ⟨.error e, n0 + c1.steps, max depth c1.deepest⟩
            | .ok (sub, p2) =>
              let c2 := decodeFieldsS S d fuel depth m p2 end_ ((num, .msg sub) :: acc)
              ⟨c2.res, n0 + c1.steps + c2.steps, max c1.deepest c2.deepest⟩
        | _ => ⟨.error .typeMismatch, n0, depth⟩
      | k =>
        let nb := consumeSteps d fuel k fv p fend
        match consumeField d fuel k fv p fend with
        | .error e => ⟨.error e, n0 + nb, depth⟩
        | .ok (v, p2) =>
          let c2 := decodeFieldsS S d fuel depth m p2 end_ (pushVal acc num v)
          ⟨c2.res, n0 + nb + c2.steps, c2.deepest⟩

/-- Instrumented `parse`. -/
def parseS (S : Schema) (d : Bytes) (root : Nat) : Counted :=
  decodeFieldsS S d (d.size + 1) 0 root 0 (lrNew d 0 (UInt64.ofNat (UInt64.size - 1))) []

/-! ## Fragments of the arithmetic of the code before the fix

These are *illustrations*, not a model of the old decoder: isolated expressions of the old
`LimitReader`/`ValueReader::skip`, and a one-state abstraction of the old `read_varint` outer loop.
The `decide`d facts about them in `Props/C38.lean` explain the observed failures; the evidence that
the old code hangs / accepts over-long fields is the harness run against the pre-fix tree. -/

/-- Old `LimitReader::sub_limit` / `new`: `end = position + len`, wrapping. -/
def oldSubEnd (pos len : UInt64) : UInt64 := pos + len

/-- Old `check_has_bytes`: `position + len <= end`, wrapping. -/
def oldCheck (pos end_ len : UInt64) : Bool := pos + len ≤ end_

/-- Old `ValueReader::skip` on a `Cursor`: `seek_relative(len as i64)`, i.e.
`pos.checked_add_signed(len as i64)` (two's complement reinterpretation). `none` = seek error. -/
def oldSkipPos (pos len : UInt64) : Option UInt64 :=
  if len.toNat < 2 ^ 63 then
    (if pos.toNat + len.toNat < UInt64.size then some (pos + len) else none)
  else
    -- negative offset `len - 2^64`
    (if UInt64.size - len.toNat ≤ pos.toNat then some (pos + len) else none)

/-- One pass of the old `read_varint` outer loop once `index = 10`: `buf_len = min(|buf|, 0) = 0`,
nothing consumed, `index > 10` false: returns the same state (`none` = loop exits). -/
def oldVarintOuter (d : Bytes) (index : Nat) (pos : UInt64) : Option (Nat × UInt64) :=
  match d[pos.toNat]? with
  | none => none                      -- `buf.is_empty()` ⇒ Eof
  | some _ =>
    if index = 10 then
      (if index > 10 then none else some (index, pos))
    else none                         -- (other states not modelled here)

end RtenVerif.Protobuf
