/-
Model of the decision logic that makes in-place operator execution legal (C13):

* `broadcast_shapes`, `Layout::can_broadcast_to`, `can_run_binary_op_in_place`
  (src/ops/binary_elementwise.rs, rten-tensor/src/layout.rs);
* the element-wise in-place loop (`BinaryMutKernel::apply_*`: `*a_elt = f(*a_elt, b_elt)` for
  consecutive positions of the owned buffer) and `run_typed_op_in_place!` with its out-of-place
  fallback;
* the graph executor's choice of the in-place operand for commutative operators
  (src/graph.rs, `max_by_key` on the element count);
* output shapes of the in-place layout operators (`resolve_shape`, `flattened_shape`,
  `squeeze_in_place`, `unsqueeze_in_place` in src/ops/layout.rs).

Core Lean only (imports the import-free FastBroadcast model), links into `model_C13`.
-/
import RtenVerif.Model.FastBroadcast

namespace RtenVerif.InPlace
open RtenVerif.FastBroadcast

/-! ## Shapes -/

/-- One step of the `broadcast_shapes` loop. -/
def bsStep (a b : Nat) : Option Nat :=
  if a = b then some a else if a = 1 then some b else if b = 1 then some a else none

/-- `Some` of all elements, or `None` at the first `None` (the early `return None`). -/
def allSome {α : Type} : List (Option α) → Option (List α)
  | [] => some []
  | none :: _ => none
  | some x :: xs => (allSome xs).map (x :: ·)

/-- `broadcast_shapes(a, b)`: both shapes reversed and right-padded with 1s to a common length,
combined pairwise, reversed back. -/
def broadcastShapes (a b : List Nat) : Option (List Nat) :=
  let ar := a.reverse ++ List.replicate (b.length - a.length) 1
  let br := b.reverse ++ List.replicate (a.length - b.length) 1
  (allSome (List.zipWith bsStep ar br)).map List.reverse

/-- `Layout::can_broadcast_to(target_shape)`. -/
def canBroadcastTo (s target : List Nat) : Bool :=
  if s.length > target.length then false
  else (List.zip s (target.drop (target.length - s.length))).all (fun p => p.1 == p.2 || p.1 == 1)

/-- `can_run_binary_op_in_place(a, b)` = `b.can_broadcast_to(a.shape())`. -/
def canRunInPlace (a b : List Nat) : Bool := canBroadcastTo b a

/-! ## Values -/

/-- A tensor value: shape and row-major element list. -/
structure Tens (α : Type) where
  shape : List Nat
  data : List α
  deriving Repr, DecidableEq

/-- Out-of-place `binary_op`: broadcast both operands to the common shape, combine. -/
def binop {α β γ : Type} (f : α → β → γ) (a : Tens α) (b : Tens β) : Option (Tens γ) :=
  (broadcastShapes a.shape b.shape).map fun s =>
    ⟨s, List.zipWith f (bcastTo a.data a.shape s) (bcastTo b.data b.shape s)⟩

/-- The in-place loop over buffer positions `i, i+1, …` (`n` of them): read `buf[i]`, write
`f buf[i] (b at i)` back to the same slot.  `bAt` is the other operand seen through its
broadcast view.  `none`: an index outside the buffer or outside `b`'s broadcast — the code
excludes this with `assert!(cycles * b.len() * repeats == a.len())` / equal-shape asserts before
its unchecked accesses, i.e. a panic. -/
def inPlaceLoop {α β : Type} (f : α → β → α) (bAt : Nat → Option β) : Nat → Nat → List α → Option (List α)
  | _, 0, buf => some buf
  | i, n + 1, buf =>
    match buf[i]?, bAt i with
    | some x, some y => inPlaceLoop f bAt (i + 1) n (buf.set i (f x y))
    | _, _ => none

/-- `binary_op_in_place(a.view_mut(), b, f)`: the owned tensor keeps its shape and buffer. -/
def binopInPlace {α β : Type} (f : α → β → α) (a : Tens α) (b : Tens β) : Option (Tens α) :=
  (inPlaceLoop f (fun i => (bcastTo b.data b.shape a.shape)[i]?) 0 a.data.length a.data).map
    (fun d => ⟨a.shape, d⟩)

/-- `run_typed_op_in_place!`: in place when `can_run_binary_op_in_place`, otherwise the owned
input goes back to the pool and the out-of-place kernel runs. -/
def runInPlace {α β : Type} (f : α → β → α) (a : Tens α) (b : Tens β) : Option (Tens α) :=
  if canRunInPlace a.shape b.shape then binopInPlace f a b else binop f a b

/-- Did `runInPlace` reuse the owned buffer? -/
def reusesBuffer (a b : List Nat) : Bool := canRunInPlace a b

/-- What the executor runs for a binary operator whose operand `pos` it took as the owned
in-place value: the macro names the owned value `a` and the first remaining input `b`, so with
`pos = 1` the kernel computes `f b[i] a[i]` into `b`'s buffer. -/
def execInPlace {α : Type} (f : α → α → α) (pos : Nat) (a b : Tens α) : Option (Tens α) :=
  if pos = 0 then runInPlace f a b else runInPlace f b a

/-! ## Executor operand choice (src/graph.rs) -/

/-- `Iterator::max_by_key`: the *last* maximal element. -/
def maxByLen : List (Nat × Nat) → Option (Nat × Nat)
  | [] => none
  | p :: ps =>
    match maxByLen ps with
    | none => some p
    | some q => if q.2 ≥ p.2 then some q else some p

/-- In-place candidates: none without in-place support; for commutative operators the present
input with the largest element count; otherwise the operator's own in-place inputs that are
present.  `lens[i] = some n` is a present input with `n` elements. -/
def inPlaceCandidates (inPlaceInputs : List Nat) (commutative : Bool) (lens : List (Option Nat)) : List Nat :=
  if inPlaceInputs.isEmpty then []
  else if commutative then
    let present := (List.zip (List.range lens.length) lens).filterMap
      (fun p => p.2.map (fun n => (p.1, n)))
    match maxByLen present with
    | some p => [p.1]
    | none => []
  else inPlaceInputs.filter (fun i => (lens.getD i none).isSome)

/-! ## Layout operators: output shapes -/

/-- First pass of `resolve_shape`: `(product of the specified dims, position of the -1)`. -/
def resolveScan (inShape : List Nat) (allowZero : Bool) :
    List Int → Nat → Nat → Option Nat → Option (Nat × Option Nat)
  | [], _, prod, unspec => some (prod, unspec)
  | size :: rest, dim, prod, unspec =>
    if size < -1 then none
    else if size = 0 ∧ allowZero = false then
      if dim ≥ inShape.length then none
      else resolveScan inShape allowZero rest (dim + 1) (prod * inShape.getD dim 0) unspec
    else if size ≠ -1 then resolveScan inShape allowZero rest (dim + 1) (prod * size.toNat) unspec
    else if unspec.isSome then none
    else resolveScan inShape allowZero rest (dim + 1) prod (some dim)

/-- `resolve_shape(input_shape, shape, allow_zero)`. -/
def resolveShape (inShape : List Nat) (spec : List Int) (allowZero : Bool) : Option (List Nat) :=
  match resolveScan inShape allowZero spec 0 1 none with
  | none => none
  | some (prod, unspec) =>
    let len := numel inShape
    let fill : Option Nat :=
      if unspec.isSome then
        if prod = 0 then none else if len % prod ≠ 0 then none else some (len / prod)
      else if prod ≠ len then none else some 0
    fill.map fun u =>
      (List.zip (List.range spec.length) spec).map fun p =>
        if p.2 = -1 then u else if p.2 = 0 ∧ allowZero = false then inShape.getD p.1 0 else p.2.toNat

/-- `resolve_index(len, index)`. -/
def resolveIndex (len : Nat) (i : Int) : Option Nat :=
  if i < -(len : Int) ∨ i ≥ len then none else if i ≥ 0 then some i.toNat else some ((len : Int) + i).toNat

/-- `flattened_shape(shape, axis)`. -/
def flattenedShape (shape : List Nat) (axis : Int) : Option (List Nat) :=
  let outer : Option Nat := if axis = shape.length then some shape.length else resolveIndex shape.length axis
  outer.map fun k => [numel (shape.take k), numel (shape.drop k)]

/-- Insertion into a sorted list (the model of `sort`). -/
def insertSorted (x : Nat) : List Nat → List Nat
  | [] => [x]
  | y :: ys => if x ≤ y then x :: y :: ys else y :: insertSorted x ys

def sortNat (l : List Nat) : List Nat := l.foldr insertSorted []

/-- `dedup` of a sorted list. -/
def dedup : List Nat → List Nat
  | x :: y :: rest => if x = y then dedup (y :: rest) else x :: dedup (y :: rest)
  | l => l

/-- Remove the listed (sorted, distinct) positions. -/
def removeAxes (shape : List Nat) (axes : List Nat) : List Nat :=
  (List.zip (List.range shape.length) shape).filterMap (fun p => if axes.contains p.1 then none else some p.2)

/-- `squeeze_in_place`: output shape (`axes = none`: every size-1 axis). -/
def squeezeShape (shape : List Nat) (axes : Option (List Int)) : Option (List Nat) :=
  match axes with
  | none => some (shape.filter (· != 1))
  | some ax =>
    (allSome (ax.map (resolveIndex shape.length))).bind fun r =>
      let s := dedup (sortNat r)
      if s.all (fun a => shape.getD a 0 == 1) then some (removeAxes shape s) else none

/-- `unsqueeze_in_place`: output shape (axes resolved against the output rank, sorted, must be
distinct, inserted in ascending order). -/
def unsqueezeShape (shape : List Nat) (axes : List Int) : Option (List Nat) :=
  (allSome (axes.map (resolveIndex (shape.length + axes.length)))).bind fun r =>
    let s := sortNat r
    if (List.zip s (s.drop 1)).any (fun p => p.1 == p.2) then none
    else some (s.foldl (fun acc a => acc.insertIdx a 1) shape)

/-! ## Value models of the binary operators (i32, release build: wrapping arithmetic) -/

/-- Wrap an integer to the `i32` range. -/
def wrap32 (x : Int) : Int := (x + 2147483648) % 4294967296 - 2147483648

def b2i (b : Bool) : Int := if b then 1 else 0

/-- `f x y` of the named operator on `i32` operands (`none`: not modelled). -/
def binFn : String → Option (Int → Int → Int)
  | "Add" => some fun x y => wrap32 (x + y)
  | "Sub" => some fun x y => wrap32 (x - y)
  | "Mul" => some fun x y => wrap32 (x * y)
  | "And" => some fun x y => b2i (x != 0 && y != 0)
  | "Or" => some fun x y => b2i (x != 0 || y != 0)
  | "Xor" => some fun x y => b2i ((x != 0) != (y != 0))
  | "Equal" => some fun x y => b2i (x == y)
  | "Less" => some fun x y => b2i (decide (x < y))
  | "LessOrEqual" => some fun x y => b2i (decide (x ≤ y))
  | "Greater" => some fun x y => b2i (decide (x > y))
  | "GreaterOrEqual" => some fun x y => b2i (decide (x ≥ y))
  | _ => none

/-- Operators with a `run_in_place` among the modelled ones (the comparison / logical operators
only have `run`). -/
def hasInPlace (op : String) : Bool := op == "Add" || op == "Sub" || op == "Mul"

end RtenVerif.InPlace
