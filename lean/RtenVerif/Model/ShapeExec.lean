import RtenVerif.Model.ShapeInfer

/-!
# Reference execution semantics for the shape-carrying subset (C10)

The executed side of every C10 T1 theorem.  These references are themselves compared with the
real rten kernels on every run (`exec` requests of `harness/rten/src/bin/c10.rs`, answered by
`Driver/C10.lean` with these functions).  Import-free apart from `Model/ShapeInfer`.
-/
namespace RtenVerif.ShapeInfer

/-- An executed tensor, as far as shape inference can talk about it: rank-0 / rank-1 integer
tensors with their elements, or any tensor by its shape only. -/
inductive CT
  | scalar (v : Int)
  | vector (vs : List Int)
  | shaped (ds : List Int)
  deriving Repr, DecidableEq

def CT.dims : CT → List Int
  | .scalar _ => []
  | .vector vs => [(vs.length : Int)]
  | .shaped ds => ds

def CT.values : CT → Option (List Int)
  | .scalar v => some [v]
  | .vector vs => some vs
  | .shaped _ => none

def czip (f : Int → Int → Option Int) (l r : List Int) : Option (List Int) :=
  match l, r with
  | [x], r => mapO (fun y => f x y) r
  | l, [y] => mapO (fun x => f x y) l
  | l, r => if l.length = r.length then mapO (fun (p : Int × Int) => f p.1 p.2) (List.zip l r) else none

def execBinary (f : Int → Int → Option Int) : CT → CT → Option CT
  | .scalar x, .scalar y => (f x y).map CT.scalar
  | a, b =>
    match a.values, b.values with
    | some l, some r => (czip f l r).map CT.vector
    | _, _ => none

/-- Reference semantics of `Shape(start, end)`: the slice `[s, e)` of the executed shape, with the
same clamping as `resolve_start_end`. -/
def execShape (start stop : Option Int) (c : CT) : CT :=
  let (s, e) := resolveStartEnd start stop c.dims.length
  .vector ((c.dims.drop s).take (e - s))

/-- Reference semantics of `Where` on rank ≤ 1 integer tensors: broadcast the three operands to
the common length with `cycleTake` (see `cycleTake_full` / `cycleTake_one`) and select with the
kernel's test `c ≠ 0`. -/
def cwhere (c x y : List Int) : List Int :=
  let n := Nat.max (Nat.max c.length x.length) y.length
  (List.zip (cycleTake n c) (List.zip (cycleTake n x) (cycleTake n y))).map
    fun (t : Int × Int × Int) => if t.1 ≠ 0 then t.2.1 else t.2.2

/-- NumPy broadcasting of two dimension sizes. -/
def cb (x y : Int) : Option Int :=
  if x = y then some x else if x = 1 then some y else if y = 1 then some x else none

/-- Broadcasting of two equally long (already padded) shapes. -/
def cbs : List Int → List Int → Option (List Int)
  | x :: xs, y :: ys =>
    match cb x y with
    | none => none
    | some z =>
      match cbs xs ys with
      | none => none
      | some r => some (z :: r)
  | _, _ => some []

def padC (n : Nat) (ds : List Int) : List Int := List.replicate (n - ds.length) 1 ++ ds

/-- NumPy broadcasting of two shapes. -/
def cbroadcast (da db : List Int) : Option (List Int) :=
  let n := Nat.max da.length db.length
  cbs (padC n da) (padC n db)

/-- Reference `Gather(axis = 0)` on a vector with ONNX negative-index resolution. -/
def cgather (vs : List Int) (idxs : List Int) : Option (List Int) :=
  mapO (fun i => (resolveIndex vs.length i).bind fun k => vs[k]?) idxs

/-- Reference `Concat(axis = 0)` of rank ≤ 1 value-carrying tensors. -/
def cconcat (cs : List CT) : Option CT := (mapO CT.values cs).map fun vs => .vector vs.flatten

def CT.isScalar : CT → Bool
  | .scalar _ => true
  | _ => false

def cwhereT (c x y : CT) : Option CT :=
  match c.values, x.values, y.values with
  | some vc, some vx, some vy =>
    if c.isScalar && x.isScalar && y.isScalar then
      match cwhere vc vx vy with
      | [v] => some (.scalar v)
      | l => some (.vector l)
    else some (.vector (cwhere vc vx vy))
  | _, _, _ => none

/-- Reference shape of `Transpose`. -/
def ctranspose (perm : Option (List Nat)) (ds : List Int) : Option (List Int) :=
  match perm with
  | none => some ds.reverse
  | some p => mapO (fun i => ds[i]?) p

/-- Reference shape of `Unsqueeze`: ones inserted at the sorted, resolved axes. -/
def cunsqueeze (ds : List Int) (axes : List Int) : Option (List Int) :=
  (mapO (resolveIndex (ds.length + axes.length)) axes).map fun rs =>
    (sortNat rs).foldl (fun d ax => insertAt ax (1 : Int) d) ds

/-- Reference shape of `Squeeze` with explicit axes. -/
def csqueeze (ds : List Int) (axes : List Int) : Option (List Int) :=
  (mapO (resolveIndex ds.length) axes).map fun rs => removeIdx rs 0 ds

/-- Reference `ConstantOfShape` on an instantiated shape vector (`value = none`: non-integer fill). -/
def cconstantOfShape (value : Option Int) (shape : List Int) : Option CT :=
  match value, shape with
  | some v, [] => some (.scalar v)
  | some v, [n] => if 0 ≤ n then some (.vector (List.replicate n.toNat v)) else none
  | _, ds => some (.shaped ds)

/-- Reference `Neg` (integer tensors of rank ≤ 1 keep their values, everything else its shape). -/
def cneg : CT → CT
  | .scalar v => .scalar (-v)
  | .vector vs => .vector (vs.map fun v => -v)
  | .shaped ds => .shaped ds

/-- Element-wise binary operator on any two tensors: the valued reference when both operands carry
values, otherwise the broadcast shape. -/
def execBinaryFull (f : Int → Int → Option Int) (a b : CT) : Option CT :=
  match a.values, b.values with
  | some _, some _ => execBinary f a b
  | _, _ => (cbroadcast a.dims b.dims).map CT.shaped

/-- `Where` on any three tensors. -/
def cwhereFull (c x y : CT) : Option CT :=
  match c.values, x.values, y.values with
  | some _, some _, some _ => cwhereT c x y
  | _, _, _ => ((cbroadcast c.dims x.dims).bind fun cx => cbroadcast cx y.dims).map CT.shaped

end RtenVerif.ShapeInfer
