/-
UTF-8 on byte lists (`Nat < 256`), shared by the C27 and C30 models: the encoding of a code
point (`char::encode_utf8`), `String::from_utf8` validity (Unicode Table 3-7, well-formed UTF-8
byte sequences) and `str::is_char_boundary`.  Import-free.
-/
namespace RtenVerif.Utf8

/-- Unicode scalar value (what a Rust `char` / Lean `Char` holds). -/
def isScalar (c : Nat) : Bool := c < 0xD800 || (0xE000 ≤ c && c < 0x110000)

/-- `char::encode_utf8`. -/
def encCp (c : Nat) : List Nat :=
  if c < 0x80 then [c]
  else if c < 0x800 then [0xC0 + c / 64, 0x80 + c % 64]
  else if c < 0x10000 then [0xE0 + c / 4096, 0x80 + c / 64 % 64, 0x80 + c % 64]
  else [0xF0 + c / 262144, 0x80 + c / 4096 % 64, 0x80 + c / 64 % 64, 0x80 + c % 64]

/-- The UTF-8 bytes of a text given by its code points. -/
def encode : List Nat → List Nat
  | [] => []
  | c :: cs => encCp c ++ encode cs

/-- Continuation byte `10xxxxxx`. -/
def isCont (b : Nat) : Bool := 0x80 ≤ b && b ≤ 0xBF

/-- `String::from_utf8(bytes).is_ok()` / `str::from_utf8`. -/
def valid : List Nat → Bool
  | [] => true
  | b0 :: rest =>
    if b0 < 0x80 then valid rest
    else if 0xC2 ≤ b0 ∧ b0 ≤ 0xDF then
      match rest with
      | b1 :: r => isCont b1 && valid r
      | _ => false
    else if 0xE0 ≤ b0 ∧ b0 ≤ 0xEF then
      match rest with
      | b1 :: b2 :: r =>
        decide ((if b0 = 0xE0 then 0xA0 else 0x80) ≤ b1) &&
        decide (b1 ≤ (if b0 = 0xED then 0x9F else 0xBF)) && isCont b2 && valid r
      | _ => false
    else if 0xF0 ≤ b0 ∧ b0 ≤ 0xF4 then
      match rest with
      | b1 :: b2 :: b3 :: r =>
        decide ((if b0 = 0xF0 then 0x90 else 0x80) ≤ b1) &&
        decide (b1 ≤ (if b0 = 0xF4 then 0x8F else 0xBF)) && isCont b2 && isCont b3 && valid r
      | _ => false
    else false

/-- `str::is_char_boundary(p)` on the bytes of a valid string: start, end, or a byte that is
not a continuation byte (`(b as i8) >= -0x40`). -/
def isBoundary (bytes : List Nat) (p : Nat) : Bool :=
  p == 0 || p == bytes.length ||
    match bytes[p]? with
    | some b => !isCont b
    | none => false

end RtenVerif.Utf8
