/-
Model of the generation loop in `rten-generate/src/generator.rs`
(`Generator::{with_prompt, append_prompt, clear_prompt, process_prompt, next}`,
`generate_impl`, `generate_next_token`) driving an abstract `model::Model`.

The generator is a state machine `step : State → Op → StepOut`.  The abstract model
(the environment) is the simplest thing satisfying the `Model` contract the generator
relies on: every `run` receives `(tokens, first position, KV cache)`, and — when it has
KV-cache inputs — returns a *new* cache, identified by the number of the call that
returned it, whose sequence length is the old length plus the number of tokens fed.
The token produced by `next` is chosen by the environment (it stands for model logits +
filter + sampler) and is carried by the operation itself; so are the environment's other
choices: a failing `Model::run` (`processFail`, `nextFail`), a filter that removes every
candidate (`nextEmpty`) and a logits output of the wrong rank (`nextBadLogits`).  A call also
records the attention-mask length, the `use_cache_branch` flag and the encoder
(cross-attention) cache handed in.

Import-free: links into the `model_C32` driver.  `usize`/`u32` are `Nat`.
-/
namespace RtenVerif.Generator

/-- Public operations on a `Generator`.  `next t`: `Iterator::next` where the sampler
returns `t`.  `nextEmpty`: `Iterator::next` where the logits filter removes every
candidate (`GeneratorError::GenerateError("filtered logits are empty")`). -/
inductive Op where
  | withPrompt (p : List Nat)
  | append (p : List Nat)
  | clear
  | process
  | next (t : Nat)
  | nextEmpty
  /-- `process_prompt` where `Model::run` returns an error (environment choice). -/
  | processFail
  /-- `Iterator::next` where `Model::run` returns an error (environment choice). -/
  | nextFail
  /-- `Iterator::next` where the run succeeds but the logits output cannot be converted to a
  rank-3 float tensor (`"failed to extract logits from model outputs"`): the error is raised
  *after* the caches, `prev_tokens` and the pending tokens were updated. -/
  | nextBadLogits
  deriving Repr, DecidableEq

/-- What the abstract model observes in one `Model::run` call. -/
structure Call where
  /-- `input_ids`, in order. -/
  toks : List Nat
  /-- first position id (`position_ids`/`cache_position` are `start, start+1, …`). -/
  start : Nat
  /-- KV cache handed in.  `none`: the model has no cache inputs.  `some none`: the model has
  cache inputs but the generator supplies no tensor (it lost them in a failed run).
  `some (some (id, len))`: cache `id` of sequence length `len`; id `0` is the empty cache the
  generator allocates, id `k+1` the cache returned by the `k`-th call (0-based). -/
  cacheIn : Option (Option (Nat × Nat))
  /-- whether the logits output was requested. -/
  logits : Bool
  /-- number of positions covered by the `attention_mask` input (`[batch, positions.end]` ones). -/
  attn : Nat
  /-- the `use_cache_branch` input (`positions.start != 0`). -/
  flag : Bool
  /-- id of the cross-attention (encoder) cache handed in: `0` the generator's initial empty
  one, `k+1` the one returned by call `k`.  Only meaningful for models with encoder caches. -/
  encIn : Nat
  /-- environment: did this `run` succeed? -/
  ok : Bool
  deriving Repr, DecidableEq

/-- Result of one operation as the caller sees it. -/
inductive Outcome where
  | unit                 -- `with_prompt`/`append_prompt`/`clear_prompt`, `process_prompt` → `Ok(())`
  | tok (t : Nat)        -- `next` → `Some(Ok(t))`
  | errEmpty             -- `next` → `Some(Err("filtered logits are empty"))`
  | panicNoRow           -- `next` with nothing pending: logits have no row, `slice((0, -1))` panics
  | errRun               -- `process_prompt`/`next` → `Err("failed to run model: …")`
  | errLogits            -- `next` → `Err("failed to extract logits from model outputs: …")`
  deriving Repr, DecidableEq

/-- How `generate_impl` records the prompt in `prev_tokens`.
* `legacy`: the code before the C32 fix — `if self.prev_tokens.is_empty() { extend(input_ids) }`.
* `tracked`: the current code — extend with `input_ids[recorded_input_len..]`. -/
inductive Rule where
  | legacy
  | tracked
  deriving Repr, DecidableEq

/-- Generator fields that matter here, plus the environment's call counter. -/
structure State where
  /-- `input_ids`: tokens for the next run. -/
  inputIds : List Nat
  /-- `input_offset`: position of `input_ids[0]`. -/
  offset : Nat
  /-- `prev_tokens`. -/
  prev : List Nat
  /-- `recorded_input_len`: leading part of `input_ids` already present in `prev_tokens`. -/
  recorded : Nat
  /-- KV cache currently held: `none` when the model has no KV-cache inputs
  (`self.kv_cache.is_empty()`), `some none` when the entries exist but their tensors are gone
  (`KvCache::cache == None` after a failed run), `some (some (id, len))` otherwise. -/
  kv : Option (Option (Nat × Nat))
  /-- id of the encoder (cross-attention) cache currently held. -/
  enc : Nat
  /-- environment: number of `run` calls so far. -/
  calls : Nat
  deriving Repr, DecidableEq

def State.init (hasKv : Bool) : State :=
  { inputIds := [], offset := 0, prev := [], recorded := 0,
    kv := if hasKv then some (some (0, 0)) else none, enc := 0, calls := 0 }

/-- The inputs of the next `Model::run` call as computed from the generator state. -/
def callOf (s : State) (logits ok : Bool) : Call :=
  { toks := s.inputIds, start := s.offset, cacheIn := s.kv, logits := logits,
    attn := s.offset + s.inputIds.length, flag := s.offset != 0, encIn := s.enc, ok := ok }

/-- `generate_impl` when `Model::run` succeeds: run the model on the pending tokens, store
the returned caches, record the prompt, and (with KV-cache entries) advance the offset and
clear the pending tokens.  The abstract model returns a self-attention cache extended by the
fed tokens (built from nothing if no cache was supplied) and — as Optimum's merged decoders
do — a fresh encoder cache only on a run that starts at position 0 (dummy empty tensors,
which the generator ignores, otherwise). -/
def generateImpl (r : Rule) (s : State) (logits : Bool) : State × Call :=
  let c := callOf s logits true
  let n := s.inputIds.length
  let calls' := s.calls + 1
  let enc' := if s.offset == 0 then calls' else s.enc
  let prev' := match r with
    | .legacy => if s.prev.isEmpty then s.prev ++ s.inputIds else s.prev
    | .tracked => s.prev ++ s.inputIds.drop s.recorded
  match s.kv with
  | some held =>
    let len := match held with
      | some (_, len) => len
      | none => 0
    ({ inputIds := [], offset := s.offset + n, prev := prev', recorded := 0,
       kv := some (some (calls', len + n)), enc := enc', calls := calls' }, c)
  | none =>
    ({ s with prev := prev', recorded := n, enc := enc', calls := calls' }, c)

/-- `generate_impl` when `Model::run` fails: the self-attention cache tensors were moved into
the model's inputs before the call (`entry.cache.take()`) and are gone; the function returns
before anything else is updated (encoder caches are only borrowed). -/
def generateFail (s : State) (logits : Bool) : State × Call :=
  ({ s with kv := s.kv.map (fun _ => none), calls := s.calls + 1 }, callOf s logits false)

structure StepOut where
  st : State
  /-- the `Model::run` call made by this operation, if any -/
  call : Option Call
  /-- `prev_tokens` as passed to the logits filter, if it was invoked -/
  filt : Option (List Nat)
  out : Outcome
  deriving Repr, DecidableEq

def step (r : Rule) (s : State) : Op → StepOut
  | .withPrompt p => ⟨{ s with inputIds := p, recorded := 0 }, none, none, .unit⟩
  | .append p => ⟨{ s with inputIds := s.inputIds ++ p }, none, none, .unit⟩
  | .clear => ⟨{ s with inputIds := [], recorded := 0 }, none, none, .unit⟩
  | .process => let (s1, c) := generateImpl r s false; ⟨s1, some c, none, .unit⟩
  | .next t =>
    let (s1, c) := generateImpl r s true
    if s.inputIds.isEmpty then ⟨s1, some c, none, .panicNoRow⟩
    else
      ⟨{ s1 with prev := s1.prev ++ [t], inputIds := s1.inputIds ++ [t],
                 recorded := s1.recorded + 1 },
       some c, some s1.prev, .tok t⟩
  | .nextEmpty =>
    let (s1, c) := generateImpl r s true
    if s.inputIds.isEmpty then ⟨s1, some c, none, .panicNoRow⟩
    else ⟨s1, some c, some s1.prev, .errEmpty⟩
  | .processFail => let (s1, c) := generateFail s false; ⟨s1, some c, none, .errRun⟩
  | .nextFail => let (s1, c) := generateFail s true; ⟨s1, some c, none, .errRun⟩
  | .nextBadLogits => let (s1, c) := generateImpl r s true; ⟨s1, some c, none, .errLogits⟩

/-- Run a history from state `s`, collecting the model's call log. -/
def runFrom (r : Rule) : State → List Op → State × List Call
  | s, [] => (s, [])
  | s, op :: ops =>
    let o := step r s op
    let (s', log) := runFrom r o.st ops
    (s', o.call.toList ++ log)

/-- Run a history on a fresh generator. -/
def run (r : Rule) (hasKv : Bool) (ops : List Op) : State × List Call :=
  runFrom r (State.init hasKv) ops

/-! ## Specification, independent of the generator's bookkeeping

Pending tokens carry a flag "not yet part of the history".  Nothing here mentions offsets,
`recorded_input_len`, caches or `prev_tokens`. -/

structure Spec where
  /-- the token list each model call must have received and whether the call succeeded,
  oldest call first -/
  calls : List (List Nat × Bool)
  /-- every token submitted to or produced by the model, in order, each once -/
  hist : List Nat
  /-- pending tokens with the flag "fresh" (= not yet in `hist`) -/
  pend : List (Nat × Bool)
  deriving Repr, DecidableEq

def Spec.init : Spec := ⟨[], [], []⟩

/-- The model is run: it must receive exactly the pending tokens; the fresh ones enter the
history.  With a KV cache they stop being pending (the cache remembers them); without one
the whole sequence stays pending and is resubmitted next time. -/
def Spec.feed (hasKv : Bool) (sp : Spec) : Spec :=
  { calls := sp.calls ++ [(sp.pend.map (·.1), true)],
    hist := sp.hist ++ (sp.pend.filter (·.2)).map (·.1),
    pend := if hasKv then [] else sp.pend.map (fun x => (x.1, false)) }

/-- The model is run and fails: it was handed the pending tokens, which stay pending; nothing
was submitted successfully, so the history is unchanged. -/
def Spec.feedFail (sp : Spec) : Spec :=
  { sp with calls := sp.calls ++ [(sp.pend.map (·.1), false)] }

def Spec.step (hasKv : Bool) (sp : Spec) : Op → Spec
  | .withPrompt p => { sp with pend := p.map (·, true) }
  | .append p => { sp with pend := sp.pend ++ p.map (·, true) }
  | .clear => { sp with pend := [] }
  | .process => sp.feed hasKv
  | .next t =>
    let sp' := sp.feed hasKv
    if sp.pend.isEmpty then sp'
    else { sp' with hist := sp'.hist ++ [t], pend := sp'.pend ++ [(t, false)] }
  | .nextEmpty => sp.feed hasKv
  | .processFail => sp.feedFail
  | .nextFail => sp.feedFail
  | .nextBadLogits => sp.feed hasKv

def Spec.runFrom (hasKv : Bool) : Spec → List Op → Spec
  | sp, [] => sp
  | sp, op :: ops => Spec.runFrom hasKv (sp.step hasKv op) ops

def Spec.run (hasKv : Bool) (ops : List Op) : Spec := Spec.runFrom hasKv Spec.init ops

/-! ## "Submitted" tokens, defined on the operations alone

Independent of `State`, `Spec`, calls and caches: the in-order concatenation of the
`with_prompt` / `append_prompt` arguments and the sampled tokens, minus the tokens that were
still waiting when a `clear_prompt` or a later `with_prompt` discarded them.  The only
bookkeeping is how many trailing tokens are still waiting (`npend`); a run of the model — it is
irrelevant here whether anything is fed — resets it, a failed run does not. -/

structure Sub where
  /-- every token handed over and not discarded, in order -/
  kept : List Nat
  /-- how many trailing tokens of `kept` can still be discarded -/
  npend : Nat
  deriving Repr, DecidableEq

def Sub.step (sb : Sub) : Op → Sub
  | .withPrompt p => ⟨sb.kept.take (sb.kept.length - sb.npend) ++ p, p.length⟩
  | .append p => ⟨sb.kept ++ p, sb.npend + p.length⟩
  | .clear => ⟨sb.kept.take (sb.kept.length - sb.npend), 0⟩
  | .process => ⟨sb.kept, 0⟩
  | .nextEmpty => ⟨sb.kept, 0⟩
  | .next t => if sb.npend = 0 then sb else ⟨sb.kept ++ [t], 1⟩
  | .processFail => sb
  | .nextFail => sb
  | .nextBadLogits => ⟨sb.kept, 0⟩

/-- Tokens submitted by a history to a generator whose model has a KV cache. -/
def submitted (ops : List Op) : List Nat := (ops.foldl Sub.step ⟨[], 0⟩).kept

/-! ## Log predicates (also the definition the harness oracle implements) -/

/-- What the next call must look like, given the calls so far. -/
structure LogSt where
  /-- self-attention cache the generator holds (`none`: lost in a failed run) -/
  held : Option (Nat × Nat)
  /-- encoder cache the generator holds -/
  enc : Nat
  /-- number of calls so far -/
  idx : Nat
  /-- position where the next call starts = tokens fed by successful calls -/
  pos : Nat
  /-- all checks so far passed -/
  good : Bool
  deriving Repr, DecidableEq

def LogSt.init : LogSt := ⟨some (0, 0), 0, 0, 0, true⟩

/-- Check one call of a model **with** KV cache against the expectation and advance:
it starts where the successful calls so far ended, its attention mask covers `0..end`, the
`use_cache_branch` flag is `start ≠ 0`, the self-attention cache is the one the previous call
returned (absent right after a failed call), the encoder cache is the one last returned. -/
def logStep (st : LogSt) (c : Call) : LogSt :=
  let n := c.toks.length
  let good := st.good && c.start == st.pos && c.cacheIn == some st.held &&
    c.attn == st.pos + n && c.flag == (st.pos != 0) && c.encIn == st.enc
  if c.ok then
    let len := match st.held with
      | some (_, l) => l
      | none => 0
    { held := some (st.idx + 1, len + n), enc := if st.pos == 0 then st.idx + 1 else st.enc,
      idx := st.idx + 1, pos := st.pos + n, good := good }
  else
    { st with held := none, idx := st.idx + 1, good := good }

def logRun (st : LogSt) (log : List Call) : LogSt := log.foldl logStep st

/-- The whole log of a KV-cache model is well formed. -/
def logOk (log : List Call) : Bool := (logRun LogSt.init log).good

/-- Log shape for a model without KV cache: every call starts at position 0 with a mask over
exactly the tokens fed, no cache. -/
def logOkNoKv : List Call → Bool
  | [] => true
  | c :: cs => c.start == 0 && c.cacheIn == none && c.attn == c.toks.length && c.flag == false &&
      logOkNoKv cs

/-- All position ids the model saw, call after call. -/
def positions (log : List Call) : List Nat :=
  log.flatMap (fun c => List.range' c.start c.toks.length)

/-- All tokens the model saw, call after call. -/
def fed (log : List Call) : List Nat := log.flatMap (·.toks)

/-- The calls that succeeded. -/
def okCalls (log : List Call) : List Call := log.filter (·.ok)

/-- Operations in which `Model::run` fails. -/
def Op.isFail : Op → Bool
  | .processFail => true
  | .nextFail => true
  | _ => false

/-- Operations that discard pending tokens. -/
def Op.discards : Op → Bool
  | .clear => true
  | .withPrompt _ => true
  | _ => false

end RtenVerif.Generator
