/-
Model of the generation loop in `rten-generate/src/generator.rs`
(`Generator::{with_prompt, append_prompt, clear_prompt, process_prompt, next}`,
`generate_impl`, `generate_next_token`) driving an abstract `model::Model`.

The generator is a state machine `step : State → Op → StepOut`.  The abstract model
(the environment) is the simplest thing satisfying the `Model` contract the generator
relies on: every `run` receives `(tokens, first position, KV cache)`, and — when it has
KV-cache inputs — returns a *new* cache, identified by the number of the call that
returned it, whose sequence length is the old length plus the number of tokens fed.
The token produced by `next` is chosen by the environment (it stands for model logits +
filter + sampler) and is carried by the operation itself.

Import-free: links into the `model_C32` driver.  `usize`/`u32` are `Nat`.
-/
namespace RtenVerif.Generator

/-- Public operations on a `Generator`.  `next t`: `Iterator::next` where the sampler
returns `t`.  `nextEmpty`: `Iterator::next` where the logits filter removes every
candidate (`GeneratorError::GenerateError("filtered logits are empty")`). -/
inductive Op where
  | withPrompt (p : List Nat)
  | append (p : List Nat)
  | clear
  | process
  | next (t : Nat)
  | nextEmpty
  deriving Repr, DecidableEq

/-- What the abstract model observes in one `Model::run` call. -/
structure Call where
  /-- `input_ids`, in order. -/
  toks : List Nat
  /-- first position id (`position_ids`/`cache_position` are `start, start+1, …`). -/
  start : Nat
  /-- KV cache handed in: `(id, sequence length)`; `none` for a model without cache inputs.
  Cache id `0` is the empty cache the generator allocates, id `k+1` the cache returned by
  the `k`-th call (0-based). -/
  cacheIn : Option (Nat × Nat)
  /-- whether the logits output was requested. -/
  logits : Bool
  deriving Repr, DecidableEq

/-- Result of one operation as the caller sees it. -/
inductive Outcome where
  | unit                 -- `with_prompt`/`append_prompt`/`clear_prompt`, `process_prompt` → `Ok(())`
  | tok (t : Nat)        -- `next` → `Some(Ok(t))`
  | errEmpty             -- `next` → `Some(Err("filtered logits are empty"))`
  | panicNoRow           -- `next` with nothing pending: logits have no row, `slice((0, -1))` panics
  deriving Repr, DecidableEq

/-- How `generate_impl` records the prompt in `prev_tokens`.
* `legacy`: the code before the C32 fix — `if self.prev_tokens.is_empty() { extend(input_ids) }`.
* `tracked`: the current code — extend with `input_ids[recorded_input_len..]`. -/
inductive Rule where
  | legacy
  | tracked
  deriving Repr, DecidableEq

/-- Generator fields that matter here, plus the environment's call counter. -/
structure State where
  /-- `input_ids`: tokens for the next run. -/
  inputIds : List Nat
  /-- `input_offset`: position of `input_ids[0]`. -/
  offset : Nat
  /-- `prev_tokens`. -/
  prev : List Nat
  /-- `recorded_input_len`: leading part of `input_ids` already present in `prev_tokens`. -/
  recorded : Nat
  /-- KV cache currently held `(id, len)`; `none` when the model has no KV-cache inputs
  (`self.kv_cache.is_empty()`). -/
  kv : Option (Nat × Nat)
  /-- environment: number of `run` calls so far. -/
  calls : Nat
  deriving Repr, DecidableEq

def State.init (hasKv : Bool) : State :=
  { inputIds := [], offset := 0, prev := [], recorded := 0,
    kv := if hasKv then some (0, 0) else none, calls := 0 }

/-- `generate_impl`: run the model on the pending tokens, store the returned cache,
record the prompt, and (with a KV cache) advance the offset and clear the pending tokens. -/
def generateImpl (r : Rule) (s : State) (logits : Bool) : State × Call :=
  let c : Call := { toks := s.inputIds, start := s.offset, cacheIn := s.kv, logits := logits }
  let n := s.inputIds.length
  let calls' := s.calls + 1
  let prev' := match r with
    | .legacy => if s.prev.isEmpty then s.prev ++ s.inputIds else s.prev
    | .tracked => s.prev ++ s.inputIds.drop s.recorded
  match s.kv with
  | some (_, len) =>
    ({ inputIds := [], offset := s.offset + n, prev := prev', recorded := 0,
       kv := some (calls', len + n), calls := calls' }, c)
  | none =>
    ({ s with prev := prev', recorded := n, calls := calls' }, c)

structure StepOut where
  st : State
  /-- the `Model::run` call made by this operation, if any -/
  call : Option Call
  /-- `prev_tokens` as passed to the logits filter, if it was invoked -/
  filt : Option (List Nat)
  out : Outcome
  deriving Repr, DecidableEq

def step (r : Rule) (s : State) : Op → StepOut
  | .withPrompt p => ⟨{ s with inputIds := p, recorded := 0 }, none, none, .unit⟩
  | .append p => ⟨{ s with inputIds := s.inputIds ++ p }, none, none, .unit⟩
  | .clear => ⟨{ s with inputIds := [], recorded := 0 }, none, none, .unit⟩
  | .process => let (s1, c) := generateImpl r s false; ⟨s1, some c, none, .unit⟩
  | .next t =>
    let (s1, c) := generateImpl r s true
    if s.inputIds.isEmpty then ⟨s1, some c, none, .panicNoRow⟩
    else
      ⟨{ s1 with prev := s1.prev ++ [t], inputIds := s1.inputIds ++ [t],
                 recorded := s1.recorded + 1 },
       some c, some s1.prev, .tok t⟩
  | .nextEmpty =>
    let (s1, c) := generateImpl r s true
    if s.inputIds.isEmpty then ⟨s1, some c, none, .panicNoRow⟩
    else ⟨s1, some c, some s1.prev, .errEmpty⟩

/-- Run a history from state `s`, collecting the model's call log. -/
def runFrom (r : Rule) : State → List Op → State × List Call
  | s, [] => (s, [])
  | s, op :: ops =>
    let o := step r s op
    let (s', log) := runFrom r o.st ops
    (s', o.call.toList ++ log)

/-- Run a history on a fresh generator. -/
def run (r : Rule) (hasKv : Bool) (ops : List Op) : State × List Call :=
  runFrom r (State.init hasKv) ops

/-! ## Specification, independent of the generator's bookkeeping

Pending tokens carry a flag "not yet part of the history".  Nothing here mentions offsets,
`recorded_input_len`, caches or `prev_tokens`. -/

structure Spec where
  /-- the token list each model call must have received, oldest call first -/
  calls : List (List Nat)
  /-- every token submitted to or produced by the model, in order, each once -/
  hist : List Nat
  /-- pending tokens with the flag "fresh" (= not yet in `hist`) -/
  pend : List (Nat × Bool)
  deriving Repr, DecidableEq

def Spec.init : Spec := ⟨[], [], []⟩

/-- The model is run: it must receive exactly the pending tokens; the fresh ones enter the
history.  With a KV cache they stop being pending (the cache remembers them); without one
the whole sequence stays pending and is resubmitted next time. -/
def Spec.feed (hasKv : Bool) (sp : Spec) : Spec :=
  { calls := sp.calls ++ [sp.pend.map (·.1)],
    hist := sp.hist ++ (sp.pend.filter (·.2)).map (·.1),
    pend := if hasKv then [] else sp.pend.map (fun x => (x.1, false)) }

def Spec.step (hasKv : Bool) (sp : Spec) : Op → Spec
  | .withPrompt p => { sp with pend := p.map (·, true) }
  | .append p => { sp with pend := sp.pend ++ p.map (·, true) }
  | .clear => { sp with pend := [] }
  | .process => sp.feed hasKv
  | .next t =>
    let sp' := sp.feed hasKv
    if sp.pend.isEmpty then sp'
    else { sp' with hist := sp'.hist ++ [t], pend := sp'.pend ++ [(t, false)] }
  | .nextEmpty => sp.feed hasKv

def Spec.runFrom (hasKv : Bool) : Spec → List Op → Spec
  | sp, [] => sp
  | sp, op :: ops => Spec.runFrom hasKv (sp.step hasKv op) ops

def Spec.run (hasKv : Bool) (ops : List Op) : Spec := Spec.runFrom hasKv Spec.init ops

/-! ## Log predicates (also used verbatim as the harness oracle's definition) -/

/-- `logOk i p log`: the calls are numbered `i, i+1, …`; each starts at the position where
the previous one ended (`p` for the first) and is handed the cache `(i, p)` — i.e. the cache
returned by the previous call, holding exactly the tokens fed so far. -/
def logOk : Nat → Nat → List Call → Bool
  | _, _, [] => true
  | i, p, c :: cs =>
    c.start == p && c.cacheIn == some (i, p) && logOk (i + 1) (p + c.toks.length) cs

/-- Log shape for a model without KV cache: every call starts at position 0, no cache. -/
def logOkNoKv : List Call → Bool
  | [] => true
  | c :: cs => c.start == 0 && c.cacheIn == none && logOkNoKv cs

/-- All position ids the model saw, call after call. -/
def positions (log : List Call) : List Nat :=
  log.flatMap (fun c => List.range' c.start c.toks.length)

/-- All tokens the model saw, call after call. -/
def fed (log : List Call) : List Nat := log.flatMap (·.toks)

end RtenVerif.Generator
