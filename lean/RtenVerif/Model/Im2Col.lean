/-
C14: `build_im2col` (src/ops/conv/im2col.rs) — the offset tables of the virtual im2col matrix
used by the general convolution path.  Row `r = (chan·k_h + k_y)·k_w + k_x`, column
`q = patch_y·x_patches + patch_x`; element `(r, q)` of the matrix is the image element at storage
offset `row_chan[r] + (row_y[r] + col_y[q]) + (row_x[r] + col_x[q])`, or 0 (padding) unless
`0 ≤ row_y[r] + col_y[q] ≤ max_y_offset` and `0 ≤ row_x[r] + col_x[q] ≤ max_x_offset`.

The image is a `[chans, h, w]` view with arbitrary (non-negative) strides `(sc, sth, stw)`;
offsets are `i32` in the code, `Int` here.  `repeat_n(v, n)` is `(range n).map (fun _ => v)`.
Import-free.
-/
namespace RtenVerif.Im2Col

structure Params where
  chans : Nat
  h : Nat
  w : Nat
  kh : Nat
  kw : Nat
  padTop : Nat
  padLeft : Nat
  padBottom : Nat
  padRight : Nat
  strideH : Nat
  strideW : Nat
  dilY : Nat
  dilX : Nat
  /-- image strides (channel, row, column) -/
  sc : Nat
  sth : Nat
  stw : Nat
  deriving Repr, DecidableEq

/-- `output_size_and_padding_for_axis` with fixed padding, floor rounding (`none`: error, which
`build_im2col` turns into a panic via `expect`). -/
def outSize (inSize k stride padStart padEnd dil : Nat) : Option Nat :=
  if dil = 0 ∨ k = 0 ∨ stride = 0 then none
  else if inSize + padStart + padEnd < k + (k - 1) * (dil - 1) then none
  else some ((inSize + padStart + padEnd - dil * (k - 1) - 1) / stride + 1)

def nextMultiple (n step : Nat) : Nat := if step = 0 then n else (n + step - 1) / step * step

structure Tables where
  nRows : Nat
  nCols : Nat
  rowChan : List Int
  rowY : List Int
  rowX : List Int
  colY : List Int
  colX : List Int
  maxY : Int
  maxX : Int
  deriving Repr, DecidableEq

/-- The used part of the row tables. -/
def rowChanMain (p : Params) : List Int :=
  (List.range p.chans).flatMap fun (c : Nat) => (List.range (p.kh * p.kw)).map fun _ => (c : Int) * p.sc
def rowYMain (p : Params) : List Int :=
  (List.range p.chans).flatMap fun _ => (List.range p.kh).flatMap fun (ky : Nat) =>
    (List.range p.kw).map fun _ => (p.sth : Int) * (ky : Int) * p.dilY
def rowXMain (p : Params) : List Int :=
  (List.range p.chans).flatMap fun _ => (List.range p.kh).flatMap fun _ =>
    (List.range p.kw).map fun (kx : Nat) => (p.stw : Int) * (kx : Int) * p.dilX

/-- The used part of the column tables (`y_patches × x_patches`). -/
def colYMain (p : Params) (yP xP : Nat) : List Int :=
  (List.range yP).flatMap fun (py : Nat) => (List.range xP).map fun _ =>
    ((py : Int) * p.strideH - p.padTop) * p.sth
def colXMain (p : Params) (yP xP : Nat) : List Int :=
  (List.range yP).flatMap fun _ => (List.range xP).map fun (px : Nat) =>
    ((px : Int) * p.strideW - p.padLeft) * p.stw

/-- `build_im2col(image, kernel, padding, strides, dilations, col_count_step, row_count_step)`. -/
def buildIm2col (p : Params) (colStep rowStep : Nat) : Option Tables :=
  -- `assert!(image.len() > 0)`; `next_multiple_of(0)` panics
  if p.chans = 0 ∨ p.h = 0 ∨ p.w = 0 ∨ colStep = 0 ∨ rowStep = 0 then none else
  match outSize p.h p.kh p.strideH p.padTop p.padBottom p.dilY,
        outSize p.w p.kw p.strideW p.padLeft p.padRight p.dilX with
  | some yP, some xP =>
    let nRows := p.chans * p.kh * p.kw
    let nRowsP := nextMultiple nRows rowStep
    let maxY : Int := ((p.h - 1) * p.sth : Nat)
    let maxX : Int := ((p.w - 1) * p.stw : Nat)
    let nCols := xP * yP
    let nColsP := nextMultiple nCols colStep
    let extra := (List.range (nColsP - nCols)).map (· + nCols)
    some {
      nRows := nRows, nCols := nCols,
      rowChan := rowChanMain p ++ List.replicate (nRowsP - nRows) 0,
      rowY := rowYMain p ++ List.replicate (nRowsP - nRows) (maxY + 1),
      rowX := rowXMain p ++ List.replicate (nRowsP - nRows) (maxX + 1),
      colY := colYMain p yP xP ++ extra.map (fun col => (((col / xP : Nat) : Int) * p.strideH - p.padTop) * p.sth),
      colX := colXMain p yP xP ++ extra.map (fun col => (((col % xP : Nat) : Int) * p.strideW - p.padLeft) * p.stw),
      maxY := maxY, maxX := maxX }
  | _, _ => none

/-- The padding test applied to a combined offset `row + col` along one axis (`size` elements,
stride `st`): the element is read iff `0 ≤ off ≤ (size − 1)·st`, otherwise it is padding (0). -/
def inImage (size st : Nat) (off : Int) : Bool := decide (0 ≤ off) && decide (off ≤ (((size - 1) * st : Nat) : Int))

/-- Element `(r, q)` of the virtual im2col matrix as the packing code reads it
(rten-gemm/src/im2col.rs): rows `≥ n_rows` are K-padding — never read on the f32 path
(`im2col_row_count_step` = 1, the GEMM depth is `n_rows`) and forced to zero on the int8 path
(`is_k_padding`, fix 1f86924) — so their table entries are irrelevant; otherwise the image element
at `chan + y + x` when both combined offsets pass the padding test, else zero. -/
def im2colElem {α : Type} (t : Tables) (h w sth stw : Nat) (img : Int → α) (zero : α) (r q : Nat) : Option α :=
  if r ≥ t.nRows then some zero
  else
    match t.rowChan[r]?, t.rowY[r]?, t.rowX[r]?, t.colY[q]?, t.colX[q]? with
    | some rc, some ry, some rx, some cy, some cx =>
      if inImage h sth (ry + cy) && inImage w stw (rx + cx) then some (img (rc + (ry + cy) + (rx + cx)))
      else some zero
    | _, _, _, _, _ => none

/-- The seeded variant C14_c of the main column-x loop: the multiply by the image W stride hoisted,
the left padding left unscaled. -/
def colXMainSeeded (p : Params) (yP xP : Nat) : List Int :=
  (List.range yP).flatMap fun _ => (List.range xP).map fun (px : Nat) =>
    (px : Int) * ((p.strideW : Int) * p.stw) - p.padLeft

end RtenVerif.Im2Col
