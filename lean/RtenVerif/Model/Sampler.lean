/-
Model of `rten-generate/src/sampler.rs`: `ArgMax::sample`, `Multinomial::sample` and the
private `multinomial(rng, probs)` loop.

* Scores are `Option Int`: `none` is NaN, `some k` any non-NaN float (the harness maps floats,
  including ±∞ and ±0, to integers by an order-preserving map).  `x > y` is false as soon as
  one side is NaN, as for IEEE floats.
* Probabilities and the RNG draw are exact numbers on a common power-of-two scale (`Int`);
  the running sum `cum_prob += prob` uses an *addition parameter* `add`, so that theorems can
  be stated both for exact addition and for any rounding addition with `add c 0 = c`.
* A candidate is a pair `(token id, probability)`: position `i` of `probs` zipped with
  `logits.indices()[i]`.  The loops return the candidate instead of its position.

Import-free: links into the `model_C33` driver.
-/
namespace RtenVerif.Sampler

/-! ## ArgMax -/

/-- IEEE `x > y` on scores with NaN. -/
def gt : Option Int → Option Int → Bool
  | some a, some b => decide (b < a)
  | _, _ => false

/-- The closure passed to `reduce`: keep the accumulator unless the new value is greater. -/
def reduceStep (acc x : Nat × Option Int) : Nat × Option Int :=
  if gt x.2 acc.2 then x else acc

/-- `ArgMax::sample` on `logits.enumerate()`; `none` = `expect("logits should be non-empty")`
panics.  Returns the winning `(token id, score)` pair (the code keeps `.0`). -/
def argMax : List (Nat × Option Int) → Option (Nat × Option Int)
  | [] => none
  | x :: xs => some (xs.foldl reduceStep x)

/-! ## Multinomial -/

/-- `legacy`: the loop as found (`target <= cum_prob`, `None` when the loop falls through).
`fixed`: the current code (`target < cum_prob`, falls back to the last candidate with
non-zero probability). -/
inductive Rule where
  | legacy
  | fixed
  deriving Repr, DecidableEq

def hit (r : Rule) (target cum : Int) : Bool :=
  match r with
  | .legacy => decide (target ≤ cum)
  | .fixed => decide (target < cum)

/-- The loop of `multinomial`: `cum` is `cum_prob`, `last` the last candidate seen with
probability `> 0` (only used by the fixed code). -/
def mnLoop (r : Rule) (add : Int → Int → Int) (target : Int) :
    Int → Option (Nat × Int) → List (Nat × Int) → Option (Nat × Int)
  | _, last, [] => match r with
    | .legacy => none
    | .fixed => last
  | cum, last, c :: cs =>
    let cum' := add cum c.2
    if hit r target cum' then some c
    else mnLoop r add target cum' (if 0 < c.2 then some c else last) cs

/-- `multinomial(rng, probs)` with `target = rng.f32()` made explicit. -/
def multinomial (r : Rule) (add : Int → Int → Int) (target : Int) (cands : List (Nat × Int)) :
    Option (Nat × Int) :=
  mnLoop r add target 0 none cands

/-- `Multinomial::sample` after softmax: `multinomial(..).unwrap_or(0)` then
`logits.indices()[idx]`.  `none` = `assert!(!logits.is_empty())` panics. -/
def sample (r : Rule) (add : Int → Int → Int) (target : Int) (cands : List (Nat × Int)) :
    Option (Nat × Int) :=
  match cands with
  | [] => none
  | c0 :: _ => some ((multinomial r add target cands).getD c0)

def sumProbs : List (Nat × Int) → Int
  | [] => 0
  | c :: cs => c.2 + sumProbs cs

/-! ## The cumulative-sum walk, specified without the loop's bookkeeping -/

/-- Running sum of the probabilities of `l` on top of `cum`, with the loop's addition. -/
def runSum (add : Int → Int → Int) (cum : Int) (l : List (Nat × Int)) : Int :=
  l.foldl (fun c x => add c x.2) cum

/-- First candidate whose cumulative sum exceeds the draw `r`. -/
def firstExceed (add : Int → Int → Int) (r : Int) : Int → List (Nat × Int) → Option (Nat × Int)
  | _, [] => none
  | cum, c :: cs => if r < add cum c.2 then some c else firstExceed add r (add cum c.2) cs

/-- Last candidate with probability `> 0` in `cs`, or `last` if there is none. -/
def lastPosFrom (last : Option (Nat × Int)) (cs : List (Nat × Int)) : Option (Nat × Int) :=
  cs.foldl (fun acc c => if 0 < c.2 then some c else acc) last

def lastPos (cs : List (Nat × Int)) : Option (Nat × Int) := lastPosFrom none cs

/-! ## What the sampler needs from softmax

A candidate with its logit: `(token id, logit, probability)`; logit `none` is −∞ (excluded by
a filter or masked), `some k` an order-preserving integer image of a finite float. -/

/-- The facts about `probs = softmax(logits)` used by the theorems, as a checkable predicate
on concrete data (`one` is the scale of probability 1, `tol` the allowed deviation of the
exact sum from 1): non-negative; −∞ logits get probability 0; the exact sum is within `tol`
of 1; monotone in the logit. -/
structure SoftmaxFacts (cs : List (Nat × Option Int × Int)) (one tol : Int) : Prop where
  nonneg : ∀ c ∈ cs, 0 ≤ c.2.2
  excluded : ∀ c ∈ cs, c.2.1 = none → c.2.2 = 0
  sum : one - tol ≤ sumProbs (cs.map (fun c => (c.1, c.2.2))) ∧
        sumProbs (cs.map (fun c => (c.1, c.2.2))) ≤ one + tol
  mono : ∀ c ∈ cs, ∀ d ∈ cs, ∀ a b, c.2.1 = some a → d.2.1 = some b → a ≤ b → c.2.2 ≤ d.2.2

/-- Executable form of `SoftmaxFacts` (all-pairs monotonicity check); sound by
`softmaxFactsB_sound` in `Lemmas/Sampler.lean`.  This is what the `model_C33` driver
evaluates on the probabilities computed by the implementation. -/
def softmaxFactsB (cs : List (Nat × Option Int × Int)) (one tol : Int) : Bool :=
  cs.all (fun c => decide (0 ≤ c.2.2)) &&
  cs.all (fun c => c.2.1.isSome || c.2.2 == 0) &&
  decide (one - tol ≤ sumProbs (cs.map (fun c => (c.1, c.2.2)))) &&
  decide (sumProbs (cs.map (fun c => (c.1, c.2.2))) ≤ one + tol) &&
  cs.all (fun c => cs.all (fun d =>
    match c.2.1, d.2.1 with
    | some a, some b => decide (a ≤ b → c.2.2 ≤ d.2.2)
    | _, _ => true))

/-- `Multinomial::sample` when the softmax output is NaN (all logits −∞, or a NaN / +∞ logit:
the normalisation makes *every* entry NaN): every comparison in the walk is false, the running
sum is NaN, `multinomial` returns `None` and `unwrap_or(0)` selects the first candidate. -/
def sampleNaN (ids : List Nat) : Option Nat := ids.head?

/-! ## Seeded sampling as a state-passing function

`Multinomial` holds an RNG state and a scratch buffer that `sample` hands — logically empty,
physically still holding what the previous call wrote — to softmax as its destination.
`next` is the RNG transition (`fastrand::Rng::f32`); `probsOf sc logits` stands for "softmax
into a destination whose memory holds `sc`, zipped with the indices".  That softmax overwrites
its destination without reading it is a *hypothesis* of the repeatability theorem
(`∀ sc l, probsOf sc l = probsOf [] l`), checked by the harness on the real routine with a
poisoned buffer. -/

structure SamplerState (σ : Type) where
  rng : σ
  /-- scratch buffer contents left behind by the previous call -/
  scratch : List Int

def sampleStep {σ L : Type} (r : Rule) (add : Int → Int → Int) (next : σ → Int × σ)
    (probsOf : List Int → L → List (Nat × Int)) (s : SamplerState σ) (logits : L) :
    Option (Nat × Int) × SamplerState σ :=
  let cands := probsOf s.scratch logits
  match cands with
  | [] => (none, s)       -- the assertion fires before the RNG is touched
  | _ :: _ =>
    let (target, rng') := next s.rng
    (sample r add target cands, { rng := rng', scratch := cands.map (·.2) })

def sampleSeq {σ L : Type} (r : Rule) (add : Int → Int → Int) (next : σ → Int × σ)
    (probsOf : List Int → L → List (Nat × Int)) :
    SamplerState σ → List L → List (Option (Nat × Int))
  | _, [] => []
  | s, l :: ls =>
    let (o, s') := sampleStep r add next probsOf s l
    o :: sampleSeq r add next probsOf s' ls

end RtenVerif.Sampler
