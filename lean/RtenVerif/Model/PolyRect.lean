/-
Model of `min_area_rect` (rten-imageproc/src/poly_algos.rs) **without square roots**: generic in
a type `K` with field operations and a decidable `<` (core type classes only, so the file is
import-free and the driver can run it over core `Rat`).  The length of an edge direction `d` is a
parameter `n` (the theorems assume `n * n = d·d`, `n ≠ 0`); the code computes it as `f32` `sqrt`.

Per candidate edge `s → e` (as coded): `par_axis = d / n`, `perp_axis = -par_axis.perpendicular()
= (-par.y, par.x)`; the hull points are projected on both axes and folded into
`(min_par, max_par, max_perp)`; `width = max_par - min_par`, `height = max_perp`,
`center = s + par_axis * ((min_par + max_par) / 2) + perp_axis * (height / 2)`, up axis =
`perp_axis`.  The initial candidate is the axis-aligned bounding rect with up axis `(x, y) = (0, 1)`;
an edge rect replaces the current one iff its area is strictly smaller.  Points are `(x, y)`.
-/
namespace RtenVerif.PolyRect

variable {K : Type} [Add K] [Sub K] [Mul K] [Div K] [Neg K] [OfNat K 0] [OfNat K 1] [OfNat K 2]
  [LT K] [DecidableLT K]

/-- `RotatedRect { center, up, width, height }`. -/
structure RRect (K : Type) where
  cx : K
  cy : K
  ux : K
  uy : K
  w : K
  h : K

def kmin (a b : K) : K := if b < a then b else a
def kmax (a b : K) : K := if a < b then b else a

/-- `par_axis.dot(d)` for `d = p - s`. -/
def parProj (s e : K × K) (n : K) (p : K × K) : K :=
  (e.1 - s.1) / n * (p.1 - s.1) + (e.2 - s.2) / n * (p.2 - s.2)

/-- `perp_axis.dot(d)` with `perp_axis = (-par.y, par.x)`. -/
def perpProj (s e : K × K) (n : K) (p : K × K) : K :=
  -((e.2 - s.2) / n) * (p.1 - s.1) + (e.1 - s.1) / n * (p.2 - s.2)

/-- The fold `(min_par, max_par, max_perp)` over the hull, started at its first point (the code
starts at `(f32::MAX, f32::MIN, f32::MIN)`, which are neutral). -/
def edgeFold (s e : K × K) (n : K) (p0 : K × K) (ps : List (K × K)) : K × K × K :=
  ps.foldl (fun acc p =>
      (kmin acc.1 (parProj s e n p), kmax acc.2.1 (parProj s e n p), kmax acc.2.2 (perpProj s e n p)))
    (parProj s e n p0, parProj s e n p0, perpProj s e n p0)

/-- The rect the code builds for the edge `s → e`. -/
def edgeRect (s e : K × K) (n : K) (p0 : K × K) (ps : List (K × K)) : RRect K :=
  let f := edgeFold s e n p0 ps
  let minPar := f.1
  let maxPar := f.2.1
  let height := f.2.2
  let width := maxPar - minPar
  let parX := (e.1 - s.1) / n
  let parY := (e.2 - s.2) / n
  let perpX := -parY
  let perpY := parX
  { cx := s.1 + parX * ((minPar + maxPar) / 2) + perpX * (height / 2),
    cy := s.2 + parY * ((minPar + maxPar) / 2) + perpY * (height / 2),
    ux := perpX, uy := perpY, w := width, h := height }

/-- The containment test of the harness oracle (and of `RotatedRect::contains` up to its
`1e-6` floor): `|(p - c)·up| ≤ h/2` and `|(p - c)·up.perpendicular()| ≤ w/2`, with
`up.perpendicular() = (up.y, -up.x)`. -/
def Contains [LE K] (r : RRect K) (p : K × K) : Prop :=
  -(r.h / 2) ≤ (p.1 - r.cx) * r.ux + (p.2 - r.cy) * r.uy ∧
  (p.1 - r.cx) * r.ux + (p.2 - r.cy) * r.uy ≤ r.h / 2 ∧
  -(r.w / 2) ≤ (p.1 - r.cx) * r.uy + (p.2 - r.cy) * (-r.ux) ∧
  (p.1 - r.cx) * r.uy + (p.2 - r.cy) * (-r.ux) ≤ r.w / 2

/-- Axis-aligned bounding rect of the hull: `RotatedRect::from_rect(bounding_rect)`. -/
def bboxRect (p0 : K × K) (ps : List (K × K)) : RRect K :=
  let b := ps.foldl (fun b q => (kmin b.1 q.1, kmin b.2.1 q.2, kmax b.2.2.1 q.1, kmax b.2.2.2 q.2))
    (p0.1, p0.2, p0.1, p0.2)
  { cx := (b.1 + b.2.2.1) / 2, cy := (b.2.1 + b.2.2.2) / 2, ux := 0, uy := 1,
    w := b.2.2.1 - b.1, h := b.2.2.2 - b.2.1 }

def area (r : RRect K) : K := r.h * r.w

/-- The loop over the hull edges: `edges` lists `(start, end, length)`. -/
def selectRect (p0 : K × K) (ps : List (K × K)) :
    List ((K × K) × (K × K) × K) → RRect K → RRect K
  | [], cur => cur
  | (s, e, n) :: rest, cur =>
    let cand := edgeRect s e n p0 ps
    selectRect p0 ps rest (if area cand < area cur then cand else cur)

/-- `min_area_rect` on a hull `p0 :: ps` whose cyclic edges have the lengths `lens`
(`None` for the empty hull is handled by the caller; a one-point hull returns the bounding rect). -/
def minAreaRect (p0 : K × K) (ps : List (K × K)) (lens : List K) : RRect K :=
  match ps with
  | [] => bboxRect p0 ps
  | _ =>
    let hull := p0 :: ps
    let edges := (hull.zip (ps ++ [p0])).zip lens |>.map fun x => (x.1.1, x.1.2, x.2)
    selectRect p0 ps edges (bboxRect p0 ps)

end RtenVerif.PolyRect
