/-
Reference array model for C09: an array is a shape plus its row-major element list.
Every operation has its *naive* definition: "element `idx` of the result is element
`f idx` of the source", evaluated by building the element list index by index
(`ofFn`) and reading the source through an index → element association (`get`).
Nothing here knows about strides or storage offsets.

Slice selections follow the NumPy / CPython definition (`PySlice_AdjustIndices`).
Import-free (core Lean only) so it links into the `model_C09` driver.
-/
namespace RtenVerif.Arr

/-- Error classes observable on the Rust side: a `Result::Err` (`err`) or a panic. -/
inductive Err
  | err
  | panic
  deriving DecidableEq, Repr

structure NArr (α : Type) where
  shape : List Nat
  data : List α
  deriving Repr, DecidableEq

/-- All valid indices of a shape in row-major (C) order. -/
def idxs : List Nat → List (List Nat)
  | [] => [[]]
  | n :: ns => (List.range n).flatMap (fun i => (idxs ns).map (fun is => i :: is))

/-- `idx` is a valid index for `shape` (same rank, every component in range). -/
def validIdx : List Nat → List Nat → Bool
  | [], [] => true
  | n :: ns, i :: is => decide (i < n) && validIdx ns is
  | _, _ => false

/-- Number of elements of a shape. -/
def numel (shape : List Nat) : Nat := shape.foldr (· * ·) 1

/-- Association lookup: the element stored next to key `idx`. -/
def assoc {α : Type} (idx : List Nat) : List (List Nat) → List α → Option α
  | k :: ks, x :: xs => if k = idx then some x else assoc idx ks xs
  | _, _ => none

namespace NArr
variable {α : Type}

/-- Build an array element by element. -/
def ofFn (shape : List Nat) (g : List Nat → α) : NArr α :=
  ⟨shape, (idxs shape).map g⟩

/-- Element at a multi-index (the array seen as a finite map index ↦ element). -/
def get [Inhabited α] (A : NArr α) (idx : List Nat) : α :=
  (assoc idx (idxs A.shape) A.data).getD default

def rank (A : NArr α) : Nat := A.shape.length

end NArr

/-! ## NumPy slice semantics -/

/-- CPython `PySlice_AdjustIndices` for one bound. -/
def pyAdjust (x : Int) (step : Int) (n : Nat) : Int :=
  let len : Int := n
  if x < 0 then
    if x + len < 0 then (if step < 0 then -1 else 0) else x + len
  else if x ≥ len then (if step < 0 then len - 1 else len)
  else x

/-- Adjusted `(start, stop)` of `start:stop:step` on an axis of length `n`; `stop = none` is
Python's omitted bound. -/
def pyBounds (start : Int) (stop : Option Int) (step : Int) (n : Nat) : Int × Int :=
  let s := pyAdjust start step n
  let e := match stop with
    | some e => pyAdjust e step n
    | none => if step < 0 then -1 else (n : Int)
  (s, e)

/-- Number of selected elements (`step ≠ 0`). -/
def pyCount (start : Int) (stop : Option Int) (step : Int) (n : Nat) : Nat :=
  let (s, e) := pyBounds start stop step n
  if step < 0 then
    if e < s then ((s - e - 1) / (-step) + 1).toNat else 0
  else
    if s < e then ((e - s - 1) / step + 1).toNat else 0

/-- The indices selected by `a[start:stop:step]` on an axis of length `n`, in order. -/
def pyIndices (start : Int) (stop : Option Int) (step : Int) (n : Nat) : List Nat :=
  let s := (pyBounds start stop step n).1
  (List.range (pyCount start stop step n)).map (fun (j : Nat) => (s + (j : Int) * step).toNat)

/-- `a[i]` with a possibly negative index: the selected position, if in bounds. -/
def pyIndex (i : Int) (n : Nat) : Option Nat :=
  let p := if i ≥ 0 then i else i + n
  if 0 ≤ p ∧ p < n then some p.toNat else none

/-! ## Selections (gather) -/

/-- Per-axis selection: pick one position (axis dropped) or take a list of positions. -/
inductive Sel
  | pick (i : Nat)
  | take (is : List Nat)
  deriving Repr, DecidableEq

/-- Result shape of a selection (axes beyond `sels` are kept whole). -/
def selShape : List Sel → List Nat → List Nat
  | Sel.pick _ :: ss, _ :: ns => selShape ss ns
  | Sel.take is :: ss, _ :: ns => is.length :: selShape ss ns
  | _, ns => ns

/-- Source index of result index `idx`. -/
def selSrc : List Sel → List Nat → List Nat
  | Sel.pick i :: ss, idx => i :: selSrc ss idx
  | Sel.take is :: ss, j :: idx => is.getD j 0 :: selSrc ss idx
  | _, idx => idx

/-- A selection is admissible for a shape: no more selectors than axes, all positions in range. -/
def selOk : List Sel → List Nat → Bool
  | [], _ => true
  | _ :: _, [] => false
  | Sel.pick i :: ss, n :: ns => decide (i < n) && selOk ss ns
  | Sel.take is :: ss, n :: ns => is.all (fun i => decide (i < n)) && selOk ss ns

namespace NArr
variable {α : Type} [Inhabited α]

def gather (sels : List Sel) (A : NArr α) : NArr α :=
  ofFn (selShape sels A.shape) (fun idx => A.get (selSrc sels idx))

/-! ## Axis re-ordering -/

def isPerm (n : Nat) (p : List Nat) : Bool :=
  p.length == n && (List.range n).all (fun d => p.count d == 1)

/-- Source index for `permute p`: component `d` of the source is the component of the result
at the position where `p` mentions `d`. -/
def unperm (p : List Nat) (idx : List Nat) : List Nat :=
  (List.range p.length).map (fun d => idx.getD (p.idxOf d) 0)

/-- `numpy.transpose(a, p)`; an invalid permutation panics. -/
def permute (p : List Nat) (A : NArr α) : Except Err (NArr α) :=
  if isPerm A.rank p then
    .ok (ofFn (p.map (fun d => A.shape.getD d 0)) (fun idx => A.get (unperm p idx)))
  else .error .panic

def transpose (A : NArr α) : NArr α :=
  ofFn A.shape.reverse (fun idx => A.get idx.reverse)

/-- `numpy.moveaxis(a, src, dst)`. -/
def moveAxis (src dst : Nat) (A : NArr α) : Except Err (NArr α) :=
  if src < A.rank ∧ dst < A.rank then
    .ok (ofFn ((A.shape.eraseIdx src).insertIdx dst (A.shape.getD src 0))
      (fun idx => A.get ((idx.eraseIdx dst).insertIdx src (idx.getD dst 0))))
  else .error .panic

/-! ## Slicing -/

/-- One item of a slice specification (`SliceItem`). -/
inductive Item
  | index (i : Int)
  | range (start : Int) (stop : Option Int) (step : Int)
  deriving Repr, DecidableEq

/-- Is `x` a bound that needs no clamping for an axis of length `n`
(the documented requirement of the view-returning `slice`)? -/
def inBounds (x : Int) (n : Nat) : Bool := decide (-(n : Int) ≤ x ∧ x ≤ n)

/-- View-slice (`try_slice`): indices must be in range, range bounds must need no clamping,
steps must be positive; otherwise an error.  Selected elements as in NumPy. -/
def sliceSels : List Item → List Nat → Except Err (List Sel)
  | [], _ => .ok []
  | _ :: _, [] => .error .err
  | Item.index i :: its, n :: ns =>
    match pyIndex i n with
    | some p => (sliceSels its ns).map (Sel.pick p :: ·)
    | none => .error .err
  | Item.range s e t :: its, n :: ns =>
    if inBounds s n && (e.all (inBounds · n)) && decide (0 < t) then
      (sliceSels its ns).map (Sel.take (pyIndices s e t n) :: ·)
    else .error .err

def slice (items : List Item) (A : NArr α) : Except Err (NArr α) :=
  (sliceSels items A.shape).map (fun sels => gather sels A)

/-- Copying slice (`slice_copy`): full NumPy semantics (clamped bounds, negative steps);
an out-of-range index or too many items panic. -/
def copySels : List Item → List Nat → Except Err (List Sel)
  | [], _ => .ok []
  | _ :: _, [] => .error .panic
  | Item.index i :: its, n :: ns =>
    match pyIndex i n with
    | some p => (copySels its ns).map (Sel.pick p :: ·)
    | none => .error .panic
  | Item.range s e t :: its, n :: ns =>
    if t = 0 then .error .panic
    else (copySels its ns).map (Sel.take (pyIndices s e t n) :: ·)

def sliceCopy (items : List Item) (A : NArr α) : Except Err (NArr α) :=
  (copySels items A.shape).map (fun sels => gather sels A)

/-- Selectors that keep the first `axis` axes whole and apply `s` to axis `axis`. -/
def axisSel (axis : Nat) (shape : List Nat) (s : Sel) : List Sel :=
  (shape.take axis).map (fun n => Sel.take (List.range n)) ++ [s]

/-- `a.take(index, axis)` with the axis dropped: element `idx` of the result is the element of
`a` at `idx` with `index` inserted at position `axis`; out of range panics. -/
def indexAxis (axis index : Nat) (A : NArr α) : Except Err (NArr α) :=
  if axis < A.rank ∧ index < A.shape.getD axis 0 then
    .ok (ofFn (A.shape.eraseIdx axis) (fun idx => A.get (idx.insertIdx axis index)))
  else .error .panic

/-- `a[.., start:stop, ..]` on one axis with in-range bounds; otherwise a panic. -/
def sliceAxis (axis start stop : Nat) (A : NArr α) : Except Err (NArr α) :=
  if axis < A.rank ∧ start ≤ stop ∧ stop ≤ A.shape.getD axis 0 then
    .ok (gather (axisSel axis A.shape (Sel.take ((List.range (stop - start)).map (start + ·)))) A)
  else .error .panic

/-- `numpy.split(a, [mid], axis)`: left (`right = false`) or right part. -/
def splitAt (axis mid : Nat) (right : Bool) (A : NArr α) : Except Err (NArr α) :=
  if axis < A.rank ∧ mid ≤ A.shape.getD axis 0 then
    let n := A.shape.getD axis 0
    if right then sliceAxis axis mid n A else sliceAxis axis 0 mid A
  else .error .panic

/-! ## Broadcasting and unit axes -/

/-- NumPy broadcasting rule to a *given* target shape. -/
def canBroadcast (shape target : List Nat) : Bool :=
  decide (shape.length ≤ target.length) &&
    (List.zip shape (target.drop (target.length - shape.length))).all (fun (a, b) => a == b || a == 1)

/-- Source index under broadcasting: drop the padding axes, use 0 on stretched axes. -/
def bcSrc (shape : List Nat) (pad : Nat) (idx : List Nat) : List Nat :=
  List.zipWith (fun n i => if n == 1 then 0 else i) shape (idx.drop pad)

/-- `numpy.broadcast_to(a, target)`; incompatible shapes are an error. -/
def broadcastTo (target : List Nat) (A : NArr α) : Except Err (NArr α) :=
  if canBroadcast A.shape target then
    .ok (ofFn target (fun idx => A.get (bcSrc A.shape (target.length - A.shape.length) idx)))
  else .error .err

/-- `numpy.expand_dims(a, k)`. -/
def insertAxis (k : Nat) (A : NArr α) : Except Err (NArr α) :=
  if k ≤ A.rank then .ok (ofFn (A.shape.insertIdx k 1) (fun idx => A.get (idx.eraseIdx k)))
  else .error .panic

/-- `numpy.squeeze(a, k)`: the axis must have size 1. -/
def removeAxis (k : Nat) (A : NArr α) : Except Err (NArr α) :=
  if k < A.rank ∧ A.shape.getD k 0 = 1 then
    .ok (ofFn (A.shape.eraseIdx k) (fun idx => A.get (idx.insertIdx k 0)))
  else .error .panic

/-- Source index for `squeeze`: re-insert a 0 on every unit axis. -/
def unsqueeze : List Nat → List Nat → List Nat
  | [], _ => []
  | n :: ns, idx =>
    if n = 1 then 0 :: unsqueeze ns idx
    else match idx with
      | i :: is => i :: unsqueeze ns is
      | [] => 0 :: unsqueeze ns []

/-- `numpy.squeeze(a)`. -/
def squeeze (A : NArr α) : NArr α :=
  ofFn (A.shape.filter (· != 1)) (fun idx => A.get (unsqueeze A.shape idx))

/-- `a.reshape(shape)` in C order: same elements, new shape; `none` if the element count differs. -/
def reshape (shape : List Nat) (A : NArr α) : Option (NArr α) :=
  if numel shape = numel A.shape then some ⟨shape, A.data⟩ else none

/-- `numpy.concatenate([a, b], axis)`; shapes must agree off-axis. -/
def concatOk (axis : Nat) (a b : List Nat) : Bool :=
  a.length == b.length &&
    (List.range a.length).all (fun d => d == axis || a.getD d 0 == b.getD d 0)

def concat (axis : Nat) (A B : NArr α) : NArr α :=
  let na := A.shape.getD axis 0
  ofFn (A.shape.set axis (na + B.shape.getD axis 0))
    (fun idx =>
      let i := idx.getD axis 0
      if i < na then A.get idx else B.get (idx.set axis (i - na)))

end NArr

end RtenVerif.Arr
