import RtenVerif.Model.Utf8

/-
Model of the byte-level BPE path of `rten-text`:
`models/bpe.rs` (`is_printable`, `byte_to_char`, `char_to_byte`, `build_merge_map`, `Bpe::new`,
`encode_piece`, `encode_with_offsets`, `decode`) and `tokenizer.rs` (`encode_str` offset
arithmetic, the single-chunk path of `encode`, `Encoded::text_for_token_range`, `decode`).

Everything is byte level: a text is the list of its UTF-8 bytes (`Nat < 256`), an "encoded byte
string" (`EncodedBytes`) is a list of code points, token ids are `Nat`.  The pre-tokenizer is a
PARAMETER: the list of byte ranges `(start, end)` of the pieces it returns (sub-slices of the
normalized text, in the order returned).  The normalizer is a parameter as well (C30): its
offset map, if any.  The vocabulary is the list of `(token string, id)` entries of the `vocab`
hash map (distinct strings).

`bpe_merge` is modelled functionally (lowest-ranked adjacent pair, left-to-right non-overlapping
replacement, repeat) with fuel = number of tokens; its refinement to the in-place loop and its
termination are C28's subject.

Core Lean only (plus the equally import-free `Model/Utf8.lean`) so that it links into the
`model_C27` driver.
-/
namespace RtenVerif.ByteBpe

/-! ### `byte_to_char` / `char_to_byte` -/

/-- `is_printable(char::from(b))` for `b < 256`: not a control char (`00..1F`, `7F..9F`), not
white space (`20`, `A0`; `09..0D`, `85` are controls), not the soft hyphen `AD`. -/
def isPrintable (b : Nat) : Bool :=
  (0x21 ≤ b && b ≤ 0x7E) || (0xA1 ≤ b && b ≤ 0xAC) || (0xAE ≤ b && b ≤ 0xFF)

/-- `non_printable_count` when the second loop of `byte_to_char` reaches byte `b`. -/
def nonPrintableBelow : Nat → Nat
  | 0 => 0
  | b + 1 => nonPrintableBelow b + (if isPrintable b then 0 else 1)

/-- `byte_to_char()[b]` as a code point. -/
def byteToChar (b : Nat) : Nat := if isPrintable b then b else 256 + nonPrintableBelow b

/-- `char_to_byte().get(c)`. -/
def charToByte (c : Nat) : Option Nat := (List.range 256).find? fun b => byteToChar b == c

/-! ### Vocabulary and merge table -/

abbrev Str := List Nat

/-- `vocab.get(s)` -/
def vocabGet (v : List (Str × Nat)) (s : Str) : Option Nat := (v.find? fun e => e.1 == s).map (·.2)

/-- `token_id_to_encoded_bytes.get(id)` (the inverted vocabulary). -/
def strOf (v : List (Str × Nat)) (id : Nat) : Option Str := (v.find? fun e => e.2 == id).map (·.1)

/-- `build_merge_map`: entry `i` (= rank) maps `(a_id, b_id)` to the id of `a ++ b`;
`none` = `InvalidMergeEntry`. -/
def buildMergeMap (v : List (Str × Nat)) : List (Str × Str) → Option (List ((Nat × Nat) × Nat))
  | [] => some []
  | (a, b) :: rest =>
    match vocabGet v a, vocabGet v b, vocabGet v (a ++ b), buildMergeMap v rest with
    | some ai, some bi, some mi, some r => some (((ai, bi), mi) :: r)
    | _, _, _, _ => none

/-- `merges.get(&(a, b))` = `(rank, merged_id)`; the map is filled in list order, so the LAST
entry for a pair wins.  `i` is the rank of the first entry of the list. -/
def mergeLookup : List ((Nat × Nat) × Nat) → Nat → Nat × Nat → Option (Nat × Nat)
  | [], _, _ => none
  | (k, m) :: rest, i, p =>
    match mergeLookup rest (i + 1) p with
    | some r => some r
    | none => if k == p then some (i, m) else none

structure Bpe where
  vocab : List (Str × Nat)
  merges : List ((Nat × Nat) × Nat)
  /-- `byte_to_token_id` -/
  byteTok : Nat → Nat
  /-- `eow_byte_to_token_id`: with an end-of-word suffix, the id of `"{byte}{suffix}"` per byte -/
  eow : Option (Nat → Nat)
  ignoreMerges : Bool
  /-- `added_tokens`: id ↦ UTF-8 bytes of the content -/
  added : List (Nat × List Nat)

inductive NewResult
  | ok (t : Bpe)
  | invalidMerge
  | missingVocab

/-- `Bpe::new` given the vocabulary (explicit, or as produced by `build_vocab`). -/
def Bpe.new (vocab : List (Str × Nat)) (merges : List (Str × Str)) (eowSuffix : Option Str)
    (ignoreMerges : Bool) (added : List (Nat × List Nat)) : NewResult :=
  match buildMergeMap vocab merges with
  | none => .invalidMerge
  | some mm =>
    let table := (List.range 256).map fun b => vocabGet vocab [byteToChar b]
    if table.all Option.isSome then
      let byteTok := fun b => (table.getD b none).getD 0
      -- `vocab.get("{byte}{suffix}")`, falling back to the `build_vocab` layout `id + 256`
      let eow := eowSuffix.map fun sfx =>
        let etable := (List.range 256).map fun b =>
          (vocabGet vocab (byteToChar b :: sfx)).getD (byteTok b + 256)
        fun b => etable.getD b 0
      .ok { vocab, merges := mm, byteTok, eow, ignoreMerges, added }
    else .missingVocab

/-! ### `bpe_merge` -/

/-- The `windows(2).filter_map(..).min_by_key(rank)` step: the first adjacent pair of minimal
rank, as `((first, second), (rank, merged_id))`. -/
def minPair (ms : List ((Nat × Nat) × Nat)) : List Nat → Option ((Nat × Nat) × (Nat × Nat))
  | [] => none
  | [_] => none
  | a :: b :: rest =>
    match mergeLookup ms 0 (a, b), minPair ms (b :: rest) with
    | none, best => best
    | some rm, none => some ((a, b), rm)
    | some rm, some best => if rm.1 ≤ best.2.1 then some ((a, b), rm) else some best

/-- The in-place replacement pass `while i < tokens.len() - 1 { … }`. -/
def mergePass (f s m : Nat) : List Nat → List Nat
  | [] => []
  | [a] => [a]
  | a :: b :: rest =>
    if a == f && b == s then m :: mergePass f s m rest else a :: mergePass f s m (b :: rest)

/-- `bpe_merge` (each round shortens the list, so `tokens.len()` rounds of fuel suffice). -/
def bpeMerge (ms : List ((Nat × Nat) × Nat)) : Nat → List Nat → List Nat
  | 0, toks => toks
  | fuel + 1, toks =>
    match minPair ms toks with
    | none => toks
    | some ((f, s), (_, m)) => bpeMerge ms fuel (mergePass f s m toks)

/-! ### `encode_piece`, `decode` -/

/-- `*tokens.last_mut() = id`. -/
def setLast (id : Nat) : List Nat → List Nat
  | [] => []
  | [_] => [id]
  | a :: rest => a :: setLast id rest

/-- `Bpe::encode_piece(piece, end_of_word)`; `piece` is given by its UTF-8 bytes. -/
def encodePiece (t : Bpe) (piece : List Nat) (endOfWord : Bool) : List Nat :=
  let normal :=
    let toks := piece.map t.byteTok
    let toks :=
      match t.eow, endOfWord, piece.getLast? with
      | some eowIds, true, some lastByte => setLast (eowIds lastByte) toks
      | _, _, _ => toks
    bpeMerge t.merges toks.length toks
  if t.ignoreMerges then
    match vocabGet t.vocab (piece.map byteToChar) with
    | some id => [id]
    | none => normal
  else normal

/-- `encoded_bytes.chars().map(|ch| char_to_byte.get(&ch).copied().unwrap())`; `none` = panic. -/
def decodeStr : Str → Option (List Nat)
  | [] => some []
  | c :: cs =>
    match charToByte c, decodeStr cs with
    | some b, some bs => some (b :: bs)
    | _, _ => none

inductive DecodeResult
  | ok (bytes : List Nat)
  | invalidId
  | panic
  deriving DecidableEq, Repr

/-- One iteration of the loop of `Bpe::decode`: the bytes of one token. -/
def decodeOne (t : Bpe) (id : Nat) : DecodeResult :=
  match t.added.lookup id with
  | some bs => .ok bs
  | none =>
    match strOf t.vocab id with
    | none => .invalidId
    | some s =>
      match decodeStr s with
      | some bs => .ok bs
      | none => .panic

/-- The loop of `Bpe::decode` (before `String::from_utf8`); the first failing token decides. -/
def decodeIds (t : Bpe) : List Nat → DecodeResult
  | [] => .ok []
  | id :: rest =>
    match decodeOne t id with
    | .ok bs =>
      match decodeIds t rest with
      | .ok more => .ok (bs ++ more)
      | e => e
    | e => e

/-- Result of `Bpe::decode` / `Tokenizer::decode`. -/
inductive DecodeOut
  | ok (bytes : List Nat)
  | invalidId
  | invalidUtf8
  | panic
  deriving DecidableEq, Repr

/-- `Bpe::decode`: the token loop followed by `String::from_utf8(bytes)`. -/
def decode (t : Bpe) (ids : List Nat) : DecodeOut :=
  match decodeIds t ids with
  | .ok bs => if Utf8.valid bs then .ok bs else .invalidUtf8
  | .invalidId => .invalidId
  | .panic => .panic

/-! ### `Tokenizer::encode` (single sequence, no chunking, no CLS/SEP) -/

/-- `&text[a..b]` on bytes. -/
def slice (bytes : List Nat) (a b : Nat) : List Nat := (bytes.drop a).take (b - a)

/-- The `map_offset` closure: identity without a normalizer, else `mappings.get(o).expect(..)`
(`none` = panic). -/
def mapOffset (map : Option (List Nat)) (o : Nat) : Option Nat :=
  match map with
  | none => some o
  | some m => m[o]?

/-- The `for chunk in chunks` loop of `Tokenizer::encode_str` for a `Bpe` model
(`encode_with_offsets` reports offset 0 for every token of a piece and nothing for an empty
piece).  `text` are the bytes of the *normalized* text, `pieces` the pre-tokenizer's output. -/
def encodeStr (t : Bpe) (text : List Nat) (map : Option (List Nat)) (start : Nat) :
    List (Nat × Nat) → Option (List Nat × List Nat)
  | [] => some ([], [])
  | (s, e) :: rest =>
    let toks := if s < e then encodePiece t (slice text s e) true else []
    match (if toks.isEmpty then some 0 else mapOffset map (s + 0)), encodeStr t text map start rest with
    | some o, some (ts, os) => some (toks ++ ts, toks.map (fun _ => start + o) ++ os)
    | _, _ => none

/-- `Tokenizer::encode(text, None)` for one sequence and a tokenizer without CLS/SEP tokens:
`(token_ids, token_offsets)`.  A non-empty result carries one extra trailing offset
(`item.len()`, the *source* length). -/
def encode (t : Bpe) (srcLen : Nat) (text : List Nat) (map : Option (List Nat))
    (pieces : List (Nat × Nat)) : Option (List Nat × List Nat) :=
  match encodeStr t text map 0 pieces with
  | none => none
  | some (toks, offs) => if toks.isEmpty then some ([], []) else some (toks, offs ++ [srcLen])

/-- `str::get(a..b)`: `None` when the range is decreasing, out of bounds, or an end is not a char
boundary of the text. -/
def strGet (src : List Nat) (a b : Nat) : Option (List Nat) :=
  if a ≤ b ∧ b ≤ src.length ∧ Utf8.isBoundary src a = true ∧ Utf8.isBoundary src b = true then
    some (slice src a b)
  else none

/-- `Encoded::text_for_token_range(i..i+1)` on the source bytes. -/
def textForToken (src : List Nat) (offs : List Nat) (i : Nat) : Option (List Nat) :=
  match offs[i]?, offs[i + 1]? with
  | some a, some b => strGet src a b
  | _, _ => none

/-- `text_for_token_range(i..i+1)` for every token `i`, given `token_offsets` (which carries one
trailing entry more than there are tokens). -/
def tokenTexts (src : List Nat) : List Nat → List (Option (List Nat))
  | [] => []
  | [_] => []
  | a :: b :: rest => strGet src a b :: tokenTexts src (b :: rest)

end RtenVerif.ByteBpe
