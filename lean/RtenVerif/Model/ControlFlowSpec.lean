import RtenVerif.Model.ControlFlow

/-!
# `Loop` as the ONNX operator text states it — an independent reference for `loopCore`

ONNX `Loop` (operator documentation):

    input (trip_count M, condition cond, loop-carried v_initial…)
    for (int i = 0; i < max_trip_count && keepgoing; ++i) {
      (keepgoing, v…, scan_i…) = body(i, keepgoing, v…)
    }
    outputs: final v…, then for each scan output the values of all iterations, stacked

`M` absent: no trip limit (rten: `i32::MAX`); `cond` absent: true; a negative `M` runs no iteration
(`(step as i32) < M`).  `loopSpec` writes this as a left fold over the iteration numbers
`0, 1, …, M-1` (`List.range`) whose state carries the keep-going value: once it is 0 the remaining
iteration numbers do nothing.  It shares no definition with `loopCore` / `loopIter` / `tripOf` /
`condOf` / `finishScans`; `Lemmas/ControlFlowSpec.lean` proves the two equal.
`evalGSpec` is the naive graph semantics with `loopSpec` for `Loop` (not meant to be executed:
`List.range (2^31-1)` for an absent trip count).
-/
namespace RtenVerif.ControlFlow

variable {P V : Type}

/-- Loop state between iterations. -/
structure LoopSt (V : Type) where
  keepGoing : Int
  carried : List V
  scans : List (List V)

/-- One iteration number `i` of the `for` loop. -/
def specIter (S : Sem P V) (body : Nat → List V → Except Err (List V)) (k : Nat)
    (acc : Except Err (LoopSt V)) (i : Nat) : Except Err (LoopSt V) :=
  match acc with
  | .error e => .error e
  | .ok st =>
    if st.keepGoing = 0 then .ok st
    else
      match body i (S.ofInt i :: S.ofInt st.keepGoing :: st.carried) with
      | .error e => .error e
      | .ok [] => .error .arity
      | .ok (kg :: outs) =>
        match S.item kg with
        | none => .error .badCond
        | some kg' =>
          .ok { keepGoing := kg', carried := outs.take k,
                scans := pushScans st.scans (outs.drop k) }

/-- Number of iteration numbers to visit: `M` if given (none when negative), `i32::MAX` else. -/
def specTripBound (S : Sem P V) : Option V → Option Nat
  | none => some 2147483647
  | some m => (S.item m).map Int.toNat

/-- Initial keep-going value. -/
def specKeepGoing (S : Sem P V) : Option V → Option Int
  | none => some 1
  | some c => S.item c

/-- Scan outputs: every scan list stacked; an empty one is an empty tensor (ONNX) or omitted
(the code). -/
def specScanOutputs (S : Sem P V) (onnx : Bool) (scans : List (List V)) : Except Err (List V) :=
  scans.foldr (fun sc acc =>
    match acc with
    | .error e => .error e
    | .ok vs =>
      match sc with
      | [] => .ok (if onnx then S.emptyScan :: vs else vs)
      | x :: xs =>
        match S.stack (x :: xs) with
        | none => .error .scanShape
        | some v => .ok (v :: vs)) (.ok [])

def loopSpec (S : Sem P V) (onnx : Bool) (body : Nat → List V → Except Err (List V))
    (bodyIn bodyOut : Nat) (tripV condV : Option V) (cs : List V) : Except Err (List V) :=
  match specTripBound S tripV with
  | none => .error .badCond
  | some n =>
    match specKeepGoing S condV with
    | none => .error .badCond
    | some c0 =>
      if bodyIn ≠ 2 + cs.length ∨ bodyOut < 1 + cs.length then .error .arity
      else
        match (List.range n).foldl (specIter S body cs.length)
            (.ok { keepGoing := c0, carried := cs,
                   scans := List.replicate (bodyOut - 1 - cs.length) [] }) with
        | .error e => .error e
        | .ok st =>
          match specScanOutputs S onnx st.scans with
          | .error e => .error e
          | .ok vs => .ok (st.carried ++ vs)

/-- `evalOp` with the ONNX-text `Loop`. -/
def evalOpSpec (S : Sem P V) (onnx : Bool) (ev : Env V → Graph P V → List V → Except Err (List V))
    (σ : Env V) : Op P V → Except Err (Env V)
  | .prim k ins out =>
    match lookups (look σ) ins with
    | .error e => .error e
    | .ok vs =>
      match S.run k vs with
      | none => .error .opError
      | some v => .ok ((out, v) :: σ)
  | .ifOp c t e outs =>
    match (look σ) c with
    | none => .error .missing
    | some cv =>
      match S.item cv with
      | none => .error .badCond
      | some x =>
        match ev σ (if x ≠ 0 then t else e) [] with
        | .error er => .error er
        | .ok r => bindOuts outs r σ
  | .loop trip cond car body outs =>
    match optLookup (look σ) trip with
    | .error e => .error e
    | .ok tv =>
      match optLookup (look σ) cond with
      | .error e => .error e
      | .ok cv =>
        match lookups (look σ) car with
        | .error e => .error e
        | .ok cs =>
          match loopSpec S onnx (fun _ args => ev σ body args) body.inputs.length
              body.outputs.length tv cv cs with
          | .error e => .error e
          | .ok r => bindOuts outs r σ

def evalOpsSpec (S : Sem P V) (onnx : Bool) (ev : Env V → Graph P V → List V → Except Err (List V)) :
    Env V → List (Op P V) → Except Err (Env V)
  | σ, [] => .ok σ
  | σ, op :: rest =>
    match evalOpSpec S onnx ev σ op with
    | .error e => .error e
    | .ok σ' => evalOpsSpec S onnx ev σ' rest

/-- Naive evaluation with the ONNX-text `Loop`. -/
def evalGSpec (S : Sem P V) (onnx : Bool) : Nat → Env V → Graph P V → List V → Except Err (List V)
  | 0, _, _, _ => .error .fuel
  | fuel + 1, σ, g, args =>
    if args.length != g.inputs.length then .error .arity
    else
      match evalOpsSpec S onnx (evalGSpec S onnx fuel) (g.inputs.zip args ++ g.consts ++ σ) g.ops with
      | .error e => .error e
      | .ok σ' => lookups (look σ') g.outputs

end RtenVerif.ControlFlow
